(* C14 for DBusString: every fallible primitive either succeeds with the
   specified contents (and a valid string), or returns FALSE with the string
   untouched; at most one allocation each, none when there is room. *)
From DV Require Import Spec.OomStringSpec.
From Coq Require Import Lia.
Local Open Scope nat_scope.

Section P.
  Variable exact : bool.
  Variable F : N -> bool.

  Notation set_length := (set_length exact F).
  Notation open_gap := (open_gap exact F).
  Notation fail_res := (fail_res F).
  Notation counted := (counted F).

  (* ---- list plumbing ---------------------------------------------------------------------------- *)
  Lemma overwrite_mid (A G C new : bytes) at_ :
    at_ = length A -> length new = length G -> overwrite (A ++ G ++ C) at_ new = A ++ new ++ C.
  Proof.
    intros -> Hl. unfold overwrite.
    rewrite firstn_app, firstn_all, Nat.sub_diag. simpl. rewrite app_nil_r.
    rewrite skipn_app. rewrite skipn_all2 by lia. simpl.
    replace (length A + length new - length A) with (length G) by lia.
    rewrite skipn_app, skipn_all, Nat.sub_diag. simpl. reflexivity.
  Qed.

  Lemma overwrite_end (A G new : bytes) at_ :
    at_ = length A -> length new = length G -> overwrite (A ++ G) at_ new = A ++ new.
  Proof.
    intros H1 H2. pose proof (overwrite_mid A G [] new at_ H1 H2) as H. rewrite !app_nil_r in H. exact H.
  Qed.

  Lemma resize_grow b n : length b <= n -> resize b n = b ++ junk (n - length b).
  Proof. intros H. unfold resize, junk. rewrite firstn_all2 by lia. reflexivity. Qed.

  Lemma resize_len b n : length (resize b n) = n.
  Proof.
    unfold resize. rewrite app_length, repeat_length, firstn_length. lia.
  Qed.

  Lemma too_long_mono a b : a <= b -> too_long b = false -> too_long a = false.
  Proof. unfold too_long. rewrite !N.ltb_ge. lia. Qed.

  Lemma align_ge p a : 0 < a -> p <= align_value p a.
  Proof.
    intros Ha. unfold align_value.
    pose proof (Nat.div_mod (p + a - 1) a ltac:(lia)) as Hd.
    pose proof (Nat.mod_upper_bound (p + a - 1) a ltac:(lia)) as Hm.
    nia.
  Qed.


  (* ---- reallocate_for_length, set_length ----------------------------------------------------------- *)
  Lemma new_allocated_ge a n : n + PAD <= new_allocated exact a n.
  Proof. unfold new_allocated. lia. Qed.

  Lemma set_length_fail i s n s' i' : set_length i s n = (false, s', i') -> fail_res i s s' i'.
  Proof.
    unfold DString.set_length, reallocate_for_length.
    destruct (too_long n); [intros H; inversion H; split; [reflexivity|left; reflexivity]|].
    destruct (d_alloc s - PAD <? n); [|discriminate].
    destruct (F i) eqn:Ef; intros H; inversion H; subst. split; [reflexivity|right; auto].
  Qed.

  Lemma set_length_ok i s n s' i' :
    wf s -> set_length i s n = (true, s', i') ->
    d_bytes s' = resize (d_bytes s) n /\ wf s' /\ d_alloc s <= d_alloc s' /\
    ((n <= d_alloc s - PAD /\ i' = i /\ d_alloc s' = d_alloc s) \/ (d_alloc s - PAD < n /\ i' = (i + 1)%N /\ F i = false)).
  Proof.
    intros [Hw1 Hw2]. unfold DString.set_length, reallocate_for_length.
    destruct (too_long n) eqn:Etl; [discriminate|].
    destruct (d_alloc s - PAD <? n) eqn:El.
    - apply Nat.ltb_lt in El. destruct (F i) eqn:Ef; [discriminate|]. intros H; inversion H; subst; clear H. simpl.
      pose proof (new_allocated_ge (d_alloc s) n) as Hn.
      split; [reflexivity|]. split; [|split].
      + unfold wf, dlen; simpl. rewrite resize_len. split; [exact Hn|exact Etl].
      + unfold PAD in *. lia.
      + right. auto.
    - apply Nat.ltb_ge in El. intros H; inversion H; subst; clear H. simpl.
      split; [reflexivity|]. split; [|split; [lia|left; auto]].
      unfold wf, dlen; simpl. rewrite resize_len. split; [unfold dlen in Hw1; lia|exact Etl].
  Qed.

  (* ---- open_gap ------------------------------------------------------------------------------------- *)
  Lemma open_gap_fail i len s at_ s' i' : open_gap i len s at_ = (false, s', i') -> fail_res i s s' i'.
  Proof.
    unfold DString.open_gap. destruct (len =? 0); [discriminate|].
    destruct (MAXLEN - N.of_nat (dlen s) <? N.of_nat len)%N; [intros H; inversion H; split; [reflexivity|left; reflexivity]|].
    destruct (set_length i s (dlen s + len)) as [[ok s1] i1] eqn:Es. destruct ok; [discriminate|].
    intros H; inversion H; subst. eapply set_length_fail; exact Es.
  Qed.

  (* after open_gap there is a gap G of the requested size at the insert point *)
  Lemma open_gap_ok i len s at_ s' i' :
    wf s -> at_ <= dlen s -> open_gap i len s at_ = (true, s', i') ->
    exists G, length G = len /\ d_bytes s' = firstn at_ (d_bytes s) ++ G ++ skipn at_ (d_bytes s) /\ wf s' /\
              d_alloc s <= d_alloc s' /\
              ((dlen s + len <= d_alloc s - PAD /\ i' = i /\ d_alloc s' = d_alloc s) \/
               (d_alloc s - PAD < dlen s + len /\ i' = (i + 1)%N /\ F i = false)).
  Proof.
    intros Hwf Hat. unfold DString.open_gap. destruct (len =? 0) eqn:E0.
    - apply Nat.eqb_eq in E0. subst len. intros H; inversion H; subst. exists []. simpl. rewrite firstn_skipn.
      split; [reflexivity|]. split; [reflexivity|]. split; [exact Hwf|]. split; [lia|]. left. destruct Hwf as [Hw _]. unfold PAD in *. lia.
    - destruct (MAXLEN - N.of_nat (dlen s) <? N.of_nat len)%N; [discriminate|].
      destruct (set_length i s (dlen s + len)) as [[ok s1] i1] eqn:Es. destruct ok; [|discriminate].
      intros H; inversion H; subst; clear H.
      destruct (set_length_ok _ _ _ _ _ Hwf Es) as (Hb & Hwf1 & Hal & Hcnt).
      rewrite Hb. unfold dlen in *. rewrite resize_grow by lia.
      replace (length (d_bytes s) + len - length (d_bytes s)) with len by lia.
      exists (firstn len (skipn at_ (d_bytes s ++ junk len))). simpl.
      split.
      + rewrite firstn_length, skipn_length, app_length. unfold junk. rewrite repeat_length. lia.
      + split; [rewrite firstn_app; replace (at_ - length (d_bytes s)) with 0 by lia; simpl; rewrite app_nil_r; reflexivity|].
        split.
        * destruct Hwf1 as [Hw1 Hw2]. unfold wf, dlen in *. simpl. rewrite Hb in Hw1, Hw2. rewrite resize_len in Hw1, Hw2.
          match goal with |- length ?l + _ <= _ /\ _ => assert (Hlen : length l = length (d_bytes s) + len) end.
          { rewrite !app_length, !firstn_length, !skipn_length, app_length. unfold junk. rewrite repeat_length. lia. }
          rewrite Hlen. split; assumption.
        * split; [exact Hal|exact Hcnt].
  Qed.


  Lemma counted_noalloc i s need s' : wf s -> need <= dlen s -> d_alloc s' = d_alloc s -> counted i s need s' i.
  Proof. intros [Hw _] Hn Ha. split; [lia|]. left. unfold PAD in *. repeat split; lia. Qed.

  Lemma counted_same i s need : wf s -> need <= dlen s -> counted i s need s i.
  Proof. intros Hw Hn. apply counted_noalloc; auto. Qed.

  Lemma put_gap s' A G C at_ new :
    d_bytes s' = A ++ G ++ C -> at_ = length A -> length new = length G -> d_bytes (put s' at_ new) = A ++ new ++ C.
  Proof. intros Hb H1 H2. unfold put; simpl. rewrite Hb. apply overwrite_mid; assumption. Qed.

  Lemma wf_put s at_ new : wf s -> at_ + length new <= dlen s -> wf (put s at_ new).
  Proof.
    intros Hwf Hl. unfold wf, dlen, put, overwrite in *; simpl.
    assert (Hlen : length (firstn at_ (d_bytes s) ++ new ++ skipn (at_ + length new) (d_bytes s)) = length (d_bytes s))
      by (rewrite !app_length, firstn_length, skipn_length; lia).
    rewrite Hlen. exact Hwf.
  Qed.

  Lemma firstn_len_le (b : bytes) n : n <= length b -> length (firstn n b) = n.
  Proof. intros H. rewrite firstn_length. lia. Qed.

  (* ---- the insertions -------------------------------------------------------------------------------- *)
  Lemma insert_bytes_fail i s at_ n byte s' i' : insert_bytes exact F i s at_ n byte = (false, s', i') -> fail_res i s s' i'.
  Proof.
    unfold insert_bytes. destruct (n =? 0); [discriminate|].
    destruct (open_gap i n s at_) as [[ok s1] i1] eqn:Eo. destruct ok; [discriminate|].
    intros H; inversion H; subst. eapply open_gap_fail; exact Eo.
  Qed.

  Lemma insert_bytes_ok i s at_ n byte s' i' :
    wf s -> at_ <= dlen s -> insert_bytes exact F i s at_ n byte = (true, s', i') ->
    d_bytes s' = ins at_ (repeat byte n) (d_bytes s) /\ wf s' /\ counted i s (dlen s + n) s' i'.
  Proof.
    intros Hwf Hat. unfold insert_bytes. destruct (n =? 0) eqn:E0.
    - apply Nat.eqb_eq in E0. subst n. intros H; inversion H; subst. unfold ins. simpl. rewrite firstn_skipn.
      split; [reflexivity|]. split; [exact Hwf|]. apply counted_same; [exact Hwf|lia].
    - destruct (open_gap i n s at_) as [[ok s1] i1] eqn:Eo. destruct ok; [|discriminate].
      intros H; inversion H; subst; clear H.
      destruct (open_gap_ok _ _ _ _ _ _ Hwf Hat Eo) as (G & HG & Hb & Hwf1 & Hal & Hcnt).
      split; [|split].
      + unfold ins. apply (put_gap s1 _ G _ at_ (repeat byte n) Hb); [rewrite firstn_len_le; auto|rewrite repeat_length; auto].
      + apply wf_put; [exact Hwf1|]. unfold dlen in *. rewrite Hb, !app_length, firstn_len_le, repeat_length by exact Hat. lia.
      + split; assumption.
  Qed.

  Lemma insert_byte_fail i s at_ byte s' i' : insert_byte exact F i s at_ byte = (false, s', i') -> fail_res i s s' i'.
  Proof.
    unfold insert_byte. destruct (open_gap i 1 s at_) as [[ok s1] i1] eqn:Eo. destruct ok; [discriminate|].
    intros H; inversion H; subst. eapply open_gap_fail; exact Eo.
  Qed.

  Lemma insert_byte_ok i s at_ byte s' i' :
    wf s -> at_ <= dlen s -> insert_byte exact F i s at_ byte = (true, s', i') ->
    d_bytes s' = ins at_ [byte] (d_bytes s) /\ wf s' /\ counted i s (dlen s + 1) s' i'.
  Proof.
    intros Hwf Hat. unfold insert_byte.
    destruct (open_gap i 1 s at_) as [[ok s1] i1] eqn:Eo. destruct ok; [|discriminate].
    intros H; inversion H; subst; clear H.
    destruct (open_gap_ok _ _ _ _ _ _ Hwf Hat Eo) as (G & HG & Hb & Hwf1 & Hal & Hcnt).
    split; [|split].
    - unfold ins. apply (put_gap s1 _ G _ at_ [byte] Hb); [rewrite firstn_len_le; auto|simpl; auto].
    - apply wf_put; [exact Hwf1|]. unfold dlen in *. rewrite Hb, !app_length, firstn_len_le by exact Hat. simpl. lia.
    - split; assumption.
  Qed.

  Lemma copy_fail i src start len dest at_ d' i' : copy exact F i src start len dest at_ = (false, d', i') -> fail_res i dest d' i'.
  Proof.
    unfold copy. destruct (len =? 0); [discriminate|].
    destruct (open_gap i len dest at_) as [[ok s1] i1] eqn:Eo. destruct ok; [discriminate|].
    intros H; inversion H; subst. eapply open_gap_fail; exact Eo.
  Qed.

  Lemma copy_ok i src start len dest at_ d' i' :
    wf dest -> at_ <= dlen dest -> start <= length src -> len <= length src - start ->
    copy exact F i src start len dest at_ = (true, d', i') ->
    d_bytes d' = ins at_ (firstn len (skipn start src)) (d_bytes dest) /\ wf d' /\ counted i dest (dlen dest + len) d' i'.
  Proof.
    intros Hwf Hat Hs Hl. unfold copy. destruct (len =? 0) eqn:E0.
    - apply Nat.eqb_eq in E0. subst len. intros H; inversion H; subst. unfold ins. simpl. rewrite firstn_skipn.
      split; [reflexivity|]. split; [exact Hwf|]. apply counted_same; [exact Hwf|lia].
    - destruct (open_gap i len dest at_) as [[ok s1] i1] eqn:Eo. destruct ok; [|discriminate].
      intros H; inversion H; subst; clear H.
      destruct (open_gap_ok _ _ _ _ _ _ Hwf Hat Eo) as (G & HG & Hb & Hwf1 & Hal & Hcnt).
      assert (Hfl : length (firstn len (skipn start src)) = len) by (rewrite firstn_length, skipn_length; lia).
      split; [|split].
      + unfold ins. apply (put_gap s1 _ G _ at_ _ Hb); [rewrite firstn_len_le; auto|lia].
      + apply wf_put; [exact Hwf1|]. unfold dlen in *. rewrite Hb, !app_length, Hfl, firstn_len_le by exact Hat. lia.
      + split; assumption.
  Qed.

  (* ---- lengthen / shorten / append -------------------------------------------------------------------- *)
  Lemma lengthen_fail i s n s' i' : lengthen exact F i s n = (false, s', i') -> fail_res i s s' i'.
  Proof.
    unfold lengthen. destruct (MAXLEN - N.of_nat (dlen s) <? N.of_nat n)%N; [intros H; inversion H; split; [reflexivity|left; reflexivity]|].
    apply set_length_fail.
  Qed.

  Lemma lengthen_ok i s n s' i' :
    wf s -> lengthen exact F i s n = (true, s', i') ->
    d_bytes s' = d_bytes s ++ junk n /\ wf s' /\ counted i s (dlen s + n) s' i'.
  Proof.
    intros Hwf. unfold lengthen. destruct (MAXLEN - N.of_nat (dlen s) <? N.of_nat n)%N; [discriminate|].
    intros H. destruct (set_length_ok _ _ _ _ _ Hwf H) as (Hb & Hwf1 & Hal & Hcnt).
    split; [|split; [exact Hwf1|split; assumption]].
    rewrite Hb. unfold dlen. rewrite resize_grow by lia. f_equal. f_equal. lia.
  Qed.

  Lemma wf_shorten s n : wf s -> wf (shorten s n).
  Proof.
    intros [H1 H2]. unfold wf, dlen, shorten in *; simpl. rewrite firstn_length.
    split; [lia|]. eapply too_long_mono; [|exact H2]. lia.
  Qed.

  Lemma append_fail i s buf s' i' : append exact F i s buf = (false, s', i') -> fail_res i s s' i'.
  Proof.
    unfold append. destruct (length buf =? 0); [discriminate|].
    destruct (lengthen exact F i s (length buf)) as [[ok s1] i1] eqn:El. destruct ok; [discriminate|].
    intros H; inversion H; subst. eapply lengthen_fail; exact El.
  Qed.

  Lemma append_ok i s buf s' i' :
    wf s -> append exact F i s buf = (true, s', i') ->
    d_bytes s' = d_bytes s ++ buf /\ wf s' /\ counted i s (dlen s + length buf) s' i'.
  Proof.
    intros Hwf. unfold append. destruct (length buf =? 0) eqn:E0.
    - apply Nat.eqb_eq in E0. destruct buf; [|discriminate]. intros H; inversion H; subst. rewrite app_nil_r.
      split; [reflexivity|]. split; [exact Hwf|]. apply counted_same; [exact Hwf|simpl; lia].
    - destruct (lengthen exact F i s (length buf)) as [[ok s1] i1] eqn:El. destruct ok; [|discriminate].
      intros H; inversion H; subst; clear H.
      destruct (lengthen_ok _ _ _ _ _ Hwf El) as (Hb & Hwf1 & Hcnt).
      split; [|split; [|exact Hcnt]].
      + unfold put; simpl. rewrite Hb. apply overwrite_end; [|unfold junk; rewrite repeat_length; reflexivity].
        unfold dlen. rewrite Hb, app_length. unfold junk. rewrite repeat_length. lia.
      + apply wf_put; [exact Hwf1|]. unfold dlen. rewrite Hb, app_length. unfold junk. rewrite repeat_length. lia.
  Qed.

  Lemma append_byte_fail i s byte s' i' : append_byte exact F i s byte = (false, s', i') -> fail_res i s s' i'.
  Proof.
    unfold append_byte. destruct (set_length i s (dlen s + 1)) as [[ok s1] i1] eqn:El. destruct ok; [discriminate|].
    intros H; inversion H; subst. eapply set_length_fail; exact El.
  Qed.

  Lemma append_byte_ok i s byte s' i' :
    wf s -> append_byte exact F i s byte = (true, s', i') ->
    d_bytes s' = d_bytes s ++ [byte] /\ wf s' /\ counted i s (dlen s + 1) s' i'.
  Proof.
    intros Hwf. unfold append_byte.
    destruct (set_length i s (dlen s + 1)) as [[ok s1] i1] eqn:El. destruct ok; [|discriminate].
    intros H; inversion H; subst; clear H.
    destruct (set_length_ok _ _ _ _ _ Hwf El) as (Hb & Hwf1 & Hal & Hcnt).
    assert (Hb' : d_bytes s1 = d_bytes s ++ junk 1).
    { rewrite Hb. unfold dlen. rewrite resize_grow by lia. f_equal. f_equal. lia. }
    split; [|split; [|split; assumption]].
    - unfold put; simpl. rewrite Hb'. apply overwrite_end; [|reflexivity].
      unfold dlen. rewrite Hb', app_length. simpl. lia.
    - apply wf_put; [exact Hwf1|]. unfold dlen. rewrite Hb', app_length. simpl. lia.
  Qed.

  Lemma alloc_space_fail i s n s' i' : alloc_space exact F i s n = (false, s', i') -> fail_res i s s' i'.
  Proof.
    unfold alloc_space. destruct (lengthen exact F i s n) as [[ok s1] i1] eqn:El. destruct ok; [discriminate|].
    intros H; inversion H; subst. eapply lengthen_fail; exact El.
  Qed.

  Lemma alloc_space_ok i s n s' i' :
    wf s -> alloc_space exact F i s n = (true, s', i') ->
    d_bytes s' = d_bytes s /\ wf s' /\ counted i s (dlen s + n) s' i'.
  Proof.
    intros Hwf. unfold alloc_space. destruct (lengthen exact F i s n) as [[ok s1] i1] eqn:El. destruct ok; [|discriminate].
    intros H; inversion H; subst; clear H.
    destruct (lengthen_ok _ _ _ _ _ Hwf El) as (Hb & Hwf1 & Hcnt).
    split; [|split; [apply wf_shorten; exact Hwf1|exact Hcnt]].
    unfold shorten, dlen; simpl. rewrite Hb, app_length. unfold junk. rewrite repeat_length.
    replace (length (d_bytes s) + n - n) with (length (d_bytes s)) by lia.
    rewrite firstn_app, firstn_all, Nat.sub_diag. simpl. apply app_nil_r.
  Qed.

  (* ---- alignment ------------------------------------------------------------------------------------------ *)
  Lemma align_gap_fail i s at_ a gap s' i' pos : align_then_open_gap exact F i s at_ a gap = (false, s', i', pos) -> fail_res i s s' i'.
  Proof.
    unfold align_then_open_gap.
    destruct (too_long (dlen s + (align_value at_ a - at_) + gap)); [intros H; inversion H; split; [reflexivity|left; reflexivity]|].
    destruct (dlen s + (align_value at_ a - at_) + gap - dlen s =? 0); [discriminate|].
    destruct (open_gap i _ s at_) as [[ok s1] i1] eqn:Eo. destruct ok; [discriminate|].
    intros H; inversion H; subst. eapply open_gap_fail; exact Eo.
  Qed.

  Lemma align_gap_ok i s at_ a gap s' i' pos :
    wf s -> at_ <= dlen s -> 0 < a -> align_then_open_gap exact F i s at_ a gap = (true, s', i', pos) ->
    pos = align_value at_ a /\
    exists G2, length G2 = gap /\
               d_bytes s' = firstn at_ (d_bytes s) ++ zeros (pos - at_) ++ G2 ++ skipn at_ (d_bytes s) /\
               wf s' /\ counted i s (dlen s + (pos - at_) + gap) s' i'.
  Proof.
    intros Hwf Hat Ha. unfold align_then_open_gap.
    pose proof (align_ge at_ a Ha) as Hge. set (gp := align_value at_ a) in *.
    destruct (too_long (dlen s + (gp - at_) + gap)); [discriminate|].
    destruct (dlen s + (gp - at_) + gap - dlen s =? 0) eqn:E0.
    - apply Nat.eqb_eq in E0. intros H; inversion H; subst; clear H.
      assert (Hgp : gp = pos) by lia. assert (Hg0 : gap = 0) by lia. rewrite Hg0 in *. clear Hg0. split; [symmetry; exact Hgp|].
      exists []. rewrite Nat.sub_diag. simpl. rewrite firstn_skipn.
      split; [reflexivity|]. split; [reflexivity|]. split; [exact Hwf|]. apply counted_same; [exact Hwf|lia].
    - apply Nat.eqb_neq in E0.
      destruct (open_gap i (dlen s + (gp - at_) + gap - dlen s) s at_) as [[ok s1] i1] eqn:Eo. destruct ok; [|discriminate].
      intros H; inversion H; subst; clear H. split; [reflexivity|].
      destruct (open_gap_ok _ _ _ _ _ _ Hwf Hat Eo) as (G & HG & Hb & Hwf1 & Hal & Hcnt).
      assert (HGl : length G = (gp - at_) + gap) by lia.
      exists (skipn (gp - at_) G).
      split; [rewrite skipn_length; lia|].
      assert (HA : length (firstn at_ (d_bytes s)) = at_) by (apply firstn_len_le; exact Hat).
      destruct (gap <? dlen s + (gp - at_) + gap - dlen s) eqn:Elt.
      + split; [|split].
        * rewrite <- (firstn_skipn (gp - at_) G) in Hb.
          rewrite <- app_assoc in Hb.
          apply (put_gap s1 _ (firstn (gp - at_) G) _ at_ _ Hb); [symmetry; exact HA|].
          unfold zeros. rewrite repeat_length, firstn_length. lia.
        * apply wf_put; [exact Hwf1|]. unfold dlen in *. rewrite Hb, !app_length, HA, repeat_length. lia.
        * split; [exact Hal|]. replace (dlen s + (gp - at_) + gap) with (dlen s + (dlen s + (gp - at_) + gap - dlen s)) by lia. exact Hcnt.
      + apply Nat.ltb_ge in Elt. assert (Hz : gp - at_ = 0) by lia. rewrite Hz. simpl.
        split; [exact Hb|]. split; [exact Hwf1|].
        split; [exact Hal|]. replace (dlen s + 0 + gap) with (dlen s + (dlen s + (gp - at_) + gap - dlen s)) by lia. exact Hcnt.
  Qed.

  Lemma align_length_fail i s a s' i' : align_length exact F i s a = (false, s', i') -> fail_res i s s' i'.
  Proof.
    unfold align_length. destruct (align_then_open_gap exact F i s (dlen s) a 0) as [[[ok s1] i1] p] eqn:E.
    intros H; inversion H; subst. eapply align_gap_fail; exact E.
  Qed.

  Lemma align_length_ok i s a s' i' :
    wf s -> 0 < a -> align_length exact F i s a = (true, s', i') ->
    d_bytes s' = d_bytes s ++ zeros (align_value (dlen s) a - dlen s) /\ wf s' /\ counted i s (align_value (dlen s) a) s' i'.
  Proof.
    intros Hwf Ha. unfold align_length. destruct (align_then_open_gap exact F i s (dlen s) a 0) as [[[ok s1] i1] p] eqn:E.
    intros H; inversion H; subst; clear H.
    destruct (align_gap_ok _ _ _ _ _ _ _ _ Hwf (Nat.le_refl _) Ha E) as (Hp & G2 & HG & Hb & Hwf1 & Hcnt).
    destruct G2; [|discriminate]. subst p.
    split; [|split; [exact Hwf1|]].
    - rewrite Hb. unfold dlen. rewrite firstn_all, skipn_all. simpl. rewrite app_nil_r. reflexivity.
    - pose proof (align_ge (dlen s) a Ha). replace (align_value (dlen s) a) with (dlen s + (align_value (dlen s) a - dlen s) + 0) at 1 by lia. exact Hcnt.
  Qed.

  Lemma insert_aligned_fail i s at_ octets s' i' : insert_aligned exact F i s at_ octets = (false, s', i') -> fail_res i s s' i'.
  Proof.
    unfold insert_aligned. destruct (align_then_open_gap exact F i s at_ (length octets) (length octets)) as [[[ok s1] i1] p] eqn:E.
    destruct ok; [discriminate|]. intros H; inversion H; subst. eapply align_gap_fail; exact E.
  Qed.

  Lemma insert_aligned_ok i s at_ octets s' i' :
    wf s -> at_ <= dlen s -> 0 < length octets -> insert_aligned exact F i s at_ octets = (true, s', i') ->
    d_bytes s' = ins at_ (zeros (align_value at_ (length octets) - at_) ++ octets) (d_bytes s) /\ wf s' /\
    counted i s (dlen s + (align_value at_ (length octets) - at_) + length octets) s' i'.
  Proof.
    intros Hwf Hat Ho. unfold insert_aligned.
    destruct (align_then_open_gap exact F i s at_ (length octets) (length octets)) as [[[ok s1] i1] p] eqn:E.
    destruct ok; [|discriminate]. intros H; inversion H; subst; clear H.
    destruct (align_gap_ok _ _ _ _ _ _ _ _ Hwf Hat Ho E) as (Hp & G2 & HG & Hb & Hwf1 & Hcnt). subst p.
    pose proof (align_ge at_ (length octets) Ho) as Hge.
    assert (HA : length (firstn at_ (d_bytes s)) = at_) by (apply firstn_len_le; exact Hat).
    split; [|split; [|exact Hcnt]].
    - unfold ins. rewrite <- app_assoc. rewrite app_assoc in Hb. rewrite (app_assoc (firstn at_ (d_bytes s))).
      apply (put_gap s1 _ G2 _ _ octets Hb); [|lia].
      rewrite app_length, HA. unfold zeros. rewrite repeat_length. lia.
    - apply wf_put; [exact Hwf1|]. unfold dlen in *. rewrite Hb, !app_length, HA. unfold zeros. rewrite repeat_length. lia.
  Qed.

  (* ---- delete, replace_len ------------------------------------------------------------------------------------ *)
  Lemma wf_delete s start len : wf s -> wf (delete s start len).
  Proof.
    intros [H1 H2]. unfold wf, dlen, delete in *; simpl. rewrite app_length, firstn_length, skipn_length.
    split; [lia|]. eapply too_long_mono; [|exact H2]. lia.
  Qed.

  Lemma replace_len_fail i src start len dest at_ rlen d' i' :
    replace_len exact F i src start len dest at_ rlen = (false, d', i') -> fail_res i dest d' i'.
  Proof.
    unfold replace_len. destruct (len =? rlen); [discriminate|]. destruct (len <? rlen); [discriminate|].
    destruct (copy exact F i src (start + rlen) (len - rlen) dest (at_ + rlen)) as [[ok d1] i1] eqn:Ec.
    destruct ok; [discriminate|]. intros H; inversion H; subst. eapply copy_fail; exact Ec.
  Qed.

  Lemma skipn_skipn (l : bytes) a b : skipn a (skipn b l) = skipn (a + b) l.
  Proof.
    revert l; induction b as [|b IH]; intros l; [rewrite Nat.add_0_r; reflexivity|].
    destruct l; [rewrite !skipn_nil; reflexivity|]. rewrite Nat.add_succ_r. simpl. apply IH.
  Qed.

  Lemma firstn_firstn_skipn (l : bytes) a b : firstn a l ++ firstn b (skipn a l) = firstn (a + b) l.
  Proof.
    revert a; induction l as [|x r IH]; intros a; [rewrite skipn_nil, !firstn_nil; reflexivity|].
    destruct a; simpl; [reflexivity|]. rewrite IH. reflexivity.
  Qed.

  Lemma replace_len_ok i src start len dest at_ rlen d' i' :
    wf dest -> start <= length src -> len <= length src - start -> at_ <= dlen dest -> rlen <= dlen dest - at_ ->
    replace_len exact F i src start len dest at_ rlen = (true, d', i') ->
    d_bytes d' = firstn at_ (d_bytes dest) ++ firstn len (skipn start src) ++ skipn (at_ + rlen) (d_bytes dest) /\ wf d' /\
    counted i dest (dlen dest + len - rlen) d' i'.
  Proof.
    intros Hwf Hs Hl Hat Hr. unfold replace_len.
    assert (Hfl : forall n st, n <= length src - st -> length (firstn n (skipn st src)) = n)
      by (intros n st Hn; rewrite firstn_length, skipn_length; lia).
    destruct (len =? rlen) eqn:Eeq.
    - apply Nat.eqb_eq in Eeq. subst rlen. intros H; inversion H; subst; clear H.
      split; [|split].
      + unfold put, overwrite; simpl. rewrite (Hfl len start Hl). reflexivity.
      + apply wf_put; [exact Hwf|]. rewrite (Hfl len start Hl). lia.
      + apply counted_noalloc; [exact Hwf|lia|reflexivity].
    - apply Nat.eqb_neq in Eeq. destruct (len <? rlen) eqn:Elt.
      + apply Nat.ltb_lt in Elt. intros H; inversion H; subst; clear H.
        split; [|split].
        * unfold delete, put, overwrite; simpl. rewrite (Hfl len start Hl).
          unfold dlen in *.
          rewrite firstn_app, firstn_length. replace (at_ + len - Nat.min at_ (length (d_bytes dest))) with len by lia.
          rewrite firstn_app, (Hfl len start Hl), Nat.sub_diag. simpl. rewrite app_nil_r.
          rewrite (firstn_all2 (firstn at_ (d_bytes dest))) by (rewrite firstn_length; lia).
          rewrite (firstn_all2 (firstn len (skipn start src))) by (rewrite (Hfl len start Hl); lia).
          rewrite <- app_assoc. f_equal. f_equal.
          rewrite skipn_app, firstn_length. replace (at_ + len + (rlen - len) - Nat.min at_ (length (d_bytes dest))) with rlen by lia.
          rewrite (skipn_all2 (firstn at_ (d_bytes dest))) by (rewrite firstn_length; lia). simpl.
          rewrite skipn_app, (Hfl len start Hl). rewrite (skipn_all2 (firstn len (skipn start src))) by (rewrite (Hfl len start Hl); lia). simpl.
          rewrite skipn_skipn. f_equal. lia.
        * apply wf_delete. apply wf_put; [exact Hwf|]. rewrite (Hfl len start Hl). lia.
        * apply counted_noalloc; [exact Hwf|lia|reflexivity].
      + apply Nat.ltb_ge in Elt.
        destruct (copy exact F i src (start + rlen) (len - rlen) dest (at_ + rlen)) as [[ok d1] i1] eqn:Ec.
        destruct ok; [|discriminate]. intros H; inversion H; subst; clear H.
        assert (Hc1 : at_ + rlen <= dlen dest) by lia.
        assert (Hc2 : start + rlen <= length src) by lia.
        assert (Hc3 : len - rlen <= length src - (start + rlen)) by lia.
        destruct (copy_ok _ _ _ _ _ _ _ _ Hwf Hc1 Hc2 Hc3 Ec) as (Hb & Hwf1 & Hcnt).
        split; [|split].
        * unfold put, overwrite; simpl. rewrite Hb. unfold ins. rewrite (Hfl rlen start ltac:(lia)).
          unfold dlen in *.
          rewrite firstn_app, firstn_firstn. replace (Nat.min at_ (at_ + rlen)) with at_ by lia.
          rewrite firstn_length. replace (at_ - Nat.min (at_ + rlen) (length (d_bytes dest))) with 0 by lia. simpl. rewrite app_nil_r.
          f_equal.
          rewrite skipn_app, firstn_length. replace (at_ + rlen - Nat.min (at_ + rlen) (length (d_bytes dest))) with 0 by lia. simpl.
          rewrite (skipn_all2 (firstn (at_ + rlen) (d_bytes dest))) by (rewrite firstn_length; lia). simpl.
          rewrite app_assoc. f_equal.
          replace (skipn (start + rlen) src) with (skipn rlen (skipn start src)) by (rewrite skipn_skipn; f_equal; lia).
          rewrite firstn_firstn_skipn. f_equal. lia.
        * apply wf_put; [exact Hwf1|]. rewrite (Hfl rlen start ltac:(lia)). unfold dlen in *. rewrite Hb. unfold ins.
          rewrite !app_length, firstn_length, skipn_length, (Hfl (len - rlen) (start + rlen) ltac:(lia)). lia.
        * replace (dlen dest + len - rlen) with (dlen dest + (len - rlen)) by lia. exact Hcnt.
  Qed.

  (* ---- one statement for all operations ----------------------------------------------------------------------- *)
  Theorem sop_fail_unchanged i s op s' i' : run_sop exact F i s op = (false, s', i') -> fail_res i s s' i'.
  Proof.
    destruct op; simpl; try discriminate.
    - apply lengthen_fail.
    - apply set_length_fail.
    - apply insert_bytes_fail.
    - apply insert_byte_fail.
    - apply align_length_fail.
    - apply insert_aligned_fail.
    - unfold insert_alignment. destruct (align_then_open_gap exact F i s at_ alignment 0) as [[[ok s1] i1] p] eqn:E.
      intros H; inversion H; subst. eapply align_gap_fail; exact E.
    - apply alloc_space_fail.
    - apply append_fail.
    - apply append_byte_fail.
    - apply copy_fail.
    - apply replace_len_fail.
  Qed.

  Lemma ins_length at_ x (b : bytes) : at_ <= length b -> length (ins at_ x b) = length b + length x.
  Proof. intros H. unfold ins. rewrite !app_length, firstn_length, skipn_length. lia. Qed.

  Theorem sop_ok_spec i s op s' i' :
    wf s -> sop_pre s op = true -> run_sop exact F i s op = (true, s', i') ->
    d_bytes s' = spec_sop (d_bytes s) op /\ wf s' /\ counted i s (peak_len (d_bytes s) op) s' i'.
  Proof.
    intros Hwf Hpre. destruct op; cbn [sop_pre] in Hpre; cbn [run_sop spec_sop peak_len].
    - intros H. destruct (lengthen_ok _ _ _ _ _ Hwf H) as (Hb & Hw & Hc). split; [exact Hb|split; [exact Hw|]].
      unfold junk in *. rewrite app_length, repeat_length. exact Hc.
    - intros H; inversion H; subst; clear H. apply Nat.leb_le in Hpre.
      split; [reflexivity|]. split; [apply wf_shorten; exact Hwf|].
      apply counted_noalloc; [exact Hwf| |reflexivity]. rewrite firstn_length. unfold dlen. lia.
    - intros H. destruct (set_length_ok _ _ _ _ _ Hwf H) as (Hb & Hw & Hal & Hc). split; [exact Hb|]. split; [exact Hw|].
      unfold junk. change (firstn n (d_bytes s) ++ repeat JUNK (n - length (d_bytes s))) with (resize (d_bytes s) n).
      rewrite resize_len. split; assumption.
    - apply Nat.leb_le in Hpre. intros H. destruct (insert_bytes_ok _ _ _ _ _ _ _ Hwf Hpre H) as (Hb & Hw & Hc). split; [exact Hb|split; [exact Hw|]].
      rewrite ins_length by exact Hpre. rewrite repeat_length. exact Hc.
    - apply Nat.leb_le in Hpre. intros H. destruct (insert_byte_ok _ _ _ _ _ _ Hwf Hpre H) as (Hb & Hw & Hc). split; [exact Hb|split; [exact Hw|]].
      rewrite ins_length by exact Hpre. exact Hc.
    - apply andb_true_iff in Hpre. destruct Hpre as [Ha _]. apply Nat.leb_le in Ha.
      intros H. destruct (align_length_ok _ _ _ _ _ Hwf Ha H) as (Hb & Hw & Hc). split; [exact Hb|split; [exact Hw|]].
      pose proof (align_ge (dlen s) alignment Ha) as Hge. unfold zeros, dlen in *. rewrite app_length, repeat_length.
      replace (length (d_bytes s) + (align_value (length (d_bytes s)) alignment - length (d_bytes s))) with (align_value (length (d_bytes s)) alignment) by lia. exact Hc.
    - apply andb_true_iff in Hpre. destruct Hpre as [Hat Ho]. apply Nat.leb_le in Hat.
      assert (Hpos : 0 < length octets).
      { apply orb_true_iff in Ho. destruct Ho as [Ho|Ho]; [apply orb_true_iff in Ho; destruct Ho as [Ho|Ho]|]; apply Nat.eqb_eq in Ho; lia. }
      intros H. destruct (insert_aligned_ok _ _ _ _ _ _ Hwf Hat Hpos H) as (Hb & Hw & Hc). split; [exact Hb|split; [exact Hw|]].
      rewrite ins_length by exact Hat. unfold zeros in *. rewrite app_length, repeat_length.
      replace (length (d_bytes s) + (align_value at_ (length octets) - at_ + length octets)) with (dlen s + (align_value at_ (length octets) - at_) + length octets) by (unfold dlen; lia).
      exact Hc.
    - apply andb_true_iff in Hpre. destruct Hpre as [Hpre _]. apply andb_true_iff in Hpre. destruct Hpre as [Hat Ha].
      apply Nat.leb_le in Hat, Ha.
      unfold insert_alignment. destruct (align_then_open_gap exact F i s at_ alignment 0) as [[[ok s1] i1] p] eqn:E.
      intros H; inversion H; subst; clear H.
      destruct (align_gap_ok _ _ _ _ _ _ _ _ Hwf Hat Ha E) as (Hp & G2 & HG & Hb & Hw & Hc). destruct G2; [|discriminate]. subst p.
      split; [exact Hb|]. split; [exact Hw|].
      rewrite ins_length by exact Hat. unfold zeros. rewrite repeat_length.
      replace (length (d_bytes s) + (align_value at_ alignment - at_)) with (dlen s + (align_value at_ alignment - at_) + 0) by (unfold dlen; lia). exact Hc.
    - intros H. destruct (alloc_space_ok _ _ _ _ _ Hwf H) as (Hb & Hw & Hc). split; [exact Hb|split; [exact Hw|exact Hc]].
    - intros H. destruct (append_ok _ _ _ _ _ Hwf H) as (Hb & Hw & Hc). split; [exact Hb|split; [exact Hw|]]. rewrite app_length. exact Hc.
    - intros H. destruct (append_byte_ok _ _ _ _ _ Hwf H) as (Hb & Hw & Hc). split; [exact Hb|split; [exact Hw|]]. rewrite app_length. exact Hc.
    - intros H; inversion H; subst; clear H. split; [reflexivity|]. split; [apply wf_delete; exact Hwf|].
      apply counted_noalloc; [exact Hwf| |reflexivity]. rewrite app_length, firstn_length, skipn_length. unfold dlen. lia.
    - apply andb_true_iff in Hpre. destruct Hpre as [Hpre Hat]. apply andb_true_iff in Hpre. destruct Hpre as [Hs Hl].
      apply Nat.leb_le in Hat, Hs, Hl.
      intros H. destruct (copy_ok _ _ _ _ _ _ _ _ Hwf Hat Hs Hl H) as (Hb & Hw & Hc). split; [exact Hb|split; [exact Hw|]].
      rewrite ins_length by exact Hat. rewrite firstn_length, skipn_length. replace (Nat.min len (length src - start)) with len by lia. exact Hc.
    - apply andb_true_iff in Hpre. destruct Hpre as [Hpre Hr]. apply andb_true_iff in Hpre. destruct Hpre as [Hpre Hat].
      apply andb_true_iff in Hpre. destruct Hpre as [Hs Hl]. apply Nat.leb_le in Hat, Hs, Hl, Hr.
      intros H. destruct (replace_len_ok _ _ _ _ _ _ _ _ _ Hwf Hs Hl Hat Hr H) as (Hb & Hw & Hc). split; [exact Hb|split; [exact Hw|]].
      rewrite !app_length, !firstn_length, !skipn_length. unfold dlen in *.
      replace (Nat.min at_ (length (d_bytes s)) + (Nat.min len (length src - start) + (length (d_bytes s) - (at_ + rlen)))) with (length (d_bytes s) + len - rlen) by lia.
      exact Hc.
  Qed.
End P.


(* ---- with room and below the length limit nothing can fail -------------------------------------------------- *)
Section Room.
  Variable exact : bool.
  Variable F : N -> bool.

  Lemma set_length_room i s n :
    too_long n = false -> n <= d_alloc s - PAD -> exists s', set_length exact F i s n = (true, s', i).
  Proof.
    intros Ht Hr. unfold set_length. rewrite Ht. assert (E : (d_alloc s - PAD <? n) = false) by (apply Nat.ltb_ge; exact Hr).
    rewrite E. eauto.
  Qed.

  Lemma open_gap_room i len s at_ :
    too_long (dlen s + len) = false -> dlen s + len <= d_alloc s - PAD -> exists s', open_gap exact F i len s at_ = (true, s', i).
  Proof.
    intros Ht Hr. unfold open_gap. destruct (len =? 0); [eauto|].
    assert (E : (MAXLEN - N.of_nat (dlen s) <? N.of_nat len)%N = false).
    { unfold too_long in Ht. apply N.ltb_ge in Ht. apply N.ltb_ge. lia. }
    rewrite E. destruct (set_length_room i s (dlen s + len) Ht Hr) as (s1 & ->). eauto.
  Qed.

  Lemma align_length_room i s a :
    too_long (align_value (dlen s) a) = false -> dlen s <= align_value (dlen s) a -> align_value (dlen s) a <= d_alloc s - PAD ->
    exists s', align_length exact F i s a = (true, s', i).
  Proof.
    intros Ht Hge Hr. unfold align_length, align_then_open_gap.
    replace (dlen s + (align_value (dlen s) a - dlen s) + 0) with (align_value (dlen s) a) by lia.
    rewrite Ht. destruct (align_value (dlen s) a - dlen s =? 0); [eauto|].
    destruct (open_gap_room i (align_value (dlen s) a - dlen s) s (dlen s)) as (s1 & ->).
    - replace (dlen s + (align_value (dlen s) a - dlen s)) with (align_value (dlen s) a) by lia. exact Ht.
    - lia.
    - eauto.
  Qed.
End Room.

(* ---- dbus-marshal-header.c: the header setter on top of the string lemmas ------------------------------------- *)
Section H.
  Variable exact : bool.
  Variable F : N -> bool.


  (* first [start] bytes and last [pad] bytes *)
  Definition frame (start pad : nat) (b0 b : bytes) : Prop :=
    start + pad <= length b /\ firstn start b = firstn start b0 /\ skipn (length b - pad) b = skipn (length b0 - pad) b0.

  Lemma ins_frame start pad b0 b at_ x :
    frame start pad b0 b -> start <= at_ -> at_ + pad <= length b -> frame start pad b0 (ins at_ x b).
  Proof.
    intros (Hl & Hp & Hs) H1 H2. unfold frame, ins. rewrite !app_length, firstn_length, skipn_length.
    replace (Nat.min at_ (length b)) with at_ by lia.
    split; [lia|]. split.
    - rewrite firstn_app, firstn_firstn, firstn_length. replace (Nat.min start at_) with start by lia.
      replace (start - Nat.min at_ (length b)) with 0 by lia. simpl. rewrite app_nil_r. exact Hp.
    - rewrite <- Hs.
      replace (at_ + (length x + (length b - at_)) - pad) with (at_ + (length x + (length b - pad - at_))) by lia.
      rewrite skipn_app, firstn_length. replace (Nat.min at_ (length b)) with at_ by lia.
      rewrite (skipn_all2 (firstn at_ b)) by (rewrite firstn_length; lia). simpl.
      replace (at_ + (length x + (length b - pad - at_)) - at_) with (length x + (length b - pad - at_)) by lia.
      rewrite skipn_app. rewrite (skipn_all2 x) by lia. simpl.
      replace (length x + (length b - pad - at_) - length x) with (length b - pad - at_) by lia.
      rewrite skipn_skipn. f_equal. lia.
  Qed.

  Lemma in_window_frame start pad b0 b op :
    frame start pad b0 b -> in_window start pad b op -> frame start pad b0 (spec_sop b op).
  Proof.
    intros Hf Hw. destruct op; simpl in *; try contradiction; try (destruct Hw as [H1 H2]; apply ins_frame; assumption).
    exact Hf.
  Qed.

  Lemma frame_refl start pad b0 : start + pad = length b0 -> frame start pad b0 b0.
  Proof. intros H. unfold frame. repeat split; lia. Qed.

  Lemma sop_pre_alloc_irrelevant b a1 a2 op : sop_pre (mkD b a1) op = sop_pre (mkD b a2) op.
  Proof. destruct op; reflexivity. Qed.

  (* run a window program: on failure the string reached so far still has the frame of the original *)
  Lemma run_window start pad b0 : forall ops i s s' i' ok,
    wf s -> frame start pad b0 (d_bytes s) -> window_ops start pad (d_bytes s) ops ->
    run_sops exact F i s ops = (ok, s', i') -> frame start pad b0 (d_bytes s') /\ wf s'.
  Proof.
    induction ops as [|op more IH]; intros i s s' i' ok Hwf Hfr Hwin; simpl.
    - intros H; inversion H; subst. auto.
    - destruct Hwin as (Hw & Hpre & Hmore).
      destruct (run_sop exact F i s op) as [[ok1 s1] i1] eqn:E1. destruct ok1.
      + assert (Hpre' : sop_pre s op = true) by (destruct s; simpl in *; rewrite (sop_pre_alloc_irrelevant _ _ 0); exact Hpre).
        destruct (sop_ok_spec exact F _ _ _ _ _ Hwf Hpre' E1) as (Hb & Hwf1 & _).
        apply IH; [exact Hwf1| |]; rewrite Hb; [apply in_window_frame; assumption|exact Hmore].
      + intros H; inversion H; subst. destruct (sop_fail_unchanged exact F _ _ _ _ _ E1) as [-> _]. auto.
  Qed.

  Lemma frame_delete start pad b0 b : start + pad = length b0 -> frame start pad b0 b ->
    firstn start b ++ skipn (start + (length b - start - pad)) b = b0.
  Proof.
    intros H0 (Hl & Hp & Hs). replace (start + (length b - start - pad)) with (length b - pad) by lia.
    rewrite Hp, Hs. replace (length b0 - pad) with start by lia. apply firstn_skipn.
  Qed.

  (* write_basic_field: when it reports failure the header data is what it was *)
  Theorem write_basic_field_fail i h ops h' i' :
    wf (h_data h) -> h_padding h <= dlen (h_data h) ->
    window_ops (dlen (h_data h) - h_padding h) (h_padding h) (d_bytes (h_data h)) ops ->
    write_basic_field exact F i h ops = (false, h', i') ->
    d_bytes (h_data h') = d_bytes (h_data h) /\ h_padding h' = h_padding h /\ wf (h_data h').
  Proof.
    intros Hwf Hp Hwin. unfold write_basic_field.
    set (start := dlen (h_data h) - h_padding h).
    assert (Hsp : start + h_padding h = length (d_bytes (h_data h))) by (unfold start, dlen in *; lia).
    replace (dlen (h_data h) - start) with (h_padding h) by (unfold start, dlen in *; lia).
    destruct (run_sops exact F i (h_data h) ops) as [[ok s1] i1] eqn:E. destruct ok; [discriminate|].
    intros H; inversion H; subst; clear H. simpl.
    destruct (run_window start (h_padding h) (d_bytes (h_data h)) ops _ _ _ _ _ Hwf (frame_refl _ _ _ Hsp) Hwin E) as [Hfr Hwf1].
    split; [|split; [reflexivity|apply wf_delete; exact Hwf1]].
    unfold dlen. apply frame_delete; assumption.
  Qed.

  Lemma skip_allocs_count n : forall i ok i', skip_allocs F i n = (ok, i') -> (i <= i')%N.
  Proof.
    induction n as [|n IH]; intros i ok i'; simpl; [intros H; inversion H; lia|].
    destruct (F i); [intros H; inversion H; lia|]. intros H. apply IH in H. lia.
  Qed.

  (* the commit step of _dbus_type_reader_set_basic: when it reports failure the header data is what it was *)
  Theorem set_basic_field_fail i h n block at_ oldlen h' i' :
    set_basic_field exact F i h n block at_ oldlen = (false, h', i') -> h' = h.
  Proof.
    unfold set_basic_field. destruct (skip_allocs F i n) as [ok1 i1]. destruct ok1; [|intros H; inversion H; reflexivity].
    destruct (replace_len exact F i1 block 0 (length block) (h_data h) at_ oldlen) as [[ok d1] i2] eqn:Er.
    intros H; inversion H; subst. destruct (replace_len_fail exact F _ _ _ _ _ _ _ _ _ Er) as [-> _]. destruct h; reflexivity.
  Qed.


  (* correct_header_padding after reserve_header_padding never needs memory and never hits its assertion *)
  Lemma correct_after_reserve i U T a :
    wf (mkD (U ++ T) a) -> length T = 7 ->
    correct_header_padding exact F i (mkH (mkD (U ++ T) a) 7) =
    Some (mkH (mkD (U ++ zeros (align_value (length U) 8 - length U)) a) (align_value (length U) 8 - length U), i).
  Proof.
    intros Hwf HT. unfold correct_header_padding. simpl h_data. simpl h_padding.
    assert (Hs : shorten (mkD (U ++ T) a) 7 = mkD U a).
    { unfold shorten, dlen; simpl. rewrite app_length, HT. replace (length U + 7 - 7) with (length U) by lia.
      rewrite firstn_app, firstn_all, Nat.sub_diag. simpl. rewrite app_nil_r. reflexivity. }
    rewrite Hs.
    assert (Hwf1 : wf (mkD U a)) by (rewrite <- Hs; apply wf_shorten; exact Hwf).
    destruct (align_length exact F i (mkD U a) 8) as [[ok s2] i2] eqn:Ea.
    pose proof (align_ge (length U) 8 ltac:(lia)) as Hge.
    assert (Hlt : align_value (length U) 8 < length U + 8).
    { unfold align_value. set (x := length U + 8 - 1).
      assert (H8 : 8 <> 0) by lia.
      pose proof (Nat.div_mod x 8 H8) as Hd. pose proof (Nat.mod_upper_bound x 8 H8) as Hm.
      set (q := x / 8) in *. set (r := x mod 8) in *. unfold x in Hd. lia. }
    destruct ok.
    - assert (H08 : 0 < 8) by lia.
      destruct (align_length_ok exact F _ _ _ _ _ Hwf1 H08 Ea) as (Hb & Hwf2 & Hal & Hc).
      unfold dlen in *; simpl in *.
      destruct Hc as [(_ & -> & Ha)|(Hgt & _ & _)].
      + destruct s2 as [b2 a2]; simpl in *. subst. f_equal. f_equal. unfold zeros. rewrite app_length, repeat_length. f_equal. lia.
      + exfalso. destruct Hwf as [Hw _]. unfold dlen in Hw; simpl in Hw. rewrite app_length, HT in Hw. unfold PAD in *. lia.
    - exfalso.
      destruct Hwf as [Hw Htl]. unfold dlen in Hw, Htl; simpl in Hw, Htl. rewrite app_length, HT in Hw, Htl.
      destruct (align_length_room exact F i (mkD U a) 8) as (s3 & E3); unfold dlen; simpl.
      + eapply too_long_mono; [|exact Htl]. lia.
      + exact Hge.
      + unfold PAD in *. lia.
      + rewrite E3 in Ea. discriminate.
  Qed.


  (* _dbus_header_set_field_basic as it is now (correct_header_padding on every path): a reported failure
     leaves header data and padding as they were, and the "couldn't pad header" assertion is not reached *)
  Theorem header_set_field_fail i h e :
    hdr_ok h -> edit_ok h e ->
    match header_set_field exact F true i h e with
    | Some (false, h', _) => d_bytes (h_data h') = d_bytes (h_data h) /\ h_padding h' = h_padding h
    | Some (true, _, _) => True
    | None => forall r, (match e with
                         | HAppend ops => write_basic_field exact F (snd (reserve_header_padding exact F i h)) (snd (fst (reserve_header_padding exact F i h))) ops
                         | HReplace n block at_ oldlen => set_basic_field exact F (snd (reserve_header_padding exact F i h)) (snd (fst (reserve_header_padding exact F i h))) n block at_ oldlen
                         end) = r -> fst (fst r) = true      (* only the success path can reach the assertion *)
    end.
  Proof.
    intros (Hwf & Hp7 & U & HU & Hal) Hed. unfold header_set_field.
    unfold reserve_header_padding at 1.
    destruct (lengthen exact F i (h_data h) (7 - h_padding h)) as [[ok s1] i1] eqn:El.
    destruct ok; cycle 1.
    { destruct (lengthen_fail exact F _ _ _ _ _ El) as [-> _]. simpl. auto. }
    destruct (lengthen_ok exact F _ _ _ _ _ Hwf El) as (Hb1 & Hwf1 & _).
    assert (Hlen1 : dlen s1 = length U + 7).
    { unfold dlen. rewrite Hb1, HU, !app_length. unfold zeros, junk. rewrite !repeat_length. lia. }
    assert (Hinner : forall ok2 h2 i2,
              (match e with
               | HAppend ops => write_basic_field exact F i1 (mkH s1 7) ops
               | HReplace n block at_ oldlen => set_basic_field exact F i1 (mkH s1 7) n block at_ oldlen
               end) = (ok2, h2, i2) -> ok2 = false ->
              d_bytes (h_data h2) = d_bytes s1 /\ h_padding h2 = 7 /\ wf (h_data h2)).
    { intros ok2 h2 i2 Hr ->. destruct e as [ops|n block at_ oldlen].
      - apply (write_basic_field_fail i1 (mkH s1 7) ops h2 i2); simpl; auto; [lia|].
        simpl in Hed. rewrite Hb1. replace (dlen s1 - 7) with (dlen (h_data h) - h_padding h); [exact Hed|].
        unfold dlen in *. rewrite HU, app_length in *. unfold zeros in *. rewrite repeat_length in *. lia.
      - apply set_basic_field_fail in Hr. subst h2. simpl. auto. }
    unfold reserve_header_padding. rewrite El. simpl fst. simpl snd.
    destruct (match e with
              | HAppend ops => write_basic_field exact F i1 (mkH s1 7) ops
              | HReplace n block at_ oldlen => set_basic_field exact F i1 (mkH s1 7) n block at_ oldlen
              end) as [[ok2 h2] i2] eqn:Er.
    destruct ok2.
    - destruct (correct_header_padding exact F i2 h2) as [[h3 i3]|]; [exact I|]. intros r <-. reflexivity.
    - destruct (Hinner false h2 i2 eq_refl eq_refl) as (Hb2 & Hp2 & Hwf2).
      destruct h2 as [[b2 a2] p2]. simpl in Hb2, Hp2, Hwf2. subst p2.
      assert (Hb2' : b2 = U ++ (zeros (h_padding h) ++ junk (7 - h_padding h))) by (rewrite Hb2, Hb1, HU, <- app_assoc; reflexivity).
      clear Hb2. subst b2.
      rewrite (correct_after_reserve i2 U _ a2 Hwf2) by (rewrite app_length; unfold zeros, junk; rewrite !repeat_length; lia).
      simpl. replace (align_value (length U) 8 - length U) with (h_padding h) by lia. split; [symmetry; exact HU|reflexivity].
  Qed.
End H.

(* ---- the statements are about THIS code: two variants that break them ----------------------------------- *)
(* _dbus_string_replace_len with the overwrite before the fallible insertion (seeded defect C14_2):
   "hello" with exactly fitting capacity, replace "el" by "ABCDEF", the realloc fails *)
Example replace_len_swapped_breaks :
  let s := mkD [104; 101; 108; 108; 111]%N 13 in
  exists s' i', replace_len_swapped true (N.eqb 0) 0 [65; 66; 67; 68; 69; 70]%N 0 6 s 1 2 = (false, s', i') /\ s' <> s /\
                replace_len true (N.eqb 0) 0 [65; 66; 67; 68; 69; 70]%N 0 6 s 1 2 = (false, s, i').
Proof. do 2 eexists. split; [vm_compute; reflexivity|]. split; [vm_compute; discriminate|vm_compute; reflexivity]. Qed.

(* _dbus_header_set_field_basic without correct_header_padding on the failure path (finding F14.2, as the
   code was before 813204b): a 16-byte header with 3 bytes of padding, the field append fails at once *)
Example header_set_unfixed_breaks :
  let h := mkH (mkD (repeat 1%N 13 ++ repeat 0%N 3) 24) 3 in
  exists h' i', header_set_field true (N.eqb 1) false 0 h (HAppend [OAllocSpace 8]) = Some (false, h', i') /\
                d_bytes (h_data h') = d_bytes (h_data h) ++ junk 4 /\
                exists h2 i2, header_set_field true (N.eqb 1) true 0 h (HAppend [OAllocSpace 8]) = Some (false, h2, i2) /\
                              d_bytes (h_data h2) = d_bytes (h_data h).
Proof. do 2 eexists. split; [vm_compute; reflexivity|]. split; [vm_compute; reflexivity|]. do 2 eexists. split; vm_compute; reflexivity. Qed.

(* ---- DBusMessage: the locked flag --------------------------------------------------------------------------- *)
Section Msg.
  Variable exact : bool.
  Variable F : N -> bool.

  Lemma with_locked_same m : with_locked (with_locked m true) (m_locked m) = m.
  Proof. destruct m; reflexivity. Qed.

  (* dbus_message_marshal: whatever happens, the message - its locked flag included - is what it was;
     on success the data is header followed by body *)
  Theorem msg_marshal_restores i m ok m' i' d :
    msg_marshal exact F true i m = (ok, m', i', d) ->
    m' = m /\ (ok = true -> d = d_bytes (h_data (m_header m)) ++ d_bytes (m_body m)).
  Proof.
    unfold msg_marshal, string_init. destruct (F i); [intros H; inversion H; subst; split; [reflexivity|discriminate]|].
    set (hb := d_bytes (h_data (m_header m))). set (bb := d_bytes (m_body m)).
    assert (Hwf0 : wf (mkD [] PAD)) by (unfold wf, dlen; simpl; split; [lia|reflexivity]).
    destruct (copy exact F (i + 1) hb 0 (length hb) (mkD [] PAD) 0) as [[ok1 t1] i2] eqn:E1.
    destruct ok1; [|intros H; inversion H; subst; rewrite with_locked_same; split; [reflexivity|discriminate]].
    assert (Hh0 : 0 <= dlen (mkD [] PAD)) by lia. assert (Hh1 : 0 <= length hb) by lia. assert (Hh2 : length hb <= length hb - 0) by lia.
    destruct (copy_ok exact F _ _ _ _ _ _ _ _ Hwf0 Hh0 Hh1 Hh2 E1) as (Hb1 & Hwf1 & _).
    destruct (copy exact F i2 bb 0 (length bb) t1 (dlen t1)) as [[ok2 t2] i3] eqn:E2.
    destruct ok2; [|intros H; inversion H; subst; rewrite with_locked_same; split; [reflexivity|discriminate]].
    assert (Hb0 : dlen t1 <= dlen t1) by lia. assert (Hb2 : 0 <= length bb) by lia. assert (Hb3 : length bb <= length bb - 0) by lia.
    destruct (copy_ok exact F _ _ _ _ _ _ _ _ Hwf1 Hb0 Hb2 Hb3 E2) as (Hbb & _ & _).
    destruct (F i3); intros H; inversion H; subst; rewrite with_locked_same; (split; [reflexivity|]); [discriminate|].
    intros _. rewrite Hbb, Hb1. unfold ins, dlen. simpl. rewrite Hb1. unfold ins. simpl.
    rewrite !firstn_all, !skipn_all. rewrite !app_nil_r. reflexivity.
  Qed.

  (* a header edit never touches the locked flag, whatever it returns *)
  Theorem msg_set_field_keeps_lock i m e ok m' i' :
    msg_set_field exact F i m e = Some (ok, m', i') -> m_locked m' = m_locked m /\ m_body m' = m_body m.
  Proof.
    unfold msg_set_field. destruct (m_locked m) eqn:El; [intros H; inversion H; subst; auto|].
    destruct (header_set_field exact F true i (m_header m) e) as [[[ok1 h1] i1]|]; [|discriminate].
    intros H; inversion H; subst. simpl. auto.
  Qed.
End Msg.

(* seeded defect C14_5 (the failure exits of dbus_message_marshal skip the restore): the body copy fails, the
   message stays locked, and the next setter is refused although nothing is wrong with memory any more *)
Example msg_marshal_unrestored_breaks :
  let m := mkM (mkH (mkD (repeat 1%N 16) 24) 0) (mkD (repeat 2%N 4) 12) false in
  exists m' i' d, msg_marshal true (N.eqb 2) false 0 m = (false, m', i', d) /\ m_locked m' = true /\
                  msg_set_field true (fun _ => false) 0 m' (HReplace 0 [9]%N 0 1) = Some (false, m', 0%N) /\
                  (exists i2 d2, msg_marshal true (N.eqb 2) true 0 m = (false, m, i2, d2)) /\
                  (exists m2 i2, msg_set_field true (fun _ => false) 0 m (HReplace 0 [9]%N 0 1) = Some (true, m2, i2)).
Proof.
  do 3 eexists. split; [vm_compute; reflexivity|]. split; [reflexivity|]. split; [vm_compute; reflexivity|].
  split; do 2 eexists; vm_compute; reflexivity.
Qed.
