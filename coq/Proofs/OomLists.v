(* List and record plumbing for the C14 proofs: the registry table, the
   connection table, remove_last / remove_first, and the "undo" equations of
   the hooked state changes. *)
From DV Require Import Spec.OomSpec.
Local Open Scope N_scope.

Lemma key_eqb_eq a b : key_eqb a b = true <-> a = b.
Proof.
  destruct a as [x|x], b as [y|y]; simpl; try (split; congruence).
  - rewrite N.eqb_eq. split; congruence.
  - rewrite bytes_eqb_eq. split; congruence.
Qed.

Lemma key_eqb_refl a : key_eqb a a = true.
Proof. apply key_eqb_eq; reflexivity. Qed.

Lemma pend_eqb_eq a b : pend_eqb a b = true <-> a = b.
Proof.
  destruct a as [a1 a2 a3], b as [b1 b2 b3]; unfold pend_eqb; simpl.
  rewrite !andb_true_iff, !N.eqb_eq. split; [intros [[-> ->] ->]; reflexivity | intros H; inversion H; auto].
Qed.

Lemma pend_eqb_refl a : pend_eqb a a = true.
Proof. apply pend_eqb_eq; reflexivity. Qed.

(* ---- record eta ------------------------------------------------------------------- *)
Lemma with_conns_id b : with_conns b (b_conns b) = b.
Proof. destruct b; reflexivity. Qed.
Lemma with_services_id b : with_services b (b_services b) = b.
Proof. destruct b; reflexivity. Qed.
Lemma with_pending_id b : with_pending b (b_pending b) = b.
Proof. destruct b; reflexivity. Qed.

(* ---- the registry table -------------------------------------------------------------- *)
Lemma set_queue_same ss k q : lookup ss k = Some q -> set_queue ss k q = ss.
Proof.
  induction ss as [|[k' q'] r IH]; simpl; [reflexivity|].
  destruct (key_eqb k k') eqn:E; intros H.
  - inversion H; subst. reflexivity.
  - rewrite IH; auto.
Qed.

Lemma set_queue_twice ss k q q' : set_queue (set_queue ss k q') k q = set_queue ss k q.
Proof.
  induction ss as [|[k' q0] r IH]; simpl; [reflexivity|].
  destruct (key_eqb k k') eqn:E; simpl; rewrite E; [reflexivity|]. rewrite IH; reflexivity.
Qed.

Lemma set_queue_undo ss k q q' : lookup ss k = Some q -> set_queue (set_queue ss k q') k q = ss.
Proof. intros H. rewrite set_queue_twice. apply set_queue_same; exact H. Qed.

Lemma lookup_set_queue ss k q q0 : lookup ss k = Some q0 -> lookup (set_queue ss k q) k = Some q.
Proof.
  induction ss as [|[k' q'] r IH]; simpl; [discriminate|].
  destruct (key_eqb k k') eqn:E; simpl; rewrite E; auto.
Qed.

Lemma lookup_app_new ss k q : lookup ss k = None -> lookup (ss ++ [(k, q)]) k = Some q.
Proof.
  induction ss as [|[k' q'] r IH]; simpl.
  - rewrite key_eqb_refl; reflexivity.
  - destruct (key_eqb k k'); [discriminate|auto].
Qed.

Lemma del_service_app ss k q : lookup ss k = None -> del_service (ss ++ [(k, q)]) k = ss.
Proof.
  induction ss as [|[k' q'] r IH]; simpl.
  - rewrite key_eqb_refl; reflexivity.
  - destruct (key_eqb k k'); [discriminate|]. intros H; rewrite IH; auto.
Qed.

(* ---- the connection table ----------------------------------------------------------------- *)
Lemma upd_conn_twice cs c f g :
  (forall x, c_id (f x) = c_id x) ->
  upd_conn (upd_conn cs c f) c g = upd_conn cs c (fun x => g (f x)).
Proof.
  intros Hid. induction cs as [|x r IH]; simpl; [reflexivity|].
  destruct (c_id x =? c) eqn:E; simpl.
  - rewrite Hid, E. reflexivity.
  - rewrite E, IH. reflexivity.
Qed.

Lemma upd_conn_id cs c f : (forall x, f x = x) -> upd_conn cs c f = cs.
Proof.
  intros Hf. induction cs as [|x r IH]; simpl; [reflexivity|].
  destruct (c_id x =? c); [rewrite Hf|rewrite IH]; reflexivity.
Qed.

Lemma upd_conn_ext cs c f g : (forall x, f x = g x) -> upd_conn cs c f = upd_conn cs c g.
Proof.
  intros H. induction cs as [|x r IH]; simpl; [reflexivity|].
  destruct (c_id x =? c); [rewrite H|rewrite IH]; reflexivity.
Qed.

(* ---- remove_last / remove_first ----------------------------------------------------------------- *)
Lemma existsb_app_last {A} (p : A -> bool) l x : p x = true -> existsb p (l ++ [x]) = true.
Proof. intros H. rewrite existsb_app. simpl. rewrite H, orb_true_r. reflexivity. Qed.

Lemma remove_last_app_hit {A} (p : A -> bool) l x : p x = true -> remove_last p (l ++ [x]) = l.
Proof.
  intros H. induction l as [|y r IH]; simpl.
  - rewrite H; reflexivity.
  - rewrite (existsb_app_last p r x H), IH. reflexivity.
Qed.

Lemma remove_last_second {A} (p : A -> bool) h o t :
  p o = true -> existsb p t = false -> remove_last p (h :: o :: t) = h :: t.
Proof.
  intros Ho Ht. simpl. rewrite Ho, Ht. simpl. reflexivity.
Qed.

Lemma find_owner_none_existsb q c : find_owner q c = None -> existsb (is_conn c) q = false.
Proof.
  induction q as [|o r IH]; simpl; [reflexivity|]. unfold is_conn at 1.
  destruct (o_conn o =? c); [discriminate|]. simpl; auto.
Qed.

Lemma own_del_add cs c k : own_del (own_add cs c k) c k = cs.
Proof.
  unfold own_del, own_add. rewrite upd_conn_twice by reflexivity.
  apply upd_conn_id. intros [i a o r]; simpl.
  rewrite (remove_last_app_hit (key_eqb k) o k (key_eqb_refl k)). reflexivity.
Qed.

Lemma rules_del_add cs c r : rules_del (rules_add cs c r) c r = cs.
Proof.
  unfold rules_del, rules_add. rewrite upd_conn_twice by reflexivity.
  apply upd_conn_id. intros [i a o rs]; simpl.
  rewrite (remove_last_app_hit (N.eqb r) rs r (N.eqb_refl r)). reflexivity.
Qed.

Lemma remove_first_perm ps p :
  existsb (pend_eqb p) ps = true -> Permutation (p :: remove_first (pend_eqb p) ps) ps.
Proof.
  induction ps as [|x r IH]; simpl; [discriminate|].
  destruct (pend_eqb p x) eqn:E.
  - apply pend_eqb_eq in E; subst. intros _. apply Permutation_refl.
  - simpl. intros H. eapply perm_trans; [apply perm_swap|]. apply perm_skip. apply IH; exact H.
Qed.

(* ---- flags ------------------------------------------------------------------------------------------ *)
Lemma same_flags_set o flags : same_flags o flags = true -> set_flags o flags = o.
Proof.
  destruct o as [c a d l]; unfold same_flags, set_flags; simpl.
  rewrite andb_true_iff. intros [H1 H2]. apply Bool.eqb_prop in H1, H2. subst. reflexivity.
Qed.

Lemma refresh_first_same q c flags o :
  find_owner q c = Some o -> set_flags o flags = o -> refresh_first q c flags = q.
Proof.
  induction q as [|x r IH]; simpl; [discriminate|].
  destruct (o_conn x =? c).
  - intros H; inversion H; subst. intros ->. reflexivity.
  - intros H1 H2. rewrite IH; auto.
Qed.

(* ---- invariants and lookups ---------------------------------------------------------------------------- *)
Lemma lookup_in ss k q : lookup ss k = Some q -> exists k', In (k', q) ss.
Proof.
  induction ss as [|[k' q'] r IH]; simpl; [discriminate|].
  destruct (key_eqb k k'); intros H.
  - inversion H; subst. eauto.
  - destruct (IH H) as (k2 & Hin). eauto.
Qed.

Lemma inv_lookup b k q : inv b -> lookup (b_services b) k = Some q -> good_queue q.
Proof.
  intros [Hinv _] Hl. destruct (lookup_in _ _ _ Hl) as (k' & Hin).
  rewrite Forall_forall in Hinv. apply (Hinv _ Hin).
Qed.

(* ---- names of the table --------------------------------------------------------------------------------- *)
Lemma keys_set_queue ss k q : map fst (set_queue ss k q) = map fst ss.
Proof.
  induction ss as [|[k' q'] r IH]; simpl; [reflexivity|]. destruct (key_eqb k k'); simpl; [reflexivity|rewrite IH; reflexivity].
Qed.

Lemma keys_del_incl ss k x : In x (map fst (del_service ss k)) -> In x (map fst ss).
Proof.
  induction ss as [|[k' q'] r IH]; simpl; [tauto|]. destruct (key_eqb k k'); simpl; [tauto|]. intros [H|H]; [left; exact H|right; exact (IH H)].
Qed.

Lemma keys_del_nodup ss k : NoDup (map fst ss) -> NoDup (map fst (del_service ss k)).
Proof.
  induction ss as [|[k' q'] r IH]; simpl; [auto|]. intros H; inversion H as [|? ? Hn Hr]; subst.
  destruct (key_eqb k k'); [exact Hr|]. simpl. constructor; [|exact (IH Hr)]. intros Hin. apply Hn. eapply keys_del_incl; exact Hin.
Qed.

Lemma lookup_none_notin ss k : lookup ss k = None -> ~ In k (map fst ss).
Proof.
  induction ss as [|[k' q'] r IH]; simpl; [tauto|]. destruct (key_eqb k k') eqn:E; [discriminate|].
  intros H [Hk|Hr]; [subst k'; rewrite key_eqb_refl in E; discriminate|exact (IH H Hr)].
Qed.

Lemma lookup_del_same ss k : NoDup (map fst ss) -> lookup (del_service ss k) k = None.
Proof.
  induction ss as [|[k' q'] r IH]; simpl; [reflexivity|]. intros H; inversion H as [|? ? Hn Hr]; subst.
  destruct (key_eqb k k') eqn:E.
  - apply key_eqb_eq in E. subst k'. destruct (lookup r k) eqn:El; [|reflexivity].
    exfalso. destruct (lookup_in _ _ _ El) as (k2 & Hin).
    (* the entry found has a key equal to k *)
    clear - Hn El. induction r as [|[k3 q3] r IH]; simpl in *; [discriminate|].
    destruct (key_eqb k k3) eqn:E3; [apply key_eqb_eq in E3; subst; apply Hn; left; reflexivity|].
    apply IH; [intros Hx; apply Hn; right; exact Hx|exact El].
  - simpl. rewrite E. exact (IH Hr).
Qed.

Lemma insert_at_slot ss k q : lookup ss k = Some q -> insert_at (slot_of ss k) (k, q) (del_service ss k) = ss.
Proof.
  induction ss as [|[k' q'] r IH]; simpl; [discriminate|]. destruct (key_eqb k k') eqn:E.
  - intros H; inversion H; subst. apply key_eqb_eq in E. subst. reflexivity.
  - intros H. simpl. rewrite (IH H). reflexivity.
Qed.

Lemma notin_existsb_conn c q : ~ In c (map o_conn q) -> existsb (is_conn c) q = false.
Proof.
  induction q as [|x r IH]; simpl; [reflexivity|]. intros H. unfold is_conn at 1.
  destruct (o_conn x =? c) eqn:E; [apply N.eqb_eq in E; exfalso; apply H; left; exact E|]. simpl. apply IH. intros Hx; apply H; right; exact Hx.
Qed.
