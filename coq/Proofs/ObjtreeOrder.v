(* C20 proofs, part 1: strcmp order, sorted child arrays, correctness of the
   binary search of find_subtree_recurse / unregister_and_free_path_recurse. *)
From DV Require Import Lib.Base ObjTree.ObjTree.
From Coq Require Import Sorted Arith.
Local Open Scope nat_scope.

(* ---- bytes_cmp is a strict total order -------------------------------------- *)
Lemma bytes_cmp_eq a b : bytes_cmp a b = Eq <-> a = b.
Proof.
  revert b; induction a as [|x a IH]; intros [|y b]; simpl; try (split; congruence).
  destruct (N.compare x y) eqn:E.
  - apply N.compare_eq_iff in E; subst. rewrite IH. split; congruence.
  - split; [discriminate|]. intros H; inversion H; subst. rewrite N.compare_refl in E; discriminate.
  - split; [discriminate|]. intros H; inversion H; subst. rewrite N.compare_refl in E; discriminate.
Qed.

Lemma bytes_cmp_refl a : bytes_cmp a a = Eq.
Proof. apply bytes_cmp_eq; reflexivity. Qed.

Lemma bytes_cmp_antisym a b : bytes_cmp b a = CompOpp (bytes_cmp a b).
Proof.
  revert b; induction a as [|x a IH]; intros [|y b]; simpl; auto.
  rewrite (N.compare_antisym x y). destruct (N.compare x y); simpl; auto.
Qed.

Definition blt (a b : bytes) : Prop := bytes_cmp a b = Lt.

Lemma blt_trans a b c : blt a b -> blt b c -> blt a c.
Proof.
  unfold blt. revert b c; induction a as [|x a IH]; intros [|y b] [|z c]; simpl; try congruence.
  destruct (N.compare x y) eqn:E1; try discriminate.
  - apply N.compare_eq_iff in E1; subst. destruct (N.compare y z); try congruence. apply IH.
  - intros _. destruct (N.compare y z) eqn:E2; try discriminate.
    + apply N.compare_eq_iff in E2; subst. rewrite E1; auto.
    + intros _. rewrite N.compare_lt_iff in *. replace (N.compare x z) with Lt; auto.
      symmetry; apply N.compare_lt_iff. eapply N.lt_trans; eauto.
Qed.

Lemma blt_irrefl a : ~ blt a a.
Proof. unfold blt; rewrite bytes_cmp_refl; discriminate. Qed.

Lemma blt_neq a b : blt a b -> a <> b.
Proof. intros H E; subst; exact (blt_irrefl _ H). Qed.

Lemma bytes_cmp_gt a b : bytes_cmp a b = Gt -> blt b a.
Proof. unfold blt; intros H. rewrite bytes_cmp_antisym, H; reflexivity. Qed.

(* ---- sorted child arrays ------------------------------------------------------ *)
Definition nlt (x y : node) : Prop := blt (nname x) (nname y).
Definition sorted (kids : list node) : Prop := StronglySorted nlt kids.

Lemma sorted_app l1 l2 :
  sorted (l1 ++ l2) <-> sorted l1 /\ sorted l2 /\ (forall a b, In a l1 -> In b l2 -> nlt a b).
Proof.
  unfold sorted. induction l1 as [|x l1 IH]; simpl.
  - split; [intros H; repeat split; auto; [constructor | intros ? ? []] | tauto].
  - split.
    + intros H; inversion H as [|? ? Hs Hf]; subst. apply IH in Hs. destruct Hs as (S1 & S2 & S3).
      rewrite Forall_app in Hf. destruct Hf as [F1 F2]. repeat split; auto.
      * constructor; auto.
      * intros a b [->|Ha] Hb; [rewrite Forall_forall in F2; auto | auto].
    + intros (S1 & S2 & S3). inversion S1 as [|? ? Hs Hf]; subst. constructor.
      * apply IH. repeat split; auto.
      * rewrite Forall_app; split; auto. rewrite Forall_forall; intros b Hb; apply S3; auto.
Qed.

Lemma sorted_cons_inv x l : sorted (x :: l) -> sorted l /\ Forall (nlt x) l.
Proof. intros H; inversion H; auto. Qed.

Lemma sorted_index kids x y a b :
  sorted kids -> x < y -> nth_error kids x = Some a -> nth_error kids y = Some b -> nlt a b.
Proof.
  intros S; revert x y; induction S as [|c l S IH F]; intros x y Hxy Ha Hb.
  - destruct x; discriminate.
  - destruct y as [|y]; [inversion Hxy|]. simpl in Hb. destruct x as [|x]; simpl in Ha.
    + inversion Ha; subst. rewrite Forall_forall in F. apply F. eapply nth_error_In; eauto.
    + eapply (IH x y); eauto. lia.
Qed.

(* ---- the binary search --------------------------------------------------------- *)
Lemma half_bounds i j : i < j -> i <= (i + j) / 2 /\ (i + j) / 2 < j.
Proof.
  intros H. split.
  - apply Nat.div_le_lower_bound; lia.
  - apply Nat.div_lt_upper_bound; lia.
Qed.

Lemma bsearch_eq fuel key kids i j :
  bsearch (S fuel) key kids i j =
  if i <? j then
    match nth_error kids ((i + j) / 2) with
    | None => BsFault
    | Some c => match bytes_cmp key (nname c) with
                | Eq => BsFound ((i + j) / 2) c
                | Lt => bsearch fuel key kids i ((i + j) / 2)
                | Gt => bsearch fuel key kids (S ((i + j) / 2)) j
                end
    end
  else BsMissing i.
Proof. reflexivity. Qed.

Lemma bsearch_spec fuel : forall key kids i j,
  sorted kids -> i <= j -> j <= length kids -> j - i < fuel ->
  (forall x c, x < i -> nth_error kids x = Some c -> blt (nname c) key) ->
  (forall x c, j <= x -> nth_error kids x = Some c -> blt key (nname c)) ->
  match bsearch fuel key kids i j with
  | BsFound k c => nth_error kids k = Some c /\ nname c = key
  | BsMissing m => m <= length kids /\
                   (forall x c, x < m -> nth_error kids x = Some c -> blt (nname c) key) /\
                   (forall x c, m <= x -> nth_error kids x = Some c -> blt key (nname c))
  | BsFault | BsFuel => False
  end.
Proof.
  induction fuel as [|fuel IH]; intros key kids i j S Hij Hj Hf Lo Hi; [lia|].
  rewrite bsearch_eq. destruct (i <? j) eqn:E.
  - apply Nat.ltb_lt in E. destruct (half_bounds i j E) as [B1 B2].
    set (k := (i + j) / 2) in *.
    destruct (nth_error kids k) as [c|] eqn:Ek.
    2:{ apply nth_error_None in Ek. lia. }
    destruct (bytes_cmp key (nname c)) eqn:Ec.
    + apply bytes_cmp_eq in Ec. auto.
    + apply IH; auto; try lia.
      intros x c' Hx Hc'. destruct (Nat.eq_dec x k) as [->|Hne].
      * rewrite Ek in Hc'; inversion Hc'; subst; exact Ec.
      * eapply blt_trans; [exact Ec|]. eapply (sorted_index kids k x); eauto. lia.
    + apply bytes_cmp_gt in Ec. apply IH; auto; try lia.
      intros x c' Hx Hc'. destruct (Nat.eq_dec x k) as [->|Hne].
      * rewrite Ek in Hc'; inversion Hc'; subst; exact Ec.
      * eapply blt_trans; [|exact Ec]. eapply (sorted_index kids x k); eauto. lia.
  - apply Nat.ltb_ge in E. assert (i = j) by lia; subst. repeat split; auto.
Qed.

Lemma nth_error_split {A} (l : list A) k c :
  nth_error l k = Some c -> exists l1 l2, l = l1 ++ c :: l2 /\ length l1 = k.
Proof.
  intros H. apply nth_error_split in H. destruct H as (l1 & l2 & -> & <-). eauto.
Qed.

Lemma Forall_firstn_index {A} (P : A -> Prop) l : forall m,
  (forall x c, x < m -> nth_error l x = Some c -> P c) -> Forall P (firstn m l).
Proof.
  induction l as [|a l IH]; intros [|m] H; simpl; constructor.
  - apply (H 0); [lia | reflexivity].
  - apply IH. intros x c Hx Hc. apply (H (S x)); [lia | exact Hc].
Qed.

Lemma Forall_skipn_index {A} (P : A -> Prop) l : forall m,
  (forall x c, m <= x -> nth_error l x = Some c -> P c) -> Forall P (skipn m l).
Proof.
  induction l as [|a l IH]; intros [|m] H; simpl; try constructor.
  - apply (H 0); [lia | reflexivity].
  - change (Forall P (skipn 0 l)). apply IH. intros x c Hx Hc. apply (H (S x)); [lia | exact Hc].
  - apply IH. intros x c Hx Hc. apply (H (S x)); [lia | exact Hc].
Qed.

(* split form of the result of the search over the whole array *)
Inductive child_search (key : bytes) (kids : list node) : bs_result -> Prop :=
| cs_found l1 c l2 : kids = l1 ++ c :: l2 -> nname c = key -> child_search key kids (BsFound (length l1) c)
| cs_missing l1 l2 : kids = l1 ++ l2 ->
    Forall (fun x => blt (nname x) key) l1 -> Forall (fun x => blt key (nname x)) l2 ->
    child_search key kids (BsMissing (length l1)).

Lemma find_child_spec key kids : sorted kids -> child_search key kids (find_child key kids).
Proof.
  intros Hs. unfold find_child.
  assert (Hhi : forall x c, length kids <= x -> nth_error kids x = Some c -> blt key (nname c)).
  { intros x c' Hx Hc. assert (x < length kids) by (apply nth_error_Some; congruence). lia. }
  assert (Hlo : forall x c, x < 0 -> nth_error kids x = Some c -> blt (nname c) key) by (intros; lia).
  pose proof (bsearch_spec (S (length kids)) key kids 0 (length kids) Hs (Nat.le_0_l _) (Nat.le_refl _)) as H.
  specialize (H ltac:(lia) Hlo Hhi).
  destruct (bsearch (S (length kids)) key kids 0 (length kids)) as [k c|m| |]; try contradiction.
  - destruct H as [H1 H2].
    destruct (nth_error_split _ _ _ H1) as (l1 & l2 & -> & <-). econstructor; eauto.
  - destruct H as (Hm & Lo & Hi).
    replace (BsMissing m) with (BsMissing (length (firstn m kids))) by (f_equal; apply firstn_length_le; auto).
    apply cs_missing with (l2 := skipn m kids); [symmetry; apply firstn_skipn | |].
    + apply Forall_firstn_index; auto.
    + apply Forall_skipn_index; auto.
Qed.

(* array edits on the split form *)
Lemma replace_at_split l1 c c' l2 : replace_at (length l1) c' (l1 ++ c :: l2) = l1 ++ c' :: l2.
Proof. unfold replace_at. induction l1 as [|a l1 IH]; simpl; [reflexivity | f_equal; exact IH]. Qed.

Lemma insert_at_split l1 c' l2 : insert_at (length l1) c' (l1 ++ l2) = l1 ++ c' :: l2.
Proof. unfold insert_at. induction l1 as [|a l1 IH]; simpl; [reflexivity | f_equal; exact IH]. Qed.

Lemma remove_at_split l1 c l2 : remove_at (length l1) (l1 ++ c :: l2) = l1 ++ l2.
Proof. unfold remove_at. induction l1 as [|a l1 IH]; simpl; [reflexivity | f_equal; exact IH]. Qed.

Lemma nth_error_middle {A} (l1 : list A) c l2 : nth_error (l1 ++ c :: l2) (length l1) = Some c.
Proof. rewrite nth_error_app2, Nat.sub_diag by lia. reflexivity. Qed.
