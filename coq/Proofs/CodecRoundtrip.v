(* Round trip of the specification codec: decoding the canonical encoding of a
   well-formed value gives back the value, the exact end position and the rest
   of the buffer (for every byte order, position and trailing bytes). *)
From DV Require Import Lib.Base Spec.Codec Wire.HeaderEdit Proofs.CodecBasics Proofs.CodecWf Proofs.CodecDecEq.
From Coq Require Import ZArith ZifyBool ZifyN ZifyNat Arith.
Local Open Scope N_scope.

(* ---- well-formed values (position dependent only through the array size limit) ---- *)
Definition is_basic_val (v : val) : bool := match v with VNum _ _ | VStr _ _ => true | _ => false end.

(* the signature of a variant's contained type must print and parse back to that type, as a single
   complete type within the limits (true of every valid type; checked here per value) *)
Definition sig_roundtrips (t : ty) : bool :=
  (nlen (print_ty t) <? 256) && spec_single_signature (print_ty t) &&
  match parse_sig (print_ty t) with Some [t'] => ty_eqb t' t | _ => false end.

Fixpoint wfb (le : bool) (depth pos : N) (v : val) {struct v} : bool :=
  let wfs := (fix wfs (vs : list val) (depth pos : N) : bool :=
                match vs with
                | [] => true
                | x :: r => wfb le depth pos x && wfs r depth (pos + nlen (enc le x pos))
                end) in
  (depth <=? max_value_depth) &&
  match v with
  | VNum c n => match fixed_size c with
                | Some sz => (n <? 256 ^ sz) && (negb (c =? 98) || (n <=? 1))
                | None => false
                end
  | VStr c s => if c =? 115 then spec_utf8 s && (nlen s <? 4294967296)
                else if c =? 111 then spec_path s && (nlen s <? 4294967296)
                else if c =? 103 then spec_signature s
                else false
  | VArr et vs =>
      let start := pos + pad_amount pos 4 + 4 + pad_amount (pos + pad_amount pos 4 + 4) (spec_align et) in
      forallb (fun x => ty_eqb (ty_of_val x) et) vs &&
      (nlen (encs le vs start) <=? max_array) &&
      wfs vs (depth + 1) start
  | VStruct fs => negb (match fs with [] => true | _ => false end) && wfs fs (depth + 1) (pos + pad_amount pos 8)
  | VDictE k x => is_basic_val k && wfs [k; x] (depth + 1) (pos + pad_amount pos 8)
  | VVar t x => ty_eqb (ty_of_val x) t && sig_roundtrips t && wfb le (depth + 1) (pos + (nlen (print_ty t) + 2)) x
  end.

Fixpoint wfsb (le : bool) (vs : list val) (depth pos : N) : bool :=
  match vs with
  | [] => true
  | x :: r => wfb le depth pos x && wfsb le r depth (pos + nlen (enc le x pos))
  end.

Lemma wfs_inner le : forall vs depth pos,
  (fix wfs (vs : list val) (depth pos : N) : bool :=
     match vs with
     | [] => true
     | x :: r => wfb le depth pos x && wfs r depth (pos + nlen (enc le x pos))
     end) vs depth pos = wfsb le vs depth pos.
Proof. induction vs as [|x r IH]; intros; [reflexivity|]. cbn [wfsb]. rewrite IH. reflexivity. Qed.

Definition arr_start (pos : N) (et : ty) : N :=
  pos + pad_amount pos 4 + 4 + pad_amount (pos + pad_amount pos 4 + 4) (spec_align et).

Lemma wfb_arr le depth pos et vs :
  wfb le depth pos (VArr et vs) =
  (depth <=? max_value_depth) &&
  (forallb (fun x => ty_eqb (ty_of_val x) et) vs && (nlen (encs le vs (arr_start pos et)) <=? max_array) && wfsb le vs (depth + 1) (arr_start pos et)).
Proof. cbn [wfb]. rewrite (wfs_inner le vs). reflexivity. Qed.

Lemma wfb_struct le depth pos fs :
  wfb le depth pos (VStruct fs) =
  (depth <=? max_value_depth) && (negb (match fs with [] => true | _ => false end) && wfsb le fs (depth + 1) (pos + pad_amount pos 8)).
Proof. cbn [wfb]. rewrite (wfs_inner le fs). reflexivity. Qed.

Lemma wfb_dict le depth pos k x :
  wfb le depth pos (VDictE k x) =
  (depth <=? max_value_depth) && (is_basic_val k && wfsb le [k; x] (depth + 1) (pos + pad_amount pos 8)).
Proof. cbn [wfb]. rewrite (wfs_inner le [k; x]). reflexivity. Qed.

(* nesting height, for the decoder's fuel *)
Fixpoint height (v : val) : nat :=
  match v with
  | VNum _ _ | VStr _ _ => 0
  | VArr _ vs => S (fold_right (fun x a => Nat.max (height x) a) 0%nat vs)
  | VStruct fs => S (fold_right (fun x a => Nat.max (height x) a) 0%nat fs)
  | VDictE k x => S (Nat.max (height k) (height x))
  | VVar _ x => S (height x)
  end.
Definition heights (vs : list val) : nat := fold_right (fun x a => Nat.max (height x) a) 0%nat vs.

(* ---- a well-formed value occupies at least one byte --------------------------- *)
Lemma fixed_size_pos c sz : fixed_size c = Some sz -> 1 <= sz /\ sz <= 8.
Proof.
  unfold fixed_size.
  destruct (c =? 121); [intros H; inversion H; lia|].
  destruct ((c =? 110) || (c =? 113)); [intros H; inversion H; lia|].
  destruct ((c =? 98) || (c =? 105) || (c =? 117) || (c =? 104)); [intros H; inversion H; lia|].
  destruct ((c =? 120) || (c =? 116) || (c =? 100)); [intros H; inversion H; lia|discriminate].
Qed.

Lemma nlen_pos_nonempty {A} (l : list A) : 0 < nlen l -> l <> [].
Proof. intros H E. subst l. cbn in H. lia. Qed.

Lemma enc_nonempty le : forall v depth pos, wfb le depth pos v = true -> 0 < nlen (enc le v pos).
Proof.
  induction v as [c n|c s|et vs IH|fs IH|k x IHk IHx|t x IHx] using val_ind'; intros depth pos H;
    [cbn [wfb] in H | cbn [wfb] in H | rewrite wfb_arr in H | rewrite wfb_struct in H | rewrite wfb_dict in H | cbn [wfb] in H];
    apply andb_true_iff in H; destruct H as [_ H].
  - rewrite enc_num. destruct (fixed_size c) as [sz|] eqn:Hsz; [|discriminate].
    apply fixed_size_pos in Hsz. rewrite nlen_app, nlen_zeros, bytes_of_length. lia.
  - rewrite enc_str. destruct (c =? 103).
    + rewrite nlen_cons. lia.
    + rewrite !nlen_app, nlen_zeros, bytes_of_length. lia.
  - rewrite enc_arr. cbv zeta. rewrite !nlen_app, nlen_zeros, bytes_of_length. lia.
  - rewrite enc_struct. destruct fs as [|f fs']; [discriminate|]. cbn [negb andb wfsb] in H.
    apply andb_true_iff in H. destruct H as [Hf _]. inversion IH as [|? ? Pf _]; subst.
    specialize (Pf _ _ Hf). cbn [encs]. rewrite !nlen_app. lia.
  - rewrite enc_dict. apply andb_true_iff in H. destruct H as [_ H]. cbn [wfsb] in H.
    apply andb_true_iff in H. destruct H as [Hk _]. specialize (IHk _ _ Hk). cbn [encs]. rewrite !nlen_app. lia.
  - rewrite enc_var. cbv zeta. rewrite nlen_app, nlen_cons. lia.
Qed.

(* ---- the round trip ------------------------------------------------------------ *)
Ltac pos_eq := match goal with |- Some (_, ?a, _) = Some (_, ?b, _) => replace b with a; [reflexivity|] end.

Definition RT (le : bool) (v : val) : Prop :=
  forall d depth pos rest, wfb le depth pos v = true -> (height v < d)%nat ->
    dec le d (ty_of_val v) depth pos (enc le v pos ++ rest) = Some (v, pos + nlen (enc le v pos), rest).

Lemma heights_cons x r : heights (x :: r) = Nat.max (height x) (heights r).
Proof. reflexivity. Qed.

Lemma decs_encs le : forall vs, Forall (RT le) vs ->
  forall d depth pos rest, wfsb le vs depth pos = true -> (heights vs < d)%nat ->
    decs le d (map ty_of_val vs) depth pos (encs le vs pos ++ rest) = Some (vs, pos + nlen (encs le vs pos), rest).
Proof.
  induction 1 as [|x r Hx Hr IH]; intros d depth pos rest Hw Hh.
  - cbn. rewrite N.add_0_r. reflexivity.
  - cbn [wfsb] in Hw. apply andb_true_iff in Hw. destruct Hw as [Hwx Hwr].
    rewrite heights_cons in Hh.
    cbn [map decs encs]. rewrite <- app_assoc.
    rewrite (Hx d depth pos (encs le r (pos + nlen (enc le x pos)) ++ rest) Hwx) by lia.
    rewrite (IH d depth (pos + nlen (enc le x pos)) rest Hwr) by lia.
    rewrite nlen_app. pos_eq. lia.
Qed.

Lemma elems_encs le et : forall vs, Forall (RT le) vs ->
  forall d depth n pos, wfsb le vs (depth + 1) pos = true -> forallb (fun x => ty_eqb (ty_of_val x) et) vs = true ->
    (heights vs < d)%nat -> (length (encs le vs pos) < n)%nat ->
    dec_elems le d et depth n pos (encs le vs pos) = Some vs.
Proof.
  induction 1 as [|x r Hx Hr IH]; intros d depth n pos Hw Ht Hh Hn.
  - destruct n as [|n]; [lia|]. reflexivity.
  - cbn [wfsb] in Hw. apply andb_true_iff in Hw. destruct Hw as [Hwx Hwr].
    cbn [forallb] in Ht. apply andb_true_iff in Ht. destruct Ht as [Htx Htr]. apply ty_eqb_eq in Htx.
    rewrite heights_cons in Hh.
    destruct n as [|n]; [lia|]. cbn [dec_elems encs].
    pose proof (enc_nonempty le x _ _ Hwx) as Hne.
    destruct (enc le x pos ++ encs le r (pos + nlen (enc le x pos))) as [|b0 tl] eqn:E.
    { apply (f_equal nlen) in E. rewrite nlen_app, nlen_nil in E. lia. }
    rewrite <- E. subst et.
    rewrite (Hx d (depth + 1) pos (encs le r (pos + nlen (enc le x pos))) Hwx) by lia.
    rewrite (IH d depth n (pos + nlen (enc le x pos)) Hwr Htr).
    + reflexivity.
    + lia.
    + cbn [encs] in Hn. rewrite app_length in Hn. unfold nlen in Hne. lia.
Qed.

Lemma depth_ok depth : (depth <=? max_value_depth) = true -> (max_value_depth <? depth) = false.
Proof. lia. Qed.

Theorem dec_enc le : forall v, RT le v.
Proof.
  induction v as [c n|c s|et vs IH|fs IH|k x IHk IHx|t x IHx] using val_ind'; intros d depth pos rest Hw Hh.
  - (* fixed-size *)
    cbn [wfb] in Hw. apply andb_true_iff in Hw. destruct Hw as [Hd Hw].
    destruct (fixed_size c) as [sz|] eqn:Hsz; [|discriminate].
    apply andb_true_iff in Hw. destruct Hw as [Hn Hb].
    destruct d as [|d]; [lia|]. cbn [ty_of_val]. rewrite (dec_fixed le d c sz) by exact Hsz.
    rewrite (depth_ok _ Hd). rewrite enc_num, Hsz. rewrite <- app_assoc. rewrite skip_pad_zeros.
    pose proof (fixed_size_pos _ _ Hsz) as Hp.
    rewrite take_app by (rewrite bytes_of_length; lia). cbv zeta.
    rewrite num_of_bytes by (rewrite N2Nat.id; lia).
    replace ((c =? 98) && negb ((n =? 0) || (n =? 1))) with false by lia.
    rewrite nlen_app, nlen_zeros, bytes_of_length. pos_eq. lia.
  - (* string-like *)
    cbn [wfb] in Hw. apply andb_true_iff in Hw. destruct Hw as [Hd Hw].
    destruct d as [|d]; [lia|]. cbn [ty_of_val]. rewrite enc_str.
    destruct (c =? 115) eqn:E115; [|destruct (c =? 111) eqn:E111; [|destruct (c =? 103) eqn:E103; [|discriminate]]].
    + apply andb_true_iff in Hw. destruct Hw as [Hv Hl].
      replace (c =? 103) with false by lia.
      rewrite (dec_string le d c) by (left; lia). rewrite (depth_ok _ Hd).
      rewrite <- app_assoc. rewrite skip_pad_zeros. rewrite <- app_assoc.
      rewrite take_app by apply (bytes_of_length le 4). cbv zeta.
      rewrite num_of_bytes by (change (256 ^ N.of_nat 4) with 4294967296; lia).
      rewrite <- app_assoc. rewrite take_app by reflexivity. cbn [app]. rewrite E115, Hv.
      rewrite !nlen_app, nlen_zeros. rewrite (bytes_of_length le 4). pos_eq. unfold nlen. cbn [length]. lia.
    + apply andb_true_iff in Hw. destruct Hw as [Hv Hl].
      replace (c =? 103) with false by lia.
      rewrite (dec_string le d c) by (right; lia). rewrite (depth_ok _ Hd).
      rewrite <- app_assoc. rewrite skip_pad_zeros. rewrite <- app_assoc.
      rewrite take_app by apply (bytes_of_length le 4). cbv zeta.
      rewrite num_of_bytes by (change (256 ^ N.of_nat 4) with 4294967296; lia).
      rewrite <- app_assoc. rewrite take_app by reflexivity. cbn [app]. rewrite E115, Hv.
      rewrite !nlen_app, nlen_zeros. rewrite (bytes_of_length le 4). pos_eq. unfold nlen. cbn [length]. lia.
    + apply N.eqb_eq in E103. subst c. rewrite dec_signature. rewrite (depth_ok _ Hd).
      cbn [app]. rewrite <- app_assoc. rewrite take_app by reflexivity. cbn [app]. rewrite Hw.
      rewrite nlen_cons, nlen_app. pos_eq. unfold nlen. cbn [length]. lia.
  - (* array *)
    rewrite wfb_arr in Hw. apply andb_true_iff in Hw. destruct Hw as [Hd Hw].
    apply andb_true_iff in Hw. destruct Hw as [Hw Hws]. apply andb_true_iff in Hw. destruct Hw as [Hty Hsz].
    destruct d as [|d]; [lia|]. cbn [ty_of_val]. rewrite dec_array. rewrite (depth_ok _ Hd).
    rewrite enc_arr. cbv zeta. fold (arr_start pos et).
    set (payload := encs le vs (arr_start pos et)) in *.
    rewrite <- app_assoc. rewrite skip_pad_zeros. rewrite <- app_assoc.
    rewrite take_app by apply (bytes_of_length le 4).
    rewrite num_of_bytes by (change (256 ^ N.of_nat 4) with 4294967296; unfold max_array in Hsz; lia).
    replace (max_array <? nlen payload) with false by lia.
    rewrite <- app_assoc. rewrite skip_pad_zeros.
    rewrite take_app by reflexivity.
    change (pos + pad_amount pos 4 + 4 + pad_amount (pos + pad_amount pos 4 + 4) (spec_align et)) with (arr_start pos et).
    cbn [height] in Hh.
    subst payload.
    rewrite (elems_encs le et vs IH d depth (S (length (encs le vs (arr_start pos et)))) (arr_start pos et) Hws Hty); [|fold (heights vs) in Hh; lia|lia].
    rewrite !nlen_app, !nlen_zeros. rewrite (bytes_of_length le 4). pos_eq. unfold arr_start. lia.
  - (* struct *)
    rewrite wfb_struct in Hw. apply andb_true_iff in Hw. destruct Hw as [Hd Hw].
    apply andb_true_iff in Hw. destruct Hw as [_ Hws].
    destruct d as [|d]; [lia|]. cbn [ty_of_val]. rewrite dec_struct. rewrite (depth_ok _ Hd).
    rewrite enc_struct. rewrite <- app_assoc. rewrite skip_pad_zeros.
    cbn [height] in Hh. fold (heights fs) in Hh.
    rewrite (decs_encs le fs IH d (depth + 1) _ rest Hws) by lia.
    rewrite nlen_app, nlen_zeros. pos_eq. lia.
  - (* dict entry *)
    rewrite wfb_dict in Hw. apply andb_true_iff in Hw. destruct Hw as [Hd Hw].
    apply andb_true_iff in Hw. destruct Hw as [Hk Hws].
    destruct d as [|d]; [lia|]. cbn [ty_of_val]. rewrite dec_dict. rewrite (depth_ok _ Hd).
    rewrite enc_dict. rewrite <- app_assoc. rewrite skip_pad_zeros.
    cbn [height] in Hh.
    assert (Hkt : TBasic (match k with VNum c _ => c | VStr c _ => c | _ => 0 end) = ty_of_val k).
    { destruct k; try discriminate; reflexivity. }
    rewrite Hkt.
    change [ty_of_val k; ty_of_val x] with (map ty_of_val [k; x]).
    rewrite (decs_encs le [k; x] (Forall_cons k IHk (Forall_cons x IHx (Forall_nil _))) d (depth + 1) _ rest Hws)
      by (cbn [heights fold_right]; lia).
    rewrite nlen_app, nlen_zeros. pos_eq. lia.
  - (* variant *)
    cbn [wfb] in Hw. apply andb_true_iff in Hw. destruct Hw as [Hd Hw].
    apply andb_true_iff in Hw. destruct Hw as [Hw Hwx]. apply andb_true_iff in Hw. destruct Hw as [Hty Hsig].
    apply ty_eqb_eq in Hty.
    unfold sig_roundtrips in Hsig. apply andb_true_iff in Hsig. destruct Hsig as [Hsig Hparse].
    apply andb_true_iff in Hsig. destruct Hsig as [Hlen Hsingle].
    destruct (parse_sig (print_ty t)) as [[|t' [|? ?]]|] eqn:Hp; try discriminate. apply ty_eqb_eq in Hparse. subst t'.
    destruct d as [|d]; [lia|]. cbn [ty_of_val]. rewrite dec_variant. rewrite (depth_ok _ Hd).
    rewrite enc_var. cbv zeta. cbn [app]. rewrite <- !app_assoc. cbn [app]. rewrite take_app by reflexivity.
    rewrite Hsingle, Hp.
    assert (Hpos : pos + 1 + nlen (print_ty t) + 1 = pos + nlen (nlen (print_ty t) :: print_ty t ++ [0])).
    { rewrite nlen_cons, nlen_app. change (nlen [0]) with 1. lia. }
    rewrite Hpos. cbn [height] in Hh.
    assert (Hpos2 : pos + nlen (nlen (print_ty t) :: print_ty t ++ [0]) = pos + (nlen (print_ty t) + 2)).
    { rewrite nlen_cons, nlen_app. change (nlen [0]) with 1. lia. }
    rewrite <- Hty at 1.
    rewrite (IHx d (depth + 1) (pos + nlen (nlen (print_ty t) :: print_ty t ++ [0])) rest) by (rewrite ?Hpos2; assumption || lia).
    pos_eq. unfold nlen. cbn [length]. rewrite !app_length. cbn [length]. lia.
Qed.

(* ---- fuel: a well-formed value is at most 65 - depth levels high ------------------ *)
Lemma wfsb_heights le : forall vs depth pos,
  Forall (fun v => forall depth pos, wfb le depth pos v = true -> N.of_nat (height v) + depth <= 65) vs ->
  wfsb le vs depth pos = true -> vs <> [] -> N.of_nat (heights vs) + depth <= 65.
Proof.
  induction vs as [|x r IH]; intros depth pos HF Hw Hne; [congruence|].
  inversion HF as [|? ? Hx Hr]; subst. cbn [wfsb] in Hw. apply andb_true_iff in Hw. destruct Hw as [Hwx Hwr].
  rewrite heights_cons. specialize (Hx _ _ Hwx).
  destruct r as [|y r'].
  - cbn [heights fold_right]. lia.
  - specialize (IH depth _ Hr Hwr ltac:(discriminate)). lia.
Qed.

Lemma wfb_height le : forall v depth pos, wfb le depth pos v = true -> N.of_nat (height v) + depth <= 65.
Proof.
  induction v as [c n|c s|et vs IH|fs IH|k x IHk IHx|t x IHx] using val_ind'; intros depth pos H;
    [cbn [wfb] in H | cbn [wfb] in H | rewrite wfb_arr in H | rewrite wfb_struct in H | rewrite wfb_dict in H | cbn [wfb] in H];
    apply andb_true_iff in H; destruct H as [Hd H]; unfold max_value_depth in Hd.
  - cbn [height]. lia.
  - cbn [height]. lia.
  - apply andb_true_iff in H. destruct H as [_ Hws]. cbn [height]. fold (heights vs).
    destruct vs as [|v0 vs']; [cbn [heights fold_right]; lia|].
    pose proof (wfsb_heights le (v0 :: vs') (depth + 1) _ IH Hws ltac:(discriminate)). lia.
  - apply andb_true_iff in H. destruct H as [_ Hws]. cbn [height]. fold (heights fs).
    destruct fs as [|v0 fs']; [cbn [heights fold_right]; lia|].
    pose proof (wfsb_heights le (v0 :: fs') (depth + 1) _ IH Hws ltac:(discriminate)). lia.
  - apply andb_true_iff in H. destruct H as [_ Hws]. cbn [height].
    pose proof (wfsb_heights le [k; x] (depth + 1) _ (Forall_cons k IHk (Forall_cons x IHx (Forall_nil _))) Hws ltac:(discriminate)) as Hh.
    cbn [heights fold_right] in Hh. lia.
  - apply andb_true_iff in H. destruct H as [_ Hwx]. specialize (IHx _ _ Hwx). cbn [height]. lia.
Qed.

(* ---- a sequence of top-level values (a message body) ------------------------------ *)
Theorem dec_seq_encs le : forall vs pos rest, wfsb le vs 0 pos = true ->
  dec_seq le (map ty_of_val vs) pos (encs le vs pos ++ rest) = Some (vs, pos + nlen (encs le vs pos), rest).
Proof.
  induction vs as [|x r IH]; intros pos rest Hw.
  - cbn. rewrite N.add_0_r. reflexivity.
  - cbn [wfsb] in Hw. apply andb_true_iff in Hw. destruct Hw as [Hwx Hwr].
    cbn [map dec_seq encs]. rewrite <- app_assoc.
    pose proof (wfb_height le x 0 pos Hwx) as Hh.
    rewrite (dec_enc le x DEC_FUEL 0 pos _ Hwx) by (unfold DEC_FUEL; lia).
    rewrite (IH _ rest Hwr). rewrite nlen_app. pos_eq. lia.
Qed.
