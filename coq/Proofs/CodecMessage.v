(* Message-level round trip: the specification decoder applied to the canonical
   encoding of a well-formed abstract message returns exactly that message and
   its total length. *)
From DV Require Import Lib.Base Spec.Codec Wire.HeaderEdit Proofs.CodecBasics Proofs.CodecWf Proofs.CodecDecEq Proofs.CodecRoundtrip.
From Coq Require Import ZArith ZifyBool ZifyN ZifyNat Arith.
Local Open Scope N_scope.

Definition fields_val (le : bool) (fs : list sfield) : val := VArr (TStruct [TBasic 121; TVariant]) (map (enc_field le) fs).

Definition sig_of_fields (fs : list sfield) : bytes :=
  match find (fun f => sf_code f =? 8) fs with
  | Some (mkSField _ _ (VStr _ s)) => s
  | _ => []
  end.

(* well-formed abstract message *)
Definition wf_msg (m : smsg) : bool :=
  let le := s_le m in
  negb (s_type m =? 0) && (s_type m <? 256) && (s_flags m <? 256) &&
  negb (s_serial m =? 0) && (s_serial m <? 4294967296) &&
  wfb le 0 12 (fields_val le (s_fields m)) &&
  fields_ok [] (s_fields m) && mandatory_ok (s_type m) (s_fields m) &&
  bytes_eqb (s_sig m) (sig_of_fields (s_fields m)) &&
  spec_signature (s_sig m) &&
  match parse_sig (s_sig m) with
  | Some tys => (fix eq (a b : list ty) : bool :=
                   match a, b with [], [] => true | x :: a', y :: b' => ty_eqb x y && eq a' b' | _, _ => false end)
                  tys (map ty_of_val (s_body m))
  | None => false
  end &&
  wfsb le (s_body m) 0 0 &&
  (nlen (encs le (s_body m) 0) <=? max_message) &&
  (16 + nlen (encs le (map (enc_field le) (s_fields m)) 16) + pad_amount (16 + nlen (encs le (map (enc_field le) (s_fields m)) 16)) 8
     + nlen (encs le (s_body m) 0) <=? max_message).

Lemma tys_eq_list : forall a b,
  (fix eq (a b : list ty) : bool :=
     match a, b with [], [] => true | x :: a', y :: b' => ty_eqb x y && eq a' b' | _, _ => false end) a b = true -> a = b.
Proof.
  induction a as [|x a IH]; intros [|y b] H; try discriminate; [reflexivity|].
  apply andb_true_iff in H. destruct H as [H1 H2]. f_equal; [apply ty_eqb_eq; exact H1 | apply IH; exact H2].
Qed.

Lemma to_sfields_enc le : forall fs, to_sfields (map (enc_field le) fs) = Some fs.
Proof.
  induction fs as [|f r IH]; [reflexivity|]. cbn [map to_sfields]. rewrite IH. destruct f. reflexivity.
Qed.

Lemma firstn_app_exact {A} (a b : list A) n : length a = n -> firstn n (a ++ b) = a.
Proof. intros <-. rewrite firstn_app, Nat.sub_diag, firstn_all. cbn. apply app_nil_r. Qed.
Lemma skipn_app_exact {A} (a b : list A) n : length a = n -> skipn n (a ++ b) = b.
Proof. intros <-. rewrite skipn_app, Nat.sub_diag, skipn_all. reflexivity. Qed.

Lemma nlen_len {A} (l : list A) : N.to_nat (nlen l) = length l.
Proof. unfold nlen. lia. Qed.

Lemma bytes_of_len4 le v : length (bytes_of le 4 v) = 4%nat.
Proof. pose proof (bytes_of_length le 4 v) as H. unfold nlen in H. lia. Qed.

Theorem message_roundtrip : forall m, wf_msg m = true ->
  spec_decode_message (spec_encode_message m) = Some (m, nlen (spec_encode_message m)).
Proof.
  intros m H. unfold wf_msg in H.
  apply andb_true_iff in H; destruct H as [H W].      (* total size *)
  apply andb_true_iff in H; destruct H as [H W0].     (* body size *)
  apply andb_true_iff in H; destruct H as [H W1].     (* body well-formed *)
  apply andb_true_iff in H; destruct H as [H W2].     (* signature parses to the body's types *)
  apply andb_true_iff in H; destruct H as [H W3].     (* spec_signature *)
  apply andb_true_iff in H; destruct H as [H W4].     (* s_sig = SIGNATURE field *)
  apply andb_true_iff in H; destruct H as [H W5].     (* mandatory fields *)
  apply andb_true_iff in H; destruct H as [H W6].     (* fields_ok *)
  apply andb_true_iff in H; destruct H as [H W7].     (* field array well-formed *)
  apply andb_true_iff in H; destruct H as [H W8].     (* serial < 2^32 *)
  apply andb_true_iff in H; destruct H as [H W9].     (* serial <> 0 *)
  apply andb_true_iff in H; destruct H as [H W10].    (* flags *)
  apply andb_true_iff in H; destruct H as [Wtype0 W11].
  destruct m as [le mt fl serial fs sg body]. cbn [s_le s_type s_flags s_serial s_fields s_sig s_body] in *.
  apply bytes_eqb_eq in W4.
  destruct (parse_sig sg) as [tys|] eqn:Hparse; [|discriminate]. apply tys_eq_list in W2. subst tys.
  unfold spec_encode_message. cbn [s_le s_type s_flags s_serial s_fields s_sig s_body]. rewrite enc_seq_encs.
  set (bodyb := encs le body 0) in *.
  fold (fields_val le fs).
  (* shape of the encoded field array at position 12 *)
  assert (Hfarr : enc le (fields_val le fs) 12 = bytes_of le 4 (nlen (encs le (map (enc_field le) fs) 16)) ++ encs le (map (enc_field le) fs) 16).
  { unfold fields_val. rewrite enc_arr. cbv zeta.
    change (pad_amount 12 4) with 0. change (12 + 0 + 4) with 16. change (spec_align (TStruct [TBasic 121; TVariant])) with 8.
    change (pad_amount 16 8) with 0. change (16 + 0) with 16. cbn [zeros repeat N.to_nat app]. reflexivity. }
  set (payload := encs le (map (enc_field le) fs) 16) in *.
  set (flen := nlen payload) in *.
  rewrite Hfarr.
  (* sizes *)
  assert (Hflen : flen <= max_array).
  { pose proof W7 as W7c. clear - W7c payload flen. rename W7c into W7. unfold fields_val in W7. rewrite wfb_arr in W7. apply andb_true_iff in W7. destruct W7 as [_ W7]. apply andb_true_iff in W7. destruct W7 as [W7 _].
    apply andb_true_iff in W7. destruct W7 as [_ W7]. unfold arr_start in W7.
    change (pad_amount 12 4) with 0 in W7. change (12 + 0 + 4) with 16 in W7. change (spec_align (TStruct [TBasic 121; TVariant])) with 8 in W7.
    change (pad_amount 16 8) with 0 in W7. change (16 + 0) with 16 in W7. fold payload in W7. fold flen in W7. lia. }
  unfold max_array, max_message in *.
  set (hdrlen := nlen (([if le then 108 else 66; mt; fl; 1] ++ bytes_of le 4 (nlen bodyb) ++ bytes_of le 4 serial) ++ bytes_of le 4 flen ++ payload)).
  assert (Hhdr : hdrlen = 16 + flen).
  { subst hdrlen. rewrite !nlen_app, !(bytes_of_length le 4). cbn [nlen length]. fold flen. unfold nlen at 1. cbn [length]. lia. }
  rewrite Hhdr.
  (* start decoding *)
  unfold spec_decode_message. unfold max_message. cbn [app].
  assert (Hle : ((if le then 108 else 66) =? 108) = le) by (destruct le; reflexivity).
  replace (negb (((if le then 108 else 66) =? 108) || ((if le then 108 else 66) =? 66))) with false by (destruct le; reflexivity).
  rewrite Hle.
  replace ((mt =? 0) || negb (1 =? 1)) with false by lia.
  rewrite <- !app_assoc.
  rewrite take_app by apply (bytes_of_length le 4).
  rewrite take_app by apply (bytes_of_length le 4).
  rewrite num_of_bytes by (change (256 ^ N.of_nat 4) with 4294967296; lia).
  rewrite num_of_bytes by (change (256 ^ N.of_nat 4) with 4294967296; lia).
  replace (serial =? 0) with false by lia.
  rewrite take_app by apply (bytes_of_length le 4).
  rewrite num_of_bytes by (change (256 ^ N.of_nat 4) with 4294967296; lia).
  replace ((134217728 <? flen) || (134217728 <? nlen bodyb)) with false by lia.
  replace (134217728 <? 16 + flen + pad_amount (16 + flen) 8 + nlen bodyb) with false by (fold payload flen in W; lia).
  (* the whole encoding has exactly hlen + body_len bytes *)
  set (whole := (if le then 108 else 66) :: mt :: fl :: 1 :: bytes_of le 4 (nlen bodyb) ++ bytes_of le 4 serial ++ bytes_of le 4 flen ++ payload ++ zeros (pad_amount (16 + flen) 8) ++ bodyb).
  assert (Hwhole : nlen whole = 16 + flen + pad_amount (16 + flen) 8 + nlen bodyb).
  { subst whole. rewrite !nlen_cons, !nlen_app, !(bytes_of_length le 4), nlen_zeros. fold flen. lia. }
  replace whole with (whole ++ []) at 1 by apply app_nil_r.
  rewrite take_app by exact Hwhole.
  (* the field array region *)
  assert (Hreg : firstn (N.to_nat (4 + flen)) (skipn 12 whole) = bytes_of le 4 flen ++ payload).
  { subst whole. cbn [skipn].
    pose proof (bytes_of_len4 le (nlen bodyb)) as L1. pose proof (bytes_of_len4 le serial) as L2.
    destruct (bytes_of le 4 (nlen bodyb)) as [|a0 [|a1 [|a2 [|a3 [|? ?]]]]]; try discriminate L1.
    destruct (bytes_of le 4 serial) as [|b0 [|b1 [|b2 [|b3 [|? ?]]]]]; try discriminate L2.
    cbn [app skipn]. rewrite app_assoc. apply firstn_app_exact. rewrite app_length, bytes_of_len4. subst flen. unfold nlen. lia. }
  rewrite Hreg. rewrite <- Hfarr.
  pose proof (wfb_height le _ 0 12 W7) as Hh.
  replace (enc le (fields_val le fs) 12) with (enc le (fields_val le fs) 12 ++ []) by apply app_nil_r.
  change fields_array_ty with (ty_of_val (fields_val le fs)).
  rewrite (dec_enc le (fields_val le fs) DEC_FUEL 0 12 [] W7) by (unfold DEC_FUEL; lia).
  unfold fields_val at 1. rewrite to_sfields_enc.
  (* header padding *)
  assert (Hpad : firstn (N.to_nat (16 + flen + pad_amount (16 + flen) 8 - (16 + flen))) (skipn (N.to_nat (16 + flen)) whole) = zeros (pad_amount (16 + flen) 8)).
  { subst whole.
    pose proof (bytes_of_len4 le (nlen bodyb)) as L1. pose proof (bytes_of_len4 le serial) as L2. pose proof (bytes_of_len4 le flen) as L3.
    replace ((if le then 108 else 66) :: mt :: fl :: 1 :: bytes_of le 4 (nlen bodyb) ++ bytes_of le 4 serial ++ bytes_of le 4 flen ++ payload ++ zeros (pad_amount (16 + flen) 8) ++ bodyb)
      with (((if le then 108 else 66) :: mt :: fl :: 1 :: bytes_of le 4 (nlen bodyb) ++ bytes_of le 4 serial ++ bytes_of le 4 flen ++ payload) ++ zeros (pad_amount (16 + flen) 8) ++ bodyb)
      by (cbn [app]; rewrite <- !app_assoc; reflexivity).
    rewrite skipn_app_exact.
    - apply firstn_app_exact. unfold zeros. rewrite repeat_length. lia.
    - cbn [length]. rewrite !app_length, L1, L2, L3. subst flen. unfold nlen. lia. }
  rewrite Hpad, forallb_zeros. cbn [negb].
  rewrite W6, W5. cbn [andb negb].
  (* signature and body *)
  match goal with |- context[parse_sig ?X] => assert (Hsg : X = sg) by (symmetry; exact W4); rewrite !Hsg end.
  rewrite Hparse, W3. cbn [negb].
  assert (Hbody : skipn (N.to_nat (16 + flen + pad_amount (16 + flen) 8)) whole = bodyb).
  { subst whole.
    pose proof (bytes_of_len4 le (nlen bodyb)) as L1. pose proof (bytes_of_len4 le serial) as L2. pose proof (bytes_of_len4 le flen) as L3.
    replace ((if le then 108 else 66) :: mt :: fl :: 1 :: bytes_of le 4 (nlen bodyb) ++ bytes_of le 4 serial ++ bytes_of le 4 flen ++ payload ++ zeros (pad_amount (16 + flen) 8) ++ bodyb)
      with (((if le then 108 else 66) :: mt :: fl :: 1 :: bytes_of le 4 (nlen bodyb) ++ bytes_of le 4 serial ++ bytes_of le 4 flen ++ payload ++ zeros (pad_amount (16 + flen) 8)) ++ bodyb)
      by (cbn [app]; rewrite <- !app_assoc; reflexivity).
    apply skipn_app_exact. cbn [length]. rewrite !app_length, L1, L2, L3. unfold zeros. rewrite repeat_length. subst flen. unfold nlen. lia. }
  rewrite Hbody.
  replace bodyb with (bodyb ++ []) at 1 by apply app_nil_r. subst bodyb.
  rewrite (dec_seq_encs le body 0 [] W1).
  f_equal. f_equal. rewrite Hwhole. reflexivity.
Qed.
