(* C10 — refinement: the byte-level bus model (Robust/Bus.v) behaves, on every history
   from a well-ordered state, exactly like the message-level ideal bus of
   Spec/RobustSpec.v on the translated history.  The ideal bus is never handed a byte
   of an invalid message, so this is the unconditional (message-level) form of the
   isolation claim.  It also justifies the `break` in the expiry loop: on tables
   ordered by arrival the loop equals the declarative "drop all that are too old". *)
From DV Require Import Lib.Base Wire.Message Robust.Bus Spec.RobustSpec Proofs.RobustBase Proofs.RobustInv.
From Coq Require Import ZArith ZifyBool ZifyN ZifyNat Arith.
Local Open Scope N_scope.

Section Refine.
  Context {A S O : Type}.
  Variable P : ops A S O.
  Variable cf : cfg.

  Notation forget := (@forget A).
  Notation abs_state := (@abs_state A S).

  Lemma ifind_forget (l : list (conn A)) c : ifind (map forget l) c = option_map forget (find_conn l c).
  Proof.
    unfold ifind, find_conn. induction l as [|x r IH]; [reflexivity|]. cbn [map find]. cbn [forget i_id].
    destruct (c_id x =? c); [reflexivity|exact IH].
  Qed.

  Lemma iremove_forget (l : list (conn A)) c : iremove (map forget l) c = map forget (remove_conn l c).
  Proof.
    unfold iremove, remove_conn. induction l as [|x r IH]; [reflexivity|]. cbn [map filter]. cbn [forget i_id].
    destruct (c_id x =? c); cbn [negb]; [exact IH|]. cbn [map]. rewrite IH. reflexivity.
  Qed.

  Lemma iupdate_forget (l : list (conn A)) x : iupdate (map forget l) (forget x) = map forget (update_conn l x).
  Proof.
    induction l as [|y r IH]; [reflexivity|]. cbn [map iupdate update_conn]. cbn [forget i_id].
    destruct (c_id y =? c_id x); [reflexivity|]. cbn [map]. rewrite IH. reflexivity.
  Qed.

  Lemma idrop_forget (st : state A S) x : idrop P (abs_state st) (forget x) = (abs_state (fst (drop P st x)), snd (drop P st x)).
  Proof.
    unfold idrop, drop, Spec.RobustSpec.abs_state. cbn [i_core i_id i_active i_now i_conns forget].
    destruct (o_disconnect P (s_core st) (c_id x) (c_active x)) as [k o]. cbn [fst snd s_now s_conns s_core].
    rewrite iremove_forget. reflexivity.
  Qed.

  (* ---- message phase ------------------------------------------------------- *)
  Lemma imsgs_forget (st : state A S) x d :
    imsgs P (abs_state st) (forget x) (l_msgs (feed (c_loader x) d 0)) (l_corrupted (feed (c_loader x) d 0)) =
    (abs_state (fst (msg_part P st x d)), snd (msg_part P st x d)).
  Proof.
    unfold imsgs, msg_part. cbn [Spec.RobustSpec.abs_state i_core i_id i_active i_since i_now i_conns forget].
    destruct (dispatch_all P (s_core st) (c_id x) (c_active x) (l_msgs (feed (c_loader x) d 0))) as [[[k o] act] cl].
    match goal with |- context [update_conn _ ?y] => set (x' := y) end.
    change (mkIConn (c_id x) (c_since x) PMsg act) with (forget x').
    rewrite iupdate_forget.
    change (mkISt (s_now st) (map forget (update_conn (s_conns st) x')) k) with (abs_state (mkSt (s_now st) (update_conn (s_conns st) x') k)).
    destruct (l_corrupted (feed (c_loader x) d 0) || cl).
    - rewrite idrop_forget. destruct (drop P _ x') as [st'' o']. reflexivity.
    - reflexivity.
  Qed.

  (* ---- expiry: the loop with `break` = the declarative filter, on ordered tables --- *)
  Lemma expired_forget now (x : conn A) : iexpired cf now (forget x) = negb (c_active x) && (auth_timeout cf <=? now - c_since x).
  Proof. reflexivity. Qed.

  Lemma expire_list_filter now (l : list (conn A)) k :
    sorted (map c_since l) ->
    expire_list P cf now l k =
    (filter (fun x => negb (iexpired cf now (forget x))) l,
     fst (idrop_all P (filter (iexpired cf now) (map forget l)) k),
     snd (idrop_all P (filter (iexpired cf now) (map forget l)) k)).
  Proof.
    revert k. induction l as [|x r IH]; intros k Hs; [reflexivity|].
    cbn [map sorted] in Hs. destruct Hs as [Hx Hs].
    cbn [expire_list map filter]. rewrite expired_forget.
    destruct (c_active x) eqn:Hact; cbn [negb andb].
    - rewrite (IH k Hs). reflexivity.
    - destruct (auth_timeout cf <=? now - c_since x) eqn:Hexp; cbn [negb].
      + cbn [idrop_all]. cbn [forget i_id]. destruct (o_disconnect P k (c_id x) false) as [k1 o1].
        rewrite (IH k1 Hs). destruct (idrop_all P (filter (iexpired cf now) (map forget r)) k1) as [k2 o2]. reflexivity.
      + (* the first one that is young enough: everybody behind it is at least as young *)
        assert (Hnone : forall y, In y r -> iexpired cf now (forget y) = false).
        { intros y Hy. rewrite expired_forget. assert (c_since x <= c_since y) by (apply Hx; apply in_map; exact Hy).
          destruct (c_active y); [reflexivity|]. cbn [negb andb]. lia. }
        assert (F1 : filter (fun z => negb (iexpired cf now (forget z))) r = r).
        { clear -Hnone. induction r as [|y r IH]; [reflexivity|]. cbn [filter]. rewrite (Hnone y (or_introl eq_refl)). cbn [negb]. rewrite IH; [reflexivity|]. intros z Hz. apply Hnone. right. exact Hz. }
        assert (F2 : filter (iexpired cf now) (map forget r) = []).
        { clear -Hnone. induction r as [|y r IH]; [reflexivity|]. cbn [map filter]. rewrite (Hnone y (or_introl eq_refl)). apply IH. intros z Hz. apply Hnone. right. exact Hz. }
        rewrite F1, F2. reflexivity.
  Qed.

  Lemma filter_forget (p : iconn A -> bool) (l : list (conn A)) : filter p (map forget l) = map forget (filter (fun x => p (forget x)) l).
  Proof. induction l as [|x r IH]; [reflexivity|]. cbn [map filter]. destruct (p (forget x)); cbn [map]; rewrite IH; reflexivity. Qed.

  Lemma iexpire_forget (st : state A S) : sorted (map c_since (s_conns st)) ->
    iexpire P cf (abs_state st) = (abs_state (fst (expire P cf st)), snd (expire P cf st)).
  Proof.
    intros Hs. unfold iexpire, expire. cbn [Spec.RobustSpec.abs_state i_now i_conns i_core].
    rewrite (expire_list_filter (s_now st) (s_conns st) (s_core st) Hs).
    destruct (idrop_all P (filter (iexpired cf (s_now st)) (map forget (s_conns st))) (s_core st)) as [k o]. cbn [fst snd].
    unfold Spec.RobustSpec.abs_state. cbn [s_now s_conns s_core]. rewrite filter_forget. reflexivity.
  Qed.

  (* ---- handshake -------------------------------------------------------------- *)
  Lemma iupdate_twice (l : list (iconn A)) x y : i_id x = i_id y -> iupdate (iupdate l x) y = iupdate l y.
  Proof.
    intros E. induction l as [|z r IH]; [reflexivity|]. cbn [iupdate]. rewrite E.
    destruct (i_id z =? i_id y) eqn:Ez; cbn [iupdate].
    - rewrite E, N.eqb_refl. reflexivity.
    - rewrite Ez, IH. reflexivity.
  Qed.

  Lemma ifind_iupdate_same (l : list (iconn A)) x y : ifind l (i_id x) = Some y -> ifind (iupdate l x) (i_id x) = Some x.
  Proof.
    unfold ifind. induction l as [|z r IH]; [discriminate|]. cbn [find iupdate].
    destruct (i_id z =? i_id x) eqn:E; cbn [find]; [rewrite N.eqb_refl; reflexivity|]. rewrite E. exact IH.
  Qed.

  Lemma in_incomplete_forget (st : state A S) : in_incomplete (abs_state st) = n_incomplete st.
  Proof.
    unfold in_incomplete, n_incomplete, incomplete, nlen. cbn [Spec.RobustSpec.abs_state i_conns]. f_equal.
    induction (s_conns st) as [|x r IH]; [reflexivity|]. cbn [map filter]. cbn [forget i_active]. destruct (negb (c_active x)); cbn [length]; rewrite IH; reflexivity.
  Qed.

  Lemma auth_refines (st : state A S) x a d hd w :
    find_conn (s_conns st) (c_id x) = Some x ->
    (forall stI : istate A S, stI = abs_state st ->
       ihandshake P stI (c_id x) hd w = ihandshake_feed P stI (forget x) a d w) ->
    irun P cf (abs_state st) (abs_handshake P x a d hd w) =
    (abs_state (fst (auth_part P st x a d w)), snd (auth_part P st x a d w)).
  Proof.
    intros Hf Hh. unfold abs_handshake, auth_part.
    destruct (o_auth_feed P a d) as [[a' reply] v] eqn:Hfeed. cbn [irun istep]. rewrite (Hh _ eq_refl). unfold ihandshake_feed. rewrite Hfeed.
    cbn [forget i_id i_since i_active].
    destruct (negb w && negb match reply with [] => true | _ => false end) eqn:Hw.
    - rewrite idrop_forget. destruct (drop P st x) as [st' o']. cbn [fst snd]. destruct v; cbn [irun]; rewrite app_nil_r; reflexivity.
    - destruct v as [| |u].
      + cbn [irun fst snd]. rewrite app_nil_r.
        change (mkIConn (c_id x) (c_since x) (PAuth a') (c_active x)) with (forget (mkConn (c_id x) (c_since x) (PAuth a') (c_loader x) (c_active x))).
        cbn [Spec.RobustSpec.abs_state i_now i_conns i_core]. rewrite iupdate_forget. reflexivity.
      + rewrite idrop_forget. destruct (drop P st x) as [st' o']. cbn [irun fst snd]. rewrite app_nil_r. reflexivity.
      + (* authenticated: the unused bytes are the first message-phase input *)
        set (xm := mkConn (c_id x) (c_since x) PMsg (c_loader x) (c_active x)).
        change (mkIConn (c_id x) (c_since x) PMsg (c_active x)) with (forget xm).
        cbn [irun]. unfold abs_msgs. cbn [Spec.RobustSpec.abs_state i_now i_conns i_core].
        set (ms := l_msgs (feed (c_loader x) u 0)). set (corr := l_corrupted (feed (c_loader x) u 0)).
        set (sti := mkISt (s_now st) (iupdate (map forget (s_conns st)) (forget xm)) (s_core st)).
        assert (Hfi : ifind (i_conns sti) (c_id x) = Some (forget xm)).
        { cbn [sti i_conns]. apply (ifind_iupdate_same _ (forget xm) (forget x)). rewrite ifind_forget. cbn [forget i_id xm c_id]. rewrite Hf. reflexivity. }
        assert (Hstep : istep P cf sti (IMsgs (c_id x) ms corr) = imsgs P sti (forget xm) ms corr).
        { cbn [istep]. rewrite Hfi. reflexivity. }
        rewrite Hstep.
        assert (Himsgs : imsgs P sti (forget xm) ms corr = imsgs P (abs_state st) (forget xm) ms corr).
        { unfold imsgs. cbn [sti Spec.RobustSpec.abs_state i_core i_id i_active i_since i_now i_conns].
          destruct (dispatch_all P (s_core st) (i_id (forget xm)) (i_active (forget xm)) ms) as [[[k o] act] cl].
          rewrite iupdate_twice by reflexivity. reflexivity. }
        rewrite Himsgs. unfold ms, corr. change (c_loader x) with (c_loader xm). rewrite (imsgs_forget st xm u).
        destruct (msg_part P st xm u) as [st' o']. cbn [fst snd]. rewrite app_nil_r. reflexivity.
  Qed.

  (* ---- one event ------------------------------------------------------------------ *)
  Lemma irun_app (sti : istate A S) h1 h2 :
    irun P cf sti (h1 ++ h2) = let '(s1, o1) := irun P cf sti h1 in let '(s2, o2) := irun P cf s1 h2 in (s2, o1 ++ o2).
  Proof.
    revert sti. induction h1 as [|e r IH]; intros sti; cbn [irun app].
    - destruct (irun P cf sti h2). reflexivity.
    - destruct (istep P cf sti e) as [s1 o1]. rewrite IH. destruct (irun P cf s1 r) as [s2 o2]. destruct (irun P cf s2 h2). rewrite app_assoc. reflexivity.
  Qed.

  Theorem step_refines (st : state A S) e :
    Pre cf st ->
    irun P cf (abs_state st) (abs_event P st e) = (abs_state (fst (step P cf st e)), snd (step P cf st e)).
  Proof.
    intros [Hcnt Hs Hsince]. destruct e as [c|c d w|c|d]; cbn [abs_event step].
    - (* accept *)
      cbn [irun istep]. rewrite in_incomplete_forget. unfold accept, accept_enabled.
      destruct (n_incomplete st <? max_incomplete cf); cbn [negb]; [|cbn [fst snd]; reflexivity].
      cbn [Spec.RobustSpec.abs_state i_conns i_now i_core]. rewrite ifind_forget.
      destruct (find_conn (s_conns st) c); cbn [option_map]; [cbn [fst snd]; reflexivity|].
      change (mkIConn c (s_now st) PCred false) with (forget (mkConn c (s_now st) PCred (loader_for cf) false)).
      change [forget (mkConn c (s_now st) PCred (loader_for cf) false)] with (map forget [mkConn c (s_now st) PCred (loader_for cf) false]).
      rewrite <- map_app.
      set (st1 := mkSt (s_now st) (s_conns st ++ [mkConn c (s_now st) PCred (loader_for cf) false]) (s_core st)).
      assert (Hs1 : sorted (map c_since (s_conns st1))).
      { cbn [st1 s_conns]. rewrite map_app. cbn [map c_since]. apply sorted_app_last; [exact Hs|].
        intros b Hb. apply in_map_iff in Hb. destruct Hb as (y & <- & Hin). apply Hsince. exact Hin. }
      pose proof (iexpire_forget st1 Hs1) as He. unfold Spec.RobustSpec.abs_state at 1 in He. cbn [st1 s_now s_conns s_core] in He.
      subst st1. rewrite He. destruct (expire P cf _) as [st' o']. cbn [fst snd]. rewrite app_nil_r. reflexivity.
    - (* read *)
      unfold read. destruct (find_conn (s_conns st) c) as [x|] eqn:Hf; [|reflexivity].
      pose proof (find_conn_id _ _ _ Hf) as Hid.
      assert (Hfx : find_conn (s_conns st) (c_id x) = Some x) by (rewrite Hid; exact Hf).
      assert (Hifind : ifind (i_conns (abs_state st)) c = Some (forget x)).
      { cbn [Spec.RobustSpec.abs_state i_conns]. rewrite ifind_forget, Hf. reflexivity. }
      destruct (c_phase x) as [|a|] eqn:Hp.
      + destruct d as [|b rest]; [reflexivity|].
        destruct (b =? 0) eqn:Hb.
        * apply auth_refines; [exact Hfx|].
          intros stI ->. unfold ihandshake. rewrite Hid, Hifind. cbn [forget i_phase]. rewrite Hp, Hb. reflexivity.
        * cbn [irun istep]. unfold ihandshake. rewrite Hifind. cbn [forget i_phase]. rewrite Hp, Hb.
          rewrite idrop_forget. destruct (drop P st x). cbn [fst snd]. rewrite app_nil_r. reflexivity.
      + apply auth_refines; [exact Hfx|].
        intros stI ->. unfold ihandshake. rewrite Hid, Hifind. cbn [forget i_phase]. rewrite Hp. reflexivity.
      + cbn [irun]. unfold abs_msgs. cbn [istep]. rewrite Hifind. cbn [forget i_phase]. rewrite Hp.
        rewrite (imsgs_forget st x d).
        destruct (msg_part P st x d). cbn [fst snd]. rewrite app_nil_r. reflexivity.
    - (* eof *)
      cbn [irun istep]. cbn [Spec.RobustSpec.abs_state i_conns]. rewrite ifind_forget.
      destruct (find_conn (s_conns st) c) as [x|]; cbn [option_map]; [|reflexivity].
      change (mkISt (s_now st) (map forget (s_conns st)) (s_core st)) with (abs_state st).
      rewrite idrop_forget. destruct (drop P st x). cbn [fst snd]. rewrite app_nil_r. reflexivity.
    - (* tick *)
      cbn [irun istep]. cbn [Spec.RobustSpec.abs_state i_conns i_now i_core].
      set (st1 := mkSt (s_now st + d) (s_conns st) (s_core st)).
      pose proof (iexpire_forget st1 Hs) as He. unfold Spec.RobustSpec.abs_state at 1 in He. cbn [st1 s_now s_conns s_core] in He.
      subst st1. rewrite He. destruct (expire P cf _) as [st1 o1]. cbn [fst snd Spec.RobustSpec.abs_state i_core i_now i_conns].
      destruct (o_tick P (s_core st1) d) as [k o2]. cbn [fst snd]. rewrite app_nil_r. reflexivity.
  Qed.

  (* C10, message-level isolation, unconditional: on every history from a reachable
     state the model's outputs and final state are those of the ideal bus fed with the
     loader's view of each connection's bytes (valid messages, then at most the bare
     fact "invalid") *)
  Theorem run_refines (st : state A S) h :
    Inv cf st ->
    irun P cf (abs_state st) (abstract P cf st h) = (abs_state (fst (run P cf st h)), snd (run P cf st h)).
  Proof.
    revert st. induction h as [|e r IH]; intros st Hi; cbn [abstract run irun]; [reflexivity|].
    rewrite irun_app. rewrite (step_refines st e (inv_pre _ _ Hi)).
    pose proof (step_inv P cf st e Hi) as Hi1.
    destruct (step P cf st e) as [st1 o1]. cbn [fst snd] in *.
    rewrite (IH st1 Hi1). destruct (run P cf st1 r) as [st2 o2]. reflexivity.
  Qed.
  (* C10, timed: the expiry timer drops EXACTLY the connections that have not registered (Hello) within
     auth_timeout — never a registered one, never a younger one — and keeps the others in order; the
     slots of the dropped ones are free at once (n_incomplete counts what is left) *)
  Theorem tick_exact (st : state A S) d : Inv cf st ->
    s_conns (fst (step P cf st (ETick d))) =
    filter (fun x => c_active x || (s_now st + d - c_since x <? auth_timeout cf)) (s_conns st).
  Proof.
    intros Hi. cbn [step]. unfold expire. cbn [s_now s_conns s_core].
    rewrite (expire_list_filter (s_now st + d) (s_conns st) (s_core st) (pre_sorted _ _ (inv_pre _ _ Hi))). cbn [fst s_conns s_core s_now].
    destruct (o_tick P _ d) as [k o2]. cbn [fst s_conns].
    apply filter_ext. intros x. rewrite expired_forget. destruct (c_active x); cbn [negb andb orb]; [reflexivity|].
    destruct (auth_timeout cf <=? s_now st + d - c_since x) eqn:E1, (s_now st + d - c_since x <? auth_timeout cf) eqn:E2; cbn [negb]; try reflexivity; lia.
  Qed.

  Corollary tick_never_drops_registered (st : state A S) d x : Inv cf st ->
    In x (s_conns st) -> c_active x = true -> In x (s_conns (fst (step P cf st (ETick d)))).
  Proof. intros Hi Hin Ha. rewrite (tick_exact st d Hi). apply filter_In. split; [exact Hin|]. rewrite Ha. reflexivity. Qed.

  Corollary tick_drops_overdue (st : state A S) d x : Inv cf st ->
    In x (s_conns (fst (step P cf st (ETick d)))) -> c_active x = false -> s_now st + d - c_since x < auth_timeout cf.
  Proof. intros Hi Hin Ha. rewrite (tick_exact st d Hi) in Hin. apply filter_In in Hin. destruct Hin as [_ H]. rewrite Ha in H. cbn [orb] in H. lia. Qed.
End Refine.
