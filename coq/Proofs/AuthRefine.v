(* The model answers as the specification's server state machine prescribes:
   one processed line of the model = one spec_step on the abstraction of the
   state, for every line that neither trips the skip_blank assertion nor carries
   a hex argument with a dangling digit (the two known deviations). *)
From DV Require Import Lib.Base Auth.Types Gen.AuthTables Auth.Sha1 Wire.Utf8 Auth.Server Spec.AuthSpec
  Proofs.AuthInv Proofs.AuthBasics Proofs.AuthShape Proofs.AuthTrace Proofs.AuthLex.
Require Import ZifyBool ZifyN ZifyNat.
Local Open Scope N_scope.

Definition abs_phase (c : core) : sphase :=
  match a_state c with
  | WaitingForAuth => SP_WaitingForAuth
  | WaitingForData => match a_mech c, a_cookie_id c with
                      | Some COOKIE_SHA1, Some id => SP_WaitingForData_Cookie id (a_challenge c)
                      | _, _ => SP_WaitingForData_External
                      end
  | WaitingForBegin => SP_WaitingForBegin (a_authorized c)
  | Authenticated => SP_Authenticated (a_authorized c)
  | NeedDisconnect | Crashed => SP_Disconnect
  end.
Definition abs (c : core) : sspec := mkSpec (abs_phase c) (a_failures c) (a_fd_negotiated c) (a_nchal c).

Definition kind_of (r : resp) : kind :=
  match r with R_Rejected => K_Rejected | R_Ok => K_Ok | R_Error _ => K_Error | R_Data d => K_Data d | R_AgreeFd => K_AgreeFd end.

Definition refines (sp : sspec * list kind) (r : core * list resp) : Prop :=
  sp = (abs (fst r), map kind_of (snd r)).

(* ---------- rejected ---------- *)
Lemma refines_rejected sp b :
  sp_rejects sp = a_failures b -> sp_fd sp = a_fd_negotiated b ->
  refines (rejected sp (a_nchal b)) (send_rejected b).
Proof.
  intros Hr Hf. unfold refines, rejected, send_rejected. cbn [fst snd map kind_of].
  destruct (shutdown_mech_fields b) as (_ & _ & _ & _ & _ & H6 & H7 & _ & H9 & H10 & _).
  unfold abs. fs. rewrite H7, H9, H10, Hr, Hf. f_equal. f_equal.
  unfold abs_phase. fs. destruct (max_failures <=? a_failures b + 1); reflexivity.
Qed.

(* what a mechanism result means for the model *)
Definition mres_rel (c : core) (m : mres) (r : core * list resp) : Prop :=
  match m with
  | M_Continue next chal k =>
      snd r = [R_Data chal] /\ abs_phase (fst r) = next /\ a_nchal (fst r) = k /\
      a_failures (fst r) = a_failures c /\ a_fd_negotiated (fst r) = a_fd_negotiated c
  | M_Ok who =>
      snd r = [R_Ok] /\ a_state (fst r) = WaitingForBegin /\ a_authorized (fst r) = who /\ a_nchal (fst r) = a_nchal c /\
      a_failures (fst r) = a_failures c /\ a_fd_negotiated (fst r) = a_fd_negotiated c
  | M_Rejected k =>
      exists b, r = send_rejected b /\ a_nchal b = k /\ a_failures b = a_failures c /\ a_fd_negotiated b = a_fd_negotiated c
  end.

Lemma refines_mres c m r : mres_rel c m r -> refines (apply_mres (abs c) m) r.
Proof.
  destruct m as [next chal k|who|k]; cbn [mres_rel apply_mres].
  - intros (H1 & H2 & H3 & H4 & H5). unfold refines, abs. rewrite H1, H2, H3, H4, H5. reflexivity.
  - intros (H1 & H2 & H3 & H4 & H5 & H6). unfold refines, abs, goto. cbn [sp_rejects sp_fd sp_k]. rewrite H1, H4, H5, H6.
    cbn [map kind_of]. f_equal. f_equal. unfold abs_phase. rewrite H2, H3. reflexivity.
  - intros (b & Hr & H1 & H2 & H3). subst r. rewrite <- H1. apply refines_rejected; cbn [abs sp_rejects sp_fd]; congruence.
Qed.

Lemma creds_eta s : mkCreds (c_uid s) (c_pid s) (c_gids s) = s.
Proof. destruct s; reflexivity. Qed.

Opaque parse_ulong validate_utf8 sha1 hex_encode dec_of_N.

(* ---------- EXTERNAL ---------- *)
Lemma superset_refl s : are_superset s s = true.
Proof.
  unfold are_superset. destruct s as [[u|] [p|] [g|]]; cbn; rewrite ?N.eqb_refl; cbn; auto;
    induction g as [|x g IH]; cbn; auto; rewrite N.eqb_refl; auto.
Qed.

Lemma external_refines e c d :
  a_identity c = [] -> a_authorized c = creds_empty -> a_mech c = Some EXTERNAL -> a_cookie_id c = None ->
  mres_rel c (sp_external e (a_nchal c) (negb (a_asked c)) d) (external_mech e c d).
Proof.
  intros Hi Ha Hm Hck. unfold sp_external, external_mech, are_anonymous.
  destruct (c_uid (e_sock e)) as [u|] eqn:Eu; cbn [is_none].
  2:{ exists c. repeat split; reflexivity. }
  rewrite Hi. cbn [is_empty negb andb]. rewrite andb_false_r.
  assert (Hs : add_credentials creds_empty (e_sock e) = e_sock e) by (destruct (e_sock e) as [[?|] [?|] [?|]]; reflexivity).
  destruct d as [|d0 dr]; cbn [is_empty negb].
  - (* no identity given *)
    rewrite Hi. cbn [is_empty andb]. destruct (a_asked c) eqn:Eq; cbn [negb].
    + fs. rewrite Hi. cbn [is_empty]. rewrite Hs, Eu. cbn [is_none]. rewrite superset_refl.
      cbn [mres_rel send_ok fst snd]. fs. repeat split; auto.
      rewrite Ha, Hs. unfold add_gids_from, add_pid_from. cbn [c_uid c_pid c_gids].
      destruct (e_sock e) as [su [p|] [g|]]; reflexivity.
    + cbn [mres_rel fst snd]. repeat split; auto. unfold abs_phase. fs. rewrite Hm. reflexivity.
  - (* an identity string *)
    fs. cbn [is_empty andb].
    destruct (parse_ulong (d0 :: dr)) as [v|] eqn:Ep.
    2:{ eexists. repeat split; reflexivity. }
    unfold set_uid, creds_empty. fs. destruct (uid_of_ulong v) as [w|] eqn:Ew; cbn [is_none opt_N_eqb].
    2:{ eexists. repeat split; reflexivity. }
    unfold are_superset. fs. cbn [is_none orb andb]. rewrite Eu. cbn [opt_N_eqb]. rewrite andb_true_r.
    destruct (w =? u) eqn:Ewu.
    + apply N.eqb_eq in Ewu. subst w. cbn [mres_rel send_ok fst snd]. fs. repeat split; auto.
      rewrite Ha. unfold add_gids_from, add_pid_from, add_credentials, or_else, creds_empty. cbn [c_uid c_pid c_gids].
      destruct (e_sock e) as [su [p|] [g|]]; cbn in *; congruence.
    + eexists. repeat split; reflexivity.
Qed.

(* ---------- ANONYMOUS ---------- *)
Lemma anonymous_refines e c d :
  a_authorized c = creds_empty -> a_state (fst (anonymous_mech e c d)) <> Crashed ->
  mres_rel c (sp_anonymous e (a_nchal c) d) (anonymous_mech e c d).
Proof.
  intros Ha Hnc. unfold sp_anonymous, anonymous_mech in *.
  assert (G : mres_rel c (M_Ok (mkCreds None (c_pid (e_sock e)) None))
                (send_ok (set_authorized (set_desired c creds_empty)
                           (add_pid_from (a_authorized (set_desired c creds_empty)) (e_sock e))))).
  { cbn [mres_rel send_ok fst snd]. fs. repeat split; auto. rewrite Ha. unfold add_pid_from, or_else, creds_empty.
    cbn [c_uid c_pid c_gids]. destruct (c_pid (e_sock e)); reflexivity. }
  destruct d as [|d0 dr]; cbn [is_empty] in *; [exact G|].
  destruct (validate_utf8 (d0 :: dr)) as [[|]|]; [exact G | eexists; repeat split; reflexivity | fs; congruence].
Qed.

(* ---------- DBUS_COOKIE_SHA1 ---------- *)
Lemma opt_N_eqb_sym a b : opt_N_eqb a b = opt_N_eqb b a.
Proof. destruct a, b; cbn; auto. apply N.eqb_sym. Qed.

Lemma sha1_first_refines e c d :
  a_identity c = [] -> a_desired c = creds_empty -> a_mech c = Some COOKIE_SHA1 ->
  (a_have_keyring c = true -> e_keyring_ok e = true) ->
  mres_rel c (sp_cookie_first e (a_nchal c) d) (sha1_first e c d).
Proof.
  intros Hi Hd Hm Hk. unfold sp_cookie_first, sha1_first. fs. rewrite Hi. cbn [is_empty negb andb]. rewrite andb_false_r.
  set (c1 := if negb (is_empty d) then set_identity (set_challenge c []) d else set_challenge c []).
  assert (F : a_desired c1 = creds_empty /\ a_nchal c1 = a_nchal c /\ a_failures c1 = a_failures c /\
              a_fd_negotiated c1 = a_fd_negotiated c /\ a_have_keyring c1 = a_have_keyring c /\ a_mech c1 = a_mech c).
  { unfold c1. destruct (negb (is_empty d)); fs; auto 10. }
  destruct F as (F1 & F2 & F3 & F4 & F5 & F6). clearbody c1.
  set (who := match parse_ulong d with
              | Some v => uid_of_ulong v
              | None => match e_userdb e d with Some v => uid_of_ulong v | None => None end
              end).
  assert (Hw : match parse_ulong d with
               | Some u0 => Some (uid_of_ulong u0)
               | None => match e_userdb e d with Some u0 => Some (uid_of_ulong u0) | None => None end
               end = match parse_ulong d with Some _ => Some who | None => match e_userdb e d with Some _ => Some who | None => None end end).
  { unfold who. destruct (parse_ulong d); [reflexivity|]. destruct (e_userdb e d); reflexivity. }
  rewrite Hw.
  assert (Hnone : parse_ulong d = None -> e_userdb e d = None -> who = None) by (intros X Y; unfold who; rewrite X, Y; reflexivity).
  clearbody who.
  assert (Rej : forall b, a_nchal b = a_nchal c -> a_failures b = a_failures c -> a_fd_negotiated b = a_fd_negotiated c ->
                          mres_rel c (M_Rejected (a_nchal c)) (send_rejected b)).
  { intros b X Y Z. exists b. repeat split; auto. }
  destruct (parse_ulong d) as [v|] eqn:Ep; [|destruct (e_userdb e d) as [v|] eqn:Eu].
  3:{ rewrite (Hnone eq_refl eq_refl). cbn [opt_N_eqb negb]. apply Rej; auto. }
  all: rewrite F1; unfold set_uid, creds_empty; fs; rewrite (opt_N_eqb_sym who).
  all: destruct (opt_N_eqb (Some (e_process_uid e)) who) eqn:Eo; cbn [negb]; [|apply Rej; fs; auto].
  all: rewrite F5; destruct (e_keyring_ok e) eqn:Ek; cbn [negb andb];
       [rewrite andb_false_r | destruct (a_have_keyring c) eqn:Ehk; [specialize (Hk eq_refl); discriminate|]; cbn [negb andb]; apply Rej; fs; auto].
  all: rewrite F2; destruct (e_best_key e (a_nchal c)) as [id|]; [|exists (set_cookie_id (set_nchal (set_have_keyring (set_desired c1 {| c_uid := who; c_pid := None; c_gids := None |}) true) (a_nchal c + 1)) None); repeat split; fs; auto].
  all: destruct (e_challenge e (a_nchal c)) as [raw|]; [|eexists; repeat split; fs; auto].
  all: cbn [mres_rel fst snd]; repeat split; fs; auto; unfold abs_phase; fs; rewrite F6, Hm; reflexivity.
Qed.


Transparent find_blank skip_blank.
Lemma sha1_second_refines e c id d :
  a_authorized c = creds_empty -> a_desired c = mkCreds (Some (e_process_uid e)) None None ->
  a_state (fst (sha1_second e c id d)) <> Crashed ->
  mres_rel c (sp_cookie_second e (a_nchal c) id (a_challenge c) d) (sha1_second e c id d).
Proof.
  intros Ha Hd Hnc. unfold sp_cookie_second, sha1_second in *.
  assert (Rej : mres_rel c (M_Rejected (a_nchal c)) (send_rejected c)) by (exists c; repeat split; reflexivity).
  destruct (find_blank d) as [found i] eqn:Ef.
  pose proof (find_blank_span d 0 found i Ef) as Hsp.
  destruct found; cbn [negb] in *.
  2:{ destruct (span_word d) as [w t]. destruct Hsp as (_ & _ & Ht). rewrite (Ht eq_refl). exact Rej. }
  pose proof (find_blank_span_true d 0 i Ef) as Hne.
  destruct (skip_blank (e_asserts e) d i) as [j|] eqn:Ej; [|fs; congruence].
  pose proof (split_model _ _ _ _ _ Ef Ej) as Hsplit. unfold split_word in Hsplit.
  destruct (span_word d) as [w t]. cbn [snd] in Hne. inversion Hsplit as [[Hw Ht]]. clear Hsplit.
  rewrite <- Hw, <- Ht in *.
  destruct t as [|t0 tr]; [congruence|].
  destruct w as [|w0 wr]; cbn [is_empty orb]; [exact Rej|].
  destruct (drop_blanks (t0 :: tr)) as [|h0 hr] eqn:Eh; cbn [is_empty]; [exact Rej|].
  Transparent sha1_compute_hash. unfold sha1_compute_hash.
  destruct (e_cookie e (a_nchal c - 1) id) as [|k0 kr] eqn:Ec; cbn [is_empty]; [exact Rej|].
  change colon with [58].
  destruct (hex_encode (sha1 (a_challenge c ++ [58] ++ (w0 :: wr) ++ [58] ++ k0 :: kr))) as [|x0 xr] eqn:Ex.
  { exfalso. eapply sha1_nonempty; eauto. }
  cbn [is_empty].
  destruct (bytes_eqb (h0 :: hr) (x0 :: xr)); cbn [negb]; [|exact Rej].
  cbn [mres_rel send_ok fst snd]. fs. repeat split; auto.
  rewrite Ha, Hd. unfold add_pid_from, add_credentials, or_else, creds_empty. cbn [c_uid c_pid c_gids].
  destruct (c_pid (e_sock e)); reflexivity.
Qed.
Opaque sha1_compute_hash.

(* ---------- one line ---------- *)
Lemma classify_split line w args : forallb ascii_ok line = true -> split_word line = (w, args) ->
  classify line =
    if bytes_eqb w w_AUTH then match args with [] => SC_AuthNone | _ => let '(m, h) := split_word args in SC_Auth m h end
    else if bytes_eqb w w_DATA then SC_Data args
    else if bytes_eqb w w_BEGIN then SC_Begin
    else if bytes_eqb w w_CANCEL then SC_Cancel
    else if bytes_eqb w w_ERROR then SC_Error
    else if bytes_eqb w w_NEGOTIATE_UNIX_FD then SC_NegotiateFd
    else SC_Other.
Proof. intros Ha Hs. unfold classify. rewrite Ha, Hs. reflexivity. Qed.

Lemma refines_error c c' m : abs c' = abs c -> refines (error (abs c)) (c', [R_Error m]).
Proof. intros H. unfold refines, error. cbn [fst snd map kind_of]. rewrite H. reflexivity. Qed.

Lemma abs_set_mech_auth c m : a_state c = WaitingForAuth -> abs (set_mech c m) = abs c.
Proof. intros H. unfold abs, abs_phase. fs. rewrite H. reflexivity. Qed.

Lemma refines_frame sp c c1 r : abs c1 = abs c -> refines (apply_mres (abs c1) sp) r -> refines (apply_mres (abs c) sp) r.
Proof. intros H. rewrite H. auto. Qed.

Ltac err := apply refines_error; reflexivity.

Lemma mech_refines_fresh e c mm resp :
  Inv e c -> a_state c = WaitingForAuth -> a_state (fst (mech_data e mm (set_mech c (Some mm)) resp)) <> Crashed ->
  refines (apply_mres (abs c)
             (match mm with
              | EXTERNAL => sp_external e (a_nchal c) true resp
              | COOKIE_SHA1 => sp_cookie_first e (a_nchal c) resp
              | ANONYMOUS => sp_anonymous e (a_nchal c) resp
              end))
          (mech_data e mm (set_mech c (Some mm)) resp).
Proof.
  intros I Hs Hnc. destruct I. destruct (I_idle Hs) as (Ha & Hd & Hi & Hq & Hck).
  rewrite <- (abs_set_mech_auth c (Some mm) Hs). apply refines_mres.
  destruct mm; cbn [mech_data] in *.
  - pose proof (external_refines e (set_mech c (Some EXTERNAL)) resp) as X. fs. rewrite Hq in X. apply X; auto.
  - unfold cookie_mech in *. fs. rewrite Hck in *. pose proof (sha1_first_refines e (set_mech c (Some COOKIE_SHA1)) resp) as X. fs. apply X; auto.
  - pose proof (anonymous_refines e (set_mech c (Some ANONYMOUS)) resp) as X. fs. apply X; auto.
Qed.

Lemma process_data_refines_fresh e c mm h :
  Inv e c -> a_state c = WaitingForAuth -> odd_hex h = false ->
  a_state (fst (process_data e (set_mech c (Some mm)) h mm)) <> Crashed ->
  refines (match unhex h with
           | None => error (abs c)
           | Some resp => apply_mres (abs c)
               (match mm with
                | EXTERNAL => sp_external e (a_nchal c) true resp
                | COOKIE_SHA1 => sp_cookie_first e (a_nchal c) resp
                | ANONYMOUS => sp_anonymous e (a_nchal c) resp
                end)
           end)
          (process_data e (set_mech c (Some mm)) h mm).
Proof.
  intros I Hs Ho Hnc. unfold process_data in *. pose proof (hex_strict_lenient h Ho) as Hh.
  destruct (unhex h) as [resp|].
  - rewrite Hh in *. rewrite N.eqb_refl in *. cbn [negb] in *. apply mech_refines_fresh; auto.
  - destruct (hex_decode h) as [dec endi]. cbn [snd] in Hh. apply N.eqb_neq in Hh. rewrite Hh. cbn [negb].
    apply refines_error. apply abs_set_mech_auth. exact Hs.
Qed.

Lemma handle_auth_refines e c args :
  Inv e c -> a_state c = WaitingForAuth ->
  a_state (fst (handle_auth e c args)) <> Crashed ->
  odd_hex (match args with [] => [] | _ => snd (split_word args) end) = false ->
  refines (match args with
           | [] => rejected (abs c) (a_nchal c)
           | _ => let '(m, h) := split_word args in
                  match spec_mech e m with
                  | None => rejected (abs c) (a_nchal c)
                  | Some mm =>
                      match unhex h with
                      | None => error (abs c)
                      | Some resp => apply_mres (abs c)
                          (match mm with
                           | EXTERNAL => sp_external e (a_nchal c) true resp
                           | COOKIE_SHA1 => sp_cookie_first e (a_nchal c) resp
                           | ANONYMOUS => sp_anonymous e (a_nchal c) resp
                           end)
                      end
                  end
           end)
          (handle_auth e c args).
Proof.
  intros I Hs Hnc Ho. unfold handle_auth in *.
  destruct args as [|a0 ar]; cbn [is_empty] in *.
  - apply refines_rejected; reflexivity.
  - remember (a0 :: ar) as args. clear Heqargs a0 ar.
    destruct (find_blank args) as [fb i] eqn:Ef.
    destruct (skip_blank (e_asserts e) args i) as [j|] eqn:Ej; [|fs; congruence].
    rewrite (split_model _ _ _ _ _ Ef Ej) in *. cbn [snd] in Ho. cbv zeta in *.
    rewrite <- find_mech_spec.
    destruct (find_mech e (firstn (N.to_nat i) args)) as [mm|].
    + apply process_data_refines_fresh; auto.
    + pose proof (refines_rejected (abs c) (set_mech c None)) as X. fs. apply X; reflexivity.
Qed.

Definition spec_of_auth_args (e : env) (c : core) (args : bytes) : sspec * list kind :=
  match args with
  | [] => rejected (abs c) (a_nchal c)
  | _ => let '(m, h) := split_word args in
         match spec_mech e m with
         | None => rejected (abs c) (a_nchal c)
         | Some mm =>
             match unhex h with
             | None => error (abs c)
             | Some resp => apply_mres (abs c)
                 (match mm with
                  | EXTERNAL => sp_external e (a_nchal c) true resp
                  | COOKIE_SHA1 => sp_cookie_first e (a_nchal c) resp
                  | ANONYMOUS => sp_anonymous e (a_nchal c) resp
                  end)
             end
         end
  end.

(* the three state handlers *)
Lemma refine_waiting_for_auth e c w args :
  Inv e c -> a_state c = WaitingForAuth ->
  let cls := if bytes_eqb w w_AUTH then match args with [] => SC_AuthNone | _ => let '(m, h) := split_word args in SC_Auth m h end
             else if bytes_eqb w w_DATA then SC_Data args
             else if bytes_eqb w w_BEGIN then SC_Begin
             else if bytes_eqb w w_CANCEL then SC_Cancel
             else if bytes_eqb w w_ERROR then SC_Error
             else if bytes_eqb w w_NEGOTIATE_UNIX_FD then SC_NegotiateFd
             else SC_Other in
  a_state (fst (run_action e c (disp_waiting_for_auth (lookup_command w)) args)) <> Crashed ->
  odd_hex (match cls with SC_Auth _ h => h | SC_Data h => h | _ => [] end) = false ->
  refines (match cls with
           | SC_AuthNone => rejected (abs c) (sp_k (abs c))
           | SC_Auth m h =>
               match spec_mech e m with
               | None => rejected (abs c) (sp_k (abs c))
               | Some mm =>
                   match unhex h with
                   | None => error (abs c)
                   | Some resp => apply_mres (abs c)
                       (match mm with
                        | EXTERNAL => sp_external e (sp_k (abs c)) true resp
                        | COOKIE_SHA1 => sp_cookie_first e (sp_k (abs c)) resp
                        | ANONYMOUS => sp_anonymous e (sp_k (abs c)) resp
                        end)
                   end
               end
           | SC_Begin => (goto (abs c) SP_Disconnect, [])
           | SC_Error => rejected (abs c) (sp_k (abs c))
           | _ => error (abs c)
           end)
          (run_action e c (disp_waiting_for_auth (lookup_command w)) args).
Proof.
  intros I Hs. cbv zeta. cbn [sp_k abs].
  destruct (lookup_cases w) as [(E1 & L)|[(E1 & E2 & L)|[(E1 & E2 & E3 & L)|[(E1 & E2 & E3 & E4 & L)|[(E1 & E2 & E3 & E4 & E5 & L)|
    [(E1 & E2 & E3 & E4 & E5 & E6 & L)|(E1 & E2 & E3 & E4 & E5 & E6 & L)]]]]]]; rewrite ?E1, ?E2, ?E3, ?E4, ?E5, ?E6.
  - rewrite L. cbn [disp_waiting_for_auth run_action]. intros Hnc Ho.
    pose proof (handle_auth_refines e c args I Hs Hnc) as X.
    destruct args as [|a0 ar]; [apply X; reflexivity|].
    remember (a0 :: ar) as args'. destruct (split_word args') as [m h] eqn:Esp. subst args'.
    apply X. exact Ho.
  - rewrite L. cbn [disp_waiting_for_auth run_action]. intros _ _. err.
  - rewrite L. cbn [disp_waiting_for_auth run_action]. intros _ _. unfold refines, goto, abs, abs_phase. fs. reflexivity.
  - rewrite L. cbn [disp_waiting_for_auth run_action]. intros _ _. err.
  - rewrite L. cbn [disp_waiting_for_auth run_action]. intros _ _. apply refines_rejected; reflexivity.
  - rewrite L. cbn [disp_waiting_for_auth run_action]. intros _ _. err.
  - intros _ _. destruct L as [L|[L|[L|L]]]; rewrite L; cbn [disp_waiting_for_auth run_action]; err.
Qed.

Definition cls_of (w args : bytes) : scmd :=
  if bytes_eqb w w_AUTH then match args with [] => SC_AuthNone | _ => let '(m, h) := split_word args in SC_Auth m h end
  else if bytes_eqb w w_DATA then SC_Data args
  else if bytes_eqb w w_BEGIN then SC_Begin
  else if bytes_eqb w w_CANCEL then SC_Cancel
  else if bytes_eqb w w_ERROR then SC_Error
  else if bytes_eqb w w_NEGOTIATE_UNIX_FD then SC_NegotiateFd
  else SC_Other.

Lemma cls_auth_shape w args : bytes_eqb w w_AUTH = true ->
  cls_of w args = SC_AuthNone \/ exists m h, cls_of w args = SC_Auth m h.
Proof.
  intros E. unfold cls_of. rewrite E. destruct args; [left; reflexivity|right].
  destruct (split_word (n :: args)) as [m h]. eauto.
Qed.

Lemma process_data_refines_cont e c m h (sp : bytes -> mres) :
  odd_hex h = false ->
  (forall resp, a_state (fst (mech_data e m c resp)) <> Crashed -> mres_rel c (sp resp) (mech_data e m c resp)) ->
  a_state (fst (process_data e c h m)) <> Crashed ->
  refines (match unhex h with None => error (abs c) | Some resp => apply_mres (abs c) (sp resp) end) (process_data e c h m).
Proof.
  intros Ho Hm Hnc. unfold process_data in *. pose proof (hex_strict_lenient h Ho) as Hh.
  destruct (unhex h) as [resp|].
  - rewrite Hh in *. rewrite N.eqb_refl in *. cbn [negb] in *. apply refines_mres. apply Hm. exact Hnc.
  - destruct (hex_decode h) as [dec endi]. cbn [snd] in Hh. apply N.eqb_neq in Hh. rewrite Hh. cbn [negb]. err.
Qed.

Lemma refine_waiting_for_data e c w args :
  Inv e c -> a_state c = WaitingForData ->
  a_state (fst (run_action e c (disp_waiting_for_data (lookup_command w)) args)) <> Crashed ->
  odd_hex (match cls_of w args with SC_Auth _ h => h | SC_Data h => h | _ => [] end) = false ->
  refines (match abs_phase c with
           | SP_WaitingForData_External =>
               match cls_of w args with
               | SC_Data h => match unhex h with None => error (abs c) | Some resp => apply_mres (abs c) (sp_external e (sp_k (abs c)) false resp) end
               | SC_Begin => (goto (abs c) SP_Disconnect, [])
               | SC_Cancel | SC_Error => rejected (abs c) (sp_k (abs c))
               | _ => error (abs c)
               end
           | SP_WaitingForData_Cookie id chal =>
               match cls_of w args with
               | SC_Data h => match unhex h with None => error (abs c) | Some resp => apply_mres (abs c) (sp_cookie_second e (sp_k (abs c)) id chal resp) end
               | SC_Begin => (goto (abs c) SP_Disconnect, [])
               | SC_Cancel | SC_Error => rejected (abs c) (sp_k (abs c))
               | _ => error (abs c)
               end
           | _ => (abs c, [])
           end)
          (run_action e c (disp_waiting_for_data (lookup_command w)) args).
Proof.
  intros I Hs. pose proof I as I'. destruct I. destruct (I_data Hs) as (Ha & Hcase).
  assert (Hph : (abs_phase c = SP_WaitingForData_External /\ a_mech c = Some EXTERNAL /\ a_asked c = true /\ a_identity c = [] /\ a_cookie_id c = None) \/
                (exists id, abs_phase c = SP_WaitingForData_Cookie id (a_challenge c) /\ a_mech c = Some COOKIE_SHA1 /\ a_cookie_id c = Some id /\
                            a_desired c = mkCreds (Some (e_process_uid e)) None None)).
  { unfold abs_phase. rewrite Hs. destruct Hcase as [(M & Hq & Hi & Hck & Hd)|(M & [id Hck] & Hd & _)].
    - left. rewrite M. auto.
    - right. exists id. rewrite M, Hck. auto. }
  cbn [sp_k abs].
  destruct (lookup_cases w) as [(E1 & L)|[(E1 & E2 & L)|[(E1 & E2 & E3 & L)|[(E1 & E2 & E3 & E4 & L)|[(E1 & E2 & E3 & E4 & E5 & L)|
    [(E1 & E2 & E3 & E4 & E5 & E6 & L)|(E1 & E2 & E3 & E4 & E5 & E6 & L)]]]]]].
  - (* AUTH *)
    rewrite L. cbn [disp_waiting_for_data run_action]. intros _ _.
    destruct (cls_auth_shape w args E1) as [X|(m & h & X)]; rewrite X;
      destruct Hph as [(P & _)|(id & P & _)]; rewrite P; err.
  - (* DATA *)
    rewrite L. cbn [disp_waiting_for_data run_action]. unfold cls_of. rewrite E1, E2. intros Hnc Ho.
    destruct Hph as [(P & M & Hq & Hi & Hck)|(id & P & M & Hck & Hd)]; rewrite P, M in *.
    + apply (process_data_refines_cont e c EXTERNAL args (fun resp => sp_external e (a_nchal c) false resp)); auto.
      intros resp _. cbn [mech_data]. pose proof (external_refines e c resp Hi Ha M Hck) as X. rewrite Hq in X. exact X.
    + apply (process_data_refines_cont e c COOKIE_SHA1 args (fun resp => sp_cookie_second e (a_nchal c) id (a_challenge c) resp)); auto.
      intros resp Hn. cbn [mech_data] in *. unfold cookie_mech in *. rewrite Hck in *. apply sha1_second_refines; auto.
  - rewrite L. cbn [disp_waiting_for_data run_action]. unfold cls_of. rewrite E1, E2, E3. intros _ _.
    destruct Hph as [(P & _)|(id & P & _)]; rewrite P; unfold refines, goto, abs, abs_phase; fs; reflexivity.
  - rewrite L. cbn [disp_waiting_for_data run_action]. unfold cls_of. rewrite E1, E2, E3, E4. intros _ _.
    destruct Hph as [(P & _)|(id & P & _)]; rewrite P; apply refines_rejected; reflexivity.
  - rewrite L. cbn [disp_waiting_for_data run_action]. unfold cls_of. rewrite E1, E2, E3, E4, E5. intros _ _.
    destruct Hph as [(P & _)|(id & P & _)]; rewrite P; apply refines_rejected; reflexivity.
  - rewrite L. cbn [disp_waiting_for_data run_action]. unfold cls_of. rewrite E1, E2, E3, E4, E5, E6. intros _ _.
    destruct Hph as [(P & _)|(id & P & _)]; rewrite P; err.
  - unfold cls_of. rewrite E1, E2, E3, E4, E5, E6. intros _ _.
    destruct L as [L|[L|[L|L]]]; rewrite L; cbn [disp_waiting_for_data run_action];
      destruct Hph as [(P & _)|(id & P & _)]; rewrite P; err.
Qed.

Lemma refine_waiting_for_begin e c w args :
  Inv e c -> a_state c = WaitingForBegin ->
  refines (match cls_of w args with
           | SC_Begin => (goto (abs c) (SP_Authenticated (a_authorized c)), [])
           | SC_NegotiateFd => if e_fd_possible e then (mkSpec (sp_phase (abs c)) (sp_rejects (abs c)) true (sp_k (abs c)), [K_AgreeFd]) else error (abs c)
           | SC_Cancel | SC_Error => rejected (abs c) (sp_k (abs c))
           | _ => error (abs c)
           end)
          (run_action e c (disp_waiting_for_begin (lookup_command w)) args).
Proof.
  intros I Hs. cbn [sp_k sp_phase sp_rejects abs].
  destruct (lookup_cases w) as [(E1 & L)|[(E1 & E2 & L)|[(E1 & E2 & E3 & L)|[(E1 & E2 & E3 & E4 & L)|[(E1 & E2 & E3 & E4 & E5 & L)|
    [(E1 & E2 & E3 & E4 & E5 & E6 & L)|(E1 & E2 & E3 & E4 & E5 & E6 & L)]]]]]].
  - rewrite L. cbn [disp_waiting_for_begin run_action].
    destruct (cls_auth_shape w args E1) as [X|(m & h & X)]; rewrite X; err.
  - rewrite L. cbn [disp_waiting_for_begin run_action]. unfold cls_of. rewrite E1, E2. err.
  - rewrite L. cbn [disp_waiting_for_begin run_action]. unfold cls_of. rewrite E1, E2, E3.
    unfold refines, goto, abs, abs_phase. fs. reflexivity.
  - rewrite L. cbn [disp_waiting_for_begin run_action]. unfold cls_of. rewrite E1, E2, E3, E4. apply refines_rejected; reflexivity.
  - rewrite L. cbn [disp_waiting_for_begin run_action]. unfold cls_of. rewrite E1, E2, E3, E4, E5. apply refines_rejected; reflexivity.
  - rewrite L. cbn [disp_waiting_for_begin run_action]. unfold cls_of. rewrite E1, E2, E3, E4, E5, E6.
    destruct (e_fd_possible e); [|err]. unfold refines, abs, abs_phase. fs. rewrite Hs. reflexivity.
  - unfold cls_of. rewrite E1, E2, E3, E4, E5, E6.
    destruct L as [L|[L|[L|L]]]; rewrite L; cbn [disp_waiting_for_begin run_action]; err.
Qed.

(* ---------- the theorem ---------- *)
Theorem refine_step e c line :
  Inv e c -> in_end_state c = false ->
  a_state (fst (process_line e c line)) <> Crashed ->
  odd_hex (hexarg_of line) = false ->
  spec_step e (abs c) line = (abs (fst (process_line e c line)), map kind_of (snd (process_line e c line))).
Proof.
  intros I Hend Hnc Ho. change (refines (spec_step e (abs c) line) (process_line e c line)).
  unfold process_line in *. rewrite ascii_same in *.
  destruct (forallb ascii_ok line) eqn:Ea; cbn [negb] in *.
  2:{ (* non-ASCII line: anything else -> ERROR *)
    assert (Hc : classify line = SC_Other) by (unfold classify; rewrite Ea; reflexivity).
    unfold spec_step. rewrite Hc. unfold abs at 1. cbn [sp_phase]. unfold abs_phase, in_end_state in *.
    destruct (a_state c); try discriminate; try err.
    destruct (a_mech c) as [[]|]; try err; destruct (a_cookie_id c); err. }
  destruct (find_blank line) as [fb i] eqn:Ef.
  destruct (skip_blank (e_asserts e) line i) as [j|] eqn:Ej; [|fs; congruence].
  pose proof (split_model _ _ _ _ _ Ef Ej) as Hsplit.
  pose proof (classify_split line _ _ Ea Hsplit) as Hcls.
  unfold hexarg_of in Ho. unfold spec_step. rewrite Hcls in *.
  set (w := firstn (N.to_nat i) line) in *. set (args := skipn (N.to_nat j) line) in *.
  fold (cls_of w args) in *.
  unfold handle in *. unfold abs at 1. cbn [sp_phase].
  destruct (a_state c) eqn:Hs; try (unfold in_end_state in Hend; rewrite Hs in Hend; discriminate).
  - (* WaitingForAuth *)
    unfold abs_phase at 1. rewrite Hs.
    pose proof (refine_waiting_for_auth e c w args I Hs) as X. cbv zeta in X. fold (cls_of w args) in X. apply X; auto.
  - (* WaitingForData *)
    pose proof (refine_waiting_for_data e c w args I Hs Hnc Ho) as X.
    destruct (abs_phase c) eqn:Hp; try exact X;
      unfold abs_phase in Hp; rewrite Hs in Hp; destruct (a_mech c) as [[]|]; try discriminate; destruct (a_cookie_id c); discriminate.
  - (* WaitingForBegin *)
    unfold abs_phase at 1. rewrite Hs. apply refine_waiting_for_begin; auto.
Qed.
