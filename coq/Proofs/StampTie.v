(* C03: the model's create_unique_client_name and the constants it stamps, against the tables that
   tools/gen/stamp.py obtains by compiling and running the C text (Gen/StampTables.v).  A change of
   the C function or of the stamped strings breaks these vm_compute proofs. *)
From DV Require Import Lib.Base Stamp.Stamp Gen.StampTables.
From Coq Require Import ZArith.
Local Open Scope N_scope.

Definition sample_ok (s : (Z * Z * list (list N)) * option (list N * Z * Z)) : bool :=
  let '((mj, mn, reg), res) := s in
  match mint (S (length reg)) reg mj mn, res with
  | inl FFuel, _ => false
  | inl _, None => true                                     (* the C program died: assertion or signed overflow *)
  | inr (n, a, b), Some (n', a', b') => bytes_eqb n n' && (a =? a')%Z && (b =? b')%Z
  | _, _ => false
  end.

Lemma mint_matches_c : forallb sample_ok cuc_samples = true.
Proof. vm_compute. reflexivity. Qed.

Lemma samples_not_trivial : (20 <=? length cuc_samples)%nat = true.
Proof. vm_compute. reflexivity. Qed.

Lemma int_max_matches_c : INT_MAX = c_int_max.
Proof. reflexivity. Qed.

Lemma drv_name_matches_c : drv_name = c_service_dbus.
Proof. reflexivity. Qed.

Lemma not_active_matches_c : not_active = c_not_active.
Proof. reflexivity. Qed.
