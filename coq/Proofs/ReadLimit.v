(* The read limit of _dbus_message_loader_get_buffer (Wire/Message.v: max_to_read,
   feed_limited):
   - PROGRESS   the limit is always defined and never 0;
   - BOUNDARY   while descriptors are held and a message is in progress the limit ends exactly at
                the end of the 16-byte fixed header / of the message in progress, and descriptors
                may not accompany the read;
   - TOTALITY   the transport loop consumes the whole chunk (no stall, fuel suffices);
   - EQUIVALENCE limited reading yields the outcome of unlimited reading. *)
From DV Require Import Lib.Base Wire.Message Proofs.LoaderProofs Proofs.BodyLocal Proofs.LoadLocal.
From Coq Require Import ZArith ZifyBool ZifyN ZifyNat Arith.
Local Open Scope N_scope.

(* ---- one step of the limit loop ------------------------------------------------------------- *)
Lemma mtr_S f max d :
  max_to_read_loop (S f) max d =
  if nlen d =? 0 then Some (DBUS_MAXIMUM_MESSAGE_LENGTH, true)
  else if nlen d <? DBUS_MINIMUM_HEADER_SIZE then Some (DBUS_MINIMUM_HEADER_SIZE - nlen d, false)
  else match have_message max d with
       | HaveInvalid _ => Some (DBUS_MAXIMUM_MESSAGE_LENGTH, true)
       | HaveOk _ _ hl bl false => Some (hl + bl - nlen d, false)
       | HaveOk _ _ hl bl true => max_to_read_loop f max (skipn (N.to_nat (hl + bl)) d)
       end.
Proof. reflexivity. Qed.

Lemma max_len_pos : 0 < DBUS_MAXIMUM_MESSAGE_LENGTH.
Proof. vm_compute. reflexivity. Qed.

Lemma min_hdr_16 : DBUS_MINIMUM_HEADER_SIZE = 16.
Proof. reflexivity. Qed.

(* a complete message, as framed by have_message, is at least 16 bytes and fits the buffer *)
Lemma have_complete_fits max d le fl hl bl :
  have_message max d = HaveOk le fl hl bl true -> 16 <= hl + bl /\ hl + bl <= nlen d.
Proof.
  intros Hh. pose proof (have_ok_hl _ _ _ _ _ _ _ Hh) as Hhl.
  apply have_ok_inv in Hh. destruct Hh as [_ Hc]. symmetry in Hc. lia.
Qed.

Lemma have_incomplete_short max d le fl hl bl :
  have_message max d = HaveOk le fl hl bl false -> nlen d < hl + bl.
Proof. intros Hh. apply have_ok_inv in Hh. destruct Hh as [_ Hc]. symmetry in Hc. lia. Qed.

Lemma skip_complete_shorter max d le fl hl bl :
  have_message max d = HaveOk le fl hl bl true ->
  (length (skipn (N.to_nat (hl + bl)) d) < length d)%nat.
Proof.
  intros Hh. apply have_complete_fits in Hh. destruct Hh as [H16 Hfit].
  apply skipn_shorter; unfold nlen in Hfit; lia.
Qed.

(* ---- 1. PROGRESS ---------------------------------------------------------------------------- *)
Lemma mtr_loop_progress : forall f max d, (length d < f)%nat ->
  exists mx b, max_to_read_loop f max d = Some (mx, b) /\ 0 < mx.
Proof.
  induction f as [|f IH]; intros max d Hf; [lia|].
  rewrite mtr_S.
  destruct (nlen d =? 0) eqn:Hz.
  { exists DBUS_MAXIMUM_MESSAGE_LENGTH, true. split; [reflexivity|exact max_len_pos]. }
  destruct (nlen d <? DBUS_MINIMUM_HEADER_SIZE) eqn:Hshort.
  { exists (DBUS_MINIMUM_HEADER_SIZE - nlen d), false. split; [reflexivity|].
    rewrite min_hdr_16 in *. lia. }
  destruct (have_message max d) as [r|le fl hl bl c] eqn:Hh.
  { exists DBUS_MAXIMUM_MESSAGE_LENGTH, true. split; [reflexivity|exact max_len_pos]. }
  destruct c.
  - pose proof (skip_complete_shorter _ _ _ _ _ _ Hh) as Hlen.
    apply IH. lia.
  - pose proof (have_incomplete_short _ _ _ _ _ _ Hh) as Hlt.
    exists (hl + bl - nlen d), false. split; [reflexivity|lia].
Qed.

Theorem max_to_read_progress : forall l, exists mx b, max_to_read l = Some (mx, b) /\ 0 < mx.
Proof.
  intros l. unfold max_to_read.
  destruct (l_fds l =? 0) eqn:Hfds.
  - exists DBUS_MAXIMUM_MESSAGE_LENGTH, true. split; [reflexivity|exact max_len_pos].
  - apply mtr_loop_progress. lia.
Qed.

(* ---- 2. BOUNDARY ---------------------------------------------------------------------------- *)
(* the state queue_messages leaves behind when it does not detect corruption: the buffer does not
   start with a complete message *)
Definition settled (l : loader) : Prop :=
  l_corrupted l = false /\
  (nlen (l_buf l) < 16 \/
   exists le fl hl bl, have_message (l_max l) (l_buf l) = HaveOk le fl hl bl false).

Lemma qm_settled : forall f l, (length (l_buf l) < f)%nat ->
  l_corrupted (queue_messages f l) = false -> settled (queue_messages f l).
Proof.
  induction f as [|f IH]; intros l Hf; [lia|].
  rewrite qm_S.
  destruct (l_corrupted l) eqn:Hcor; [intros Hc; congruence|].
  destruct (nlen (l_buf l) <? DBUS_MINIMUM_HEADER_SIZE) eqn:Hshort.
  { intros _. split; [exact Hcor|]. left. rewrite min_hdr_16 in Hshort. lia. }
  destruct (have_message (l_max l) (l_buf l)) as [r|le fl hl bl c] eqn:Hh.
  { cbn [l_corrupted]. intros Hc. discriminate Hc. }
  destruct c.
  - destruct (load_message le fl hl bl (l_fds l) (l_buf l)) as [m|r] eqn:Hl.
    + apply IH. cbn [l_buf]. pose proof (skip_complete_shorter _ _ _ _ _ _ Hh) as Hlen. lia.
    + cbn [l_corrupted]. intros Hc. discriminate Hc.
  - intros _. split; [exact Hcor|]. right. exists le, fl, hl, bl. exact Hh.
Qed.

Lemma settled_norm l0 : l_corrupted (norm l0) = false -> settled (norm l0).
Proof. unfold norm. apply qm_settled. lia. Qed.

(* empty buffer: anything goes, descriptors included *)
Theorem limit_empty l : l_buf l = [] -> max_to_read l = Some (DBUS_MAXIMUM_MESSAGE_LENGTH, true).
Proof.
  intros He. unfold max_to_read. rewrite He.
  destruct (l_fds l =? 0); reflexivity.
Qed.

(* no descriptors held: no limit *)
Theorem limit_no_fds l : l_fds l = 0 -> max_to_read l = Some (DBUS_MAXIMUM_MESSAGE_LENGTH, true).
Proof. intros H0. unfold max_to_read. rewrite H0. reflexivity. Qed.

(* inside the fixed header: up to its end, no descriptors *)
Theorem limit_in_fixed_header l :
  l_fds l <> 0 -> 0 < nlen (l_buf l) -> nlen (l_buf l) < 16 ->
  exists mx, max_to_read l = Some (mx, false) /\ nlen (l_buf l) + mx = 16.
Proof.
  intros Hfds Hpos Hlt. unfold max_to_read.
  destruct (l_fds l =? 0) eqn:E; [lia|].
  rewrite mtr_S.
  destruct (nlen (l_buf l) =? 0) eqn:Hz; [lia|].
  destruct (nlen (l_buf l) <? DBUS_MINIMUM_HEADER_SIZE) eqn:Hshort; [|rewrite min_hdr_16 in Hshort; lia].
  exists (DBUS_MINIMUM_HEADER_SIZE - nlen (l_buf l)). split; [reflexivity|]. rewrite min_hdr_16. lia.
Qed.

(* inside a message whose fixed header has arrived: up to the end of that message, no descriptors *)
Theorem limit_in_message l le fl hl bl :
  l_fds l <> 0 -> 16 <= nlen (l_buf l) ->
  have_message (l_max l) (l_buf l) = HaveOk le fl hl bl false ->
  exists mx, max_to_read l = Some (mx, false) /\ nlen (l_buf l) + mx = hl + bl.
Proof.
  intros Hfds H16 Hh. unfold max_to_read.
  destruct (l_fds l =? 0) eqn:E; [lia|].
  rewrite mtr_S.
  destruct (nlen (l_buf l) =? 0) eqn:Hz; [lia|].
  destruct (nlen (l_buf l) <? DBUS_MINIMUM_HEADER_SIZE) eqn:Hshort; [rewrite min_hdr_16 in Hshort; lia|].
  rewrite Hh. pose proof (have_incomplete_short _ _ _ _ _ _ Hh) as Hlt.
  exists (hl + bl - nlen (l_buf l)). split; [reflexivity|lia].
Qed.

(* the two together, for a settled state *)
Theorem limit_boundary l :
  settled l -> l_fds l <> 0 -> l_buf l <> [] ->
  exists mx, max_to_read l = Some (mx, false) /\
    (nlen (l_buf l) < 16 -> nlen (l_buf l) + mx = 16) /\
    (16 <= nlen (l_buf l) -> exists le fl hl bl,
        have_message (l_max l) (l_buf l) = HaveOk le fl hl bl false /\ nlen (l_buf l) + mx = hl + bl).
Proof.
  intros [Hcor Hs] Hfds Hne.
  assert (Hpos : 0 < nlen (l_buf l)).
  { destruct (l_buf l) as [|x r]; [congruence|]. unfold nlen. cbn [length]. lia. }
  destruct (nlen (l_buf l) <? 16) eqn:Hlt.
  - destruct (limit_in_fixed_header l Hfds Hpos ltac:(lia)) as (mx & Hm & He).
    exists mx. split; [exact Hm|]. split; [intros _; exact He|intros H16; lia].
  - destruct Hs as [Hs|(le & fl & hl & bl & Hh)]; [lia|].
    destruct (limit_in_message l le fl hl bl Hfds ltac:(lia) Hh) as (mx & Hm & He).
    exists mx. split; [exact Hm|]. split; [intros Hc; lia|].
    intros _. exists le, fl, hl, bl. split; [exact Hh|exact He].
Qed.

Corollary limit_boundary_norm l0 :
  l_corrupted (norm l0) = false -> l_fds (norm l0) <> 0 -> l_buf (norm l0) <> [] ->
  exists mx, max_to_read (norm l0) = Some (mx, false) /\
    (nlen (l_buf (norm l0)) < 16 -> nlen (l_buf (norm l0)) + mx = 16) /\
    (16 <= nlen (l_buf (norm l0)) -> exists le fl hl bl,
        have_message (l_max (norm l0)) (l_buf (norm l0)) = HaveOk le fl hl bl false /\
        nlen (l_buf (norm l0)) + mx = hl + bl).
Proof. intros Hc. apply limit_boundary. apply settled_norm. exact Hc. Qed.

(* ---- 3. TOTALITY of the transport loop ---------------------------------------------------- *)
Lemma fl_S f l x r fds :
  feed_limited (S f) l (x :: r) fds =
  if l_corrupted l then inl l
  else match max_to_read l with
       | None => inr l
       | Some (mx, _) =>
           if mx =? 0 then inr l
           else let k := N.to_nat (N.min mx (nlen (x :: r))) in
                feed_limited f (feed l (firstn k (x :: r)) fds) (skipn k (x :: r)) 0
       end.
Proof. reflexivity. Qed.

Lemma fl_nil f l fds : feed_limited f l [] fds = inl l.
Proof. destruct f; reflexivity. Qed.

Lemma feed_limited_total_gen : forall f l chunk fds, (length chunk < f)%nat ->
  exists l', feed_limited f l chunk fds = inl l'.
Proof.
  induction f as [|f IH]; intros l chunk fds Hf; [lia|].
  destruct chunk as [|x r]; [exists l; reflexivity|].
  rewrite fl_S.
  destruct (l_corrupted l) eqn:Hcor; [exists l; reflexivity|].
  destruct (max_to_read_progress l) as (mx & b & Hm & Hpos).
  rewrite Hm.
  destruct (mx =? 0) eqn:Hz; [lia|].
  cbv zeta. apply IH.
  rewrite skipn_length. unfold nlen. cbn [length] in *. lia.
Qed.

Theorem feed_limited_total : forall l chunk fds,
  exists l', feed_limited (S (length chunk)) l chunk fds = inl l'.
Proof. intros l chunk fds. apply feed_limited_total_gen. lia. Qed.

(* ---- 4. EQUIVALENCE with unlimited reading ------------------------------------------------- *)
Definition add_fds (l : loader) (n : N) : loader :=
  mkLoader (l_buf l) (l_corrupted l) (l_reason l) (l_msgs l) (l_fds l + n) (l_max l).

Lemma feed_add_fds l c fds : feed l c fds = norm (append (add_fds l fds) c).
Proof. reflexivity. Qed.

Lemma outcome_append l c : outcome (append l c) = outcome l.
Proof. reflexivity. Qed.

(* queue_messages does nothing in a settled or corrupted state *)
Definition quiescent (l : loader) : Prop := l_corrupted l = true \/ settled l.

Lemma quiescent_norm_id l : quiescent l -> norm l = l.
Proof.
  intros [Hc|[Hc Hs]]; [apply corrupted_norm; exact Hc|].
  unfold norm. rewrite qm_S, Hc.
  destruct (nlen (l_buf l) <? DBUS_MINIMUM_HEADER_SIZE) eqn:Hshort; [reflexivity|].
  destruct Hs as [Hs|(le & fl & hl & bl & Hh)]; [rewrite min_hdr_16 in Hshort; lia|].
  rewrite Hh. reflexivity.
Qed.

Lemma norm_quiescent l : quiescent (norm l).
Proof.
  destruct (l_corrupted (norm l)) eqn:Hc; [left; exact Hc|right; apply settled_norm; exact Hc].
Qed.

Lemma norm_idem l : norm (norm l) = norm l.
Proof. apply quiescent_norm_id, norm_quiescent. Qed.

Lemma quiescent_add_fds l n : quiescent l -> quiescent (add_fds l n).
Proof. intros [Hc|[Hc Hs]]; [left; exact Hc|right; split; [exact Hc|exact Hs]]. Qed.

(* descriptor-free continuation from a normalised state: the limited reads are one more chunking *)
Lemma feed_limited_outcome0 : forall f l1 chunk l',
  feed_limited f (norm l1) chunk 0 = inl l' ->
  outcome l' = outcome (norm (append (norm l1) chunk)).
Proof.
  induction f as [|f IH]; intros l1 chunk l' Hrun.
  - destruct chunk as [|x r]; [|discriminate Hrun].
    cbn [feed_limited] in Hrun. inversion Hrun. subst l'.
    rewrite append_nil, norm_idem. reflexivity.
  - destruct chunk as [|x r].
    { cbn [feed_limited] in Hrun. inversion Hrun. subst l'.
      rewrite append_nil, norm_idem. reflexivity. }
    rewrite fl_S in Hrun.
    destruct (l_corrupted (norm l1)) eqn:Hcor.
    { inversion Hrun. subst l'. rewrite (corrupted_norm (append (norm l1) (x :: r))) by exact Hcor.
      rewrite outcome_append. reflexivity. }
    destruct (max_to_read (norm l1)) as [[mx b]|]; [|discriminate Hrun].
    destruct (mx =? 0); [discriminate Hrun|].
    cbv zeta in Hrun.
    set (k := N.to_nat (N.min mx (nlen (x :: r)))) in *.
    rewrite feed_norm in Hrun.
    apply IH in Hrun. rewrite Hrun.
    rewrite stab_norm', append_append, firstn_skipn. reflexivity.
Qed.

Theorem feed_limited_equiv_gen : forall f l0 chunk fds l',
  feed_limited f (norm l0) chunk fds = inl l' ->
  outcome l' = outcome (feed (norm l0) chunk fds).
Proof.
  intros f l0 chunk fds l' Hrun.
  rewrite feed_add_fds.
  destruct chunk as [|x r].
  { rewrite fl_nil in Hrun. inversion Hrun. subst l'.
    rewrite append_nil.
    rewrite (quiescent_norm_id (add_fds (norm l0) fds)) by (apply quiescent_add_fds; apply norm_quiescent).
    reflexivity. }
  destruct f as [|f]; [discriminate Hrun|].
  rewrite fl_S in Hrun.
  destruct (l_corrupted (norm l0)) eqn:Hcor.
  { inversion Hrun. subst l'.
    rewrite (corrupted_norm (append (add_fds (norm l0) fds) (x :: r))) by exact Hcor. reflexivity. }
  destruct (max_to_read (norm l0)) as [[mx b]|]; [|discriminate Hrun].
  destruct (mx =? 0); [discriminate Hrun|].
  cbv zeta in Hrun.
  set (k := N.to_nat (N.min mx (nlen (x :: r)))) in *.
  rewrite feed_add_fds in Hrun.
  apply feed_limited_outcome0 in Hrun. rewrite Hrun.
  rewrite stab_norm', append_append, firstn_skipn. reflexivity.
Qed.

(* the statement for the fuel the transport model uses, any number of descriptors on the first read *)
Theorem feed_limited_equiv : forall l0 chunk fds l',
  feed_limited (S (length chunk)) (norm l0) chunk fds = inl l' ->
  outcome l' = outcome (feed (norm l0) chunk fds).
Proof. intros l0 chunk fds l'. apply feed_limited_equiv_gen. Qed.

Corollary feed_limited_equiv0 : forall l0 chunk l',
  feed_limited (S (length chunk)) (norm l0) chunk 0 = inl l' ->
  outcome l' = outcome (feed (norm l0) chunk 0).
Proof. intros l0 chunk l'. apply feed_limited_equiv. Qed.

(* totality and equivalence in one statement *)
Corollary feed_limited_correct : forall l0 chunk fds,
  exists l', feed_limited (S (length chunk)) (norm l0) chunk fds = inl l' /\
             outcome l' = outcome (feed (norm l0) chunk fds).
Proof.
  intros l0 chunk fds. destruct (feed_limited_total (norm l0) chunk fds) as [l' Hl'].
  exists l'. split; [exact Hl'|]. apply feed_limited_equiv. exact Hl'.
Qed.
