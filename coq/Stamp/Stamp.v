(* Package `stamp` (property C03): executable model of
     - create_unique_client_name and bus_driver_handle_hello          (bus/driver.c)
     - the prologue and the case split of bus_dispatch                 (bus/dispatch.c)
     - bus_transaction_send_from_driver, bus_transaction_send_error_reply,
       bus_driver_send_service_owner_changed / _acquired               (bus/connection.c, bus/driver.c)
     - what libdbus itself does with a message on the daemon's side of a client
       connection before / after the bus filter: _dbus_connection_peer_filter_unlocked_no_update
       and the tail of dbus_connection_dispatch                        (dbus/dbus-connection.c)
   at the level of decoded messages (Spec.Codec.smsg) edited with Wire.HeaderEdit.

   Routing (who receives a forwarded message), policy, match rules, monitors and all driver
   methods other than Hello are NOT modelled here: they are Section variables, so every
   theorem holds for every routing / policy / driver behaviour.  No proofs in this file. *)
From DV Require Import Lib.Base Wire.HeaderEdit.
From Coq Require Import ZArith.
Local Open Scope N_scope.

(* ---------------- constants (checked against the C text by Proofs/StampTie.v) ---------------- *)
Definition INT_MAX : Z := 2147483647%Z.
Definition drv_name : bytes := [111;114;103;46;102;114;101;101;100;101;115;107;116;111;112;46;68;66;117;115].  (* "org.freedesktop.DBus" *)
Definition not_active : bytes := [58;110;111;116;46;97;99;116;105;118;101;46;121;101;116].  (* ":not.active.yet" *)
Definition peer_iface : bytes := [111;114;103;46;102;114;101;101;100;101;115;107;116;111;112;46;68;66;117;115;46;80;101;101;114].  (* "org.freedesktop.DBus.Peer" *)
Definition dbus_path : bytes := [47;111;114;103;47;102;114;101;101;100;101;115;107;116;111;112;47;68;66;117;115].  (* "/org/freedesktop/DBus" *)
Definition mem_hello : bytes := [72;101;108;108;111].  (* "Hello" *)
Definition mem_ping : bytes := [80;105;110;103].  (* "Ping" *)
Definition mem_getmid : bytes := [71;101;116;77;97;99;104;105;110;101;73;100].  (* "GetMachineId" *)
Definition mem_noc : bytes := [78;97;109;101;79;119;110;101;114;67;104;97;110;103;101;100].  (* "NameOwnerChanged" *)
Definition mem_request : bytes := [82;101;113;117;101;115;116;78;97;109;101].  (* "RequestName" *)
Definition mem_release : bytes := [82;101;108;101;97;115;101;78;97;109;101].  (* "ReleaseName" *)
Definition mem_lost : bytes := [78;97;109;101;76;111;115;116].  (* "NameLost" *)
Definition mem_acquired : bytes := [78;97;109;101;65;99;113;117;105;114;101;100].  (* "NameAcquired" *)
Definition err_failed : bytes := [111;114;103;46;102;114;101;101;100;101;115;107;116;111;112;46;68;66;117;115;46;69;114;114;111;114;46;70;97;105;108;101;100].  (* "org.freedesktop.DBus.Error.Failed" *)
Definition err_access : bytes := [111;114;103;46;102;114;101;101;100;101;115;107;116;111;112;46;68;66;117;115;46;69;114;114;111;114;46;65;99;99;101;115;115;68;101;110;105;101;100].  (* "org.freedesktop.DBus.Error.AccessDenied" *)
Definition err_args : bytes := [111;114;103;46;102;114;101;101;100;101;115;107;116;111;112;46;68;66;117;115;46;69;114;114;111;114;46;73;110;118;97;108;105;100;65;114;103;115].  (* "org.freedesktop.DBus.Error.InvalidArgs" *)
Definition err_limits : bytes := [111;114;103;46;102;114;101;101;100;101;115;107;116;111;112;46;68;66;117;115;46;69;114;114;111;114;46;76;105;109;105;116;115;69;120;99;101;101;100;101;100].  (* "org.freedesktop.DBus.Error.LimitsExceeded" *)
Definition err_unknown_method : bytes := [111;114;103;46;102;114;101;101;100;101;115;107;116;111;112;46;68;66;117;115;46;69;114;114;111;114;46;85;110;107;110;111;119;110;77;101;116;104;111;100].  (* "org.freedesktop.DBus.Error.UnknownMethod" *)

(* header field codes (dbus-protocol.h) *)
Definition F_PATH : N := 1.
Definition F_INTERFACE : N := 2.
Definition F_MEMBER : N := 3.
Definition F_ERROR_NAME : N := 4.
Definition F_REPLY_SERIAL : N := 5.
Definition F_DESTINATION : N := 6.
Definition F_SENDER : N := 7.
Definition F_CONTAINER_INSTANCE : N := 10.

(* ---------------- unique names: create_unique_client_name ---------------------------------- *)
(* _dbus_string_append_int of a non-negative int: decimal digits, no leading zeros, "0" for 0 *)
Fixpoint uint_bytes (u : Decimal.uint) : bytes :=
  match u with
  | Decimal.Nil => []
  | Decimal.D0 r => 48 :: uint_bytes r
  | Decimal.D1 r => 49 :: uint_bytes r
  | Decimal.D2 r => 50 :: uint_bytes r
  | Decimal.D3 r => 51 :: uint_bytes r
  | Decimal.D4 r => 52 :: uint_bytes r
  | Decimal.D5 r => 53 :: uint_bytes r
  | Decimal.D6 r => 54 :: uint_bytes r
  | Decimal.D7 r => 55 :: uint_bytes r
  | Decimal.D8 r => 56 :: uint_bytes r
  | Decimal.D9 r => 57 :: uint_bytes r
  end.

Definition dec (z : Z) : bytes := uint_bytes (N.to_uint (Z.to_N z)).

(* ":" MAJOR "." MINOR *)
Definition unique_name (major minor : Z) : bytes := 58 :: dec major ++ 46 :: dec minor.

Inductive fault :=
| FOverflow    (* signed int overflow: undefined behaviour (traps under UBSan) *)
| FAssert      (* _dbus_assert / _dbus_assert_not_reached *)
| FFuel.       (* the model's loop bound was hit (excluded by the theorems) *)

(* The while (TRUE) loop; [reg] are the names for which bus_registry_lookup succeeds.
   One unit of fuel per iteration. *)
Fixpoint mint (fuel : nat) (reg : list bytes) (major minor : Z) : fault + (bytes * Z * Z) :=
  match fuel with
  | O => inl FFuel
  | S fuel' =>
      let bumped :=                                   (* if (next_minor_number <= 0) { major += 1; minor = 0; ... } *)
        if (minor <=? 0)%Z then
          if (major =? INT_MAX)%Z then inl FOverflow
          else if (major + 1 <=? 0)%Z then inl FAssert          (* "INT_MAX * INT_MAX clients were added" *)
          else inr ((major + 1)%Z, 0%Z)
        else inr (major, minor) in
      match bumped with
      | inl f => inl f
      | inr (mj, mn) =>
          if negb (0 <? mj)%Z || (mn <? 0)%Z then inl FAssert    (* the two _dbus_assert lines *)
          else
            let name := unique_name mj mn in
            if (mn =? INT_MAX)%Z then inl FOverflow              (* next_minor_number += 1 *)
            else
              let mn' := (mn + 1)%Z in
              if existsb (bytes_eqb name) reg then mint fuel' reg mj mn'
              else inr (name, mj, mn')
      end
  end.

(* ---------------- message helpers --------------------------------------------------------- *)
Definition str_field (m : smsg) (code : N) : option bytes :=
  match get_field (s_fields m) code with
  | Some (VStr _ s) => Some s
  | _ => None
  end.

Definition opt_is (o : option bytes) (s : bytes) : bool :=
  match o with Some x => bytes_eqb x s | None => false end.

(* _dbus_message_has_type_interface_member: an absent INTERFACE matches *)
Definition is_call (m : smsg) (iface member : bytes) : bool :=
  (s_type m =? 1) && opt_is (str_field m F_MEMBER) member &&
  match str_field m F_INTERFACE with None => true | Some i => bytes_eqb i iface end.

Definition with_fields (m : smsg) (fs : list sfield) : smsg :=
  mkSMsg (s_le m) (s_type m) (s_flags m) (s_serial m) fs (s_sig m) (s_body m).

(* dbus_message_set_sender *)
Definition set_sender (m : smsg) (name : bytes) : smsg := apply_edit m (ESet F_SENDER (VStr 115 name)).

(* bus_dispatch: _dbus_message_remove_unknown_fields, dbus_message_set_container_instance (NULL) *)
Definition scrub (m : smsg) : smsg := apply_edit (apply_edit m EStrip) (EDel F_CONTAINER_INSTANCE).

(* scrub, then "Assign a sender to the message" *)
Definition stamp (name : bytes) (m : smsg) : smsg := set_sender (scrub m) name.

(* dbus_message_new_method_return / dbus_message_new_error: DESTINATION := SENDER of the
   message replied to (if any), NO_REPLY_EXPECTED, REPLY_SERIAL := its serial.  The serial of
   the new message is assigned when it is queued (not modelled: 0). *)
Definition reply_dest (m : smsg) : list edit :=
  match str_field m F_SENDER with Some s => [ESet F_DESTINATION (VStr 115 s)] | None => [] end.

Definition new_method_return (m : smsg) (body : list val) : smsg :=
  build true 2 1 0 (reply_dest m ++ [ESet F_REPLY_SERIAL (VNum 117 (s_serial m))]) body.

Definition new_error (m : smsg) (ename text : bytes) : smsg :=
  build true 3 1 0 (reply_dest m ++ [ESet F_ERROR_NAME (VStr 115 ename); ESet F_REPLY_SERIAL (VNum 117 (s_serial m))]) [VStr 115 text].

(* dbus_message_new_signal (DBUS_PATH_DBUS, DBUS_INTERFACE_DBUS, member) + args; new_signal sets NO_REPLY_EXPECTED *)
Definition new_driver_signal (member : bytes) (pre : list edit) (body : list val) : smsg :=
  build true 4 1 0 ([ESet F_PATH (VStr 111 dbus_path); ESet F_INTERFACE (VStr 115 drv_name); ESet F_MEMBER (VStr 115 member)] ++ pre) body.

Definition set_flag_noreply (m : smsg) : smsg :=
  mkSMsg (s_le m) (s_type m) (N.lor (s_flags m) 1) (s_serial m) (s_fields m) (s_sig m) (s_body m).

(* bus_transaction_send_from_driver: SENDER := org.freedesktop.DBus, DESTINATION := the
   recipient's unique name if it has one, NO_REPLY_EXPECTED *)
Definition from_driver (rcpt_name : option bytes) (m : smsg) : smsg :=
  let m1 := set_sender m drv_name in
  let m2 := match rcpt_name with Some n => apply_edit m1 (ESet F_DESTINATION (VStr 115 n)) | None => m1 end in
  set_flag_noreply m2.

(* the bus's own byte order (little endian on the machines this model is compared on) *)
Definition to_native (m : smsg) : smsg := if s_le m then m else swap_order m.

(* ---------------- bus state ---------------------------------------------------------------- *)
Definition conn := N.

(* BusPendingActivationEntry with auto_activation set: the message is kept by reference, exactly
   as bus_dispatch left it (stamped), together with the connection that wrote it.  The model names
   that connection by its id AND the unique name it had: ids are reused by reconnecting clients,
   unique names never are, so (live, same name) is the model's "the DBusConnection is still
   connected". *)
Record held := mkHeld {
  h_name : bytes;                           (* the service being started *)
  h_conn : conn;
  h_sender : bytes;                         (* unique name of h_conn when it wrote the message *)
  h_msg : smsg                              (* entry->activation_message *)
}.

Record bus := mkBus {
  b_major : Z;                              (* static int next_major_number *)
  b_minor : Z;                              (* static int next_minor_number *)
  b_conns : list (conn * option bytes);     (* live connections with BusConnectionData.name (NULL until Hello) *)
  b_reg : list (bytes * list conn);         (* the registry's entries for names that begin with ':': name, owner queue
                                               (BusService.owners, primary owner first) *)
  b_owned : list (bytes * bytes);           (* well-known names the model saw being granted: name, owner's unique name *)
  b_held : list held                        (* pending auto-activation entries, in arrival order *)
}.

Definition bus0 : bus := mkBus 0 0 [] [] [] [].

Definition set_conns (b : bus) (l : list (conn * option bytes)) : bus :=
  mkBus (b_major b) (b_minor b) l (b_reg b) (b_owned b) (b_held b).
Definition set_held (b : bus) (l : list held) : bus :=
  mkBus (b_major b) (b_minor b) (b_conns b) (b_reg b) (b_owned b) l.

Fixpoint lookup (c : conn) (l : list (conn * option bytes)) : option (option bytes) :=
  match l with
  | [] => None
  | (k, v) :: r => if k =? c then Some v else lookup c r
  end.

Definition remove_conn (c : conn) (l : list (conn * option bytes)) : list (conn * option bytes) :=
  filter (fun kv => negb (fst kv =? c)) l.

Fixpoint set_name (c : conn) (n : bytes) (l : list (conn * option bytes)) : list (conn * option bytes) :=
  match l with
  | [] => []
  | (k, v) :: r => if k =? c then (k, Some n) :: r else (k, v) :: set_name c n r
  end.

Definition name_of (b : bus) (c : conn) : option bytes :=
  match lookup c (b_conns b) with Some (Some n) => Some n | _ => None end.

(* bus_registry_lookup (registry, name) != NULL, as far as the model knows *)
Definition reg_names (b : bus) : list bytes := map fst (b_reg b).

Definition is_owned (b : bus) (d : bytes) : bool :=
  existsb (fun kv => bytes_eqb d (fst kv)) (b_owned b) || existsb (bytes_eqb d) (reg_names b).

(* bus_registry_lookup + bus_service_get_primary_owners_connection for a name beginning with ':' *)
Definition resolve (b : bus) (d : bytes) : option conn :=
  match find (fun e => bytes_eqb d (fst e)) (b_reg b) with
  | Some (_, c :: _) => Some c
  | _ => None
  end.

(* bus_connection_disconnected: the connection leaves every owner queue it is in
   (bus_service_remove_owner); a service without owners is removed from the registry *)
Definition reg_drop (c : conn) (r : list (bytes * list conn)) : list (bytes * list conn) :=
  filter (fun e => match snd e with [] => false | _ => true end)
         (map (fun e => (fst e, filter (fun k => negb (k =? c)) (snd e))) r).

(* dbus_connection_get_is_connected (entry->connection) *)
Definition still_there (b : bus) (h : held) : bool :=
  match name_of b (h_conn h) with Some n => bytes_eqb n (h_sender h) | None => false end.

(* connections->n_completed *)
Definition n_completed (b : bus) : N :=
  nlen (filter (fun kv => match snd kv with Some _ => true | None => false end) (b_conns b)).

(* ---------------- observable trace --------------------------------------------------------- *)
Inductive origin :=
| OClient (c : conn)      (* a message read from client c and passed on *)
| ODriver                 (* built by the bus driver *)
| OLocal.                 (* built by libdbus on the daemon's end of the connection, outside the bus code *)

(* who bus_dispatch found to be the addressed recipient *)
Inductive addressee :=
| AUnknown                (* DESTINATION is absent or a well-known name: not this model's business *)
| ANobody                 (* DESTINATION begins with ':' and the registry has no such name *)
| ATo (r : conn).         (* DESTINATION begins with ':' and r is that name's primary owner *)

Inductive scope :=
| SRouted (c : conn) (a : addressee)  (* bus_dispatch_matches with sender c: addressed recipient, match rules (+ monitors) *)
| SMonitors               (* bus_transaction_capture only *)
| SMatches (c : conn)     (* bus_dispatch_matches with sender c and no addressed recipient, for a message
                             that was captured before: match-rule holders only *)
| STo (c : conn)          (* bus_transaction_send_from_driver to c (+ monitors) *)
| SBroadcast              (* bus_dispatch_matches without sender / addressed recipient (+ monitors) *)
| SSelf (c : conn)        (* queued directly on c's connection by libdbus; never captured *)
| SReleased (c : conn).   (* bus_dispatch_matches from bus_activation_send_pending_auto_activation_messages:
                             addressed recipient and match rules, NOT captured again *)

Inductive item :=
| TConn (c : conn)
| TRecv (c : conn) (m : smsg)                   (* the bus read m from c *)
| TIssue (c : conn) (name : bytes)              (* bus_connection_complete *)
| TEmit (o : origin) (s : scope) (m : smsg)
| TGone (c : conn).                             (* connection closed / disconnected *)

Inductive event :=
| EConnect (c : conn)
| ESend (c : conn) (m : smsg)
| EDisconnect (c : conn)
| EActFail (name ename : bytes).                (* the process started for [name] exited / could not be executed / timed out *)

Inductive outcome :=
| Ok (b : bus) (tr : list item)
| Fault (f : fault)
| Ill.                                          (* event impossible in this state (unknown / duplicate connection) *)

(* what the rest of the driver asks to be sent, before it is stamped *)
Inductive dmsg :=
| DTo (c : conn) (m : smsg)                     (* bus_transaction_send_from_driver (transaction, c, m) *)
| DBcast (m : smsg).                            (* set_sender + bus_dispatch_matches (transaction, NULL, NULL, m) *)

Section Bus.
  Variable max_completed : N.                               (* <limit name="max_completed_connections"> *)
  Variable machine_id : bytes.
  Variable send_allowed : bus -> conn -> smsg -> bool.      (* security policy for a message addressed to the driver *)
  (* everything the bus originates in reaction to a stamped message other than Hello (driver
     methods, error replies of routing / policy / activation), and on a disconnect (signals for
     the well-known names the connection owned) *)
  Variable driver : bus -> conn -> smsg -> list dmsg.
  (* does the driver open an argument iterator on this message?  (_dbus_message_iter_init_common converts
     the message, in place, to the bus's own byte order; the copies queued for monitors and
     eavesdroppers are references to the same message) *)
  Variable reads_args : bus -> conn -> smsg -> bool.
  Variable on_disconnect : bus -> conn -> list dmsg.
  (* is there a service file for this name that activation accepts (limits, activation-time policy)? *)
  Variable activatable : bytes -> bool.
  (* did bus_registry_acquire_service succeed for this RequestName (C04's subject)? *)
  Variable granted : bus -> conn -> bytes -> bool.

  Definition emit_dmsg (b : bus) (d : dmsg) : item :=
    match d with
    | DTo c m => TEmit ODriver (STo c) (from_driver (name_of b c) m)
    | DBcast m => TEmit ODriver SBroadcast (set_sender m drv_name)
    end.

  (* bus_transaction_send_error_reply *)
  Definition error_reply (b : bus) (c : conn) (m : smsg) (ename : bytes) : item :=
    emit_dmsg b (DTo c (new_error m ename [])).

  (* bus_driver_send_service_owner_changed: sender is set before the arguments are appended *)
  Definition noc (name old new : bytes) : item :=
    TEmit ODriver SBroadcast
      (new_driver_signal mem_noc [ESet F_SENDER (VStr 115 drv_name)] [VStr 115 name; VStr 115 old; VStr 115 new]).

  (* bus_driver_handle_hello, after the "already active" test.  m is the Hello message as stamped
     by bus_dispatch (sender ":not.active.yet"); it has already been queued for the monitors by
     bus_transaction_capture, by reference: the copy the monitors get when the transaction is
     executed therefore carries whatever sender the handler sets afterwards. *)
  Definition do_hello (b : bus) (c : conn) (m : smsg) : outcome :=
    if max_completed <=? n_completed b then
      Ok b [TEmit (OClient c) SMonitors m; error_reply b c m err_limits]              (* bus_connections_check_limits *)
    else
      match mint (S (length (reg_names b))) (reg_names b) (b_major b) (b_minor b) with
      | inl f => Fault f
      | inr (name, mj, mn) =>
          let b' := mkBus mj mn (set_name c name (b_conns b)) ((name, [c]) :: b_reg b) (b_owned b) (b_held b) in   (* bus_connection_complete, bus_registry_ensure *)
          let m' := set_sender m name in                                              (* dbus_message_set_sender (message, name) *)
          Ok b' [ TIssue c name;
                  TEmit (OClient c) SMonitors m';
                  emit_dmsg b' (DTo c (new_method_return m' [VStr 115 name]));        (* bus_driver_send_welcome_message *)
                  noc name [] name;                                                   (* bus_registry_ensure *)
                  emit_dmsg b' (DTo c (new_driver_signal mem_acquired [ESet F_DESTINATION (VStr 115 name)] [VStr 115 name]));
                  TEmit (OClient c) (SMatches c) m' ]                                 (* back in bus_dispatch: bus_dispatch_matches *)
      end.

  (* libdbus, before any filter: _dbus_connection_peer_filter_unlocked_no_update with
     route_peer_messages set (bus/connection.c) *)
  Definition peer_filter (c : conn) (m : smsg) : option (list item) :=
    match str_field m F_DESTINATION with
    | Some _ => None
    | None =>
        if negb (opt_is (str_field m F_INTERFACE) peer_iface) then None
        else if is_call m peer_iface mem_ping then Some [TEmit OLocal (SSelf c) (new_method_return m [])]
        else if is_call m peer_iface mem_getmid then Some [TEmit OLocal (SSelf c) (new_method_return m [VStr 115 machine_id])]
        else Some [TEmit OLocal (SSelf c) (new_error m err_unknown_method [])]
    end.

  (* a RequestName call as bus_driver_handle_acquire_service reads it *)
  Definition request_name_of (m : smsg) : option bytes :=
    if is_call m drv_name mem_request then
      match s_body m with
      | [VStr 115 name; VNum 117 _] => Some name
      | _ => None
      end
    else None.

  (* RequestName / ReleaseName (any flags) of a name beginning with ':' *)
  Definition colon_request_of (m : smsg) : option bytes :=
    if is_call m drv_name mem_request then
      match s_body m with
      | [VStr 115 name; VNum 117 _] => if is_prefix [58] name then Some name else None
      | _ => None
      end
    else if is_call m drv_name mem_release then
      match s_body m with
      | [VStr 115 name] => if is_prefix [58] name then Some name else None
      | _ => None
      end
    else None.

  (* bus_activation_send_pending_auto_activation_messages: every kept message whose writer is still
     connected is dispatched now ("resume dispatching where we left off in bus_dispatch()"); a
     refusal is bounced to the writer as an error (part of [driver]) *)
  Definition release (b : bus) (name : bytes) : list item :=
    flat_map (fun h =>
                if bytes_eqb (h_name h) name && still_there b h then
                  TEmit (OClient (h_conn h)) (SReleased (h_conn h)) (h_msg h) :: map (emit_dmsg b) (driver b (h_conn h) (h_msg h))
                else []) (b_held b).

  (* try_send_activation_failure: an error reply for every kept message whose writer is still connected *)
  Definition fail_all (b : bus) (name ename : bytes) : list item :=
    flat_map (fun h =>
                if bytes_eqb (h_name h) name && still_there b h then [error_reply b (h_conn h) (h_msg h) ename] else [])
             (b_held b).

  (* bus_dispatch for a message m read from live connection c (not a monitor) *)
  Definition dispatch (b : bus) (c : conn) (cname : option bytes) (m : smsg) : outcome :=
    match peer_filter c m with
    | Some tr => Ok b tr
    | None =>
        let m1 := scrub m in
        match str_field m1 F_DESTINATION with
        | None =>
            if negb (s_type m1 =? 4) then
              (* DBUS_HANDLER_RESULT_NOT_YET_HANDLED: dbus_connection_dispatch answers method calls itself *)
              Ok b (if s_type m1 =? 1 then [TEmit OLocal (SSelf c) (new_error m1 err_unknown_method [])] else [])
            else
              match cname with
              | Some n => let m2 := set_sender m1 n in
                          Ok b (TEmit (OClient c) (SRouted c AUnknown) m2 :: map (emit_dmsg b) (driver b c m2))
              | None => let m2 := set_sender m1 not_active in
                        Ok (set_conns b (remove_conn c (b_conns b)))
                           [TEmit (OClient c) SMonitors m2; TGone c]
              end
        | Some d =>
            let m2 := set_sender m1 (match cname with Some n => n | None => not_active end) in
            if bytes_eqb d drv_name then
              let cap := TEmit (OClient c) SMonitors m2 in
              let hello := is_call m2 drv_name mem_hello in
              match cname with
              | None =>
                  (* bus_context_check_security_policy: inactive connections may only send Hello *)
                  if negb hello then Ok b [cap; error_reply b c m2 err_access]
                  else if negb (bytes_eqb (s_sig m2) []) then Ok b [cap; error_reply b c m2 err_args]
                  else do_hello b c m2
              | Some n =>
                  if negb (send_allowed b c m2) then Ok b [cap; error_reply b c m2 err_access]
                  else if hello then
                    Ok b [cap; error_reply b c m2 (if bytes_eqb (s_sig m2) [] then err_failed else err_args)]
                  else
                    (* any other driver method (or a non-call, which the driver ignores); if the handler does
                       not fail, bus_dispatch goes on to bus_dispatch_matches *)
                    let m3 := if reads_args b c m2 then to_native m2 else m2 in
                    match colon_request_of m2 with
                    | Some _ =>
                        (* bus_registry_acquire_service / bus_registry_release_service: "Cannot acquire / release a
                           service starting with ':'": the handler fails, so no bus_dispatch_matches either *)
                        Ok b [TEmit (OClient c) SMonitors m3; error_reply b c m2 err_args]
                    | None =>
                    match request_name_of m2 with
                    | Some name =>
                        if granted b c name then
                          (* bus_registry_acquire_service ends with bus_activation_send_pending_auto_activation_messages *)
                          let b' := mkBus (b_major b) (b_minor b) (b_conns b) (b_reg b)
                                          (if is_owned b name then b_owned b else (name, n) :: b_owned b)
                                          (filter (fun h => negb (bytes_eqb (h_name h) name)) (b_held b)) in
                          Ok b' (TEmit (OClient c) SMonitors m3 :: map (emit_dmsg b) (driver b c m2) ++ release b name ++
                                 [TEmit (OClient c) (SMatches c) m3])
                        else Ok b (TEmit (OClient c) SMonitors m3 :: map (emit_dmsg b) (driver b c m2) ++ [TEmit (OClient c) (SMatches c) m3])
                    | None =>
                        Ok b (TEmit (OClient c) SMonitors m3 :: map (emit_dmsg b) (driver b c m2) ++ [TEmit (OClient c) (SMatches c) m3])
                    end
                    end
              end
            else
              match cname with
              | None =>
                  (* "clients must talk to bus driver first": captured, then dbus_connection_close *)
                  Ok (set_conns b (remove_conn c (b_conns b)))
                     [TEmit (OClient c) SMonitors m2; TGone c]
              | Some n =>
                  if negb (is_owned b d) && negb (N.testbit (s_flags m2) 1) && activatable d then
                    (* service == NULL && dbus_message_get_auto_start: captured, then
                       bus_activation_activate_service keeps the message; nothing is delivered now *)
                    Ok (set_held b (b_held b ++ [mkHeld d c n m2]))
                       (TEmit (OClient c) SMonitors m2 :: map (emit_dmsg b) (driver b c m2))
                  else
                    let a := if is_prefix [58] d then match resolve b d with Some r => ATo r | None => ANobody end else AUnknown in
                    Ok b (TEmit (OClient c) (SRouted c a) m2 :: map (emit_dmsg b) (driver b c m2))
              end
        end
    end.

  Definition step (b : bus) (e : event) : outcome :=
    match e with
    | EConnect c =>
        match lookup c (b_conns b) with
        | Some _ => Ill
        | None => Ok (set_conns b ((c, None) :: b_conns b)) [TConn c]
        end
    | ESend c m =>
        match lookup c (b_conns b) with
        | None => Ill
        | Some cname =>
            match dispatch b c cname m with
            | Ok b' tr => Ok b' (TRecv c m :: tr)
            | o => o
            end
        end
    | EDisconnect c =>
        match lookup c (b_conns b) with
        | None => Ill
        | Some None => Ok (set_conns b (remove_conn c (b_conns b))) [TGone c]
        | Some (Some n) =>
            (* bus_connection_disconnected: owned names are released, the unique name last *)
            Ok (mkBus (b_major b) (b_minor b) (remove_conn c (b_conns b)) (reg_drop c (b_reg b))
                      (filter (fun kv => negb (bytes_eqb (snd kv) n)) (b_owned b)) (b_held b))
               (map (emit_dmsg b) (on_disconnect b c) ++
                [ (* bus_service_remove_owner: NameLost is addressed to the connection that is gone, so
                     bus_transaction_send drops it, but it has been captured for the monitors *)
                  TEmit ODriver SMonitors (from_driver (Some n) (new_driver_signal mem_lost [ESet F_DESTINATION (VStr 115 n)] [VStr 115 n]));
                  noc n n []; TGone c])
        end
    | EActFail name ename =>
        Ok (set_held b (filter (fun h => negb (bytes_eqb (h_name h) name)) (b_held b))) (fail_all b name ename)
    end.

  (* a history; the trace produced so far is kept when a fault stops the run *)
  Fixpoint run (b : bus) (h : list event) : list item * option fault * bus :=
    match h with
    | [] => ([], None, b)
    | e :: r =>
        match step b e with
        | Ok b' tr => let '(tr2, f, b2) := run b' r in (tr ++ tr2, f, b2)
        | Fault f => ([], Some f, b)
        | Ill => run b r
        end
    end.
End Bus.
