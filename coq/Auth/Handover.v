(* The hand-over from the SASL object to the message loader: Auth.Transport
   (which records the loader's input as a byte stream) joined with the loader
   model of the wire package (Wire.Message.loader, feed).  Mirrors
   recover_unused_bytes + _dbus_transport_queue_messages (dbus-transport.c) and
   the read path of do_reading (dbus-transport-socket.c): whatever Auth.Transport
   appends to [tr_loader] is given to the loader with [feed], in the same order --
   the unused bytes of the handshake first (one chunk, before any further read),
   then every read made while authenticated. *)
From DV Require Import Lib.Base Auth.Types Gen.AuthTables Auth.Server Auth.Transport Wire.Message.
Local Open Scope N_scope.

Definition xstate := (transport * loader)%type.
Definition xinit : xstate := (transport_init, loader_new).

(* recover_unused_bytes, then _dbus_message_loader_queue_messages *)
Definition xrecover (t : transport) (l : loader) : loader :=
  if tr_authenticated t && negb (tr_recovered t) then feed l (a_incoming (tr_auth t)) 0 else l.

Definition xstep (te : tenv) (x : xstate) (ev : tevent) : xstate :=
  let '(t, l) := x in
  let l' :=
    match ev with
    | T_Dispatch => xrecover (try_to_authenticate te t) l
    | T_Read c =>
        if tr_authenticated t
        then let l1 := xrecover t l in
             if tr_disconnected (recover t) then l1 else feed l1 c 0     (* do_reading + queue_messages *)
        else l                                                          (* "No messages without authentication!" *)
    | T_Write _ => l
    end in
  (fst (tstep te t ev), l').

Definition xrun (te : tenv) (x : xstate) (evs : list tevent) : xstate := fold_left (xstep te) evs x.

(* a schedule for a given cutting of the stream into reads: after every read the pending answers are written out
   and the dispatch status is recomputed (what the main loop does) *)
Definition drive (chunks : list bytes) : list tevent :=
  flat_map (fun c => [T_Read c; T_Write 65536; T_Dispatch]) chunks.
