(* Basic types of the server-side SASL model (dbus/dbus-auth.c).  Kept in a
   file of their own so that the generated tables (Gen/AuthTables.v) can refer
   to them and the model (Auth/Server.v) can refer to the tables. *)
From DV Require Import Lib.Base.

(* DBusAuth.state on the server side.  [Crashed] is not a C state: it stands
   for "an _dbus_assert failed, the process aborted" (assertion-enabled builds). *)
Inductive sstate := WaitingForAuth | WaitingForData | WaitingForBegin | Authenticated | NeedDisconnect | Crashed.

(* DBusAuthCommand *)
Inductive cmd := CAuth | CCancel | CData | CBegin | CRejected | COk | CError | CUnknown | CNegotiateFd | CAgreeFd.

(* all_mechanisms[] *)
Inductive mech := EXTERNAL | COOKIE_SHA1 | ANONYMOUS.

(* what one arm of a server state handler's switch does *)
Inductive action :=
| A_HandleAuth                      (* return handle_auth (auth, args); *)
| A_SendError (msg : bytes)         (* return send_error (auth, "msg"); *)
| A_SendRejected                    (* return send_rejected (auth); *)
| A_ProcessData                     (* return process_data (auth, args, auth->mech->server_data_func); *)
| A_GotoDisconnect                  (* goto_state (auth, &common_state_need_disconnect); return TRUE; *)
| A_GotoAuthenticated               (* goto_state (auth, &common_state_authenticated); return TRUE; *)
| A_NegotiateFd (msg : bytes).      (* if (auth->unix_fd_possible) return send_agree_unix_fd (auth); else return send_error (auth, "msg"); *)

Definition sstate_eqb (a b : sstate) : bool :=
  match a, b with
  | WaitingForAuth, WaitingForAuth | WaitingForData, WaitingForData | WaitingForBegin, WaitingForBegin
  | Authenticated, Authenticated | NeedDisconnect, NeedDisconnect | Crashed, Crashed => true
  | _, _ => false
  end.

Definition mech_eqb (a b : mech) : bool :=
  match a, b with
  | EXTERNAL, EXTERNAL | COOKIE_SHA1, COOKIE_SHA1 | ANONYMOUS, ANONYMOUS => true
  | _, _ => false
  end.
