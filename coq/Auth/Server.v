(* Model of the SERVER side of dbus/dbus-auth.c (dbus 1.13.18), written after the
   C control flow.  Each definition names the C function it mirrors.  The
   environment of a handshake (socket credentials, allowed mechanisms, user
   database, keyring, random source, build flavour) is the explicit record
   [env]; nothing is assumed about it.  Allocation failure is not modelled
   (every C function here returns TRUE "had enough memory").

   Responses are returned as a list of [resp] by the handlers (one per C
   send_* call) and appended, rendered, to the outgoing buffer by
   [process_command]; the C code appends in the send_* functions. *)
From DV Require Import Lib.Base Auth.Types Gen.AuthTables Auth.Sha1 Wire.Utf8.
Local Open Scope N_scope.

(* ---------- DBusCredentials (dbus-credentials.c); unset = None ---------- *)
Record creds := mkCreds { c_uid : option N; c_pid : option N; c_gids : option (list N) }.
Definition creds_empty : creds := mkCreds None None None.

Definition ULONG_MAX : N := 18446744073709551615.   (* dbus_uid_t is unsigned long; DBUS_UID_UNSET = (dbus_uid_t) -1 *)
(* _dbus_credentials_add_unix_uid: storing DBUS_UID_UNSET leaves the uid unset *)
Definition uid_of_ulong (u : N) : option N := if u =? ULONG_MAX then None else Some u.

Definition opt_N_eqb (a b : option N) : bool :=
  match a, b with Some x, Some y => x =? y | None, None => true | _, _ => false end.
Fixpoint listN_eqb (a b : list N) : bool :=
  match a, b with [] , [] => true | x :: a', y :: b' => (x =? y) && listN_eqb a' b' | _, _ => false end.
Definition opt_listN_eqb (a b : option (list N)) : bool :=
  match a, b with Some x, Some y => listN_eqb x y | None, None => true | _, _ => false end.
Definition is_none {A} (o : option A) : bool := match o with None => true | Some _ => false end.
Definition is_empty {A} (l : list A) : bool := match l with [] => true | _ => false end.

(* _dbus_credentials_are_anonymous *)
Definition are_anonymous (c : creds) : bool := is_none (c_uid c).
(* _dbus_credentials_are_superset (credentials, possible_subset) *)
Definition are_superset (c sub : creds) : bool :=
  (is_none (c_pid sub) || opt_N_eqb (c_pid sub) (c_pid c)) &&
  (is_none (c_uid sub) || opt_N_eqb (c_uid sub) (c_uid c)) &&
  (is_none (c_gids sub) || opt_listN_eqb (c_gids sub) (c_gids c)).
Definition or_else {A} (a b : option A) : option A := match a with Some _ => a | None => b end.
(* _dbus_credentials_add_credentials (credentials, other): every credential present in other overwrites *)
Definition add_credentials (c other : creds) : creds :=
  mkCreds (or_else (c_uid other) (c_uid c)) (or_else (c_pid other) (c_pid c)) (or_else (c_gids other) (c_gids c)).
(* _dbus_credentials_add_credential (credentials, which, other) for PROCESS_ID and GROUP_IDS *)
Definition add_pid_from (c other : creds) : creds := mkCreds (c_uid c) (or_else (c_pid other) (c_pid c)) (c_gids c).
Definition add_gids_from (c other : creds) : creds := mkCreds (c_uid c) (c_pid c) (or_else (c_gids other) (c_gids c)).
Definition set_uid (c : creds) (u : option N) : creds := mkCreds u (c_pid c) (c_gids c).
(* _dbus_credentials_same_user *)
Definition same_user (a b : creds) : bool := opt_N_eqb (c_uid a) (c_uid b).

(* ---------- environment of one handshake ---------- *)
Record env := mkEnv {
  e_sock : creds;                      (* _dbus_auth_set_credentials: what the kernel reported for the socket *)
  e_allowed : option (list bytes);     (* _dbus_auth_set_mechanisms; None = NULL = every mechanism *)
  e_guid : bytes;                      (* server GUID (hex) *)
  e_fd_possible : bool;                (* _dbus_auth_set_unix_fd_possible *)
  e_asserts : bool;                    (* built without DBUS_DISABLE_ASSERT *)
  e_process_uid : N;                   (* _dbus_credentials_new_from_current_process *)
  e_userdb : bytes -> option N;        (* _dbus_user_database_get_username: name -> uid *)
  e_context : bytes;                   (* _dbus_auth_set_context *)
  e_keyring_ok : bool;                 (* _dbus_keyring_new_for_credentials succeeds *)
  e_best_key : N -> option N;          (* k-th _dbus_keyring_get_best_key; None = -1 *)
  e_cookie : N -> N -> bytes;          (* _dbus_keyring_get_hex_key on the keyring as the k-th get_best_key left it:
                                          hex secret of a key id, [] if unknown *)
  e_challenge : N -> option bytes      (* k-th _dbus_generate_random_bytes (N_CHALLENGE_BYTES); None = failed *)
}.

(* ---------- struct DBusAuth + DBusAuthServer ---------- *)
(* the protocol fields; the handlers work on these only *)
Record core := mkCore {
  a_state : sstate;
  a_mech : option mech;
  a_identity : bytes;
  a_authorized : creds;
  a_desired : creds;
  a_have_keyring : bool;
  a_cookie_id : option N;
  a_challenge : bytes;
  a_asked : bool;
  a_failures : N;
  a_fd_negotiated : bool;
  a_nchal : N
}.
Definition set_state (a : core) (v : sstate) : core := mkCore v (a_mech a) (a_identity a) (a_authorized a) (a_desired a) (a_have_keyring a) (a_cookie_id a) (a_challenge a) (a_asked a) (a_failures a) (a_fd_negotiated a) (a_nchal a).
Definition set_mech (a : core) (v : option mech) : core := mkCore (a_state a) v (a_identity a) (a_authorized a) (a_desired a) (a_have_keyring a) (a_cookie_id a) (a_challenge a) (a_asked a) (a_failures a) (a_fd_negotiated a) (a_nchal a).
Definition set_identity (a : core) (v : bytes) : core := mkCore (a_state a) (a_mech a) v (a_authorized a) (a_desired a) (a_have_keyring a) (a_cookie_id a) (a_challenge a) (a_asked a) (a_failures a) (a_fd_negotiated a) (a_nchal a).
Definition set_authorized (a : core) (v : creds) : core := mkCore (a_state a) (a_mech a) (a_identity a) v (a_desired a) (a_have_keyring a) (a_cookie_id a) (a_challenge a) (a_asked a) (a_failures a) (a_fd_negotiated a) (a_nchal a).
Definition set_desired (a : core) (v : creds) : core := mkCore (a_state a) (a_mech a) (a_identity a) (a_authorized a) v (a_have_keyring a) (a_cookie_id a) (a_challenge a) (a_asked a) (a_failures a) (a_fd_negotiated a) (a_nchal a).
Definition set_have_keyring (a : core) (v : bool) : core := mkCore (a_state a) (a_mech a) (a_identity a) (a_authorized a) (a_desired a) v (a_cookie_id a) (a_challenge a) (a_asked a) (a_failures a) (a_fd_negotiated a) (a_nchal a).
Definition set_cookie_id (a : core) (v : option N) : core := mkCore (a_state a) (a_mech a) (a_identity a) (a_authorized a) (a_desired a) (a_have_keyring a) v (a_challenge a) (a_asked a) (a_failures a) (a_fd_negotiated a) (a_nchal a).
Definition set_challenge (a : core) (v : bytes) : core := mkCore (a_state a) (a_mech a) (a_identity a) (a_authorized a) (a_desired a) (a_have_keyring a) (a_cookie_id a) v (a_asked a) (a_failures a) (a_fd_negotiated a) (a_nchal a).
Definition set_asked (a : core) (v : bool) : core := mkCore (a_state a) (a_mech a) (a_identity a) (a_authorized a) (a_desired a) (a_have_keyring a) (a_cookie_id a) (a_challenge a) v (a_failures a) (a_fd_negotiated a) (a_nchal a).
Definition set_failures (a : core) (v : N) : core := mkCore (a_state a) (a_mech a) (a_identity a) (a_authorized a) (a_desired a) (a_have_keyring a) (a_cookie_id a) (a_challenge a) (a_asked a) v (a_fd_negotiated a) (a_nchal a).
Definition set_fd_negotiated (a : core) (v : bool) : core := mkCore (a_state a) (a_mech a) (a_identity a) (a_authorized a) (a_desired a) (a_have_keyring a) (a_cookie_id a) (a_challenge a) (a_asked a) (a_failures a) v (a_nchal a).
Definition set_nchal (a : core) (v : N) : core := mkCore (a_state a) (a_mech a) (a_identity a) (a_authorized a) (a_desired a) (a_have_keyring a) (a_cookie_id a) (a_challenge a) (a_asked a) (a_failures a) (a_fd_negotiated a) v.
(* the object: protocol fields + DBusAuth.incoming / DBusAuth.outgoing *)
Record auth := mkAuth { a_core : core; a_incoming : bytes; a_outgoing : bytes }.
Definition core_init : core := mkCore WaitingForAuth None [] creds_empty creds_empty false None [] false 0 false 0.
Definition auth_init : auth := mkAuth core_init [] [].   (* _dbus_auth_server_new *)

Inductive resp := R_Rejected | R_Ok | R_Error (msg : bytes) | R_Data (d : bytes) | R_AgreeFd.

(* ---------- DBusString helpers (dbus-string.c, dbus-sysdeps.c) ---------- *)
Definition is_blank (c : N) : bool := (c =? 32) || (c =? 9).                       (* DBUS_IS_ASCII_BLANK *)
Definition is_white (c : N) : bool := is_blank c || (c =? 10) || (c =? 13).         (* DBUS_IS_ASCII_WHITE *)
Definition is_ascii (c : N) : bool := negb (c =? 0) && (c <? 128).                  (* _DBUS_ISASCII *)
Definition validate_ascii (s : bytes) : bool := forallb is_ascii s.                 (* _dbus_string_validate_ascii *)

(* _dbus_string_find_blank (str, 0, &i): (found, i); i = length if not found *)
Fixpoint find_blank_from (s : bytes) (i : N) : bool * N :=
  match s with
  | [] => (false, i)
  | c :: r => if is_blank c then (true, i) else find_blank_from r (i + 1)
  end.
Definition find_blank (s : bytes) : bool * N := find_blank_from s 0.

(* _dbus_string_skip_blank (str, start, &end) on the suffix starting at [start];
   None = its _dbus_assert (i == len || !DBUS_IS_ASCII_BLANK (str[i])) fails -- since the fix 94435c1 the
   assertion states what the loop guarantees and can never fail (Proofs.AuthLex.skip_blank_total);
   before it tested DBUS_IS_ASCII_WHITE and aborted on a blank followed by CR or LF (finding F08a) *)
Fixpoint skip_blank_from (asserts : bool) (s : bytes) (i : N) : option N :=
  match s with
  | [] => Some i
  | c :: r => if is_blank c then skip_blank_from asserts r (i + 1)
              else if asserts && is_blank c then None else Some i
  end.
Definition skip_blank (asserts : bool) (s : bytes) (start : N) : option N :=
  skip_blank_from asserts (skipn (N.to_nat start) s) start.

(* _dbus_string_find (str, 0, "\r\n", &eol) *)
Fixpoint find_crlf_from (s : bytes) (i : N) : option N :=
  match s with
  | [] => None
  | c :: r => match r with
              | d :: _ => if (c =? 13) && (d =? 10) then Some i else find_crlf_from r (i + 1)
              | [] => None
              end
  end.
Definition find_crlf (s : bytes) : option N := find_crlf_from s 0.

(* _dbus_string_hex_decode (source, 0, &end, dest, 0): (decoded, end).  A dangling
   high nibble is kept as a byte of its own, exactly as the C loop leaves it. *)
Definition hexval (c : N) : option N :=
  if (48 <=? c) && (c <=? 57) then Some (c - 48)
  else if (97 <=? c) && (c <=? 102) then Some (c - 87)
  else if (65 <=? c) && (c <=? 70) then Some (c - 55)
  else None.
Fixpoint hex_decode_loop (s : bytes) (pending : option N) (acc_rev : bytes) (i : N) : bytes * N :=
  let finish := rev (match pending with Some h => h :: acc_rev | None => acc_rev end) in
  match s with
  | [] => (finish, i)
  | c :: r => match hexval c with
              | None => (finish, i)
              | Some v => match pending with
                          | None => hex_decode_loop r (Some (16 * v)) acc_rev (i + 1)
                          | Some h => hex_decode_loop r None ((h + v) :: acc_rev) (i + 1)
                          end
              end
  end.
Definition hex_decode (s : bytes) : bytes * N := hex_decode_loop s None [] 0.

(* strtoul (p, &end, 0) as used by _dbus_string_parse_uint / _dbus_is_a_number:
   Some v iff the WHOLE string converts without ERANGE (glibc, C locale) *)
Definition is_space (c : N) : bool := ((9 <=? c) && (c <=? 13)) || (c =? 32).
Fixpoint skip_spaces (s : bytes) : bytes :=
  match s with c :: r => if is_space c then skip_spaces r else s | [] => [] end.
Definition digit_val (c : N) : option N :=
  if (48 <=? c) && (c <=? 57) then Some (c - 48)
  else if (97 <=? c) && (c <=? 122) then Some (c - 87)
  else if (65 <=? c) && (c <=? 90) then Some (c - 55)
  else None.
Fixpoint digits (base : N) (s : bytes) (acc : N) (any : bool) : N * bool * bytes :=
  match s with
  | [] => (acc, any, [])
  | c :: r => match digit_val c with
              | Some d => if d <? base then digits base r (acc * base + d) true else (acc, any, s)
              | None => (acc, any, s)
              end
  end.
Definition parse_ulong (s : bytes) : option N :=
  let s1 := skip_spaces s in
  let '(neg, s2) := match s1 with 45 :: r => (true, r) | 43 :: r => (false, r) | _ => (false, s1) end in
  let '(base, s3) := match s2 with
                     | 48 :: x :: r => if (x =? 120) || (x =? 88) then (16, r) else (8, s2)
                     | 48 :: [] => (8, s2)
                     | _ => (10, s2)
                     end in
  let '(v, any, rest) := digits base s3 0 false in
  if negb any then None
  else match rest with
       | _ :: _ => None
       | [] => if ULONG_MAX <? v then None
               else Some (if neg then (if v =? 0 then 0 else ULONG_MAX + 1 - v) else v)
       end.

(* _dbus_string_append_int for a non-negative int *)
Fixpoint dec_aux (fuel : nat) (n : N) (acc : bytes) : bytes :=
  match fuel with
  | O => acc
  | S f => let acc' := (48 + n mod 10) :: acc in if n <? 10 then acc' else dec_aux f (n / 10) acc'
  end.
Definition dec_of_N (n : N) : bytes := dec_aux (S (N.to_nat (N.size n))) n [].

(* ---------- mechanism table lookups ---------- *)
Fixpoint assoc_bytes {A} (k : bytes) (l : list (bytes * A)) : option A :=
  match l with [] => None | (k', v) :: r => if bytes_eqb k k' then Some v else assoc_bytes k r end.
(* _dbus_string_array_contains *)
Definition array_contains (l : list bytes) (k : bytes) : bool := existsb (bytes_eqb k) l.
Definition mech_allowed (e : env) (name : bytes) : bool :=
  match e_allowed e with None => true | Some l => array_contains l name end.
(* find_mech *)
Definition find_mech (e : env) (name : bytes) : option mech :=
  if mech_allowed e name then assoc_bytes name all_mechanisms else None.
(* lookup_command_from_name *)
Definition lookup_command (w : bytes) : cmd :=
  match assoc_bytes w auth_command_names with Some c => c | None => CUnknown end.

(* what the send_* functions append to auth->outgoing *)
Definition crlf : bytes := [13; 10].
Definition rejected_names (e : env) : bytes :=
  flat_map (fun p => if mech_allowed e (fst p) then 32 :: fst p else []) all_mechanisms.
Definition render (e : env) (r : resp) : bytes :=
  match r with
  | R_Rejected => str_REJECTED ++ rejected_names e ++ crlf                       (* send_rejected *)
  | R_Ok => str_OK_sp ++ e_guid e ++ crlf                                       (* send_ok *)
  | R_Error m => str_ERROR_pre ++ m ++ str_ERROR_post                           (* send_error *)
  | R_Data d => if is_empty d then str_DATA_crlf else str_DATA_sp ++ hex_encode d ++ crlf   (* send_data *)
  | R_AgreeFd => str_AGREE_crlf                                                 (* send_agree_unix_fd *)
  end.

(* ---------- shutdown_mech / send_* ---------- *)
Definition shutdown_mech (a : core) : core :=
  let a := set_asked a false in
  let a := set_identity a [] in
  let a := set_authorized a creds_empty in
  let a := set_desired a creds_empty in
  match a_mech a with
  | None => a
  | Some m =>
      let a := match m with
               | COOKIE_SHA1 => set_challenge (set_cookie_id a None) []   (* handle_server_shutdown_cookie_sha1_mech *)
               | _ => a
               end in
      set_mech a None
  end.

Definition send_rejected (a : core) : core * list resp :=
  let a := shutdown_mech a in
  let a := set_failures a (a_failures a + 1) in
  (set_state a (if max_failures <=? a_failures a then NeedDisconnect else WaitingForAuth), [R_Rejected]).
Definition send_ok (a : core) : core * list resp := (set_state a WaitingForBegin, [R_Ok]).
Definition send_error (a : core) (m : bytes) : core * list resp := (a, [R_Error m]).
(* an _dbus_assert failed (or a model fault): the process is gone *)
Definition crash (a : core) : core * list resp := (set_state a Crashed, []).

(* ---------- EXTERNAL: handle_server_data_external_mech ---------- *)
Definition external_mech (e : env) (a : core) (data : bytes) : core * list resp :=
  if are_anonymous (e_sock e) then send_rejected a
  else if negb (is_empty data) && negb (is_empty (a_identity a)) then send_rejected a
  else
    let a := if negb (is_empty data) then set_identity a data else a in
    if is_empty (a_identity a) && negb (a_asked a)
    then (set_state (set_asked a true) WaitingForData, [R_Data []])
    else
      let a := set_desired a creds_empty in
      let want := if is_empty (a_identity a)
                  then Some (add_credentials (a_desired a) (e_sock e))
                  else match parse_ulong (a_identity a) with      (* _dbus_credentials_add_from_user, FLAGS_NONE *)
                       | Some u => Some (set_uid (a_desired a) (uid_of_ulong u))
                       | None => None
                       end in
      match want with
      | None => send_rejected a
      | Some d =>
          let a := set_desired a d in
          if are_anonymous d then send_rejected a
          else if are_superset (e_sock e) d
          then let z := add_credentials (a_authorized a) d in
               let z := add_pid_from z (e_sock e) in
               let z := add_gids_from z (e_sock e) in
               send_ok (set_authorized a z)
          else send_rejected a
      end.

(* ---------- DBUS_COOKIE_SHA1 ---------- *)
Definition colon : bytes := [58].
Definition space : bytes := [32].

(* sha1_handle_first_client_response *)
Definition sha1_first (e : env) (a : core) (data : bytes) : core * list resp :=
  let a := set_challenge a [] in
  if negb (is_empty data) && negb (is_empty (a_identity a)) then send_rejected a
  else
    let a := if negb (is_empty data) then set_identity a data else a in
    (* _dbus_credentials_add_from_user (desired_identity, data, FLAGS_USER_DATABASE) *)
    let who := match parse_ulong data with
               | Some u => Some (uid_of_ulong u)
               | None => match e_userdb e data with Some u => Some (uid_of_ulong u) | None => None end
               end in
    match who with
    | None => send_rejected a
    | Some u =>
        let a := set_desired a (set_uid (a_desired a) u) in
        if negb (opt_N_eqb (Some (e_process_uid e)) (c_uid (a_desired a))) then send_rejected a
        else if negb (a_have_keyring a) && negb (e_keyring_ok e) then send_rejected a
        else
          let a := set_have_keyring a true in
          let k := a_nchal a in
          let a := set_nchal a (k + 1) in
          match e_best_key e k with
          | None => send_rejected (set_cookie_id a None)
          | Some id =>
              let a := set_cookie_id a (Some id) in
              match e_challenge e k with
              | None => send_rejected a
              | Some raw =>
                  let a := set_challenge a (hex_encode raw) in
                  (set_state a WaitingForData,
                   [R_Data (e_context e ++ space ++ dec_of_N id ++ space ++ hex_encode raw)])
              end
          end
    end.

(* sha1_compute_hash: [] when the cookie id is unknown *)
Definition sha1_compute_hash (e : env) (k : N) (id : N) (server_challenge client_challenge : bytes) : bytes :=
  let cookie := e_cookie e k id in
  if is_empty cookie then []
  else hex_encode (sha1 (server_challenge ++ colon ++ client_challenge ++ colon ++ cookie)).

(* sha1_handle_second_client_response *)
Definition sha1_second (e : env) (a : core) (id : N) (data : bytes) : core * list resp :=
  let '(found, i) := find_blank data in
  if negb found then send_rejected a
  else
    let client_challenge := firstn (N.to_nat i) data in
    match skip_blank (e_asserts e) data i with
    | None => crash a
    | Some j =>
        let client_hash := skipn (N.to_nat j) data in
        if is_empty client_challenge || is_empty client_hash then send_rejected a
        else
          let correct := sha1_compute_hash e (a_nchal a - 1) id (a_challenge a) client_challenge in
          if is_empty correct then send_rejected a
          else if negb (bytes_eqb client_hash correct) then send_rejected a
          else
            let z := add_credentials (a_authorized a) (a_desired a) in
            let z := add_pid_from z (e_sock e) in
            send_ok (set_authorized a z)
    end.

(* handle_server_data_cookie_sha1_mech *)
Definition cookie_mech (e : env) (a : core) (data : bytes) : core * list resp :=
  match a_cookie_id a with
  | None => sha1_first e a data
  | Some id => sha1_second e a id data
  end.

(* ---------- ANONYMOUS: handle_server_data_anonymous_mech ---------- *)
Definition anonymous_mech (e : env) (a : core) (data : bytes) : core * list resp :=
  let go (a : core) :=
    let a := set_desired a creds_empty in
    send_ok (set_authorized a (add_pid_from (a_authorized a) (e_sock e))) in
  if is_empty data then go a
  else match validate_utf8 data with
       | Some true => go a
       | Some false => send_rejected a
       | None => crash a            (* model fault of Wire.Utf8 (out of fuel); never happens *)
       end.

Definition mech_data (e : env) (m : mech) (a : core) (data : bytes) : core * list resp :=
  match m with
  | EXTERNAL => external_mech e a data
  | COOKIE_SHA1 => cookie_mech e a data
  | ANONYMOUS => anonymous_mech e a data
  end.

(* ---------- process_data ---------- *)
Definition process_data (e : env) (a : core) (args : bytes) (m : mech) : core * list resp :=
  let '(decoded, endi) := hex_decode args in
  if negb (endi =? nlen args) then send_error a msg_invalid_hex
  else mech_data e m a decoded.

(* ---------- handle_auth ---------- *)
Definition handle_auth (e : env) (a : core) (args : bytes) : core * list resp :=
  if is_empty args then send_rejected a
  else
    let '(_, i) := find_blank args in
    let mechname := firstn (N.to_nat i) args in
    match skip_blank (e_asserts e) args i with
    | None => crash a
    | Some j =>
        let hex_response := skipn (N.to_nat j) args in
        let m := find_mech e mechname in
        let a := set_mech a m in
        match m with
        | Some mm => process_data e a hex_response mm
        | None => send_rejected a
        end
    end.

(* ---------- the three state handlers: one generated switch each ---------- *)
Definition run_action (e : env) (a : core) (act : action) (args : bytes) : core * list resp :=
  match act with
  | A_HandleAuth => handle_auth e a args
  | A_SendError m => send_error a m
  | A_SendRejected => send_rejected a
  | A_ProcessData => match a_mech a with
                     | Some m => process_data e a args m
                     | None => crash a      (* auth->mech->server_data_func through a NULL mech *)
                     end
  | A_GotoDisconnect => (set_state a NeedDisconnect, [])
  | A_GotoAuthenticated => (set_state a Authenticated, [])
  | A_NegotiateFd m => if e_fd_possible e
                       then (set_state (set_fd_negotiated a true) WaitingForBegin, [R_AgreeFd])   (* send_agree_unix_fd *)
                       else send_error a m
  end.

Definition handle (e : env) (a : core) (c : cmd) (args : bytes) : core * list resp :=
  match a_state a with
  | WaitingForAuth => run_action e a (disp_waiting_for_auth c) args     (* handle_server_state_waiting_for_auth *)
  | WaitingForData => run_action e a (disp_waiting_for_data c) args     (* handle_server_state_waiting_for_data *)
  | WaitingForBegin => run_action e a (disp_waiting_for_begin c) args   (* handle_server_state_waiting_for_begin *)
  | _ => (a, [])                                                         (* terminal states have no handler; never called *)
  end.

(* ---------- process_command, on one complete line (without its CRLF) ---------- *)
Definition process_line (e : env) (a : core) (line : bytes) : core * list resp :=
  if negb (validate_ascii line) then send_error a msg_non_ascii
  else
    let '(_, i) := find_blank line in
    match skip_blank (e_asserts e) line i with
    | None => crash a
    | Some j => handle e a (lookup_command (firstn (N.to_nat i) line)) (skipn (N.to_nat j) line)
    end.

Definition is_crashed (a : core) : bool := sstate_eqb (a_state a) Crashed.

(* process_command with the position of the first CRLF already found *)
Definition process_command (e : env) (a : auth) (eol : N) : auth :=
  let '(c', rs) := process_line e (a_core a) (firstn (N.to_nat eol) (a_incoming a)) in
  if is_crashed c' then mkAuth c' (a_incoming a) (a_outgoing a)
  else mkAuth c' (skipn (N.to_nat eol + 2) (a_incoming a)) (a_outgoing a ++ flat_map (render e) rs).

(* DBUS_AUTH_IN_END_STATE *)
Definition in_end_state (a : core) : bool :=
  match a_state a with Authenticated | NeedDisconnect | Crashed => true | _ => false end.

(* the do/while loop of _dbus_auth_do_work; None = out of fuel (excluded by do_work_total) *)
Fixpoint work (e : env) (fuel : nat) (a : auth) : option auth :=
  match fuel with
  | O => None
  | S f =>
      if in_end_state (a_core a) then Some a
      else if (MAX_BUFFER <? nlen (a_incoming a)) || (MAX_BUFFER <? nlen (a_outgoing a))
      then Some (mkAuth (set_state (a_core a) NeedDisconnect) (a_incoming a) (a_outgoing a))
      else match find_crlf (a_incoming a) with
           | None => Some a
           | Some eol => work e f (process_command e a eol)
           end
  end.
Definition do_work (e : env) (a : auth) : option auth := work e (S (length (a_incoming a))) a.

(* DBusAuthState returned by _dbus_auth_do_work (WAITING_FOR_MEMORY never, no OOM here) *)
Inductive wstate := W_WaitingForInput | W_HaveBytesToSend | W_NeedDisconnect | W_Authenticated | W_Aborted.
Definition work_result (a : auth) : wstate :=
  if is_crashed (a_core a) then W_Aborted
  else if negb (is_empty (a_outgoing a)) then W_HaveBytesToSend
  else match a_state (a_core a) with
       | NeedDisconnect => W_NeedDisconnect
       | Authenticated => W_Authenticated
       | _ => W_WaitingForInput
       end.

(* what the transport does with the object: append bytes read (get_buffer / return_buffer),
   report bytes written (_dbus_auth_bytes_sent), each followed by _dbus_auth_do_work *)
Inductive event := Feed (chunk : bytes) | Sent (n : N).
Definition step (e : env) (a : auth) (ev : event) : option auth :=
  match ev with
  | Feed c => do_work e (mkAuth (a_core a) (a_incoming a ++ c) (a_outgoing a))
  | Sent n => do_work e (mkAuth (a_core a) (a_incoming a) (skipn (N.to_nat n) (a_outgoing a)))
  end.
Fixpoint run (e : env) (a : auth) (evs : list event) : option auth :=
  match evs with
  | [] => Some a
  | ev :: r => match step e a ev with Some a' => run e a' r | None => None end
  end.

(* _dbus_auth_get_identity, _dbus_auth_get_unused_bytes *)
Definition get_identity (a : auth) : creds := a_authorized (a_core a).
Definition unused_bytes (a : auth) : option bytes := if in_end_state (a_core a) then Some (a_incoming a) else None.
