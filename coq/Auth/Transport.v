(* Model of the server-side transport gate around the SASL object:
   _dbus_transport_try_to_authenticate (dbus-transport.c) with
   auth_via_unix_user_function / auth_via_default_rules, the "No messages without
   authentication!" guards of do_reading / do_writing and read_data_into_auth /
   write_data_from_auth (dbus-transport-socket.c), and recover_unused_bytes.
   One event = one firing of a watch with the result of its single read()/write(),
   or one dispatch-status computation.  A read that the transport does not perform
   (the object has bytes to send, or is finished) leaves the data in the socket:
   the event then consumes nothing. *)
From DV Require Import Lib.Base Auth.Types Gen.AuthTables Auth.Server.
Local Open Scope N_scope.

Record tenv := mkTenv {
  t_env : env;
  t_allow_anonymous : bool;                 (* dbus_connection_set_allow_anonymous *)
  t_unix_user_fn : option (N -> bool)       (* dbus_connection_set_unix_user_function, e.g. the bus policy *)
}.

Record transport := mkTr {
  tr_auth : auth;
  tr_authenticated : bool;                  (* DBusTransport.authenticated *)
  tr_disconnected : bool;
  tr_loader : bytes;                        (* bytes handed to the message loader, in order *)
  tr_recovered : bool                       (* unused_bytes_recovered *)
}.
Definition transport_init : transport := mkTr auth_init false false [] false.

(* auth_via_unix_user_function when a function is set and the identity has a uid, else auth_via_default_rules *)
Definition admission (te : tenv) (id : creds) : bool :=
  match t_unix_user_fn te, c_uid id with
  | Some f, Some u => f u
  | _, _ => t_allow_anonymous te || opt_N_eqb (c_uid id) (Some 0)
            || opt_N_eqb (c_uid id) (Some (e_process_uid (t_env te)))
  end.

(* _dbus_transport_try_to_authenticate *)
Definition try_to_authenticate (te : tenv) (t : transport) : transport :=
  if tr_authenticated t then t
  else if tr_disconnected t then t
  else match do_work (t_env te) (tr_auth t) with
       | None => t
       | Some a =>
           match work_result a with
           | W_Authenticated =>
               if admission te (get_identity a)
               then mkTr a true false (tr_loader t) (tr_recovered t)
               else mkTr a false true (tr_loader t) (tr_recovered t)       (* _dbus_transport_disconnect *)
           | _ => mkTr a false (tr_disconnected t) (tr_loader t) (tr_recovered t)
           end
       end.

Inductive tevent :=
| T_Read (c : bytes)     (* read watch; read() returned c *)
| T_Write (n : N)        (* write watch; write() took n bytes *)
| T_Dispatch.            (* _dbus_transport_get_dispatch_status / _dbus_transport_queue_messages *)

(* recover_unused_bytes (the object keeps its copy here; the C code then empties it) *)
Definition recover (t : transport) : transport :=
  if tr_authenticated t && negb (tr_recovered t)
  then mkTr (tr_auth t) true (tr_disconnected t) (tr_loader t ++ a_incoming (tr_auth t)) true
  else t.

Definition with_auth (t : transport) (a : auth) : transport :=
  mkTr a (tr_authenticated t) (tr_disconnected t) (tr_loader t) (tr_recovered t).

(* result: new transport and the bytes of the read that were actually consumed *)
Definition tstep (te : tenv) (t : transport) (ev : tevent) : transport * bytes :=
  match ev with
  | T_Dispatch => (recover (try_to_authenticate te t), [])
  | T_Read c =>
      if tr_authenticated t
      then (* do_reading; the dispatch that follows every watch callback has recovered the unused bytes *)
        let t := recover t in
        if tr_disconnected t then (t, [])
        else (mkTr (tr_auth t) true false (tr_loader t ++ c) (tr_recovered t), c)
      else
        let t := try_to_authenticate te t in         (* do_authentication *)
        if tr_authenticated t || tr_disconnected t then (t, [])     (* "no read immediately following authentication" *)
        else match work_result (tr_auth t) with
             | W_WaitingForInput =>                   (* read_data_into_auth *)
                 let a := tr_auth t in
                 (try_to_authenticate te (with_auth t (mkAuth (a_core a) (a_incoming a ++ c) (a_outgoing a))), c)
             | W_NeedDisconnect | W_Aborted => (mkTr (tr_auth t) false true (tr_loader t) (tr_recovered t), [])
             | _ => (t, [])
             end
  | T_Write n =>
      if tr_authenticated t then (t, [])             (* do_writing: message bytes, not modelled *)
      else
        let t := try_to_authenticate te t in
        if tr_authenticated t || tr_disconnected t then (t, [])
        else match work_result (tr_auth t) with
             | W_HaveBytesToSend =>                   (* write_data_from_auth *)
                 let a := tr_auth t in
                 (try_to_authenticate te (with_auth t (mkAuth (a_core a) (a_incoming a) (skipn (N.to_nat n) (a_outgoing a)))), [])
             | W_NeedDisconnect | W_Aborted => (mkTr (tr_auth t) false true (tr_loader t) (tr_recovered t), [])
             | _ => (t, [])
             end
  end.

Fixpoint trun (te : tenv) (t : transport) (evs : list tevent) : transport * bytes :=
  match evs with
  | [] => (t, [])
  | ev :: r => let '(t1, c1) := tstep te t ev in let '(t2, c2) := trun te t1 r in (t2, c1 ++ c2)
  end.
