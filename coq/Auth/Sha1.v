(* SHA-1 written from FIPS 180-4 section 6.1 over 32-bit words held in [N]
   (mirrors what dbus/dbus-sha.c computes; tied to it and to an independent
   implementation by the correspondence run only -- nothing is proved about it
   beyond the test vectors below). *)
From DV Require Import Lib.Base.
Local Open Scope N_scope.

Definition mask32 : N := 4294967295.
Definition w32 (x : N) : N := N.land x mask32.
Definition rotl (n x : N) : N := w32 (N.lor (N.shiftl x n) (N.shiftr x (32 - n))).
Definition add32 (a b : N) : N := w32 (a + b).
Definition not32 (x : N) : N := N.lxor (w32 x) mask32.

(* big-endian bytes <-> words *)
Fixpoint words_of (bs : bytes) : list N :=
  match bs with
  | a :: b :: c :: d :: r => (N.shiftl a 24 + N.shiftl b 16 + N.shiftl c 8 + d) :: words_of r
  | _ => []
  end.
Definition bytes_of_word (w : N) : bytes :=
  [N.land (N.shiftr w 24) 255; N.land (N.shiftr w 16) 255; N.land (N.shiftr w 8) 255; N.land w 255].

(* 5.1.1 padding *)
Definition sha1_pad (msg : bytes) : bytes :=
  let l := nlen msg in
  let r := l mod 64 in
  let zeros := if r <=? 55 then 55 - r else 119 - r in
  let bits := 8 * l in
  msg ++ [128] ++ repeat 0 (N.to_nat zeros) ++ bytes_of_word (N.shiftr bits 32) ++ bytes_of_word (w32 bits).

Fixpoint blocks (fuel : nat) (bs : bytes) : list bytes :=
  match fuel with
  | O => []
  | S f => match bs with [] => [] | _ => firstn 64 bs :: blocks f (skipn 64 bs) end
  end.

(* 6.1.2 step 1: message schedule; [win] = the last 16 words, oldest first *)
Fixpoint expand (n : nat) (win : list N) : list N :=
  match n with
  | O => []
  | S n' =>
      let x := rotl 1 (N.lxor (N.lxor (nth 13 win 0) (nth 8 win 0)) (N.lxor (nth 2 win 0) (nth 0 win 0))) in
      x :: expand n' (tl win ++ [x])
  end.
Definition schedule (block : bytes) : list N := let w := words_of block in w ++ expand 64 w.

Definition hstate := (N * N * N * N * N)%type.

Definition round (t : N) (s : hstate) (wt : N) : hstate :=
  let '(a, b, c, d, e) := s in
  let f := if t <? 20 then N.lor (N.land b c) (N.land (not32 b) d)
           else if t <? 40 then N.lxor (N.lxor b c) d
           else if t <? 60 then N.lor (N.lor (N.land b c) (N.land b d)) (N.land c d)
           else N.lxor (N.lxor b c) d in
  let k := if t <? 20 then 1518500249 else if t <? 40 then 1859775393 else if t <? 60 then 2400959708 else 3395469782 in
  let temp := add32 (add32 (add32 (add32 (rotl 5 a) f) e) k) wt in
  (temp, a, rotl 30 b, c, d).

Fixpoint rounds (t : N) (ws : list N) (s : hstate) : hstate :=
  match ws with
  | [] => s
  | w :: r => rounds (t + 1) r (round t s w)
  end.

Definition compress (h : hstate) (block : bytes) : hstate :=
  let '(h0, h1, h2, h3, h4) := h in
  let '(a, b, c, d, e) := rounds 0 (schedule block) h in
  (add32 h0 a, add32 h1 b, add32 h2 c, add32 h3 d, add32 h4 e).

Definition sha1_init : hstate := (1732584193, 4023233417, 2562383102, 271733878, 3285377520).

Definition sha1 (msg : bytes) : bytes :=
  let p := sha1_pad msg in
  let '(h0, h1, h2, h3, h4) := fold_left compress (blocks (length p) p) sha1_init in
  bytes_of_word h0 ++ bytes_of_word h1 ++ bytes_of_word h2 ++ bytes_of_word h3 ++ bytes_of_word h4.

(* lower-case hex, as _dbus_string_hex_encode writes it *)
Definition hexdigit (v : N) : N := if v <? 10 then 48 + v else 87 + v.
Fixpoint hex_encode (bs : bytes) : bytes :=
  match bs with
  | [] => []
  | b :: r => hexdigit (N.shiftr (N.land b 255) 4) :: hexdigit (N.land b 15) :: hex_encode r
  end.

(* FIPS 180 test vectors: "abc", "", and the 56-byte two-block message *)
Example sha1_abc : hex_encode (sha1 [97; 98; 99]) =
  [97;57;57;57;51;101;51;54;52;55;48;54;56;49;54;97;98;97;51;101;50;53;55;49;55;56;53;48;99;50;54;99;57;99;100;48;100;56;57;100].
Proof. vm_compute. reflexivity. Qed.
Example sha1_empty : hex_encode (sha1 []) =
  [100;97;51;57;97;51;101;101;53;101;54;98;52;98;48;100;51;50;53;53;98;102;101;102;57;53;54;48;49;56;57;48;97;102;100;56;48;55;48;57].
Proof. vm_compute. reflexivity. Qed.
