(* Model of dbus/dbus-keyring.c (the cookie store behind DBUS_COOKIE_SHA1), written
   after the C control flow, and the instantiation of the handshake environment
   ([e_keyring_ok], [e_best_key], [e_cookie] of Auth.Server.env) by it.

   The world outside the process is the record [kworld], indexed by the number k
   of the cookie attempt of the connection (the k-th _dbus_keyring_get_best_key):
   clock, lines of the keyring file as read, directory / lock / save results, the
   random source.  Not modelled: splitting the file into lines
   (_dbus_string_pop_line), home directory lookup, allocation failure. *)
From Coq Require Import ZArith.
From DV Require Import Lib.Base Auth.Types Gen.AuthTables Auth.Sha1 Auth.Server.
Local Open Scope Z_scope.

Record key := mkKey { k_id : N; k_time : Z; k_secret : bytes }.     (* DBusKey *)

Definition LONG_MAX : N := 9223372036854775807.
Definition INT32_MAX : Z := 2147483647.

(* strtol (p, &end, 0) as used by _dbus_string_parse_int: value and the unread rest;
   None = no conversion or ERANGE (glibc, C locale) *)
Definition strtol_prefix (s : bytes) : option (Z * bytes) :=
  let s1 := skip_spaces s in
  let '(neg, s2) := match s1 with 45%N :: r => (true, r) | 43%N :: r => (false, r) | _ => (false, s1) end in
  let finish (v : N) (rest : bytes) : option (Z * bytes) :=
    if neg then (if (LONG_MAX + 1 <? v)%N then None else Some (- Z.of_N v, rest))
    else (if (LONG_MAX <? v)%N then None else Some (Z.of_N v, rest)) in
  match s2 with
  | 48%N :: x :: r =>
      if ((x =? 120) || (x =? 88))%N
      then let '(v, any, rest) := digits 16 r 0%N false in
           if any then finish v rest else Some (0, x :: r)        (* "0x" without digits: the "0" converts *)
      else let '(v, any, rest) := digits 8 s2 0%N false in finish v rest
  | _ =>
      let '(v, any, rest) := digits (match s2 with 48%N :: _ => 8 | _ => 10 end)%N s2 0%N false in
      if any then finish v rest else None
  end.

(* _dbus_string_skip_blank on the unread rest (its assertion cannot fail, Proofs.AuthLex.skip_blank_total) *)
Fixpoint skip_blanks (s : bytes) : bytes :=
  match s with c :: r => if is_blank c then skip_blanks r else s | [] => [] end.

(* one iteration of the while (_dbus_string_pop_line ...) loop of _dbus_keyring_reload: Some key or "continue" *)
Definition parse_key_line (now : Z) (line : bytes) : option key :=
  match strtol_prefix line with
  | None => None                                              (* could not parse secret key ID *)
  | Some (v, r1) =>
      if (INT32_MAX <? v) || (v <? 0) then None               (* invalid secret key ID *)
      else
        match strtol_prefix (skip_blanks r1) with
        | None => None                                        (* could not parse timestamp *)
        | Some (t, r2) =>
            if (t <? 0) || (now + Z.of_N MAX_TIME_TRAVEL_SECONDS <? t) || (t <? now - Z.of_N EXPIRE_KEYS_TIMEOUT_SECONDS)
            then None                                         (* expired, or too far in the future *)
            else
              let r3 := skip_blanks r2 in
              if is_empty r3 then None                        (* no secret *)
              else let '(sec, e) := hex_decode r3 in
                   if (e =? nlen r3)%N then Some (mkKey (Z.to_N v) t sec) else None
        end
  end.

(* the loop itself; [acc] in reverse; stops loading at the maximum *)
Fixpoint load_keys (now : Z) (maxk : nat) (lines : list bytes) (acc : list key) : list key :=
  match lines with
  | [] => rev acc
  | l :: r =>
      if (maxk <=? length acc)%nat then rev acc
      else match parse_key_line now l with
           | Some k => load_keys now maxk r (k :: acc)
           | None => load_keys now maxk r acc
           end
  end.

Record kworld := mkWorld {
  w_now : N -> Z;                        (* _dbus_get_real_time, seconds *)
  w_file : N -> list bytes;              (* lines of the keyring file when it is read *)
  w_dir_private0 : bool;                 (* _dbus_check_dir_is_private_to_user when the keyring object is created *)
  w_dir_private : N -> bool;             (* ... at the k-th get_best_key *)
  w_lock_ok : N -> bool;                 (* _dbus_keyring_lock *)
  w_save_ok : N -> bool;                 (* _dbus_string_save_to_file *)
  w_new_ids : N -> list N;               (* successive 31-bit ids from _dbus_generate_random_bytes (4) *)
  w_new_secret : N -> option bytes       (* _dbus_generate_random_bytes (KEY_LENGTH_BYTES); None = failed *)
}.

(* find_key_by_id *)
Fixpoint find_key_by_id (keys : list key) (id : N) : option key :=
  match keys with [] => None | k :: r => if (k_id k =? id)%N then Some k else find_key_by_id r id end.

(* add_new_key: the first random id that is not taken, a fresh secret, stamped with the current time *)
Definition add_new_key (w : kworld) (k : N) (keys : list key) : option (list key) :=
  match find (fun i => match find_key_by_id keys i with None => true | Some _ => false end) (w_new_ids w k), w_new_secret w k with
  | Some id, Some sec => Some (keys ++ [mkKey id (w_now w k) sec])
  | _, _ => None
  end.

(* _dbus_keyring_reload (keyring, add_new): the new key list (and, if add_new, the content saved to the file);
   None = failed, keyring->keys unchanged *)
Definition reload (w : kworld) (dir_private : bool) (k : N) (add_new : bool) : option (list key) :=
  if negb dir_private then None
  else if add_new && negb (w_lock_ok w k) then None
  else
    let lines := if forallb validate_ascii (w_file w k) then w_file w k else [] in    (* non-ASCII: ignore existing contents *)
    let maxk := (if add_new then N.to_nat MAX_KEYS_IN_FILE - 1 else N.to_nat MAX_KEYS_IN_FILE)%nat in
    let keys := load_keys (w_now w k) maxk lines [] in
    if add_new
    then match add_new_key w k keys with
         | Some keys' => if w_save_ok w k then Some keys' else None
         | None => None
         end
    else Some keys.

(* find_recent_key *)
Fixpoint find_recent_key (now : Z) (keys : list key) : option key :=
  match keys with
  | [] => None
  | k :: r => if now - Z.of_N NEW_KEY_TIMEOUT_SECONDS <? k_time k then Some k else find_recent_key now r
  end.

(* _dbus_keyring_get_best_key: new key list, id or None (-1) *)
Definition get_best_key (w : kworld) (k : N) (keys : list key) : list key * option N :=
  match find_recent_key (w_now w k) keys with
  | Some key => (keys, Some (k_id key))
  | None =>
      match reload w (w_dir_private w k) k true with
      | None => (keys, None)
      | Some keys' => (keys', match find_recent_key (w_now w k) keys' with Some key => Some (k_id key) | None => None end)
      end
  end.

(* _dbus_keyring_get_hex_key *)
Definition get_hex_key (keys : list key) (id : N) : bytes :=
  match find_key_by_id keys id with Some k => hex_encode (k_secret k) | None => [] end.

(* _dbus_keyring_validate_context *)
Definition validate_context (ctx : bytes) : bool :=
  negb (is_empty ctx) && validate_ascii ctx &&
  forallb (fun c => negb ((c =? 47) || (c =? 92) || (c =? 46) || is_blank c || (c =? 10) || (c =? 13))%N) ctx.

(* _dbus_keyring_new_for_credentials: the first reload (without adding); its failure is not fatal *)
Definition keyring_new (w : kworld) : list key :=
  match reload w (w_dir_private0 w) 0%N false with Some ks => ks | None => [] end.

(* the key list the connection's keyring holds when the k-th attempt starts / after its get_best_key *)
Fixpoint keys_before (w : kworld) (k : nat) : list key :=
  match k with
  | O => keyring_new w
  | S k' => fst (get_best_key w (N.of_nat k') (keys_before w k'))
  end.
Definition keys_after (w : kworld) (k : N) : list key := keys_before w (S (N.to_nat k)).

(* the handshake environment this keyring provides *)
Definition env_of_world (w : kworld) (sock : creds) (allowed : option (list bytes)) (guid : bytes) (fdp asserts : bool)
           (puid : N) (userdb : bytes -> option N) (ctx : bytes) (chal : N -> option bytes) : env :=
  mkEnv sock allowed guid fdp asserts puid userdb ctx
        (validate_context ctx)
        (fun k => snd (get_best_key w k (keys_before w (N.to_nat k))))
        (fun k id => get_hex_key (keys_after w k) id)
        chal.
