(* Specification for C13, written from the dbus-daemon(1) description of the
   <limit> elements and from the property text, not from the control flow of
   the code:

     "max_completed_connections": connections that are fully set up (said Hello)
     "max_connections_per_user":  ... of one Unix user
     "max_incomplete_connections": connections accepted but not yet set up
     "max_names_per_connection":  names a connection holds: as primary owner or
                                   waiting in a queue, its unique name included
     "max_match_rules_per_connection", "max_replies_per_connection"
     "max_message_size":          a longer message gets its sender disconnected

   Style: quantities are *read off the observable structures* of a bus state
   (connection table, name queues as ListQueuedOwners shows them, the rules in
   the matchmaker, the calls awaiting a reply) -- never off the counters the
   implementation keeps; an event *demands* one unit of at most one resource;
   the property is stated in terms of demand and exhaustion. *)
From DV Require Import Lib.Base Gen.Tables Registry.RegTypes Registry.Registry Spec.RegistrySpec Limits.Limits.
From DV Require Wire.Message.
Local Open Scope N_scope.

(* ---- what is in use, read off a state ------------------------------------------ *)
Definition uid_of (s : state) (c : N) : N :=
  match find_cd (s_cdata s) c with Some d => d_uid d | None => 0 end.

Definition n_registered (s : state) : N := nlen (filter c_active (s_conns s)).
Definition n_registered_of (s : state) (u : N) : N :=
  nlen (filter (fun x => c_active x && (uid_of s (c_id x) =? u)) (s_conns s)).
Definition n_unregistered (s : state) : N := nlen (filter (fun x => negb (c_active x)) (s_conns s)).
(* connections whose authentication conversation has not ended: what the manual page says
   max_incomplete_connections counts ("unauthenticated connections"), and what the property names *)
Definition n_unauthenticated (s : state) : N := nlen (filter (fun d => negb (d_auth d)) (s_cdata s)).

(* c is in the queue of the name: what ListQueuedOwners reports *)
Definition in_queue (c : N) (kq : key * queue) : bool := existsb (fun o => o_conn o =? c) (snd kq).
Definition n_names (s : state) (c : N) : N := nlen (filter (in_queue c) (s_services s)).
(* c already holds that name (owner or waiting): a request for it does not add to the count *)
Definition holds_name (s : state) (c : N) (name : bytes) : bool :=
  match lookup (s_services s) (KW name) with Some q => in_queue c (KW name, q) | None => false end.

Definition n_rules (s : state) (c : N) : N := nlen (filter (fun e => fst e =? c) (s_rules s)).
Definition n_awaiting (s : state) (c : N) : N := nlen (filter (fun p => p_get p =? c) (s_pending s)).

Record within_limits (L : limits) (s : state) : Prop := mkWithin {
  wl_completed : n_registered s <= max_completed_connections L;
  wl_per_user : forall u, n_registered_of s u <= max_connections_per_user L;
  wl_incomplete : n_unregistered s <= max_incomplete_connections L;
  wl_unauthenticated : n_unauthenticated s <= max_incomplete_connections L;
  wl_names : forall c, n_names s c <= max_names_per_connection L;
  wl_rules : forall c, n_rules s c <= max_match_rules_per_connection L;
  wl_replies : forall c, n_awaiting s c <= max_replies_per_connection L
}.

(* the counters the daemon keeps say the same *)
Record counters_exact (s : state) : Prop := mkExact {
  ce_completed : s_ncomplete s = n_registered s;
  ce_incomplete : s_nincomplete s = n_unregistered s;
  ce_user : forall u, get_uid (s_byuser s) u = n_registered_of s u;
  ce_rules : forall d, In d (s_cdata s) -> d_nrules d = n_rules s (d_id d);
  ce_names : forall x, In x (s_conns s) -> nlen (c_owned x) = n_names s (c_id x)
}.

(* ---- demand and exhaustion --------------------------------------------------------- *)
Inductive resource :=
| RIncompleteSlot
| RConnectionSlot (uid : N)
| RNameSlot (c : N)
| RRuleSlot (c : N)
| RReplySlot (c : N).

Definition connected (s : state) (c : N) : bool :=
  match find_conn (s_conns s) c with Some _ => true | None => false end.
Definition registered (s : state) (c : N) : bool :=
  match find_conn (s_conns s) c with Some x => c_active x | None => false end.
Definition authenticated (s : state) (c : N) : bool :=
  match find_cd (s_cdata s) c with Some d => d_auth d | None => false end.
Definition outstanding (s : state) (c d serial : N) : bool :=
  existsb (fun p => (p_get p =? c) && (p_send p =? d) && (p_serial p =? serial)) (s_pending s).

(* which resource an event asks one more unit of -- if it is a request the bus would otherwise go along with *)
Definition demand (s : state) (e : levent) : option resource :=
  match e with
  | Connect _ => Some RIncompleteSlot
  | Hello c => if connected s c && authenticated s c && negb (registered s c) then Some (RConnectionSlot (uid_of s c)) else None
  | RequestName c name _ =>
      if registered s c && requestable name && negb (holds_name s c name) then Some (RNameSlot c) else None
  | AddMatch c _ => if registered s c then Some (RRuleSlot c) else None
  | Call c d serial noreply _ =>
      if registered s c && registered s d && negb noreply && negb (outstanding s c d serial) then Some (RReplySlot c) else None
  | _ => None
  end.

Definition exhausted (L : limits) (s : state) (r : resource) : bool :=
  match r with
  | RIncompleteSlot => max_incomplete_connections L <=? n_unregistered s
  | RConnectionSlot u => (max_completed_connections L <=? n_registered s) || (max_connections_per_user L <=? n_registered_of s u)
  | RNameSlot c => max_names_per_connection L <=? n_names s c
  | RRuleSlot c => max_match_rules_per_connection L <=? n_rules s c
  | RReplySlot c => max_replies_per_connection L <=? n_awaiting s c
  end.

Definition should_refuse (L : limits) (s : state) (e : levent) : bool :=
  match demand s e with Some r => exhausted L s r | None => false end.

(* how a refusal looks from outside: error LimitsExceeded to the requester, or no accept() *)
Definition is_refusal (o : lout) : bool :=
  match snd o with OErr LLimitsExceeded => true | ONotAccepted => true | _ => false end.
Definition refusal (os : list lout) : bool := existsb is_refusal os.

(* ---- message size --------------------------------------------------------------------- *)
(* the size a message announces in its fixed header: 16 bytes, the header field array,
   padding to a multiple of 8, the body *)
Definition declared_size (hdr : bytes) : option N :=
  let bo := nth 0 hdr 0 in
  if (bo =? 108) || (bo =? 66) then
    let le := bo =? 108 in
    let rd (i : nat) := let b (k : nat) := nth (i + k)%nat hdr 0 in
                if le then b 0%nat + 256 * b 1%nat + 65536 * b 2%nat + 16777216 * b 3%nat
                else b 3%nat + 256 * b 2%nat + 65536 * b 1%nat + 16777216 * b 0%nat in
    let fields := rd 12%nat in
    let body := rd 4%nat in
    Some ((16 + fields + 7) / 8 * 8 + body)
  else None.

(* the effective maximum: the configured value, but never more than the protocol's 128 MiB *)
Definition effective_max (L : limits) : N := N.min (max_message_size L) 134217728.

(* ---- the property, clause by clause ------------------------------------------------------ *)
Definition reachable (L : limits) (s : state) : Prop := exists h, s = fst (lrun L linit h).

Definition all_at_least_one (L : limits) : Prop :=
  1 <= max_completed_connections L /\ 1 <= max_connections_per_user L /\ 1 <= max_incomplete_connections L /\
  1 <= max_names_per_connection L /\ 1 <= max_match_rules_per_connection L /\ 1 <= max_replies_per_connection L.

(* the two limits whose value 0 makes no sense: the unique name must fit, and a bus that may not have a single
   unregistered connection cannot be connected to *)
Definition usable (L : limits) : Prop := 1 <= max_names_per_connection L /\ 1 <= max_incomplete_connections L.
Lemma all_at_least_one_usable L : all_at_least_one L -> usable L.
Proof. unfold all_at_least_one, usable. tauto. Qed.

(* "at every moment of every history the number of ... stays within the configured limits" *)
Definition limits_never_exceeded : Prop :=
  forall L, all_at_least_one L -> forall h, within_limits L (fst (lrun L linit h)).

(* "the request that would exceed one is refused with LimitsExceeded (or the connection is not
   accepted) and changes nothing" *)
Definition refusal_changes_nothing : Prop :=
  forall L s e, refusal (snd (lstep L s e)) = true -> fst (lstep L s e) = s.

(* events on which the clauses about refusal are proved as they stand: everything except a method
   call that carries a REPLY_SERIAL header field (a reply and a call at once) *)
Definition plain (e : levent) : bool :=
  match e with Call _ _ _ _ rserial => rserial =? 0 | _ => true end.

Definition refused_exactly_when_exhausted : Prop :=
  forall L, all_at_least_one L -> forall h e, plain e = true ->
    let s := fst (lrun L linit h) in
    refusal (snd (lstep L s e)) = should_refuse L s e.

(* the literal reading of "the connection is not accepted" for the limit the property calls
   "not-yet-authenticated connections": a connection attempt waits exactly when that many
   connections have not finished authenticating *)
Definition unauthenticated_limit_literal : Prop :=
  forall L, all_at_least_one L -> forall h uid,
    let s := fst (lrun L linit h) in
    refusal (snd (lstep L s (Connect uid))) = (max_incomplete_connections L <=? n_unauthenticated s).

(* ---- reloading the configuration in mid-history ------------------------------------------------ *)
Definition creachable (L0 : limits) (cs : limits * state) : Prop := exists h, cs = fst (crun (L0, linit) h).

Fixpoint all_items_ok (h : list citem) : Prop :=
  match h with
  | [] => True
  | Reload L' :: r => all_at_least_one L' /\ all_items_ok r
  | Ev _ :: r => all_items_ok r
  end.

(* the literal property when the configuration may change: at every moment the counts are within
   the limits configured at that moment *)
Definition limits_never_exceeded_across_reloads : Prop :=
  forall L0 h, all_at_least_one L0 -> all_items_ok h ->
    let cs := fst (crun (L0, linit) h) in within_limits (fst cs) (snd cs).

(* what can be asked instead: a count never grows past the limit in force - above it, it can only fall *)
Record never_grows (L : limits) (s s' : state) : Prop := mkNG {
  ng_completed : n_registered s' <= N.max (n_registered s) (max_completed_connections L);
  ng_per_user : forall u, n_registered_of s' u <= N.max (n_registered_of s u) (max_connections_per_user L);
  ng_incomplete : n_unregistered s' <= N.max (n_unregistered s) (max_incomplete_connections L);
  ng_names : forall c, n_names s' c <= N.max (n_names s c) (max_names_per_connection L);
  ng_rules : forall c, n_rules s' c <= N.max (n_rules s c) (max_match_rules_per_connection L);
  ng_replies : forall c, n_awaiting s' c <= N.max (n_awaiting s c) (max_replies_per_connection L)
}.

(* the daemon never runs into one of its own assertions *)
Definition aborts (os : list lout) : bool := existsb (fun o => match snd o with OAbort => true | _ => false end) os.
Definition never_aborts_across_reloads : Prop :=
  forall L0 h, all_at_least_one L0 -> all_items_ok h -> forallb (fun o => negb (aborts o)) (snd (crun (L0, linit) h)) = true.

(* a connection attempt waits exactly when the configured number of unregistered connections is reached *)
Definition accept_follows_configuration : Prop :=
  forall L0 h uid, all_at_least_one L0 -> all_items_ok h ->
    let cs := fst (crun (L0, linit) h) in
    refusal (snd (lstep (fst cs) (snd cs) (Connect uid))) = (max_incomplete_connections (fst cs) <=? n_unregistered (snd cs)).

(* a message longer than the configured maximum gets its sender disconnected *)
Definition size_limit_follows_configuration : Prop :=
  forall L0 h c hdr n, all_at_least_one L0 -> all_items_ok h ->
    let cs := fst (crun (L0, linit) h) in
    connected (snd cs) c = true -> declared_size hdr = Some n -> effective_max (fst cs) < n ->
    connected (fst (lstep (fst cs) (snd cs) (Message c hdr))) c = false.

(* "requests below the limit are unaffected": what is not refused happens as under any other
   configuration that does not refuse it either (in particular a configuration without limits).
   [uncached]: a state without the two values it caches from the configuration (whether the
   listening sockets are polled; each connection's maximum message size). *)
Definition uncached (s : state) : state :=
  mkState (s_conns s) (s_services s) (s_next s)
          (map (fun d => mkCd (d_id d) (d_uid d) (d_nrules d) (d_auth d) 0) (s_cdata s))
          (s_rules s) (s_pending s) (s_ncomplete s) (s_nincomplete s) (s_byuser s) true.

Definition limits_act_only_by_refusing : Prop :=
  forall L L' s e,
    refusal (snd (lstep L s e)) = false -> refusal (snd (lstep L' s e)) = false ->
    aborts (snd (lstep L s e)) = false -> aborts (snd (lstep L' s e)) = false ->
    uncached (fst (lstep L s e)) = uncached (fst (lstep L' s e)) /\ snd (lstep L s e) = snd (lstep L' s e).
