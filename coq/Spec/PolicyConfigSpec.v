(* Specification of how the policy in force is determined by a TREE of
   configuration files, and of connection admission, written from
   dbus-daemon(1) (<include>, <includedir>, <policy>, user= / group= rules).

   "<include>: Include a file <include>filename.conf</include> at this point."
   "ignore_missing=(yes|no) ... controls whether it's a fatal error for the
    included file to be absent."
   "<includedir>: Include all files in <includedir>foo.d</includedir> at this
    point. Files in the directory are included in undefined order. Only files
    ending in ".conf" are included."

   So a tree of files DENOTES one flat sequence of <policy> elements (textual
   inclusion, [denote]), or is fatal.  The flat sequence is then read as in
   Spec/PolicySpec.v (context order, last match wins).

   Readings where the page is silent:
   (R5) a file of an <includedir> that cannot be loaded contributes nothing and
        is not fatal (the page only says that all *.conf files are included);
        the "undefined order" is the order of the directory listing given.
   (R6) an <include> of an unreadable file, or of a file that is already being
        included, is fatal.
   One deviation of the code from the literal page is switchable:
   (D4) ignore_missing="yes" is about the included file itself being absent;
        the code also swallows an included file that EXISTS when loading it
        fails with a file-not-found error from further down (a nested
        <include> of an absent file): the whole file is silently dropped. *)
From DV Require Import Lib.Base Policy.Policy Policy.PolicyConfig Spec.PolicySpec.
Local Open Scope N_scope.

Section ConfigSpec.
  Variables ru rg : name_resolver.

  (* is one <allow>/<deny> element acceptable inside a <policy> of context [c]?
     "user/group denials can only be inside context="default" or context="mandatory" policies" *)
  Definition elem_ok (c : pctx) (e : bool * attrs) : bool :=
    match rule_from_element ru rg (fst e) (snd e) with
    | EErr => false
    | ERule _ => true
    | EConn None => true
    | EConn (Some _) => match c with CUser _ | CGroup _ => false | _ => true end
    end.

  Definition elems_rules (els : list (bool * attrs)) : list rule :=
    flat_map (fun e => match rule_from_element ru rg (fst e) (snd e) with ERule r => [r] | _ => [] end) els.

  Definition elems_conn (els : list (bool * attrs)) : list conn_rule :=
    flat_map (fun e => match rule_from_element ru rg (fst e) (snd e) with EConn (Some cr) => [cr] | _ => [] end) els.

  (* the message / ownership rules of a flat configuration, per <policy> element *)
  Definition cfg_rules (cfg : list policy_elem) : rule_cfg := map (fun e => (fst e, elems_rules (snd e))) cfg.

  (* its user= / group= rules found in <policy> elements of context [c] *)
  Definition cfg_conn (cfg : list policy_elem) (c : pctx) : list conn_rule :=
    flat_map (fun e => if pctx_eqb (fst e) c then elems_conn (snd e) else []) cfg.

  Inductive denot := DFatal (absent : bool) | DOk (cfg : list policy_elem).

  (* [code] = true switches deviation D4 on *)
  Fixpoint denote (code : bool) (its : cfg_items) : denot :=
    match its with
    | INil => DOk []
    | ICons it rest =>
        match denote_item code it with
        | DFatal a => DFatal a
        | DOk c1 => match denote code rest with DFatal a => DFatal a | DOk c2 => DOk (c1 ++ c2) end
        end
    end
  with denote_item (code : bool) (it : cfg_item) : denot :=
    match it with
    | IPolicy c els => if forallb (elem_ok c) els then DOk [(c, els)] else DFatal false
    | IInclude im t => denote_target code t im
    | IIncludeDir fs => DOk (denote_dir code fs)
    end
  with denote_target (code : bool) (t : inc_target) (ignore_missing : bool) : denot :=
    match t with
    | TMissing => if ignore_missing then DOk [] else DFatal true
    | TBroken => DFatal false
    | TCircular => DFatal false
    | TFile its =>
        match denote code its with
        | DOk c => DOk c
        | DFatal a => if code && a && ignore_missing then DOk [] else DFatal a
        end
    end
  with denote_dir (code : bool) (fs : dir_entries) : list policy_elem :=
    match fs with
    | DNil => []
    | DCons is_conf t rest =>
        (if is_conf then match denote_target code t true with DOk c => c | DFatal _ => [] end else []) ++ denote_dir code rest
    end.

  (* ---- connection admission ----
     "Rules with the user or group attribute are checked when a new connection to the message bus is established, and
      control whether the connection can continue. ... both user="*" and group="*" match any connection. If there are no
      rules of this form, the default is to allow connections from the same user ID that owns the dbus-daemon process."
     Like everything else: the last matching rule decides; default context first, mandatory last. *)
  Definition sp_conn_matches (uid : N) (groups : list N) (cr : conn_rule) : bool :=
    match cr_id cr with
    | None => true
    | Some i => if cr_group cr then existsb (N.eqb i) groups else i =? uid
    end.

  Definition spec_admit (cfg : list policy_elem) (owner : bool) (uid : N) (db_groups : option (list N)) : bool :=
    match db_groups with
    | None => false          (* a user the bus cannot look up is not let in *)
    | Some groups =>
        match find (sp_conn_matches uid groups) (rev (cfg_conn cfg CDefault ++ cfg_conn cfg CMandatory)) with
        | Some cr => cr_allow cr
        | None => owner
        end
    end.
End ConfigSpec.
