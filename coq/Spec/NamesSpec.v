(* Specification of the D-Bus name grammars, written from
   doc/dbus-specification.xml ("Valid Names", "Valid Object Paths"), in
   split-and-check style; deliberately independent of the C scanners and of
   the generated tables. *)
From DV Require Export Lib.Base.
Local Open Scope N_scope.

Definition is_upper (c : N) := (65 <=? c) && (c <=? 90).
Definition is_lower (c : N) := (97 <=? c) && (c <=? 122).
Definition is_digit (c : N) := (48 <=? c) && (c <=? 57).
Definition is_alpha_us (c : N) := is_upper c || is_lower c || (c =? 95).          (* [A-Za-z_] *)
Definition is_alnum_us (c : N) := is_alpha_us c || is_digit c.                     (* [A-Za-z0-9_] *)
Definition is_alpha_us_hy (c : N) := is_alpha_us c || (c =? 45).                   (* [A-Za-z_-] *)
Definition is_alnum_us_hy (c : N) := is_alnum_us c || (c =? 45).                   (* [A-Za-z0-9_-] *)

(* split on a separator; no accumulator, so the first element of
   [split sep (c :: t)] is visible to proofs.  Never returns []. *)
Fixpoint split (sep : N) (s : bytes) : list bytes :=
  match s with
  | [] => [[]]
  | c :: t =>
      if c =? sep then [] :: split sep t
      else match split sep t with
           | e :: es => (c :: e) :: es
           | [] => [[c]]
           end
  end.

(* an element: non-empty, first character from [first], others from [other] *)
Definition element (first other : N -> bool) (e : bytes) : bool :=
  match e with
  | [] => false
  | c :: t => first c && forallb other t
  end.

Definition max_name : N := 255.

(* Interface names: >= 2 elements separated by '.', each [A-Za-z_][A-Za-z0-9_]*,
   at most 255 bytes. *)
Definition spec_interface (s : bytes) : bool :=
  (nlen s <=? max_name) && (2 <=? nlen (split 46 s)) && forallb (element is_alpha_us is_alnum_us) (split 46 s).

Definition spec_error_name := spec_interface.

(* Member names: one element, no '.', at most 255 bytes, at least 1. *)
Definition spec_member (s : bytes) : bool :=
  (nlen s <=? max_name) && element is_alpha_us is_alnum_us s.

(* Well-known bus names: like interface names, '-' also allowed. *)
Definition spec_wellknown (s : bytes) : bool :=
  (nlen s <=? max_name) && (2 <=? nlen (split 46 s)) && forallb (element is_alpha_us_hy is_alnum_us_hy) (split 46 s).

(* Unique connection names: ':' then >= 2 elements of [A-Za-z0-9_-]+ (elements
   may begin with a digit); "must contain at least one '.'". *)
Definition spec_unique (s : bytes) : bool :=
  match s with
  | 58 :: r => (nlen s <=? max_name) && (2 <=? nlen (split 46 r)) && forallb (element is_alnum_us_hy is_alnum_us_hy) (split 46 r)
  | _ => false
  end.

Definition spec_bus_name (s : bytes) : bool :=
  match s with
  | 58 :: _ => spec_unique s
  | _ => spec_wellknown s
  end.

(* Bus namespace (arg0namespace, own_prefix): like a well-known name but a single element suffices. *)
Definition spec_bus_namespace_wellknown (s : bytes) : bool :=
  (nlen s <=? max_name) && forallb (element is_alpha_us_hy is_alnum_us_hy) (split 46 s).

(* Object paths: "/" or ("/" element)+, element = [A-Za-z0-9_]+; no trailing '/'. *)
Definition spec_path (s : bytes) : bool :=
  match split 47 s with
  | [] :: e1 :: es =>                                    (* begins with '/' *)
      match e1, es with
      | [], [] => true                                   (* the root path "/" *)
      | _, _ => forallb (element is_alnum_us is_alnum_us) (e1 :: es)
      end
  | _ => false
  end.
