(* Specification for the dispatch of one message (C20, deepening): the dispatch
   procedure of ObjTree/Dispatch.v run over the FLAT registration map instead of
   the trie, and strict about re-entrancy.

   What is specification here (written from the documentation of
   dbus_connection_dispatch, dbus_connection_add_filter,
   dbus_connection_register_object_path / _fallback, the Peer and Introspectable
   sections of the D-Bus specification and the property text):
   * who is on the list of a call to p: the registration at exactly p, then the
     FALLBACK registrations at the proper prefixes of p, longest first
     ([s_entries]), all looked up in the flat map;
   * a handler on that list that has been unregistered by an earlier callback of
     the same dispatch is not invoked; one that has been replaced is invoked
     only if the replacement is itself eligible for p (exact, or a fallback):
     [strict = true];
   * a path is known (UnknownMethod rather than UnknownObject) iff
     [s_known_object_b];
   * the default Introspect reply lists [s_children] of the map as it is after
     the callbacks have run.
   The order pending call / Peer built-ins / filters / object-path handlers /
   automatic error and the re-dispatch after NEED_MEMORY are the documented
   procedure itself and shared with the model. *)
From DV Require Import Lib.Base ObjTree.ObjTree ObjTree.Dispatch Spec.ObjtreeSpec.
Local Open Scope nat_scope.

(* a node exists at q in any faithful tree iff q is the root or a prefix of a registered path *)
Definition s_present (s : sstate) (q : path) : bool :=
  match q with
  | [] => true
  | _ => existsb (fun e => is_prefix q (fst e)) s
  end.

Definition s_entries (s : sstate) (p : path) : list path * bool :=
  ((match s_lookup s p with Some _ => [p] | None => [] end) ++
   filter (fun q => match s_lookup s q with Some (_, true) => true | _ => false end) (proper_prefixes p),
   s_known_object_b s p).

Definition spec_ops : tree_ops sstate :=
  TreeOps sstate
    (fun s o => Ok (s_step s o))
    (fun s p => Ok (s_entries s p))
    (fun s q => Ok (s_lookup s q))
    (fun s q => Ok (s_present s q))
    (fun s p => Ok (s_children s p)).

Definition s_dispatch_message (s : sstate) (filters : list N) (m : msg) (b : behaviour) (oom : list N)
  : res (sstate * list N * reply) :=
  dispatch_message_gen sstate spec_ops true s filters m b oom.

(* the same without the re-check at invocation time: what the code does (proved) *)
Definition s_dispatch_message_lax (s : sstate) (filters : list N) (m : msg) (b : behaviour) (oom : list N)
  : res (sstate * list N * reply) :=
  dispatch_message_gen sstate spec_ops false s filters m b oom.

(* ---- declarative statements about one dispatch ----------------------------------------------- *)
(* a plain method call: not a reply to a pending call, not on the Peer interface, with a PATH *)
Definition plain_call (m : msg) (p : path) : Prop :=
  m_type m = MethodCall /\ m_reply_pending m = false /\ m_iface m <> IfPeer /\ m_path m = Some p.

Definition quiet (b : behaviour) : Prop := forall h, actions b h = [].

(* unregister callbacks at the end of life: every registered handler exactly once *)
Definition s_handlers (s : sstate) : list N := map (fun e => fst (snd e)) s.
