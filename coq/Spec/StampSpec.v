(* Specification for C03, written from the D-Bus specification ("Message Bus Messages:
   org.freedesktop.DBus.Hello", "Unique connection names", header field SENDER: "Unique name
   of the sending connection. This field is usually only meaningful in combination with the
   message bus ... the message bus fills in this field") and from the property text.

   Style: predicates over the OBSERVABLE TRACE only (connections appearing and going away,
   names being issued, messages being read and emitted).  Who a connection "is" is an abstract
   map from connection ids to a three-valued status recomputed from the trace; nothing here
   mentions counters, registries or the order in which the bus edits a header. *)
From DV Require Import Lib.Base Wire.HeaderEdit Stamp.Stamp.
Local Open Scope N_scope.

(* ---------------- header-level vocabulary -------------------------------------------------- *)
Definition is_code (c : N) (f : sfield) : bool := sf_code f =? c.

(* the message names exactly one sender, and it is n *)
Definition sender_is (m : smsg) (n : bytes) : Prop :=
  filter (is_code 7) (s_fields m) = [mkSField 7 (TBasic 115) (VStr 115 n)].

Definition has_no_sender (m : smsg) : Prop := filter (is_code 7) (s_fields m) = [].

(* only header fields defined by the specification and meant for clients: codes 1..9
   (no unknown code, no CONTAINER_INSTANCE = 10) *)
Definition defined_only (m : smsg) : Prop :=
  Forall (fun f => 1 <= sf_code f /\ sf_code f <= 9) (s_fields m).

(* m' is m as far as the writer is concerned: type, flags, serial, signature, body, and every defined
   field other than SENDER, in the writer's order.  (Byte order is an encoding detail, not content.) *)
Definition same_content (m m' : smsg) : Prop :=
  s_type m' = s_type m /\ s_flags m' = s_flags m /\ s_serial m' = s_serial m /\
  s_sig m' = s_sig m /\ s_body m' = s_body m /\
  filter (fun f => negb (is_code 7 f)) (s_fields m') =
  filter (fun f => (sf_code f <=? 9) && negb (is_code 7 f)) (s_fields m).

(* what a client may put on the wire, as far as this property needs it: the loader's header rules
   (no field code 0, defined fields well-typed and not repeated) *)
Definition wire_ok (m : smsg) : Prop := fields_ok [] (s_fields m) = true.

(* ---------------- who is who along a trace ------------------------------------------------- *)
Inductive cstatus :=
| CAbsent                  (* no such connection *)
| CUnnamed                 (* connected, no unique name yet *)
| CNamed (n : bytes).      (* registered under n *)

Definition upd (v : conn -> cstatus) (c : conn) (x : cstatus) : conn -> cstatus :=
  fun k => if k =? c then x else v k.

Definition view_step (v : conn -> cstatus) (i : item) : conn -> cstatus :=
  match i with
  | TConn c => upd v c CUnnamed
  | TIssue c n => upd v c (CNamed n)
  | TGone c => upd v c CAbsent
  | _ => v
  end.

Definition view (tr : list item) : conn -> cstatus := fold_left view_step tr (fun _ => CAbsent).

Definition last_step (l : option (conn * smsg)) (i : item) : option (conn * smsg) :=
  match i with TRecv c m => Some (c, m) | _ => l end.

(* the message the bus is currently handling *)
Definition last_recv (tr : list item) : option (conn * smsg) := fold_left last_step tr None.

(* everything a connection wrote while it had a unique name: (connection, its name then, message) *)
Fixpoint wrote_from (v : conn -> cstatus) (tr : list item) : list (conn * bytes * smsg) :=
  match tr with
  | [] => []
  | i :: r =>
      match i with
      | TRecv c m => match v c with CNamed n => [(c, n, m)] | _ => [] end
      | _ => []
      end ++ wrote_from (view_step v i) r
  end.

Definition wrote (tr : list item) : list (conn * bytes * smsg) := wrote_from (fun _ => CAbsent) tr.

Definition issued (tr : list item) : list bytes :=
  flat_map (fun i => match i with TIssue _ n => [n] | _ => [] end) tr.

(* ---------------- the sender clause -------------------------------------------------------- *)
(* the class of F13: the reply libdbus itself gives on the daemon's end of the connection *)
Definition local_class (last : option (conn * smsg)) (s : scope) (m' : smsg) : Prop :=
  exists c m, last = Some (c, m) /\ s = SSelf c /\
              str_field m F_DESTINATION = None /\
              (s_type m = 1 \/ str_field m F_INTERFACE = Some peer_iface) /\
              get_field (s_fields m') F_REPLY_SERIAL = Some (VNum 117 (s_serial m)) /\
              (s_type m' = 2 \/ s_type m' = 3).

(* the addressed recipient of a message whose DESTINATION is a unique name: only ever the connection
   that was given that very name (by Hello: names are issued nowhere else); and if the bus finds
   nobody, then indeed no connection has that name *)
Definition addr_ok (v : conn -> cstatus) (s : scope) (m' : smsg) : Prop :=
  match s with
  | SRouted _ (ATo r) => exists d, str_field m' F_DESTINATION = Some d /\ v r = CNamed d
  | SRouted _ ANobody => exists d, str_field m' F_DESTINATION = Some d /\ forall r, v r <> CNamed d
  | _ => True
  end.

(* one emitted message, given who is who and which message is being handled.
   [strict]: the literal property; otherwise the exception classes are spelled out. *)
Definition emit_ok (strict : bool) (v : conn -> cstatus) (last : option (conn * smsg))
           (log : list (conn * bytes * smsg)) (o : origin) (s : scope) (m' : smsg) : Prop :=
  match o with
  | ODriver => defined_only m' /\ sender_is m' drv_name
  | OClient c =>
      defined_only m' /\ addr_ok v s m' /\
      match s with
      | SReleased _ =>
          (* a message the bus kept while a service was being started: it is something this very
             connection wrote earlier, under the name it still has (names are never reused, so the
             name identifies the connection) *)
          match v c with
          | CNamed n => sender_is m' n /\ exists m, In (c, n, m) log /\ same_content m m'
          | _ => False
          end
      | _ =>
      (exists m, last = Some (c, m) /\ same_content m m') /\
      match v c with
      | CNamed n => sender_is m' n
      | CUnnamed =>
          (* the writer has no unique name (yet): nothing it writes may reach a client.  Exception (not
             strict): monitors are shown it under a placeholder that is no connection's name *)
          if strict then False else s = SMonitors /\ sender_is m' not_active
      | CAbsent => False
      end
      end
  | OLocal => if strict then False else defined_only m' /\ has_no_sender m' /\ local_class last s m'
  end.

(* every emission of the trace, judged in the situation in which it is emitted *)
Definition trace_ok (strict : bool) (tr : list item) : Prop :=
  forall pre o s m' post, tr = pre ++ TEmit o s m' :: post -> emit_ok strict (view pre) (last_recv pre) (wrote pre) o s m'.

(* ---------------- the unique-name clause ---------------------------------------------------- *)
Definition starts_with_colon (n : bytes) : Prop := exists r, n = 58 :: r.

Definition names_ok (tr : list item) : Prop :=
  (* never given to another connection (or again to the same one) for the lifetime of the bus *)
  NoDup (issued tr) /\
  Forall starts_with_colon (issued tr) /\
  (* a name is only ever given to a live connection that has none: at most one per connection,
     and it keeps it until it goes away *)
  (forall pre c n post, tr = pre ++ TIssue c n :: post -> view pre c = CUnnamed).

(* ---------------- who may receive what (routing is left open) ------------------------------- *)
Section Recipients.
  Variable route : conn -> smsg -> list conn.      (* addressed recipient and match-rule holders *)
  Variable matches : conn -> smsg -> list conn.    (* match-rule holders *)
  Variable bcast : smsg -> list conn.
  Variable monitors : list conn.

  Definition recipients (s : scope) (m : smsg) : list conn :=
    match s with
    | SRouted c _ => route c m ++ monitors
    | SMonitors => monitors
    | SMatches c => matches c m
    | STo c => c :: monitors
    | SBroadcast => bcast m ++ monitors
    | SSelf c => [c]
    | SReleased c => route c m
    end.
End Recipients.
