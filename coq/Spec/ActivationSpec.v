(* Specification side of C19 (bus part), written over the *observable trace* and
   in a different style from the model: nothing here mentions the bus's table of
   pending activations.  A trace is the list of (event, outputs of that step).

   From the D-Bus specification ("Message Bus Starting Services (Activation)")
   and dbus-daemon(1): a message to an activatable name that has no owner, or a
   StartServiceByName call, is a *call*; the bus either answers it at once or
   keeps it; every call meets exactly one *fate*: it is passed on to the owner
   of the name, answered with a StartServiceByName reply, answered with an
   error, or (ghost) dropped because its sender has gone.  The calls *waiting*
   for a name are those addressed to it that have not met their fate yet, in
   order of arrival.  *)
From DV Require Import Lib.Base Activation.Activation.
Local Open Scope N_scope.

Record call := mkCall { c_id : N; c_conn : N; c_serial : N; c_dest : bname; c_auto : bool; c_class : N }.

Definition trace := list (event * list out).

(* the call an event brings; [id] = its number in order of arrival *)
Definition call_of (id : N) (e : event) : list call :=
  match e with
  | ESend c s d _ cl => [mkCall id c s d true cl]
  | EStart c s n => [mkCall id c s n false 0]
  | _ => []
  end.

Fixpoint calls_from (id : N) (h : list event) : list call :=
  match h with
  | [] => []
  | e :: r => call_of id e ++ calls_from (id + nlen (call_of id e)) r
  end.

Definition calls (tr : trace) : list call := calls_from 0 (map fst tr).
Definition n_calls (tr : trace) : N := nlen (calls tr).

(* the fate an output is for *)
Definition fate_of (o : out) : list N :=
  match o with
  | OFwd _ id _ _ | OErr _ id _ _ | OStarted _ id _ _ | OGone id => [id]
  | _ => []
  end.
Definition fates (os : list out) : list N := flat_map fate_of os.
Definition fated (tr : trace) : list N := flat_map (fun s => fates (snd s)) tr.

Definition mem (x : N) (l : list N) : bool := existsb (N.eqb x) l.

(* calls to [n] that have not met their fate, in order of arrival *)
Definition waiting (tr : trace) (n : bname) : list call :=
  filter (fun c => bname_eqb c.(c_dest) n && negb (mem c.(c_id) (fated tr))) (calls tr).

(* connection c has said Hello (connections are numbered in the order of their Hello) and has not disconnected since *)
Definition is_connect (e : event) : bool := match e with EConnect _ => true | _ => false end.
Definition is_disconnect (c : N) (e : event) : bool := match e with EDisconnect c' => c' =? c | _ => false end.
Definition n_conn (h : list event) : N := nlen (filter is_connect h).
Fixpoint live_from (next : N) (h : list event) (c : N) : bool :=
  match h with
  | [] => false
  | e :: r => if is_connect e
              then (if next =? c then negb (existsb (is_disconnect c) r) else live_from (next + 1) r c)
              else live_from next r c
  end.
Definition live (tr : trace) (c : N) : bool := live_from 0 (map fst tr) c.
Definition n_connects (tr : trace) : N := n_conn (map fst tr).

(* the model run from [st], logging the trace *)
Fixpoint run_trace (cf : cfg) (st : state) (tr : trace) (h : list event) : state * trace :=
  match h with
  | [] => (st, tr)
  | e :: r => let '(st1, o) := step cf st e in run_trace cf st1 (tr ++ [(e, o)]) r
  end.

(* projections of one step's outputs *)
Definition is_fwd (o : out) : bool := match o with OFwd _ _ _ _ => true | _ => false end.
Definition is_err (o : out) : bool := match o with OErr _ _ _ _ => true | _ => false end.
Definition is_started (o : out) : bool := match o with OStarted _ _ _ _ => true | _ => false end.
Definition is_spawn (o : out) : bool := match o with OSpawn _ _ _ => true | _ => false end.
Definition spawn_of (n : bname) (o : out) : bool := match o with OSpawn _ m _ => bname_eqb m n | _ => false end.

(* a service table that names well-known names only (what the specification has in mind), at start-up and after
   every change of the service directories *)
Definition wk_list (l : list service) : Prop := forall s, In s l -> exists k, s.(sv_name) = Wk k.
Definition wk_services (cf : cfg) : Prop := wk_list cf.(services).
Definition wk_event (e : event) : Prop := match e with ESetServices l => wk_list l | _ => True end.
Definition wk_history (h : list event) : Prop := forall e, In e h -> wk_event e.
