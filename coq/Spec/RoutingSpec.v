(* Specification side for C09 / C05, written over OBSERVABLE TRACES (what was
   written to and read from the sockets), not over the bus's tables.

   Sources: D-Bus specification, "Message Bus Message Routing" (a message with a
   DESTINATION goes to the owner of that name and nobody else unless
   eavesdropping; undeliverable calls are answered with an error) and
   dbus-daemon(1), <policy>: send_requested_reply / receive_requested_reply
   ("a requested reply is a reply to a method call that was previously sent by
   the recipient and not yet answered") and <limit> reply_timeout,
   max_replies_per_connection.

   The central notion is the LEDGER of open calls, read off the trace alone:
   a call (a -> b, serial s) is open from the step in which it was passed on to
   b (flagged as expecting a reply) until b's first message carrying reply
   serial s is passed on to a, or a or b leaves, or it has been open for the
   configured timeout.  [age] gives how long an open call has been open.

   A trace lists (event, outputs) pairs, most recent step first (Routing.trace).
   The registry (who is primary owner of a well-known name) is NOT re-specified
   here: that is property C04; the oracle below takes the owner from the shared
   registry functions of Routing.v. *)
From DV Require Import Lib.Base Routing.Routing.
Local Open Scope N_scope.

Definition is_call (m : msg) : bool := match m_type m with TCall => true | _ => false end.

(* some message was passed on to connection b in this step *)
Definition fwd_to (o : out) (b : N) : bool :=
  existsb (fun x => match snd x with OFwd _ _ => fst x =? b | _ => false end) o.

(* step (e, o) passes a's call with serial s on to b, and a reply is expected *)
Definition opens (a b s : N) (e : event) (o : out) : bool :=
  match e with
  | ESend c m => (c =? a) && is_call m && negb (m_noreply m) && (m_serial m =? s) && fwd_to o b
  | _ => false
  end.

(* step (e, o) passes a message of b that carries reply serial s on to a *)
Definition answers (a b s : N) (e : event) (o : out) : bool :=
  match e with
  | ESend c m => (c =? b) && (m_rserial m =? s) && negb (s =? 0) && fwd_to o a
  | _ => false
  end.

Definition timed_out (T : option N) (t : N) : bool :=
  match T with Some x => (0 <? x) && (x <=? t) | None => false end.

(* Some t: the call (a -> b, s) is open and has been for t ms; None: not open *)
Fixpoint age (T : option N) (tr : trace) (a b s : N) : option N :=
  match tr with
  | [] => None
  | (e, o) :: tr' =>
      if opens a b s e o then Some 0
      else if answers a b s e o then None
      else match e with
           | EDisconnect c => if (c =? a) || (c =? b) then None else age T tr' a b s
           | ETick d => match age T tr' a b s with
                        | Some t => if timed_out T (t + d) then None else Some (t + d)
                        | None => None
                        end
           | _ => age T tr' a b s
           end
  end.

Definition open_call (T : option N) (tr : trace) (a b s : N) : Prop := age T tr a b s <> None.
Definition is_open (T : option N) (tr : trace) (a b s : N) : bool :=
  match age T tr a b s with Some _ => true | None => false end.

(* histories on which the ledger is claimed to coincide with the bus's table: method calls carry no REPLY_SERIAL.
   (A call carrying a REPLY_SERIAL is treated as a reply first and can then still be refused by the duplicate / limit test
   AFTER the table was updated; see C09_no_reply_refuted in Props/C09.v, finding F7b.  Before the fix for F7 messages with
   unix fds had to be excluded as well.) *)
Definition auto_starts (m : msg) : bool :=
  match m_dest m with DName n => activatable n && negb (m_noauto m) | DUnique _ => false end.
(* ... and auto-start messages to activatable names are excluded as well: a held message is passed on by a later
   RequestName step, which the ledger (defined on send steps) does not follow; C05_fifo_held covers hold and release *)
Definition plain_msg (m : msg) : bool := (negb (is_call m) || (m_rserial m =? 0)) && negb (auto_starts m).
Definition plain_event (e : event) : bool := match e with ESend _ m => plain_msg m | _ => true end.
Definition plain (h : list event) : bool := forallb plain_event h.

(* ------------------------------------------------------------ per-connection views (C05) *)
(* what connection b reads, oldest first *)
Fixpoint inbox (tr : trace) (b : N) : list omsg :=
  match tr with
  | [] => []
  | (_, o) :: tr' => inbox tr' b ++ map snd (filter (fun x => fst x =? b) o)
  end.

(* the messages a wrote that were passed on to b, oldest first *)
Fixpoint passed_on (tr : trace) (a b : N) : list msg :=
  match tr with
  | [] => []
  | (ESend c m, o) :: tr' => passed_on tr' a b ++ (if (c =? a) && fwd_to o b then [m] else [])
  | _ :: tr' => passed_on tr' a b
  end.

Definition from_conn (a : N) (x : omsg) : bool := match x with OFwd f _ => f =? a | _ => false end.

(* ------------------------------------------------------------ executable oracle on one observed step *)
(* all (a, b, s) that were ever opened in tr (with repetitions) *)
Fixpoint opened_keys (tr : trace) : list (N * N * N) :=
  match tr with
  | [] => []
  | (ESend c m, o) :: tr' =>
      (if is_call m && negb (m_noreply m)
       then map (fun x => (c, fst x, m_serial m)) (filter (fun x => match snd x with OFwd _ _ => true | _ => false end) o)
       else []) ++ opened_keys tr'
  | _ :: tr' => opened_keys tr'
  end.

Definition key_eqb (x y : N * N * N) : bool :=
  let '(a, b, c) := x in let '(a', b', c') := y in (a =? a') && (b =? b') && (c =? c').

Fixpoint dedup (l : list (N * N * N)) : list (N * N * N) :=
  match l with
  | [] => []
  | x :: l' => if existsb (key_eqb x) l' then dedup l' else x :: dedup l'
  end.

Definition open_keys (T : option N) (tr : trace) : list (N * N * N) :=
  filter (fun k => let '(a, b, s) := k in is_open T tr a b s) (dedup (opened_keys tr)).

(* the NoReply errors the next step must produce: (receiver, reply serial) *)
Definition expected_noreplies (T : option N) (tr : trace) (e : event) : list (N * N) :=
  match e with
  | EDisconnect c =>
      map (fun k => let '(a, _, s) := k in (a, s))
          (filter (fun k => let '(a, b, _) := k in (b =? c) && negb (a =? c)) (open_keys T tr))
  | ETick d =>
      map (fun k => let '(a, _, s) := k in (a, s))
          (filter (fun k => let '(a, b, s) := k in match age T tr a b s with Some t => timed_out T (t + d) | None => false end)
                  (open_keys T tr))
  | _ => []
  end.

Definition noreplies (o : out) : list (N * N) :=
  flat_map (fun x => match snd x with OErr ENoReply s => [(fst x, s)] | _ => [] end) o.

Definition pair_eqb (x y : N * N) : bool := (fst x =? fst y) && (snd x =? snd y).
Definition count_pair (x : N * N) (l : list (N * N)) : nat := length (filter (pair_eqb x) l).
Definition same_multiset (l1 l2 : list (N * N)) : bool :=
  Nat.eqb (length l1) (length l2) && forallb (fun x => Nat.eqb (count_pair x l1) (count_pair x l2)) l1.

Definition err_eqb (x y : err) : bool :=
  match x, y with
  | EAccessDenied, EAccessDenied | ELimitsExceeded, ELimitsExceeded | ENotSupported, ENotSupported
  | ENoReply, ENoReply | ENameHasNoOwner, ENameHasNoOwner | EServiceUnknown, EServiceUnknown => true
  | _, _ => false
  end.

(* Verdict codes (0 = fine) for the step (e, o) observed after trace tr; [owner] is the primary owner of the
   destination when the step was processed (None: no owner).
     1  a message carrying a reply serial reached a connection that had no open call to its sender (C09)
     2  a send produced something other than exactly one forward of that message (plus at most one copy per eavesdropping
        connection, none for the addressed recipient) or exactly one error to the sender (C05)
     3  the forward went to a connection that is not the primary owner of the destination, or a copy went to a connection
        without a matching eavesdrop rule (C05)
     4  the NoReply errors are not exactly one per open call that ended by disconnect/timeout (C09)
     5  an unrequested reply was refused with something other than AccessDenied (or NotSupported for fds) (C09)
     6  a call was passed on although its sender already had max_replies open calls, not counting the one this very
        message answers (C09 limit)
     7  destination has no owner but the message was not answered by NameHasNoOwner / ServiceUnknown (C05)
    10  messages held for an activation were not released to the new owner exactly once each and in arrival order per sender (C05)
     8  a message to an existing owner was refused without one of the reasons the documentation gives: unrequested reply
        under the restrictive policy (AccessDenied), fds (NotSupported), same serial still outstanding towards that
        callee (AccessDenied), max_replies_per_connection open calls or a full outgoing queue of the recipient (LimitsExceeded)
        (C05 "is delivered", C09 "iff") *)
Fixpoint has_dup (l : list N) : bool :=
  match l with [] => false | x :: l' => existsb (N.eqb x) l' || has_dup l' end.

(* [eaves]: the connections that hold an eavesdrop match rule matching this message -- for a call to the bus driver: this call --
   (from the shared matcher of Routing.v;
   match-rule semantics are property C07) *)
(* [full]: the addressed recipient is stalled with its queue at the bus over max_outgoing_bytes (harness-controlled fact) *)
(* is l1 a subsequence of l2 *)
Fixpoint subseqb (l1 l2 : list (N * N)) : bool :=
  match l1, l2 with
  | [], _ => true
  | _ :: _, [] => false
  | x :: l1', y :: l2' => if pair_eqb x y then subseqb l1' l2' else subseqb l1 l2'
  end.

(* release of the messages held for an activation: [held] = (sender, message) entries in arrival order, [w] = new primary owner.
   Per sender the forwards reach w in arrival order, nothing is forwarded twice or from nowhere, and every held message is
   either forwarded or answered with an error to its sender. *)
Definition release_ok (held : list (N * msg)) (w : N) (o : out) : bool :=
  let keys := map (fun x => (fst x, m_token (snd x))) held in
  let fwd := flat_map (fun x => match snd x with OFwd f m' => if fst x =? w then [(f, m_token m')] else [] | _ => [] end) o in
  forallb (fun k => existsb (pair_eqb k) keys) fwd &&
  forallb (fun k => Nat.leb (count_pair k fwd) 1) fwd &&
  forallb (fun a => subseqb (filter (fun k => fst k =? a) fwd) (filter (fun k => fst k =? a) keys)) (map fst keys) &&
  forallb (fun x => existsb (pair_eqb (fst x, m_token (snd x))) fwd ||
                    existsb (fun y => match snd y with OErr _ rs => (fst y =? fst x) && (rs =? m_serial (snd x)) | _ => false end) o) held &&
  negb (existsb (fun x => match snd x with OFwd _ _ => negb (fst x =? w) | _ => false end) o).

(* copies of a call to the bus driver: only to connections entitled to eavesdrop ([eaves]), one each, and of THIS call *)
Definition drv_copies_ok (c s : N) (eaves : list N) (o : out) : bool :=
  forallb (fun x => match snd x with OCall f sr => (f =? c) && (sr =? s) && existsb (N.eqb (fst x)) eaves | _ => true end) o &&
  negb (has_dup (map fst (filter (fun x => match snd x with OCall _ _ => true | _ => false end) o))).
Definition drv_step_code (c s : N) (eaves : list N) (o : out) : N :=
  if existsb (fun x => match snd x with ODrv _ _ | OCall _ _ => false | _ => true end) o then 2
  else if drv_copies_ok c s eaves o then 0 else 3.

(* [holdok]: the destination is an unowned name with a service file and the message may auto-start it (then it is held: no
   output, unless the activation's first-pass policy check refuses it);
   [held]: what is held for the name a RequestName step acquires (owner = primary owner after the step) *)
Definition oracle_step (cf : cfg) (tr : trace) (owner : option N) (eaves : list N) (full : bool) (holdok : bool) (held : list (N * msg))
           (e : event) (o : out) : N :=
  let T := reply_timeout cf in
  match e with
  | ESend c m =>
      match o with
      | (r, OFwd f m') :: copies =>
          if negb ((f =? c) && (m_token m' =? m_token m)) || unknown_type m then 2      (* unknown message types are never passed on *)
          else if negb (forallb (fun x => match snd x with OEav f' m'' => (f' =? c) && (m_token m'' =? m_token m) | _ => false end) copies) then 2
          else if existsb (fun x => fst x =? r) copies || has_dup (map fst copies) then 2      (* somebody got it twice *)
          else if negb (forallb (fun x => existsb (N.eqb (fst x)) eaves) copies) then 3       (* copy to a connection not entitled to eavesdrop *)
          else match owner with
               | None => 3
               | Some w =>
                   if negb (r =? w) then 3
                   else if restrictive cf && negb (m_rserial m =? 0) && negb (is_open T tr r c (m_rserial m)) then 1
                   else if is_call m && negb (m_noreply m) &&
                           (max_replies cf <=? N.of_nat (length (filter (fun k => let '(a, _, _) := k in a =? c)
                                                                             (filter (fun k => negb (key_eqb k (c, r, m_serial m)) && negb (key_eqb k (r, c, m_rserial m))) (open_keys T tr))))) then 6
                   else 0
               end
      | [(r, OErr x rs)] =>
          if negb ((r =? c) && (rs =? m_serial m)) then 2
          else match owner with
               | None => if holdok then (if err_eqb x EAccessDenied && (negb (can_send cf m false) || unknown_type m) then 0 else 7)   (* first-pass policy check of the activation *)
                         else if err_eqb x (if m_noauto m then ENameHasNoOwner else EServiceUnknown) then 0 else 7
               | Some w =>
                   let wants_slot := is_call m && negb (m_noreply m) in
                   let unrequested := restrictive cf && negb (m_rserial m =? 0) && negb (is_open T tr w c (m_rserial m)) in
                   let others := length (filter (fun k => let '(a, _, _) := k in a =? c)
                                                (filter (fun k => negb (key_eqb k (c, w, m_serial m)) && negb (key_eqb k (w, c, m_rserial m))) (open_keys T tr))) in
                   if err_eqb x ENoReply then 4
                   else if unknown_type m then (if err_eqb x EAccessDenied || (err_eqb x ENotSupported && (0 <? m_nfds m)) then 0 else 8)
                   else if unrequested then (if err_eqb x EAccessDenied || (err_eqb x ENotSupported && (0 <? m_nfds m)) then 0 else 5)
                   else if err_eqb x ENotSupported then (if 0 <? m_nfds m then 0 else 8)
                   else if err_eqb x EAccessDenied then (if wants_slot && is_open T tr c w (m_serial m) then 0 else 8)
                   else if err_eqb x ELimitsExceeded then (if full || wants_slot && (max_replies cf <=? N.of_nat others) then 0 else 8)
                   else 8
               end
      | [] => if holdok && can_send cf m false && negb (unknown_type m) then 0 else 2
      | _ => 2
      end
  | ERequestName c sr _ _ _ _ =>
      match held, owner with
      | [], _ | _, None => drv_step_code c sr eaves o
      | _, Some w => if negb (release_ok held w o) then 10 else if drv_copies_ok c sr eaves o then 0 else 3
      end
  | EReleaseName c sr _ | EAddMatch c sr _ | EDriverCall c sr => drv_step_code c sr eaves o
  | EDisconnect _ | ETick _ =>
      if negb (Nat.eqb (length (noreplies o)) (length o)) then 4
      else if same_multiset (noreplies o) (expected_noreplies T tr e) then 0 else 4
  | EConnect _ => match o with [] => 0 | _ => 2 end
  | _ => if existsb (fun x => match snd x with ODrv _ _ => false | _ => true end) o then 2 else 0
  end.

(* ------------------------------------------------------------ vocabulary of the trace theorems *)
(* some step of tr passes a call (a -> b, s) on *)
Definition opened_in (tr : trace) (a b s : N) : bool := existsb (fun x => opens a b s (fst x) (snd x)) tr.

(* number of NoReply errors with reply serial s addressed to a in one step's output *)
Definition nr_is (a s : N) (x : N * omsg) : bool :=
  (fst x =? a) && match snd x with OErr ENoReply s' => s' =? s | _ => false end.
Definition count_noreply (o : out) (a s : N) : nat := length (filter (nr_is a s) o).

(* any error from the bus with reply serial s addressed to a *)
Definition err_is (a s : N) (x : N * omsg) : bool :=
  (fst x =? a) && match snd x with OErr _ s' => s' =? s | _ => false end.
Definition errors_in (tr : trace) (a s : N) : nat := length (filter (err_is a s) (flat_map snd tr)).

(* how many messages with serial s connection a wrote in history h *)
Definition sends_with_serial (h : list event) (a s : N) : nat :=
  length (filter (fun e => match e with ESend c m => (c =? a) && (m_serial m =? s) | _ => false end) h).

(* histories in which no message waits for a service to start (no auto-start message to an activatable name) *)
Definition noauto (h : list event) : bool :=
  forallb (fun e => match e with ESend _ m => negb (auto_starts m) | _ => true end) h.

(* ------------------------------------------------------------ FIFO through hold and release (C05) *)
Definition dest_eqb (x y : dest) : bool :=
  match x, y with DUnique a, DUnique b => a =? b | DName a, DName b => a =? b | _, _ => false end.

(* what a wrote to destination d, oldest first *)
Fixpoint written (tr : trace) (a : N) (d : dest) : list msg :=
  match tr with
  | [] => []
  | (ESend c m, _) :: tr' => written tr' a d ++ (if (c =? a) && dest_eqb (m_dest m) d then [m] else [])
  | _ :: tr' => written tr' a d
  end.

(* a's messages to destination d that b reads (as addressed recipient), in the order b reads them -- whichever step passed
   them on: the send itself, or the RequestName that ended an activation *)
Definition arrivals_in (o : out) (a : N) (d : dest) (b : N) : list msg :=
  flat_map (fun x => match snd x with OFwd f m => if (fst x =? b) && (f =? a) && dest_eqb (m_dest m) d then [m] else [] | _ => [] end) o.
Fixpoint arrived (tr : trace) (a : N) (d : dest) (b : N) : list msg :=
  match tr with [] => [] | (_, o) :: tr' => arrived tr' a d b ++ arrivals_in o a d b end.

(* subsequence: same relative order *)
Inductive Sub {A} : list A -> list A -> Prop :=
| Sub_nil : forall l, Sub [] l
| Sub_keep : forall x l1 l2, Sub l1 l2 -> Sub (x :: l1) (x :: l2)
| Sub_skip : forall x l1 l2, Sub l1 l2 -> Sub l1 (x :: l2).
