(* C10 — specification: the bus as the D-Bus specification describes it, i.e. a
   bus whose inputs are MESSAGES, not bytes.

   "Message Bus Specification": the bus receives messages from connections; the
   protocol section says of an invalid message that the connection is dropped
   ("In the event that a message ... is invalid, the connection should be closed").
   So the ideal bus below has no buffers and no parser: a connection delivers a batch
   of well-formed messages, optionally followed by the bare fact that its stream
   stopped being a D-Bus stream ([i_invalid], which carries no payload at all — the
   ideal bus cannot leak a byte of an invalid message because it is never given
   one).  Limits (dbus-daemon(1), <limit>): at most max_incomplete_connections
   connections that have not finished registering, each for at most auth_timeout.

   The handshake is not this property's subject: the ideal bus runs the same
   abstract handshake automaton as the model.

   Refinement (Proofs/RobustRefine.v): every byte-level history of Robust/Bus.v,
   translated by running each connection's bytes through the message loader, yields
   the same outputs on the ideal bus. *)
From DV Require Import Lib.Base Wire.Message Robust.Bus.
Local Open Scope N_scope.

(* a connection of the ideal bus: no loader *)
Record iconn (A : Type) := mkIConn { i_id : N; i_since : N; i_phase : phase A; i_active : bool }.
Arguments mkIConn {A}.
Arguments i_id {A}.
Arguments i_since {A}.
Arguments i_phase {A}.
Arguments i_active {A}.

Record istate (A S : Type) := mkISt { i_now : N; i_conns : list (iconn A); i_core : S }.
Arguments mkISt {A S}.
Arguments i_now {A S}.
Arguments i_conns {A S}.
Arguments i_core {A S}.

Inductive ievent :=
| IAccept (c : N)
| IHandshake (c : N) (d : bytes) (wok : bool)          (* handshake bytes (credentials byte included) *)
| IMsgs (c : N) (ms : list message) (invalid : bool)    (* a batch of messages [then: the stream is no longer valid] *)
| IEof (c : N)
| ITick (d : N).

Section Ideal.
  Context {A S O : Type}.
  Variable P : ops A S O.
  Variable cf : cfg.

  Definition ifind (l : list (iconn A)) (c : N) : option (iconn A) := find (fun x => i_id x =? c) l.
  Definition iremove (l : list (iconn A)) (c : N) : list (iconn A) := filter (fun x => negb (i_id x =? c)) l.
  Fixpoint iupdate (l : list (iconn A)) (x : iconn A) : list (iconn A) :=
    match l with
    | [] => []
    | y :: r => if i_id y =? i_id x then x :: r else y :: iupdate r x
    end.

  Definition idrop (st : istate A S) (x : iconn A) : istate A S * list (out O) :=
    let '(k, o) := o_disconnect P (i_core st) (i_id x) (i_active x) in
    (mkISt (i_now st) (iremove (i_conns st) (i_id x)) k, map OCore o ++ [OGone (i_id x)]).

  (* the messages of a batch reach the core one by one, in order; a connection the core
     wants closed, or whose stream turned invalid, is dropped after the batch *)
  Definition imsgs (st : istate A S) (x : iconn A) (ms : list message) (invalid : bool) : istate A S * list (out O) :=
    let '(k, o, active, close) := dispatch_all P (i_core st) (i_id x) (i_active x) ms in
    let x' := mkIConn (i_id x) (i_since x) PMsg active in
    let st' := mkISt (i_now st) (iupdate (i_conns st) x') k in
    if invalid || close
    then let '(st'', o') := idrop st' x' in (st'', map OCore o ++ o')
    else (st', map OCore o).

  (* handshake bytes; when the handshake completes, the connection is open; bytes that
     followed are NOT this event's business (the translation turns them into an IMsgs) *)
  Definition ihandshake_feed (st : istate A S) (x : iconn A) (a : A) (d : bytes) (wok : bool) : istate A S * list (out O) :=
    let '(a', reply, v) := o_auth_feed P a d in
    let ro := match reply with [] => [] | _ => [OAuth (i_id x) reply] end in
    if negb wok && negb (match reply with [] => true | _ => false end) then idrop st x else
    match v with
    | AWait => (mkISt (i_now st) (iupdate (i_conns st) (mkIConn (i_id x) (i_since x) (PAuth a') (i_active x))) (i_core st), ro)
    | AFail => let '(st', o) := idrop st x in (st', ro ++ o)
    | ADone _ => (mkISt (i_now st) (iupdate (i_conns st) (mkIConn (i_id x) (i_since x) PMsg (i_active x))) (i_core st), ro)
    end.

  Definition ihandshake (st : istate A S) (c : N) (d : bytes) (wok : bool) : istate A S * list (out O) :=
    match ifind (i_conns st) c with
    | None => (st, [])
    | Some x =>
        match i_phase x with
        | PCred => match d with
                   | [] => (st, [])
                   | b :: rest => if b =? 0 then ihandshake_feed st x (o_auth_init P) rest wok else idrop st x
                   end
        | PAuth a => ihandshake_feed st x a d wok
        | PMsg => (st, [])
        end
    end.

  (* expiry, declaratively: every unregistered connection that has been here for
     auth_timeout or longer goes, oldest first; the others stay *)
  Definition iexpired (now : N) (x : iconn A) : bool := negb (i_active x) && (auth_timeout cf <=? now - i_since x).
  Fixpoint idrop_all (l : list (iconn A)) (k : S) : S * list (out O) :=
    match l with
    | [] => (k, [])
    | x :: r => let '(k1, o1) := o_disconnect P k (i_id x) false in
                let '(k2, o2) := idrop_all r k1 in
                (k2, map OCore o1 ++ OGone (i_id x) :: o2)
    end.
  Definition iexpire (st : istate A S) : istate A S * list (out O) :=
    let '(k, o) := idrop_all (filter (iexpired (i_now st)) (i_conns st)) (i_core st) in
    (mkISt (i_now st) (filter (fun x => negb (iexpired (i_now st) x)) (i_conns st)) k, o).

  Definition in_incomplete (st : istate A S) : N := nlen (filter (fun x => negb (i_active x)) (i_conns st)).

  Definition istep (st : istate A S) (e : ievent) : istate A S * list (out O) :=
    match e with
    | IAccept c =>
        if negb (in_incomplete st <? max_incomplete cf) then (st, [ORefused c])
        else match ifind (i_conns st) c with
             | Some _ => (st, [ORefused c])
             | None => iexpire (mkISt (i_now st) (i_conns st ++ [mkIConn c (i_now st) PCred false]) (i_core st))
             end
    | IHandshake c d wok => ihandshake st c d wok
    | IMsgs c ms invalid =>
        match ifind (i_conns st) c with
        | None => (st, [])
        | Some x => match i_phase x with PMsg => imsgs st x ms invalid | _ => (st, []) end
        end
    | IEof c => match ifind (i_conns st) c with None => (st, []) | Some x => idrop st x end
    | ITick d =>
        let '(st1, o1) := iexpire (mkISt (i_now st + d) (i_conns st) (i_core st)) in
        let '(k, o2) := o_tick P (i_core st1) d in
        (mkISt (i_now st1) (i_conns st1) k, o1 ++ map OCore o2)
    end.

  Fixpoint irun (st : istate A S) (h : list ievent) : istate A S * list (out O) :=
    match h with
    | [] => (st, [])
    | e :: r => let '(st1, o1) := istep st e in
                let '(st2, o2) := irun st1 r in
                (st2, o1 ++ o2)
    end.

  (* ---- the translation of a byte-level history --------------------------------- *)
  Definition forget (x : conn A) : iconn A := mkIConn (c_id x) (c_since x) (c_phase x) (c_active x).
  Definition abs_state (st : state A S) : istate A S := mkISt (s_now st) (map forget (s_conns st)) (s_core st).

  (* what one read means at message level, given the connection's loader *)
  Definition abs_msgs (c : N) (l : loader) (d : bytes) : ievent :=
    let l1 := feed l d 0 in IMsgs c (l_msgs l1) (l_corrupted l1).

  Definition abs_handshake (x : conn A) (a : A) (d hd : bytes) (wok : bool) : list ievent :=
    let '(_, reply, v) := o_auth_feed P a d in
    IHandshake (c_id x) hd wok ::
    match v with
    | ADone unused => if negb wok && negb (match reply with [] => true | _ => false end) then []
                      else [abs_msgs (c_id x) (c_loader x) unused]
    | _ => []
    end.

  Definition abs_event (st : state A S) (e : event) : list ievent :=
    match e with
    | EAccept c => [IAccept c]
    | EEof c => [IEof c]
    | ETick d => [ITick d]
    | ERead c d wok =>
        match find_conn (s_conns st) c with
        | None => []
        | Some x =>
            match c_phase x with
            | PCred => match d with
                       | [] => []
                       | b :: rest => if b =? 0 then abs_handshake x (o_auth_init P) rest d wok else [IHandshake c d wok]
                       end
            | PAuth a => abs_handshake x a d d wok
            | PMsg => [abs_msgs c (c_loader x) d]
            end
        end
    end.

  Fixpoint abstract (st : state A S) (h : list event) : list ievent :=
    match h with
    | [] => []
    | e :: r => abs_event st e ++ abstract (fst (step P cf st e)) r
    end.
End Ideal.
