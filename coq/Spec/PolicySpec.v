(* Specification of policy evaluation, written from the dbus-daemon(1) manual
   page (/repo/doc/dbus-daemon.1.xml.in: <policy>, <allow>, <deny>), in a
   declarative style: a rule is a conjunction of one predicate per attribute,
   the decision is that of the LAST matching rule of the documented context
   order, and nothing is allowed when no rule matches.

   Quotes are from the manual page.

   Readings taken where the page is silent:
   (R1) path / member / error attributes: "purely textual/by-value matches
        against the given field in the message header" -- a message WITHOUT
        that field is matched (the page only says that "*" matches whether or
        not the field is there).
   (R2) interface: "do NOT specify <deny send_interface="org.foo.Bar"/>! This
        will cause no-interface messages to be blocked" -- a deny rule matches
        a message without interface; an allow rule does not (so that a message
        cannot evade an interface restriction by omitting the field).
   (R3) send_destination / receive_sender name the *owner*: any connection in
        the queue of that name ("regardless of whether it is the primary or
        the queued owner" is said for the prefix form; taken for both).  For a
        message to or from the bus driver itself, which is not a connection,
        the header field is compared.
   (R4) for a copy of a message that goes to an eavesdropper, "recipient"
        means the eavesdropper.

   The three places where the code is known to depart from the literal page
   are switchable ([deviations]); [dev_none] is the literal page, [dev_code]
   is what bus/policy.c does.  Proofs/PolicyProofs.v shows model = spec
   [dev_code] for all inputs and spec [dev_code] = spec [dev_none] outside
   three explicit classes. *)
From DV Require Import Lib.Base Gen.Tables Gen.PolicyTables Policy.Policy.
Local Open Scope N_scope.

Record deviations := mkDev {
  (* D1 "This attribute only makes sense for reply messages (errors and method
     returns), and is ignored for other message types."  The code looks at the
     REPLY_SERIAL header field instead of the message type. *)
  dv_reply_by_serial : bool;
  (* D2 "For <allow>, [send|receive]_requested_reply="true" is the default and
     indicates that only requested replies are allowed by the rule."  The code
     lets an allow rule that also has eavesdrop="true" match unrequested replies. *)
  dv_eavesdrop_lifts_reply : bool;
  (* D3 "The eavesdrop, min_fds and max_fds attributes are modifiers that can
     be applied to either send_* or receive_* rules": on a send rule the code
     ignores eavesdrop (except for D2). *)
  dv_send_ignores_eavesdrop : bool
}.
Definition dev_none := mkDev false false false.
Definition dev_code := mkDev true true true.

(* ---------------------------------------------------------------- attribute predicates *)
Definition is_reply_type (m : msg) : bool :=
  (m_type m =? DBUS_MESSAGE_TYPE_METHOD_RETURN) || (m_type m =? DBUS_MESSAGE_TYPE_ERROR).

(* "send_type=..." *)
Definition sp_type (r : rule) (m : msg) : bool := (r_mtype r =? DBUS_MESSAGE_TYPE_INVALID) || (m_type m =? r_mtype r).

(* (R1) *)
Definition sp_field (rf mf : option bytes) : bool :=
  match rf, mf with
  | None, _ => true
  | Some _, None => true
  | Some x, Some y => bytes_eqb x y
  end.

(* (R2) *)
Definition sp_iface (r : rule) (m : msg) : bool :=
  match r_iface r, m_iface m with
  | None, _ => true
  | Some _, None => negb (r_allow r)
  | Some x, Some y => bytes_eqb x y
  end.

(* "Rules with send_broadcast="true" match signal messages with no destination
   (broadcasts). Rules with send_broadcast="false" are the inverse" *)
Definition sp_is_broadcast (m : msg) : bool :=
  (m_type m =? DBUS_MESSAGE_TYPE_SIGNAL) && match m_dest m with None => true | Some _ => false end.
Definition sp_broadcast (r : rule) (m : msg) : bool :=
  match r_broadcast r with TAny => true | TTrue => sp_is_broadcast m | TFalse => negb (sp_is_broadcast m) end.

(* "a rule with the min_fds attribute only matches messages if they have at
   least that many Unix file descriptors attached ... max_fds ... no more than" *)
Definition sp_fds (r : rule) (m : msg) : bool := (r_min_fds r <=? m_nfds m) && (m_nfds m <=? r_max_fds r).

(* the names a connection is an owner of (primary or queued) *)
Definition names_of (reg : registry) (c : N) : list bytes :=
  map fst (filter (fun e => in_queue c (snd e)) reg).

(* "a prefix of "a.b" matches names "a.b" or "a.b.c" or "a.b.c.d", but not "a.bc" or "a.c"" *)
Definition dotted_prefix (p n : bytes) : bool := bytes_eqb n p || is_prefix (p ++ [46]) n.

Definition has_name (names : list bytes) (n : bytes) : bool := existsb (bytes_eqb n) names.

(* "send_destination ... the *owner* of the given name"; send_destination_prefix:
   "the owner of any name matching the prefix" *)
Definition sp_destination (r : rule) (recipient : option N) (reg : registry) (m : msg) : bool :=
  match r_name r with
  | None => true
  | Some d =>
      match recipient with
      | Some c => if r_prefix r then existsb (dotted_prefix d) (names_of reg c) else has_name (names_of reg c) d
      | None => match m_dest m with
                | None => false
                | Some dn => if r_prefix r then dotted_prefix d dn else bytes_eqb dn d
                end
      end
  end.

(* "receive_sender" *)
Definition sp_origin (r : rule) (sender : option N) (reg : registry) (m : msg) : bool :=
  match r_name r with
  | None => true
  | Some o =>
      match sender with
      | Some s => has_name (names_of reg s) o
      | None => match m_sender m with None => false | Some sn => bytes_eqb sn o end
      end
  end.

(* the requested_reply modifier *)
Definition sp_reply (d : deviations) (r : rule) (requested : bool) (m : msg) : bool :=
  let is_reply := if dv_reply_by_serial d then negb (m_reply_serial m =? 0) else is_reply_type m in
  if negb is_reply then true
  else if r_allow r then
    (* "requested_reply="true" ... only requested replies are allowed by the rule; "false" means that the rule allows any reply" *)
    negb (r_reqreply r) || requested || (dv_eavesdrop_lifts_reply d && r_eavesdrop r)
  else
    (* "For <deny>, ="false" ... the rule matches only when the reply was not requested; ="true" ... applies always" *)
    r_reqreply r || negb requested.

(* the eavesdrop modifier:
   "For <allow>, eavesdrop="true" indicates that the rule matches even when eavesdropping. eavesdrop="false" ... only
    allows messages to go to their specified recipient.  For <deny>, eavesdrop="true" indicates that the rule matches
    only when eavesdropping. eavesdrop="false" ... applies always" *)
Definition sp_eavesdrop (r : rule) (eavesdropping : bool) : bool :=
  if r_allow r then r_eavesdrop r || negb eavesdropping
  else negb (r_eavesdrop r) || eavesdropping.

(* ---------------------------------------------------------------- whole rules *)
Record send_ctx := mkSendCtx { sx_requested : bool; sx_eavesdropping : bool; sx_recipient : option N; sx_reg : registry }.
Record recv_ctx := mkRecvCtx { rx_requested : bool; rx_eavesdropping : bool; rx_sender : option N; rx_reg : registry }.

Definition is_kind (k : rkind) (r : rule) : bool := rkind_eqb (r_kind r) k.

Definition spec_send_matches (d : deviations) (x : send_ctx) (m : msg) (r : rule) : bool :=
  forallb (fun b : bool => b)
    [ is_kind KSend r; sp_type r m; sp_field (r_path r) (m_path m); sp_iface r m; sp_field (r_member r) (m_member m);
      sp_field (r_error r) (m_error m); sp_broadcast r m; sp_destination r (sx_recipient x) (sx_reg x) m; sp_fds r m;
      sp_reply d r (sx_requested x) m;
      dv_send_ignores_eavesdrop d || sp_eavesdrop r (sx_eavesdropping x) ].

Definition spec_recv_matches (d : deviations) (x : recv_ctx) (m : msg) (r : rule) : bool :=
  forallb (fun b : bool => b)
    [ is_kind KRecv r; sp_type r m; sp_field (r_path r) (m_path m); sp_iface r m; sp_field (r_member r) (m_member m);
      sp_field (r_error r) (m_error m); sp_origin r (rx_sender x) (rx_reg x) m; sp_fds r m;
      sp_reply d r (rx_requested x) m; sp_eavesdrop r (rx_eavesdropping x) ].

(* "own="*" matches any well-known bus name"; "<allow own_prefix="a.b"/> allows you to own the name "a.b" or any name
   whose first dot-separated elements are "a.b"" *)
Definition spec_own_matches (name : bytes) (r : rule) : bool :=
  is_kind KOwn r &&
  match r_name r with
  | None => true
  | Some n => if r_prefix r then dotted_prefix n name else bytes_eqb n name
  end.

(* "The last rule that matches the message determines whether it may be sent"; nothing is allowed by default *)
Definition spec_decide (matches : rule -> bool) (rules : list rule) : bool :=
  match find matches (rev rules) with
  | Some r => r_allow r
  | None => false
  end.

Definition spec_can_send (d : deviations) (rules : list rule) (x : send_ctx) (m : msg) : bool := spec_decide (spec_send_matches d x m) rules.
Definition spec_can_receive (d : deviations) (rules : list rule) (x : recv_ctx) (m : msg) : bool := spec_decide (spec_recv_matches d x m) rules.
Definition spec_can_own (rules : list rule) (name : bytes) : bool := spec_decide (spec_own_matches name) rules.

(* ---------------------------------------------------------------- context order *)
(* "Policies are applied to a connection as follows: all context="default" policies are applied; all group="connection's
   user's group" policies are applied in undefined order; all user="connection's auth user" policies are applied in
   undefined order; all at_console="true" policies are applied; all at_console="false" policies are applied; all
   context="mandatory" policies are applied.  Policies applied later will override those applied earlier ... Multiple
   policies with the same user/group/context are applied in the order they appear in the config file."
   The "undefined order" among a connection's groups is fixed to the order of [gids]. *)
Definition rule_cfg := list (pctx * list rule).

Definition pctx_eqb (a b : pctx) : bool :=
  match a, b with
  | CDefault, CDefault | CMandatory, CMandatory | CIgnored, CIgnored => true
  | CUser x, CUser y | CGroup x, CGroup y => x =? y
  | CConsole x, CConsole y => Bool.eqb x y
  | _, _ => false
  end.

Definition select (cfg : rule_cfg) (c : pctx) : list rule :=
  flat_map (fun e => if pctx_eqb (fst e) c then snd e else []) cfg.

Definition spec_client_rules (cfg : rule_cfg) (uid : N) (gids : list N) (at_console : bool) : list rule :=
  concat [ select cfg CDefault; flat_map (fun g => select cfg (CGroup g)) gids; select cfg (CUser uid);
           select cfg (CConsole at_console); select cfg CMandatory ].

(* the bus-wide policy a configuration denotes (rule level) *)
Definition policy_of_cfg (cfg : rule_cfg) : policy :=
  fold_left (fun p e => fold_left (fun p' r => policy_add p' (fst e) r) (snd e) p) cfg policy_empty.

(* ---------------------------------------------------------------- when may a rule be treated as a catch-all *)
(* A rule may shadow everything before it only if it matches every message in
   every situation.  This is the corrected condition for
   bus_client_policy_optimize (the small fix for finding F3). *)
Definition universal (r : rule) : bool :=
  match r_kind r with
  | KSend => atom_type r && atom_path r && atom_iface r && atom_member r && atom_error r && atom_name r &&
             atom_bcast r && atom_minfds r && atom_maxfds r && atom_reply r
  | KRecv => atom_type r && atom_path r && atom_iface r && atom_member r && atom_error r && atom_name r &&
             atom_minfds r && atom_maxfds r && atom_reply r && atom_eaves r
  | KOwn => atom_name r   (* a well-formed own rule without a name has no prefix flag *)
  end.

(* the catch-all test of bus_client_policy_optimize as it is in dbus 1.13.18, frozen by hand: the known finding F3 is
   about exactly this test (a different unsound test would be a new finding) *)
Definition f3_condition (r : rule) : bool :=
  match r_kind r with
  | KOwn => atom_name r
  | _ => atom_type r && atom_path r && atom_iface r && atom_member r && atom_error r && atom_name r
  end.

(* the same as a mask, to compare with the generated one *)
Definition fixed_mask_send : catchall_mask := Build_catchall_mask true true true true true true true true true true false false.
Definition fixed_mask_recv : catchall_mask := Build_catchall_mask true true true true true true false true true true true false.
Definition fixed_mask_own : catchall_mask := Build_catchall_mask false false false false false true false false false false false false.

Definition mask_includes (required actual : catchall_mask) : bool :=
  implb (cm_type required) (cm_type actual) && implb (cm_path required) (cm_path actual) && implb (cm_iface required) (cm_iface actual) &&
  implb (cm_member required) (cm_member actual) && implb (cm_error required) (cm_error actual) && implb (cm_name required) (cm_name actual) &&
  implb (cm_bcast required) (cm_bcast actual) && implb (cm_minfds required) (cm_minfds actual) && implb (cm_maxfds required) (cm_maxfds actual) &&
  implb (cm_reply required) (cm_reply actual) && implb (cm_eaves required) (cm_eaves actual) && implb (cm_noprefix required) (cm_noprefix actual).

(* does the optimiser of the C tree only prune behind universal rules? *)
Definition optimizer_condition_ok : bool :=
  mask_includes fixed_mask_send opt_mask_send && mask_includes fixed_mask_recv opt_mask_recv && mask_includes fixed_mask_own opt_mask_own.

(* ---------------------------------------------------------------- well-formedness *)
(* what append_rule_from_element guarantees and what the message loader guarantees *)
Definition rule_wf (r : rule) : bool :=
  match r_kind r with
  | KOwn => implb (r_prefix r) (is_some (r_name r))
  | _ => true
  end.

Definition msg_wf (m : msg) : bool := m_nfds m <=? DBUS_MAXIMUM_MESSAGE_UNIX_FDS.
