(* Specification of D-Bus marshalling ("Marshaling (Wire Format)" and "Message
   Format" chapters of the D-Bus specification): a value universe, the
   canonical encoder, and a validating decoder written region-by-region (an
   array's payload is cut out as exactly [len] bytes and must be consumed
   exactly), independently of the pointer-walking C validator. *)
From DV Require Export Lib.Base Spec.SigSpec Spec.NamesSpec Spec.Utf8Spec.
Local Open Scope N_scope.

Inductive val :=
| VNum (code : N) (n : N)          (* fixed-size: y b n q i u x t d h, as the unsigned integer its bytes denote *)
| VStr (code : N) (s : bytes)      (* s o g *)
| VArr (et : ty) (elems : list val)
| VStruct (fs : list val)
| VDictE (k v : val)
| VVar (t : ty) (v : val).

(* sizes / alignments from the specification's table *)
Definition fixed_size (code : N) : option N :=
  if code =? 121 then Some 1            (* y *)
  else if (code =? 110) || (code =? 113) then Some 2           (* n q *)
  else if (code =? 98) || (code =? 105) || (code =? 117) || (code =? 104) then Some 4   (* b i u h *)
  else if (code =? 120) || (code =? 116) || (code =? 100) then Some 8   (* x t d *)
  else None.

Definition spec_align (t : ty) : N :=
  match t with
  | TBasic c => match fixed_size c with
                | Some n => n
                | None => if c =? 103 then 1 else 4      (* g : 1 ; s o : 4 *)
                end
  | TVariant => 1
  | TArray _ => 4
  | TStruct _ | TDict _ _ => 8
  end.

Definition pad_amount (pos a : N) : N := (a - pos mod a) mod a.

(* little/big endian numbers *)
Fixpoint le_num (bs : bytes) : N :=
  match bs with [] => 0 | b :: r => b + 256 * le_num r end.
Definition num_of (le : bool) (bs : bytes) : N := if le then le_num bs else le_num (rev bs).

Fixpoint le_bytes (n : nat) (v : N) : bytes :=
  match n with O => [] | S n' => (v mod 256) :: le_bytes n' (v / 256) end.
Definition bytes_of (le : bool) (n : nat) (v : N) : bytes := if le then le_bytes n v else rev (le_bytes n v).

Definition zeros (n : N) : bytes := repeat 0 (N.to_nat n).

(* printing a signature back from the AST *)
Fixpoint print_ty (t : ty) : bytes :=
  match t with
  | TBasic c => [c]
  | TVariant => [118]
  | TArray t' => 97 :: print_ty t'
  | TStruct ts => 40 :: (flat_map print_ty ts) ++ [41]
  | TDict k v => 123 :: k :: print_ty v ++ [125]
  end.

(* ---------------- encoder ------------------------------------------------ *)
Fixpoint enc (le : bool) (v : val) (pos : N) {struct v} : bytes :=
  let encs := (fix encs (vs : list val) (pos : N) : bytes :=
                 match vs with
                 | [] => []
                 | x :: r => let b := enc le x pos in b ++ encs r (pos + nlen b)
                 end) in
  match v with
  | VNum code n =>
      match fixed_size code with
      | Some sz => zeros (pad_amount pos sz) ++ bytes_of le (N.to_nat sz) n
      | None => []
      end
  | VStr code s =>
      if code =? 103 then nlen s :: s ++ [0]
      else zeros (pad_amount pos 4) ++ bytes_of le 4 (nlen s) ++ s ++ [0]
  | VArr et elems =>
      let p1 := pad_amount pos 4 in
      let after_len := pos + p1 + 4 in
      let p2 := pad_amount after_len (spec_align et) in
      let payload := encs elems (after_len + p2) in
      zeros p1 ++ bytes_of le 4 (nlen payload) ++ zeros p2 ++ payload
  | VStruct fs =>
      let p := pad_amount pos 8 in zeros p ++ encs fs (pos + p)
  | VDictE k x =>
      let p := pad_amount pos 8 in zeros p ++ encs [k; x] (pos + p)
  | VVar t x =>
      let sg := print_ty t in
      let hd := nlen sg :: sg ++ [0] in
      hd ++ enc le x (pos + nlen hd)
  end.

(* ---------------- validating decoder -------------------------------------- *)
(* state: absolute position and the bytes from there to the end of the region *)
Definition take (n : N) (d : bytes) : option (bytes * bytes) :=
  if nlen d <? n then None else Some (firstn (N.to_nat n) d, skipn (N.to_nat n) d).

Definition skip_pad (pos a : N) (d : bytes) : option (N * bytes) :=
  let p := pad_amount pos a in
  match take p d with
  | Some (z, r) => if forallb (N.eqb 0) z then Some (pos + p, r) else None
  | None => None
  end.

Definition max_array : N := 67108864.      (* 2^26 *)
Definition max_message : N := 134217728.   (* 2^27 *)
Definition max_value_depth : N := 64.

Section Dec.
  Variable le : bool.

  (* [dec d t depth pos data] decodes one value of type t; depth counts enclosing containers *)
  Fixpoint dec (d : nat) (t : ty) (depth : N) (pos : N) (data : bytes) {struct d} : option (val * N * bytes) :=
    match d with
    | O => None
    | S d' =>
        let decs :=
          (fix decs (ts : list ty) (depth pos : N) (data : bytes) : option (list val * N * bytes) :=
             match ts with
             | [] => Some ([], pos, data)
             | t :: r =>
                 match dec d' t depth pos data with
                 | Some (v, pos', data') =>
                     match decs r depth pos' data' with
                     | Some (vs, p2, d2) => Some (v :: vs, p2, d2)
                     | None => None
                     end
                 | None => None
                 end
             end) in
        if max_value_depth <? depth then None else
        match t with
        | TBasic code =>
            match fixed_size code with
            | Some sz =>
                match skip_pad pos sz data with
                | Some (p1, d1) =>
                    match take sz d1 with
                    | Some (b, d2) =>
                        let n := num_of le b in
                        if (code =? 98) && negb ((n =? 0) || (n =? 1)) then None      (* boolean is 0 or 1 *)
                        else Some (VNum code n, p1 + sz, d2)
                    | None => None
                    end
                | None => None
                end
            | None =>
                if code =? 103 then                      (* signature: 1-byte length, valid signature, NUL *)
                  match data with
                  | len :: d1 =>
                      match take len d1 with
                      | Some (s, d2) =>
                          match d2 with
                          | 0 :: d3 => if spec_signature s then Some (VStr code s, pos + 1 + len + 1, d3) else None
                          | _ => None
                          end
                      | None => None
                      end
                  | [] => None
                  end
                else if (code =? 115) || (code =? 111) then      (* string / object path *)
                  match skip_pad pos 4 data with
                  | Some (p1, d1) =>
                      match take 4 d1 with
                      | Some (lb, d2) =>
                          let len := num_of le lb in
                          match take len d2 with
                          | Some (s, d3) =>
                              match d3 with
                              | 0 :: d4 =>
                                  if (if code =? 115 then spec_utf8 s else spec_path s)
                                  then Some (VStr code s, p1 + 4 + len + 1, d4) else None
                              | _ => None
                              end
                          | None => None
                          end
                      | None => None
                      end
                  | None => None
                  end
                else None
            end
        | TArray et =>
            match skip_pad pos 4 data with
            | Some (p1, d1) =>
                match take 4 d1 with
                | Some (lb, d2) =>
                    let len := num_of le lb in
                    if max_array <? len then None else
                    match skip_pad (p1 + 4) (spec_align et) d2 with       (* padding present even when empty *)
                    | Some (p2, d3) =>
                        match take len d3 with
                        | Some (region, rest) =>
                            (* the region must be exactly a sequence of elements *)
                            match (fix elems (n : nat) (pos : N) (reg : bytes) : option (list val) :=
                                     match n with
                                     | O => None
                                     | S n' =>
                                         match reg with
                                         | [] => Some []
                                         | _ => match dec d' et (depth + 1) pos reg with
                                                | Some (v, pos', reg') =>
                                                    match elems n' pos' reg' with
                                                    | Some vs => Some (v :: vs)
                                                    | None => None
                                                    end
                                                | None => None
                                                end
                                         end
                                     end) (S (length region)) p2 region with
                            | Some vs => Some (VArr et vs, p2 + len, rest)
                            | None => None
                            end
                        | None => None
                        end
                    | None => None
                    end
                | None => None
                end
            | None => None
            end
        | TVariant =>
            match data with
            | len :: d1 =>
                match take len d1 with
                | Some (s, d2) =>
                    match d2 with
                    | 0 :: d3 =>
                        if spec_single_signature s then
                          match parse_sig s with
                          | Some [ct] =>
                              (* the contained value's own decoder skips (and checks) its alignment padding *)
                              match dec d' ct (depth + 1) (pos + 1 + len + 1) d3 with
                              | Some (v, p2, d5) => Some (VVar ct v, p2, d5)
                              | None => None
                              end
                          | _ => None
                          end
                        else None
                    | _ => None
                    end
                | None => None
                end
            | [] => None
            end
        | TStruct ts =>
            match skip_pad pos 8 data with
            | Some (p1, d1) =>
                match decs ts (depth + 1) p1 d1 with
                | Some (vs, p2, d2) => Some (VStruct vs, p2, d2)
                | None => None
                end
            | None => None
            end
        | TDict k vt =>
            match skip_pad pos 8 data with
            | Some (p1, d1) =>
                match decs [TBasic k; vt] (depth + 1) p1 d1 with
                | Some ([kv; vv], p2, d2) => Some (VDictE kv vv, p2, d2)
                | _ => None
                end
            | None => None
            end
        end
    end.

  Definition DEC_FUEL : nat := 80.

  Fixpoint dec_seq (ts : list ty) (pos : N) (data : bytes) : option (list val * N * bytes) :=
    match ts with
    | [] => Some ([], pos, data)
    | t :: r =>
        match dec DEC_FUEL t 0 pos data with
        | Some (v, p, d) => match dec_seq r p d with
                            | Some (vs, p2, d2) => Some (v :: vs, p2, d2)
                            | None => None
                            end
        | None => None
        end
    end.
End Dec.

(* ---------------- messages ------------------------------------------------- *)
Record sfield := mkSField { sf_code : N; sf_ty : ty; sf_val : val }.

Record smsg := mkSMsg {
  s_le : bool; s_type : N; s_flags : N; s_serial : N;
  s_fields : list sfield;          (* in wire order, unknown fields included *)
  s_sig : bytes;
  s_body : list val
}.

(* the specification's header-field table *)
Definition field_ty (code : N) : option ty :=
  if (code =? 1) || (code =? 10) then Some (TBasic 111)
  else if (code =? 2) || (code =? 3) || (code =? 4) || (code =? 6) || (code =? 7) then Some (TBasic 115)
  else if (code =? 5) || (code =? 9) then Some (TBasic 117)
  else if code =? 8 then Some (TBasic 103)
  else None.

Fixpoint ty_eqb (a b : ty) {struct a} : bool :=
  match a, b with
  | TBasic x, TBasic y => x =? y
  | TVariant, TVariant => true
  | TArray x, TArray y => ty_eqb x y
  | TStruct xs, TStruct ys =>
      (fix go (xs ys : list ty) : bool :=
         match xs, ys with
         | [], [] => true
         | x :: xr, y :: yr => ty_eqb x y && go xr yr
         | _, _ => false
         end) xs ys
  | TDict k1 v1, TDict k2 v2 => (k1 =? k2) && ty_eqb v1 v2
  | _, _ => false
  end.

Definition local_interface : bytes := [111;114;103;46;102;114;101;101;100;101;115;107;116;111;112;46;68;66;117;115;46;76;111;99;97;108].
Definition local_path : bytes := [47;111;114;103;47;102;114;101;101;100;101;115;107;116;111;112;47;68;66;117;115;47;76;111;99;97;108].

Definition field_content_ok (f : sfield) : bool :=
  match sf_val f with
  | VStr _ s =>
      let c := sf_code f in
      if c =? 1 then negb (bytes_eqb s local_path)                       (* PATH: reserved local path *)
      else if c =? 2 then spec_interface s && negb (bytes_eqb s local_interface)
      else if c =? 3 then spec_member s
      else if c =? 4 then spec_error_name s
      else if (c =? 6) || (c =? 7) then spec_bus_name s
      else true
  | VNum _ n => if sf_code f =? 5 then negb (n =? 0) else true
  | _ => true
  end.

Fixpoint fields_ok (seen : list N) (fs : list sfield) : bool :=
  match fs with
  | [] => true
  | f :: r =>
      let c := sf_code f in
      if c =? 0 then false
      else match field_ty c with
           | None => fields_ok seen r                                    (* unknown field: any single complete type *)
           | Some t => ty_eqb t (sf_ty f) && negb (existsb (N.eqb c) seen) && field_content_ok f && fields_ok (c :: seen) r
           end
  end.

Definition has_field (c : N) (fs : list sfield) : bool := existsb (fun f => sf_code f =? c) fs.

Definition mandatory_ok (mtype : N) (fs : list sfield) : bool :=
  if mtype =? 1 then has_field 1 fs && has_field 3 fs
  else if mtype =? 2 then has_field 5 fs
  else if mtype =? 3 then has_field 4 fs && has_field 5 fs
  else if mtype =? 4 then has_field 1 fs && has_field 2 fs && has_field 3 fs
  else true.

Definition to_sfield (v : val) : option sfield :=
  match v with
  | VStruct [VNum _ code; VVar t x] => Some (mkSField code t x)
  | _ => None
  end.

Fixpoint to_sfields (vs : list val) : option (list sfield) :=
  match vs with
  | [] => Some []
  | v :: r => match to_sfield v, to_sfields r with
              | Some f, Some fs => Some (f :: fs)
              | _, _ => None
              end
  end.

Definition fields_array_ty : ty := TArray (TStruct [TBasic 121; TVariant]).

(* decode one message occupying exactly the first [total] bytes of d; returns it with [total] *)
Definition spec_decode_message (d : bytes) : option (smsg * N) :=
  match d with
  | bo :: mt :: fl :: ver :: r0 =>
      if negb ((bo =? 108) || (bo =? 66)) then None else
      let le := bo =? 108 in
      if (mt =? 0) || negb (ver =? 1) then None else
      match take 4 r0 with
      | Some (blb, r1) =>
          match take 4 r1 with
          | Some (srb, r2) =>
              let body_len := num_of le blb in
              let serial := num_of le srb in
              if serial =? 0 then None else
              match take 4 r2 with
              | Some (flb, _) =>
                  let flen := num_of le flb in
                  if (max_message <? flen) || (max_message <? body_len) then None else
                  let hlen := 16 + flen + pad_amount (16 + flen) 8 in
                  if max_message <? hlen + body_len then None else
                  match take (hlen + body_len) d with
                  | Some (whole, _) =>
                      (* header fields: exactly the region [12, 16+flen) *)
                      match dec le DEC_FUEL fields_array_ty 0 12 (firstn (N.to_nat (4 + flen)) (skipn 12 whole)) with
                      | Some (VArr _ fvs, _, []) =>
                          match to_sfields fvs with
                          | Some fs =>
                              if negb (forallb (N.eqb 0) (firstn (N.to_nat (hlen - (16 + flen))) (skipn (N.to_nat (16 + flen)) whole))) then None
                              else if negb (fields_ok [] fs && mandatory_ok mt fs) then None
                              else
                                let sg := match find (fun f => sf_code f =? 8) fs with
                                          | Some (mkSField _ _ (VStr _ s)) => s
                                          | _ => []
                                          end in
                                match parse_sig sg with
                                | Some tys =>
                                    if negb (spec_signature sg) then None else
                                    match dec_seq le tys 0 (skipn (N.to_nat hlen) whole) with
                                    | Some (vals, _, []) => Some (mkSMsg le mt fl serial fs sg vals, hlen + body_len)
                                    | _ => None
                                    end
                                | None => None
                                end
                          | None => None
                          end
                      | _ => None
                      end
                  | None => None
                  end
              | None => None
              end
          | None => None
          end
      | None => None
      end
  | _ => None
  end.

(* canonical re-encoding of a decoded message *)
Definition enc_field (le : bool) (f : sfield) : val := VStruct [VNum 121 (sf_code f); VVar (sf_ty f) (sf_val f)].

Definition enc_seq (le : bool) (vs : list val) (pos : N) : bytes :=
  (fix go (vs : list val) (pos : N) : bytes :=
     match vs with
     | [] => []
     | x :: r => let b := enc le x pos in b ++ go r (pos + nlen b)
     end) vs pos.

Definition spec_encode_message (m : smsg) : bytes :=
  let le := s_le m in
  let body := enc_seq le (s_body m) 0 in
  let farr := enc le (VArr (TStruct [TBasic 121; TVariant]) (map (enc_field le) (s_fields m))) 12 in
  let fixed := [if le then 108 else 66; s_type m; s_flags m; 1] ++ bytes_of le 4 (nlen body) ++ bytes_of le 4 (s_serial m) in
  let hdr := fixed ++ farr in
  hdr ++ zeros (pad_amount (nlen hdr) 8) ++ body.
