(* Specification of type signatures ("Type System" chapter of the D-Bus
   specification): a signature is a sequence of single complete types;
     basic   := one of y b n q i u x t d s o g h
     variant := v
     array   := a <single complete type>      (or a{<basic><sct>} : dict entry)
     struct  := ( <sct>+ )
   limits: total length <= 255; array nesting <= 32; struct nesting <= 32.
   Written as a recursive-descent recogniser over an explicit AST, independent
   of the C automaton. *)
From DV Require Export Lib.Base.
Local Open Scope N_scope.

Inductive ty :=
| TBasic (c : N)
| TVariant
| TArray (t : ty)
| TStruct (ts : list ty)
| TDict (k : N) (v : ty).     (* only ever directly under TArray *)

Definition basic_codes : list N := [121; 98; 110; 113; 105; 117; 120; 116; 100; 115; 111; 103; 104].
Definition is_basic_code (c : N) : bool := existsb (N.eqb c) basic_codes.

(* parse one single complete type; fuel bounds recursion depth + length *)
Fixpoint parse_sct (fuel : nat) (s : bytes) : option (ty * bytes) :=
  match fuel with
  | O => None
  | S f =>
      match s with
      | [] => None
      | c :: r =>
          if is_basic_code c then Some (TBasic c, r)
          else if c =? 118 then Some (TVariant, r)
          else if c =? 97 then
            match r with
            | 123 :: r1 =>                        (* a{ k v } *)
                match r1 with
                | k :: r2 =>
                    if is_basic_code k then
                      match parse_sct f r2 with
                      | Some (v, 125 :: r3) => Some (TArray (TDict k v), r3)
                      | _ => None
                      end
                    else None
                | [] => None
                end
            | _ =>
                match parse_sct f r with
                | Some (t, r') => Some (TArray t, r')
                | None => None
                end
            end
          else if c =? 40 then
            (fix fields (g : nat) (s : bytes) (acc : list ty) : option (ty * bytes) :=
               match g with
               | O => None
               | S g' =>
                   match s with
                   | 41 :: r' => match acc with [] => None | _ => Some (TStruct (rev acc), r') end
                   | _ => match parse_sct f s with
                          | Some (t, r') => fields g' r' (t :: acc)
                          | None => None
                          end
                   end
               end) (S (length r)) r []
          else None
      end
  end.

Fixpoint parse_sig_fuel (fuel : nat) (s : bytes) : option (list ty) :=
  match fuel with
  | O => None
  | S f =>
      match s with
      | [] => Some []
      | _ => match parse_sct (S (length s)) s with
             | Some (t, r) => match parse_sig_fuel f r with Some ts => Some (t :: ts) | None => None end
             | None => None
             end
      end
  end.

Definition parse_sig (s : bytes) : option (list ty) := parse_sig_fuel (S (length s)) s.

(* nesting depths: arrays count type codes 'a' on a root-to-leaf path, structs count '(' *)
Fixpoint array_nest (t : ty) : N :=
  match t with
  | TBasic _ | TVariant => 0
  | TArray t' => 1 + array_nest t'
  | TStruct ts => fold_right (fun t a => N.max (array_nest t) a) 0 ts
  | TDict _ v => array_nest v
  end.
Fixpoint struct_nest (t : ty) : N :=
  match t with
  | TBasic _ | TVariant => 0
  | TArray t' => struct_nest t'
  | TStruct ts => 1 + fold_right (fun t a => N.max (struct_nest t) a) 0 ts
  | TDict _ v => struct_nest v
  end.
Fixpoint dict_nest (t : ty) : N :=
  match t with
  | TBasic _ | TVariant => 0
  | TArray t' => dict_nest t'
  | TStruct ts => fold_right (fun t a => N.max (dict_nest t) a) 0 ts
  | TDict _ v => 1 + dict_nest v
  end.

Definition spec_signature (s : bytes) : bool :=
  (nlen s <=? 255) &&
  match parse_sig s with
  | Some ts => forallb (fun t => (array_nest t <=? 32) && (struct_nest t <=? 32)) ts
  | None => false
  end.

Definition spec_single_signature (s : bytes) : bool :=
  spec_signature s && match parse_sig s with Some [_] => true | _ => false end.
