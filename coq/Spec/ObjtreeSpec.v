(* Specification for C20, written from the API documentation of
   dbus_connection_register_object_path / _register_fallback /
   _unregister_object_path / _list_registered (dbus/dbus-connection.c doc
   comments: "handles messages sent to exactly the given path", "handles
   messages at or below the given path", "dispatched first to the registered
   handler that matches the largest number of path elements"), the
   org.freedesktop.DBus.Error.UnknownObject / UnknownMethod entries of the
   D-Bus specification, and the property text.

   Style: NO trie.  The state is a flat association list  path |-> (handler,
   is_fallback)  of the registrations currently in force; everything is
   phrased through lookups of whole paths and prefixes of the called path. *)
From DV Require Import Lib.Base ObjTree.ObjTree.
Local Open Scope nat_scope.

Definition registration : Type := (N * bool)%type.          (* handler id, registered as fallback *)
Definition sstate : Type := list (path * registration).

Fixpoint path_eqb (a b : path) : bool :=
  match a, b with
  | [], [] => true
  | x :: a', y :: b' => bytes_eqb x y && path_eqb a' b'
  | _, _ => false
  end.

Fixpoint s_lookup (s : sstate) (p : path) : option registration :=
  match s with
  | [] => None
  | (q, r) :: s' => if path_eqb q p then Some r else s_lookup s' p
  end.

Definition s_registered (s : sstate) (p : path) : Prop := s_lookup s p <> None.

(* registering an occupied path fails without changing anything; unregistering
   removes the registration (unregistering a path that is not registered is
   documented as a caller bug; the library warns and changes nothing) *)
Definition s_step (s : sstate) (o : op) : sstate * bool :=
  match o with
  | Register fb p h =>
      match s_lookup s p with
      | Some _ => (s, false)
      | None => ((p, (h, fb)) :: s, true)
      end
  | Unregister p =>
      match s_lookup s p with
      | Some _ => (filter (fun e => negb (path_eqb (fst e) p)) s, true)
      | None => (s, false)
      end
  end.

Fixpoint s_run_from (s : sstate) (ops : list op) : sstate :=
  match ops with
  | [] => s
  | o :: rest => s_run_from (fst (s_step s o)) rest
  end.

Definition s_run (ops : list op) : sstate := s_run_from [] ops.

(* ---- who is offered a call to p, in which order ---------------------------- *)
(* proper prefixes of p, longest first:  /a/b/c  |->  /a/b, /a, /  *)
Definition proper_prefixes (p : path) : list path :=
  rev (map (fun k => firstn k p) (seq 0 (length p))).

Definition s_exact (s : sstate) (p : path) : list N :=
  match s_lookup s p with Some (h, _) => [h] | None => [] end.

Definition s_fallback_at (s : sstate) (q : path) : list N :=
  match s_lookup s q with Some (h, true) => [h] | _ => [] end.

Definition s_offered (s : sstate) (p : path) : list N :=
  s_exact s p ++ flat_map (s_fallback_at s) (proper_prefixes p).

(* offered in order, stopping at the first that declares the call handled *)
Definition s_invocation (offered : list N) (accepts : N -> bool) (invoked : list N) (handled : bool) : Prop :=
  (handled = true /\ exists before h after, offered = before ++ h :: after /\ invoked = before ++ [h] /\
                     accepts h = true /\ forall x, In x before -> accepts x = false)
  \/ (handled = false /\ invoked = offered /\ forall x, In x offered -> accepts x = false).

(* ---- which error when nobody takes the call -------------------------------- *)
(* UnknownMethod when the path is a registered path, an ancestor of one, or lies
   below a fallback registration; UnknownObject otherwise *)
Definition s_known_object (s : sstate) (p : path) : Prop :=
  (exists q, s_registered s (p ++ q)) \/
  (exists q1 q2 h, p = q1 ++ q2 /\ s_lookup s q1 = Some (h, true)).

Definition s_error (s : sstate) (p : path) (o : outcome) : Prop :=
  (s_known_object s p /\ o = UnknownMethod) \/ (~ s_known_object s p /\ o = UnknownObject).

(* ---- child listing: exactly the registered tree ---------------------------- *)
Definition s_child (s : sstate) (p : path) (e : bytes) : Prop := exists q, s_registered s (p ++ e :: q).

(* ============================================================================
   Executable forms of the above, used as the oracle of the correspondence run
   (proved equivalent to the declarative forms in Proofs/ObjtreeProofs.v where
   stated there). *)
Fixpoint is_prefix (q p : path) : bool :=
  match q, p with
  | [], _ => true
  | x :: q', y :: p' => bytes_eqb x y && is_prefix q' p'
  | _ :: _, [] => false
  end.

Definition all_prefixes (p : path) : list path := map (fun k => firstn k p) (seq 0 (S (length p))).

Definition s_known_object_b (s : sstate) (p : path) : bool :=
  existsb (fun e => is_prefix p (fst e) && match s_lookup s (fst e) with Some _ => true | None => false end) s
  || existsb (fun q => match s_lookup s q with Some (_, true) => true | _ => false end) (all_prefixes p).

Fixpoint take_until (f : N -> bool) (l : list N) : list N :=
  match l with
  | [] => []
  | x :: r => if f x then [x] else x :: take_until f r
  end.

Definition s_dispatch (s : sstate) (p : path) (accepts : N -> bool) : list N * outcome :=
  let off := s_offered s p in
  (take_until accepts off,
   if existsb accepts off then Handled else if s_known_object_b s p then UnknownMethod else UnknownObject).

(* sorted, duplicate-free list of the next elements below p *)
Fixpoint insert_name (e : bytes) (l : list bytes) : list bytes :=
  match l with
  | [] => [e]
  | x :: r => match bytes_cmp e x with Lt => e :: l | Eq => l | Gt => x :: insert_name e r end
  end.

Definition s_children (s : sstate) (p : path) : list bytes :=
  fold_right (fun e acc =>
                if is_prefix p (fst e) && match s_lookup s (fst e) with Some _ => true | None => false end
                then match skipn (length p) (fst e) with x :: _ => insert_name x acc | [] => acc end
                else acc) [] s.
