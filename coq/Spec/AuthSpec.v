(* Specification of the server side of the D-Bus authentication protocol,
   written from doc/dbus-specification.xml ("Authentication protocol": command
   grammar, "Server states", and the mechanism sections) as a function from
   complete lines to responses over an abstract conversation state.

   Style: lines are split structurally (no indices), hex is decoded strictly
   (pairs of digits), each mechanism is a closed-form acceptance test, the state
   is the protocol phase plus the data the phase needs -- no credentials
   scratch-pads, no buffers.

   Vocabulary shared with the model (not specified here): the environment record
   [env] and [creds]; how an authorization identity string is read as a uid
   ([parse_ulong], the implementation's strtoul reading); decimal printing of the
   cookie id; SHA-1 and hex printing (Auth.Sha1); UTF-8 validity (Wire.Utf8). *)
From DV Require Import Lib.Base Auth.Types Auth.Sha1 Wire.Utf8 Auth.Server.
Local Open Scope N_scope.

(* ---------- words ---------- *)
Definition sblank (c : N) : bool := (c =? 32) || (c =? 9).
(* the leading run of non-blank bytes, and what follows it *)
Fixpoint span_word (s : bytes) : bytes * bytes :=
  match s with
  | [] => ([], [])
  | c :: r => if sblank c then ([], s) else let '(w, t) := span_word r in (c :: w, t)
  end.
Fixpoint drop_blanks (s : bytes) : bytes :=
  match s with c :: r => if sblank c then drop_blanks r else s | [] => [] end.
Definition split_word (s : bytes) : bytes * bytes := let '(w, t) := span_word s in (w, drop_blanks t).

(* ---------- strict hex: pairs of digits ---------- *)
Definition hexv (c : N) : option N :=
  if (48 <=? c) && (c <=? 57) then Some (c - 48)
  else if (97 <=? c) && (c <=? 102) then Some (c - 87)
  else if (65 <=? c) && (c <=? 70) then Some (c - 55)
  else None.
Fixpoint unhex (s : bytes) : option bytes :=
  match s with
  | [] => Some []
  | a :: b :: r => match hexv a, hexv b, unhex r with
                   | Some x, Some y, Some t => Some (16 * x + y :: t)
                   | _, _, _ => None
                   end
  | [_] => None
  end.

(* ---------- commands a client may send ---------- *)
Definition w_AUTH : bytes := [65; 85; 84; 72].
Definition w_CANCEL : bytes := [67; 65; 78; 67; 69; 76].
Definition w_DATA : bytes := [68; 65; 84; 65].
Definition w_BEGIN : bytes := [66; 69; 71; 73; 78].
Definition w_ERROR : bytes := [69; 82; 82; 79; 82].
Definition w_NEGOTIATE_UNIX_FD : bytes := [78; 69; 71; 79; 84; 73; 65; 84; 69; 95; 85; 78; 73; 88; 95; 70; 68].
Definition n_EXTERNAL : bytes := [69; 88; 84; 69; 82; 78; 65; 76].
Definition n_DBUS_COOKIE_SHA1 : bytes := [68; 66; 85; 83; 95; 67; 79; 79; 75; 73; 69; 95; 83; 72; 65; 49].
Definition n_ANONYMOUS : bytes := [65; 78; 79; 78; 89; 77; 79; 85; 83].

Inductive scmd :=
| SC_AuthNone                                (* AUTH without a mechanism *)
| SC_Auth (mechname : bytes) (hexresp : bytes)
| SC_Data (hexresp : bytes)
| SC_Begin | SC_Cancel | SC_Error | SC_NegotiateFd
| SC_Other.                                  (* anything else, including non-ASCII lines *)

Definition ascii_ok (c : N) : bool := (0 <? c) && (c <? 128).

Definition classify (line : bytes) : scmd :=
  if negb (forallb ascii_ok line) then SC_Other
  else
    let '(w, args) := split_word line in
    if bytes_eqb w w_AUTH then
      match args with
      | [] => SC_AuthNone
      | _ => let '(m, h) := split_word args in SC_Auth m h
      end
    else if bytes_eqb w w_DATA then SC_Data args
    else if bytes_eqb w w_BEGIN then SC_Begin
    else if bytes_eqb w w_CANCEL then SC_Cancel
    else if bytes_eqb w w_ERROR then SC_Error
    else if bytes_eqb w w_NEGOTIATE_UNIX_FD then SC_NegotiateFd
    else SC_Other.

(* the argument of the line that carries hex data *)
Definition hexarg_of (line : bytes) : bytes :=
  match classify line with SC_Auth _ h => h | SC_Data h => h | _ => [] end.

(* ---------- conversation state ---------- *)
Inductive sphase :=
| SP_WaitingForAuth
| SP_WaitingForData_External                         (* empty challenge sent; the authorization identity is awaited *)
| SP_WaitingForData_Cookie (id : N) (chal : bytes)   (* cookie id and (hex) challenge as sent *)
| SP_WaitingForBegin (who : creds)
| SP_Authenticated (who : creds)
| SP_Disconnect.

Record sspec := mkSpec { sp_phase : sphase; sp_rejects : N; sp_fd : bool; sp_k : N }.
Definition spec_init : sspec := mkSpec SP_WaitingForAuth 0 false 0.

Inductive kind := K_Rejected | K_Ok | K_Error | K_Data (payload : bytes) | K_AgreeFd.

(* MECH(RESP) of the specification's server state description *)
Inductive mres :=
| M_Continue (next : sphase) (chal : bytes) (k : N)
| M_Ok (who : creds)
| M_Rejected (k : N).

(* the mechanisms this server knows, if the administrator allows them *)
Definition spec_mech (e : env) (name : bytes) : option mech :=
  if negb (mech_allowed e name) then None
  else if bytes_eqb name n_EXTERNAL then Some EXTERNAL
  else if bytes_eqb name n_DBUS_COOKIE_SHA1 then Some COOKIE_SHA1
  else if bytes_eqb name n_ANONYMOUS then Some ANONYMOUS
  else None.

(* EXTERNAL: the authorization identity must be the one the kernel reports for the socket;
   an absent initial response is asked for once with an empty challenge *)
Definition sp_external (e : env) (k : N) (first : bool) (resp : bytes) : mres :=
  match c_uid (e_sock e) with
  | None => M_Rejected k
  | Some u =>
      match resp with
      | [] => if first then M_Continue SP_WaitingForData_External [] k else M_Ok (e_sock e)
      | _ => match parse_ulong resp with
             | Some v => if opt_N_eqb (uid_of_ulong v) (Some u) then M_Ok (e_sock e) else M_Rejected k
             | None => M_Rejected k
             end
      end
  end.

(* DBUS_COOKIE_SHA1, step 1: the user name must denote the server's own user; the server
   answers with "context id challenge" *)
Definition sp_cookie_first (e : env) (k : N) (resp : bytes) : mres :=
  let who := match parse_ulong resp with
             | Some v => uid_of_ulong v
             | None => match e_userdb e resp with Some v => uid_of_ulong v | None => None end
             end in
  if negb (opt_N_eqb who (Some (e_process_uid e))) then M_Rejected k
  else if negb (e_keyring_ok e) then M_Rejected k
  else match e_best_key e k, e_challenge e k with
       | Some id, Some raw =>
           M_Continue (SP_WaitingForData_Cookie id (hex_encode raw))
                      (e_context e ++ [32] ++ dec_of_N id ++ [32] ++ hex_encode raw) (k + 1)
       | _, _ => M_Rejected (k + 1)
       end.

(* step 2: "client-challenge SP hex(SHA-1(server-challenge : client-challenge : cookie))" *)
Definition sp_cookie_second (e : env) (k : N) (id : N) (chal : bytes) (resp : bytes) : mres :=
  let '(cc, t) := span_word resp in
  let h := drop_blanks t in
  match t, cc, h, e_cookie e (k - 1) id with
  | _ :: _, _ :: _, _ :: _, _ :: _ =>
      if bytes_eqb h (hex_encode (sha1 (chal ++ [58] ++ cc ++ [58] ++ e_cookie e (k - 1) id)))
      then M_Ok (mkCreds (Some (e_process_uid e)) (c_pid (e_sock e)) None)
      else M_Rejected k
  | _, _, _, _ => M_Rejected k
  end.

(* ANONYMOUS: an optional trace string, which must be UTF-8 *)
Definition sp_anonymous (e : env) (k : N) (resp : bytes) : mres :=
  match resp with
  | [] => M_Ok (mkCreds None (c_pid (e_sock e)) None)
  | _ => match validate_utf8 resp with
         | Some true => M_Ok (mkCreds None (c_pid (e_sock e)) None)
         | _ => M_Rejected k
         end
  end.

(* ---------- the server state machine ---------- *)
Definition rejected (sp : sspec) (k : N) : sspec * list kind :=
  let n := sp_rejects sp + 1 in
  (mkSpec (if Gen.AuthTables.max_failures <=? n then SP_Disconnect else SP_WaitingForAuth) n (sp_fd sp) k, [K_Rejected]).
Definition error (sp : sspec) : sspec * list kind := (sp, [K_Error]).
Definition goto (sp : sspec) (p : sphase) : sspec := mkSpec p (sp_rejects sp) (sp_fd sp) (sp_k sp).

Definition apply_mres (sp : sspec) (r : mres) : sspec * list kind :=
  match r with
  | M_Continue next chal k => (mkSpec next (sp_rejects sp) (sp_fd sp) k, [K_Data chal])
  | M_Ok who => (goto sp (SP_WaitingForBegin who), [K_Ok])
  | M_Rejected k => rejected sp k
  end.

Definition spec_step (e : env) (sp : sspec) (line : bytes) : sspec * list kind :=
  let c := classify line in
  match sp_phase sp with
  | SP_WaitingForAuth =>
      match c with
      | SC_AuthNone => rejected sp (sp_k sp)
      | SC_Auth m h =>
          match spec_mech e m with
          | None => rejected sp (sp_k sp)
          | Some mm =>
              match unhex h with
              | None => error sp
              | Some resp =>
                  apply_mres sp (match mm with
                                 | EXTERNAL => sp_external e (sp_k sp) true resp
                                 | COOKIE_SHA1 => sp_cookie_first e (sp_k sp) resp
                                 | ANONYMOUS => sp_anonymous e (sp_k sp) resp
                                 end)
              end
          end
      | SC_Begin => (goto sp SP_Disconnect, [])
      | SC_Error => rejected sp (sp_k sp)
      | _ => error sp
      end
  | SP_WaitingForData_External =>
      match c with
      | SC_Data h => match unhex h with None => error sp | Some resp => apply_mres sp (sp_external e (sp_k sp) false resp) end
      | SC_Begin => (goto sp SP_Disconnect, [])
      | SC_Cancel | SC_Error => rejected sp (sp_k sp)
      | _ => error sp
      end
  | SP_WaitingForData_Cookie id chal =>
      match c with
      | SC_Data h => match unhex h with None => error sp | Some resp => apply_mres sp (sp_cookie_second e (sp_k sp) id chal resp) end
      | SC_Begin => (goto sp SP_Disconnect, [])
      | SC_Cancel | SC_Error => rejected sp (sp_k sp)
      | _ => error sp
      end
  | SP_WaitingForBegin who =>
      match c with
      | SC_Begin => (goto sp (SP_Authenticated who), [])
      | SC_NegotiateFd => if e_fd_possible e then (mkSpec (sp_phase sp) (sp_rejects sp) true (sp_k sp), [K_AgreeFd]) else error sp
      | SC_Cancel | SC_Error => rejected sp (sp_k sp)
      | _ => error sp
      end
  | SP_Authenticated _ | SP_Disconnect => (sp, [])
  end.

(* ---------- the security statement, on the specification ---------- *)
(* "who" the application sees, if the conversation ended with the client authenticated *)
Definition spec_identity (sp : sspec) : option creds :=
  match sp_phase sp with SP_Authenticated who => Some who | _ => None end.

Fixpoint spec_run (e : env) (sp : sspec) (ls : list bytes) : sspec * list (list kind) :=
  match ls with
  | [] => (sp, [])
  | l :: r => let '(sp1, ks) := spec_step e sp l in let '(sp2, kss) := spec_run e sp1 r in (sp2, ks :: kss)
  end.
