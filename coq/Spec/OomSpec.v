(* What property C14 asks of one request handled while allocations fail, said
   without the transaction machinery: in terms of the result of the same
   request without failures, the state before, and the caller.

   "If memory allocation fails at any single point while ... the bus handl[es]
    Hello, RequestName, ReleaseName, AddMatch, RemoveMatch or a routed message
    - the operation reports out-of-memory, leaves all previously observable
    state (... name ownership and queues, match rules, pending replies) exactly
    as it was, leaks nothing, and succeeds when retried with memory available.
    In the bus either every effect of a request (state change, signals, reply)
    takes place or none does and the caller receives a NoMemory error."

   Also here: the request classes for which the C code is known NOT to satisfy
   this ([uncovered], written on the state alone), so that the partial theorem
   can spell its exception out. *)
From DV Require Export Oom.Handlers.
From Coq Require Export Permutation.
Local Open Scope N_scope.

(* ---- observable state ------------------------------------------------------ *)
(* Two bus states are the same for every observer: connections (activity,
   owned names, match rules), name queues with their flags, limits - equal;
   the pending-reply list - equal as a multiset (its list order is not
   observable: entries are found by (serial, caller, callee), counted per
   caller, and expire by their own time stamps). *)
Definition same_state (b1 b2 : bus) : Prop :=
  b_conns b1 = b_conns b2 /\ b_services b1 = b_services b2 /\ Permutation (b_pending b1) (b_pending b2) /\
  b_next b1 = b_next b2 /\ b_maxnames b1 = b_maxnames b2 /\ b_maxrules b1 = b_maxrules b2 /\ b_maxreplies b1 = b_maxreplies b2 /\
  b_uidcount b1 = b_uidcount b2 /\ b_maxconns b1 = b_maxconns b2.

Definition same_outcome (r1 r2 : outcome) : Prop :=
  match r1, r2 with
  | OOk b1 o1, OOk b2 o2 => o1 = o2 /\ same_state b1 b2
  | OStop, OStop => True
  | _, _ => False
  end.

(* ---- the three clauses ------------------------------------------------------- *)
(* "none [of the effects] does and the caller receives a NoMemory error" *)
Definition nothing_happened (b : bus) (c : N) (r : outcome) : Prop :=
  exists b', r = OOk b' [(c, MError ENoMemory)] /\ same_state b' b.

(* all or nothing, for the request [e] of connection [c] in state [b]:
   [failed] is what happened with failing allocations, [unfailed] without *)
Definition atomic (b : bus) (c : N) (unfailed failed : outcome) : Prop :=
  failed = unfailed \/ nothing_happened b c failed.

(* "succeeds when retried with memory available": after an attempt that
   reported NoMemory, the request - now without failures - does what it would
   have done had the failed attempt never been made *)
Definition retry_ok (b : bus) (c : N) (e : event) (failed : outcome) : Prop :=
  forall b', failed = OOk b' [(c, MError ENoMemory)] ->
    same_outcome (step b' e) (step b e) /\ step b e <> OStop.

(* messages are never delivered in part: whatever the state does, the clients
   see the complete output of the request, or only the NoMemory error, or the
   daemon stopped *)
Definition outputs_all_or_nothing (c : N) (unfailed failed : outcome) : Prop :=
  failed = unfailed \/ failed = OStop \/ exists b', failed = OOk b' [(c, MError ENoMemory)].

(* ---- well-formed prior states ------------------------------------------------- *)
(* every name in the registry has a non-empty queue of live owners, no connection twice in it *)
Definition good_queue (q : queue) : Prop := q <> [] /\ forallb o_live q = true /\ NoDup (map o_conn q).
(* ... and no name is in the registry twice *)
Definition inv (b : bus) : Prop :=
  Forall (fun kq => good_queue (snd kq)) (b_services b) /\ NoDup (map fst (b_services b)).

(* ---- the exceptions ------------------------------------------------------------- *)
(* request classes for which the bus does NOT satisfy the property (findings
   F10a-c), as a test on the prior state.  (F14.1, the broken restore hook, is
   fixed: releasing a name one owns and replacing an owner are covered now.) *)
Definition same_flags (o : owner) (flags : N) : bool :=
  Bool.eqb (o_allow o) (has_flag flags DBUS_NAME_FLAG_ALLOW_REPLACEMENT) && Bool.eqb (o_dnq o) (has_flag flags DBUS_NAME_FLAG_DO_NOT_QUEUE).

Definition uncovered (b : bus) (e : event) : bool :=
  match e with
  | EvConnect => false
  | EvHello c =>
      (* F10c: a first Hello *)
      match find_conn (b_conns b) c with Some cn => negb (c_active cn) | None => true end
  | EvRequest c name flags =>
      match find_conn (b_conns b) c with
      | None => true
      | Some cn =>
          if negb (c_active cn) || name_refused name || ((b_maxnames b <=? nlen (c_owned cn)) && negb (in_queue (b_services b) (KW name) c)) then false else
          match lookup (b_services b) (KW name) with
          | None | Some [] => false
          | Some ((p :: _) as q) =>
              let dnq := has_flag flags DBUS_NAME_FLAG_DO_NOT_QUEUE in
              let repl := has_flag flags DBUS_NAME_FLAG_REPLACE_EXISTING in
              if o_conn p =? c then negb (same_flags p flags)                         (* F10b: the owner changes its flags *)
              else if (dnq && negb (o_allow p)) || (dnq && negb repl) then
                match find_owner q c with Some _ => true | None => false end            (* F10a: a waiter is dropped (EXISTS) *)
              else if negb dnq && (negb repl || negb (o_allow p)) then
                match find_owner q c with
                | Some o => negb (negb repl && same_flags o flags)                      (* F10b: a waiter changes flags / position *)
                | None => false
                end
              else match find_owner q c with Some _ => true | None => false end        (* F10b: a waiter is moved up, then replaces *)
          end
      end
  | EvRelease c name =>
      match find_conn (b_conns b) c with
      | None => true
      | Some cn =>
          if negb (c_active cn) || name_refused name then false else
          match lookup (b_services b) (KW name) with
          | None => false
          | Some [] => false
          | Some ((p :: _) as q) =>
              if o_conn p =? c then false
              else match find_owner q c with Some _ => true | None => false end          (* F10a: a waiter leaves the queue *)
          end
      end
  | EvAddMatch c _ | EvRemoveMatch c _ =>
      match find_conn (b_conns b) c with Some _ => false | None => true end
  | EvCall c _ _ | EvReply c _ _ _ | EvSignal c _ =>
      (* outside the model: a connection that does not exist, or one that talks to peers before Hello (it is disconnected) *)
      match find_conn (b_conns b) c with Some cn => negb (c_active cn) | None => true end
  end.
