(* Specification of the driver layer (Registry/Driver.v), in the abstract
   vocabulary of Spec/RegistrySpec.v:

   * dbus-daemon(1), <policy>: "Rules with the own or own_prefix attribute are
     checked when a connection attempts to own a well-known bus name" -- the
     decision itself is C06's [spec_can_own] (last matching rule, nothing allowed
     by default).  A connection that may not own the name is refused with
     AccessDenied and nothing else happens; otherwise RequestName is the state
     machine of Spec/RegistrySpec.v.
   * ReloadConfig: new limits and policy apply from now on; names already held
     stay as they are.
   * Unique names (specification, "Message Bus Names"): begin with ':', are valid
     bus names, and "are never reused for two different connections to the same
     bus"; which ones the bus picks is not specified -- see the theorems about
     [ustr] in Proofs/DriverProofs.v. *)
From DV Require Export Lib.Base Registry.RegTypes Spec.NamesSpec Spec.RegistrySpec.
From DV Require Policy.Policy Spec.PolicySpec.
Local Open Scope N_scope.

Notation srule := Policy.Policy.rule.
Notation spec_can_own := Spec.PolicySpec.spec_can_own.

Definition dspec_step (v : variant) (rules : list srule) (s : sstate) (e : event) (ord : list key) : sstate * list out :=
  match e with
  | EvRequest c name flags =>
      match sfind (s_conns s) c with
      | Some x =>
          if sc_active x && requestable name && negb (spec_can_own rules name)
          then (s, [(c, MError EAccessDenied)])
          else spec_step v s e ord
      | None => spec_step v s e ord
      end
  | _ => spec_step v s e ord
  end.

Definition spec_reload (s : sstate) (limit : N) : sstate := mkS (s_conns s) (s_names s) (s_next s) limit.
