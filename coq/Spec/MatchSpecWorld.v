(* The specification-level counterpart of Match.Bus.step, used as the oracle of
   the end-to-end check: the same events, answered from the specification
   definitions of Spec.MatchSpec only (rule multiset, spec_parse, spec_matches,
   srule_eqb).  The event type, the shape of the NameOwnerChanged signal and the
   name-table bookkeeping are shared with Match.Bus (they are not what C07 is
   about).  No proofs here. *)
From DV Require Export Spec.MatchSpec Match.Bus.
Local Open Scope N_scope.

Record sworld := mkSWorld { sw_bus : sbus; sw_names : names; sw_caps : list conn }.

(* a connection can be given a message with unix fds only if it negotiated fd passing; whether one
   recipient can take it has no influence on any other recipient *)
Definition can_take (caps : list conn) (nfds : N) (c : conn) : bool := (nfds =? 0) || existsb (N.eqb c) caps.

Inductive soutput :=
| SOSignal (rcpts : list conn)
| SOOwn (code : N) (rcpts : list conn)
| SOReply (r : sreply)
| SODelivered (rcpts : list conn)
| SOSignals (l : list (bytes * list conn)).

Fixpoint spec_release_all (ns : names) (b : sbus) (c : conn) (unique : bytes) (l : list bytes) : names * list (bytes * list conn) :=
  match l with
  | [] => (ns, [])
  | n :: rest =>
      match release_one ns c unique n with
      | (ns', None) => spec_release_all ns' b c unique rest
      | (ns', Some sig) =>
          let rc := spec_recipients ns' b None None sig in
          let (ns'', out) := spec_release_all ns' b c unique rest in
          (ns'', (n, rc) :: out)
      end
  end.

Definition spec_step (limit : N) (w : sworld) (e : event) : sworld * soutput :=
  match e with
  | EvHello c unique fdcap =>
      let ns := sw_names w ++ [(unique, c)] in
      (mkSWorld (sw_bus w) ns (if fdcap then c :: sw_caps w else sw_caps w),
       SOSignal (spec_recipients ns (sw_bus w) None None (name_owner_changed unique [] unique)))
  | EvOwn c name =>
      let '(code, ns, sig) := own_plan (sw_names w) c name in
      (mkSWorld (sw_bus w) ns (sw_caps w),
       SOOwn code (match sig with Some s => spec_recipients ns (sw_bus w) None None s | None => [] end))
  | EvRelease c name =>
      let code := release_code (sw_names w) c name in
      let (ns, sig) := release_one (sw_names w) c (unique_of (sw_names w) c) name in
      (mkSWorld (sw_bus w) ns (sw_caps w),
       SOOwn code (match sig with Some s => spec_recipients ns (sw_bus w) None None s | None => [] end))
  | EvAdd c text => let (b, r) := spec_add limit true (sw_bus w) c text in (mkSWorld b (sw_names w) (sw_caps w), SOReply r)
  | EvRemove c text => let (b, r) := spec_remove (sw_bus w) c text in (mkSWorld b (sw_names w) (sw_caps w), SOReply r)
  | EvSend c m nfds =>
      (w, SODelivered
            match m_dest m with
            | None => if m_type m =? DBUS_MESSAGE_TYPE_SIGNAL
                      then filter (can_take (sw_caps w) nfds) (spec_recipients (sw_names w) (sw_bus w) (Some c) None m) else []
            | Some d =>
                if bytes_eqb d S_org_freedesktop_DBus then [] else
                match owner_of (sw_names w) d with
                | None => []
                | Some a => if negb (valid_type (m_type m)) then []      (* messages of unknown type are not passed on *)
                            else if negb (can_take (sw_caps w) nfds a) then []   (* the addressee cannot take the fds: an error, no copies *)
                            else a :: filter (can_take (sw_caps w) nfds) (spec_recipients (sw_names w) (sw_bus w) (Some c) (Some a) m)
                end
            end)
  | EvDisconnect c =>
      let unique := unique_of (sw_names w) c in
      let b := spec_disconnect (sw_bus w) c in
      let (ns, l) := spec_release_all (sw_names w) b c unique (released_names (sw_names w) c) in
      (mkSWorld b ns (sw_caps w), SOSignals l)
  end.
