(* Specification side of C18, written from the D-Bus specification
   (message bus: "Match Rules", org.freedesktop.DBus.Monitoring.BecomeMonitor)
   in a declarative style: ownership is "the oldest link with that name",
   a rule accepts a message when every key it carries holds (implications,
   no evaluation order), a monitor wants a message when SOME rule of its
   filter accepts it.  The model (Monitor.fmatch / recips / capture) computes
   the same thing with loops and a delivery stamp; Proofs/MonitorBase.v shows
   they agree.

   The statements of the property are at the end; Proofs/Monitor*.v prove
   them, Props/C18.v lists them. *)
From Coq Require Import Permutation.
From DV Require Import Lib.Base Monitor.Monitor.
Local Open Scope N_scope.

(* ---------------------------------------------------------------- ownership *)
(* c is the primary owner of n: the first link for n belongs to c *)
Definition primary_owner (own : registry) (n : name) (c : cid) : Prop :=
  exists l1 l2, own = l1 ++ (n, c) :: l2 /\ forall c', ~ In (n, c') l1.

Definition in_queue (own : registry) (n : name) (c : cid) : Prop := In (n, c) own.

(* ---------------------------------------------------------------- match rules of a monitor *)
(* "sender": messages sent by the owner of that name (the bus itself is org.freedesktop.DBus) *)
Definition sender_is (own : registry) (from : option cid) (s : name) : Prop :=
  match from with
  | None => s = NDriver
  | Some c => primary_owner own s c
  end.

(* "destination" (eavesdropping rule): the connection the message is addressed to owns that name;
   when nobody is addressed (the bus itself, or no owner) the names are compared *)
Definition addressed_is (own : registry) (addr : option cid) (md d : name) : Prop :=
  match addr with
  | None => d = md
  | Some a => primary_owner own d a
  end.

Definition accepts (own : registry) (f : flt) (from addr : option cid) (m : bmsg) : Prop :=
  (forall t, f_type f = Some t -> b_type m = TKnown t) /\
  (forall i, f_iface f = Some i -> b_iface m = i /\ i <> 0) /\
  (forall k, f_member f = Some k -> b_member m = k /\ k <> 0) /\
  (forall s, f_sender f = Some s -> sender_is own from s) /\
  (forall d, f_dest f = Some d -> exists md, b_dest m = Some md /\ addressed_is own addr md d).

(* the filter of monitor x is the set of its rules *)
Definition monitor_wants (mrules : list (cid * flt)) (own : registry) (x : cid) (from addr : option cid) (m : bmsg) : Prop :=
  exists f, In (x, f) mrules /\ accepts own f from addr m.

(* ---------------------------------------------------------------- observations *)
Definition copies (x : cid) (it : item) : nat := count_occ N.eq_dec (i_cap it) x.

(* everything queued for c other than monitor copies *)
Definition is_capture (k : kind) : bool := match k with KCapture => true | _ => false end.
Definition view (c : cid) (l : list item) : list (kind * bmsg) :=
  map (fun o => (snd (fst o), snd o))
      (filter (fun o => (fst (fst o) =? c) && negb (is_capture (snd (fst o)))) (outs l)).

(* all deliveries to x of one item, monitor copies included *)
Definition total (x : cid) (it : item) : nat :=
  copies x it + (match i_direct it with Some r => if r =? x then 1 else 0 | None => 0 end)%nat
  + count_occ N.eq_dec (i_match it) x.

Definition state_after (h : list event) : state := fst (run init h).
Definition reachable (st : state) : Prop := exists h, st = state_after h.

Definition ordinary (st : state) (c : cid) : Prop := connected st c = true /\ is_monitor st c = false.

(* Histories in which no connection calls BecomeMonitor while a message of its own is still held for service
   activation ("calm").  Outside them the faithful model breaks the property (finding F18e): the held message is
   routed after its sender has become a monitor. *)
Definition has_held (st : state) (c : cid) : bool := existsb (fun h => snd (fst h) =? c) (st_held st).
Definition calm_event (st : state) (e : event) : bool :=
  match e with
  | EBecomeMonitor c _ _ _ _ => negb (has_held st c)
  | _ => true
  end.
Fixpoint calm (st : state) (h : list event) : bool :=
  match h with
  | [] => true
  | e :: h' => calm_event st e && calm (fst (step st e)) h'
  end.
Definition creachable (st : state) : Prop := exists h, calm init h = true /\ st = state_after h.

(* ---------------------------------------------------------------- the property, clause by clause *)
(* "receives exactly one copy of every message the bus subsequently processes that matches its filter ...
   each bearing the true sender": for every item the bus produces in a state where x is a monitor *)
Definition sees_once_at (st : state) (x : cid) (it : item) : Prop :=
  (monitor_wants (st_mrules st) (i_own it) x (i_from it) (i_addr it) (i_msg it) -> copies x it = 1%nat) /\
  (~ monitor_wants (st_mrules st) (i_own it) x (i_from it) (i_addr it) (i_msg it) -> copies x it = 0%nat).

Definition C18_sees_once_full_statement : Prop :=
  forall st e x it, reachable st -> is_monitor st x = true -> In it (snd (step st e)) -> sees_once_at st x it.

Definition true_sender (it : item) : Prop :=
  match i_from it with
  | Some c => b_sender (i_msg it) = SConn c
  | None => b_sender (i_msg it) = SDriver
  end.

(* "is never the addressee of a delivery" *)
Definition C18_never_addressee_full_statement : Prop :=
  forall st e x it, reachable st -> is_monitor st x = true -> In it (snd (step st e)) ->
    i_direct it <> Some x /\ ~ In x (i_match it).

(* "is disconnected if it sends anything" *)
Definition closes (st : state) (e : event) (x : cid) : Prop :=
  let st' := fst (step st e) in
  snd (step st e) = [] /\ connected st' x = false /\ is_monitor st' x = false /\
  st_own st' = st_own st /\ st_rules st' = st_rules st /\ st_pend st' = st_pend st.

Definition C18_send_closes_full_statement : Prop :=
  forall st e x, reachable st -> is_monitor st x = true -> actor e = Some x -> wf_event st e = true -> closes st e x.

(* "what every other client observes is the same as if the monitor were absent": the history in which x
   becomes a monitor against the history in which x simply disconnects at that point.  The switch releases
   x's names first-to-last, a disconnect last-to-first, so within that one step the comparison is up to order. *)
Definition transparent_for (good : list event -> Prop) : Prop :=
  forall h1 x s so fl rs,
    good h1 ->
    ordinary (state_after h1) x -> s <> 0 ->
    let bm := EBecomeMonitor x s so fl rs in
    is_monitor (fst (step (state_after h1) bm)) x = true ->       (* the switch is not refused *)
    (* the switch step itself, against x leaving *)
    (forall c, c <> x -> is_monitor (state_after h1) c = false ->
       Permutation (view c (snd (step (state_after h1) bm)))
                   (view c (snd (step (state_after h1) (EDisconnect x))))) /\
    (* every later step: whatever happens next (h2) and then e, every ordinary client reads the same *)
    (forall h2 e c,
       good (h1 ++ bm :: h2) ->
       let sa := state_after (h1 ++ bm :: h2) in
       let sb := state_after (h1 ++ EDisconnect x :: h2) in
       ordinary sa c ->
       ordinary sb c /\ view c (snd (step sa e)) = view c (snd (step sb e))).

Definition C18_transparent_full_statement : Prop := transparent_for (fun _ => True).
Definition C18_transparent_statement : Prop := transparent_for (fun h => calm init h = true).

(* the property read on routed traffic only (what libdbus consumes by itself set aside) *)
Definition C18_never_addressee_routed_full_statement : Prop :=
  forall st e x it, reachable st -> is_monitor st x = true -> In it (snd (step st e)) -> i_local it = false ->
    i_direct it <> Some x /\ ~ In x (i_match it).

(* "nothing is routed from it": no item a step produces has a monitor as its sender, other than what the monitor
   itself sends to libdbus on the bus's side (F18a) *)
Definition C18_nothing_routed_from_monitor_full_statement : Prop :=
  forall st e x it, reachable st -> is_monitor st x = true -> In it (snd (step st e)) -> i_local it = false ->
    i_from it <> Some x.

(* BecomeMonitor is all or nothing: a refused call changes nothing at all *)
Definition refused (st : state) (c : cid) (so : bool) (fl : N) (rs : list (option flt)) : Prop :=
  memN c (st_unpriv st) = true \/ so = false \/ fl <> 0 \/ In None rs.

(* every connection that is a monitor after a step got each item of that step at most once, whatever the way *)
Definition C18_once_total_full_statement : Prop :=
  forall st e x it, reachable st -> is_monitor (fst (step st e)) x = true -> In it (snd (step st e)) -> (total x it <= 1)%nat.
