(* Specification of name ownership on the message bus, written from
   doc/dbus-specification.xml: "Message Bus Names", org.freedesktop.DBus.Hello,
   RequestName (the five numbered rules, the flag table and the return-code
   table), ReleaseName (its three return codes), ListQueuedOwners, ListNames,
   GetNameOwner, NameHasOwner, NameOwnerChanged, NameLost, NameAcquired; the
   per-connection limit is from doc/dbus-daemon.1.xml.in
   ("max_names_per_connection: max number of names a single connection can own").

   Style: the state is a finite map  name -> queue ; a request is the
   composition of the numbered rules on ONE queue; signals are not emitted by
   the rules but derived from comparing the primary owner before and after;
   reply codes are read off the return-code table on the state before.
   Deliberately independent of Registry/Registry.v (shares only the vocabulary
   in RegTypes.v) and of the generated tables. *)
From DV Require Export Lib.Base Registry.RegTypes Spec.NamesSpec.
Local Open Scope N_scope.

(* One place where the implementation is known to deviate from the text.
   [literal] is the specification as written; [as_implemented] is the
   specification with exactly this exception switched on.
   (A second one, F4b -- the per-connection limit also refused requests for names
   the caller already held -- was repaired in the bus; the limit rule below is the
   literal one in both variants.) *)
Record variant := mkVariant {
  v_jump : bool           (* F4: a REPLACE_EXISTING requester that cannot replace goes to second place *)
}.
Definition literal := mkVariant false.
Definition as_implemented := mkVariant true.

Record sconn := mkSConn { sc_id : N; sc_active : bool; sc_sub : bool }.

Record sstate := mkS {
  s_conns : list sconn;
  s_names : list (key * queue);      (* finite map; a name that is absent has the empty queue *)
  s_next : N;
  s_limit : N
}.

Definition sinit (limit : N) : sstate := mkS [] [] 0 limit.

(* ---- the finite map ---------------------------------------------------------- *)
Definition sget (m : list (key * queue)) (k : key) : queue :=
  match find (fun kq => key_eqb k (fst kq)) m with Some kq => snd kq | None => [] end.

(* "If there are no other owners in the queue for the name, it will be removed from the bus entirely." *)
Definition sset (m : list (key * queue)) (k : key) (q : queue) : list (key * queue) :=
  let m' := filter (fun kq => negb (key_eqb k (fst kq))) m in
  match q with [] => m' | _ => m' ++ [(k, q)] end.

(* ---- one queue ------------------------------------------------------------------ *)
Definition is (c : N) (o : owner) : bool := o_conn o =? c.
Definition without (c : N) (q : queue) : queue := filter (fun o => negb (is c o)) q.
Definition queued (c : N) (q : queue) : bool := existsb (is c) q.
Definition refresh (c : N) (a d : bool) (q : queue) : queue :=
  map (fun o => if is c o then mkOwner c a d else o) q.
Definition primary (q : queue) : option N := match q with [] => None | p :: _ => Some (o_conn p) end.

(* flags: ALLOW_REPLACEMENT 0x1, REPLACE_EXISTING 0x2, DO_NOT_QUEUE 0x4; other bits mean nothing *)
Definition f_allow (flags : N) : bool := N.testbit flags 0.
Definition f_replace (flags : N) : bool := N.testbit flags 1.
Definition f_dnq (flags : N) : bool := N.testbit flags 2.

(* rules 1-4 of RequestName; a name nobody owns simply gets the caller as its owner *)
Definition rules_1_4 (v : variant) (q : queue) (c : N) (a r d : bool) : queue :=
  match q with
  | [] => [mkOwner c a d]
  | p :: waiting =>
      if is c p then mkOwner c a d :: waiting                                   (* 1: flags updated, nothing further *)
      else if o_allow p && r then mkOwner c a d :: p :: without c waiting       (* 2: caller to the head, old owner second *)
      else if v_jump v && r then p :: mkOwner c a d :: without c waiting        (* (exception F4, not in the text) *)
      else if queued c waiting then p :: refresh c a d waiting                  (* 3: flags updated *)
      else q ++ [mkOwner c a d]                                                 (* 4: appended *)
  end.

(* rule 5: whoever is not the primary owner and has DO_NOT_QUEUE leaves the queue *)
Definition rule_5 (q : queue) : queue :=
  match q with [] => [] | p :: waiting => p :: filter (fun o => negb (o_dnq o)) waiting end.

Definition request_queue (v : variant) (q : queue) (c : N) (flags : N) : queue :=
  rule_5 (rules_1_4 v q c (f_allow flags) (f_replace flags) (f_dnq flags)).

(* the return-code table, on the queue before the request *)
Definition request_code (q : queue) (c : N) (flags : N) : N :=
  match q with
  | [] => 1                                             (* PRIMARY_OWNER: the name had no owner before *)
  | p :: _ =>
      if is c p then 4                                  (* ALREADY_OWNER *)
      else if o_allow p && f_replace flags then 1       (* PRIMARY_OWNER: REPLACE_EXISTING and owner allowed it *)
      else if f_dnq flags then 3                        (* EXISTS *)
      else 2                                            (* IN_QUEUE *)
  end.

(* NameLost to the one that lost, NameOwnerChanged (name, old, new) to whoever listens,
   NameAcquired to the one that gained; nothing when the primary owner is unchanged *)
Definition same_owner (a b : option N) : bool :=
  match a, b with
  | None, None => true
  | Some x, Some y => x =? y
  | _, _ => false
  end.

Definition ownership_signals (k : key) (before after : option N) : list emit :=
  if same_owner before after then []
  else (match before with Some o => [EUni o (MLost k)] | None => [] end)
       ++ [EBcast (MNOC k before after)]
       ++ (match after with Some n => [EUni n (MAcquired k)] | None => [] end).

(* ---- names a client may ask for ------------------------------------------------ *)
Definition bus_name_str : bytes :=
  [111; 114; 103; 46; 102; 114; 101; 101; 100; 101; 115; 107; 116; 111; 112; 46; 68; 66; 117; 115].

(* a valid bus name that is neither a unique name (':' ...) nor the bus's own name *)
Definition requestable (s : bytes) : bool :=
  spec_bus_name s && negb (match s with 58 :: _ => true | _ => false end) && negb (bytes_eqb s bus_name_str).

(* ---- connections --------------------------------------------------------------- *)
Definition sfind (cs : list sconn) (c : N) : option sconn := find (fun x => sc_id x =? c) cs.
Definition smap (cs : list sconn) (c : N) (f : sconn -> sconn) : list sconn :=
  map (fun x => if sc_id x =? c then f x else x) cs.
Definition sdrop (cs : list sconn) (c : N) : list sconn := filter (fun x => negb (sc_id x =? c)) cs.

Definition listeners (cs : list sconn) : list N :=
  map sc_id (filter (fun x => sc_active x && sc_sub x) cs).

Definition sdeliver (cs : list sconn) (es : list emit) : list out :=
  flat_map (fun e => match e with
                     | EUni c m => [(c, m)]
                     | EBcast m => map (fun c => (c, m)) (listeners cs)
                     end) es.

(* number of names the connection holds (owned or waited for, the unique name included) *)
Definition held (m : list (key * queue)) (c : N) : N :=
  nlen (filter (fun kq => queued c (snd kq)) m).

(* ---- closing a connection ----------------------------------------------------------
   "When a connection is closed, all the names that it owns are deleted (or
   transferred to the next connection in the queue if any)"; the unique name
   is "the last one that it loses ownership of".  The order among the other
   names is left open by the text, so it is an argument here. *)
Fixpoint drop_names (m : list (key * queue)) (c : N) (ord : list key) : list (key * queue) * list emit :=
  match ord with
  | [] => (m, [])
  | k :: more =>
      let q := sget m k in
      let q' := without c q in
      let (m', es) := drop_names (sset m k q') c more in
      (m', ownership_signals k (primary q) (primary q') ++ es)
  end.

Definition valid_order (s : sstate) (c : N) (ord : list key) : Prop :=
  NoDup ord /\
  (forall k, In k ord <-> queued c (sget (s_names s) k) = true) /\
  (In (KU c) ord -> exists ws, ord = ws ++ [KU c]).

(* ---- one event ------------------------------------------------------------------------ *)
Definition sfault (s : sstate) (c : N) : sstate * list out := (s, [(c, MFault)]).
Definition with_names (s : sstate) (cs : list sconn) (m : list (key * queue)) : sstate :=
  mkS cs m (s_next s) (s_limit s).

Definition spec_step (v : variant) (s : sstate) (e : event) (ord : list key) : sstate * list out :=
  match e with
  | EvConnect =>
      (mkS (s_conns s ++ [mkSConn (s_next s) false false]) (s_names s) (s_next s + 1) (s_limit s), [])
  | EvHello c =>
      match sfind (s_conns s) c with
      | None => sfault s c
      | Some x =>
          if sc_active x then (s, [(c, MError EFailed)])
          else match sget (s_names s) (KU c) with
               | _ :: _ => sfault s c                      (* unique names are never reused *)
               | [] =>
                   let cs := smap (s_conns s) c (fun x => mkSConn (sc_id x) true (sc_sub x)) in
                   (with_names s cs (sset (s_names s) (KU c) [mkOwner c false false]),
                    sdeliver cs (EUni c (MHelloReply c) :: ownership_signals (KU c) None (Some c)))
               end
      end
  | EvAddMatch c =>
      match sfind (s_conns s) c with
      | None => sfault s c
      | Some x =>
          if negb (sc_active x) then (s, [(c, MError EAccessDenied)])
          else (with_names s (smap (s_conns s) c (fun x => mkSConn (sc_id x) (sc_active x) true)) (s_names s), [(c, MAck)])
      end
  | EvRequest c name flags =>
      match sfind (s_conns s) c with
      | None => sfault s c
      | Some x =>
          if negb (sc_active x) then (s, [(c, MError EAccessDenied)])
          else if negb (requestable name) then (s, [(c, MError EInvalidArgs)])
          else
            let k := KW name in
            let q := sget (s_names s) k in
            (* the limit is on the names held: a request for a name the caller already holds adds none *)
            if (s_limit s <=? held (s_names s) c) && negb (queued c q)
            then (s, [(c, MError ELimitsExceeded)])
            else
              let q' := request_queue v q c flags in
              (with_names s (s_conns s) (sset (s_names s) k q'),
               sdeliver (s_conns s) (ownership_signals k (primary q) (primary q') ++ [EUni c (MReply (request_code q c flags))]))
      end
  | EvRelease c name =>
      match sfind (s_conns s) c with
      | None => sfault s c
      | Some x =>
          if negb (sc_active x) then (s, [(c, MError EAccessDenied)])
          else if negb (requestable name) then (s, [(c, MError EInvalidArgs)])
          else
            let k := KW name in
            let q := sget (s_names s) k in
            match q with
            | [] => (s, [(c, MReply 2)])                                  (* NON_EXISTENT *)
            | _ :: _ =>
                if negb (queued c q) then (s, [(c, MReply 3)])            (* NOT_OWNER *)
                else
                  let q' := without c q in
                  (with_names s (s_conns s) (sset (s_names s) k q'),
                   sdeliver (s_conns s) (ownership_signals k (primary q) (primary q') ++ [EUni c (MReply 1)]))   (* RELEASED *)
            end
      end
  | EvDisconnect c =>
      match sfind (s_conns s) c with
      | None => sfault s c
      | Some x =>
          let (m, es) := drop_names (s_names s) c ord in
          let cs := sdrop (s_conns s) c in
          (with_names s cs m, filter (fun o => negb (fst o =? c)) (sdeliver cs es))
      end
  end.

(* a whole history; [adv i] is the release order used if event number i is a disconnection *)
Fixpoint spec_run (v : variant) (s : sstate) (h : list event) (adv : nat -> list key) (i : nat) : sstate * list (list out) :=
  match h with
  | [] => (s, [])
  | e :: r =>
      let (s1, o) := spec_step v s e (adv i) in
      let (s2, os) := spec_run v s1 r adv (S i) in
      (s2, o :: os)
  end.

Fixpoint valid_advice (v : variant) (s : sstate) (h : list event) (adv : nat -> list key) (i : nat) : Prop :=
  match h with
  | [] => True
  | e :: r =>
      (forall c, e = EvDisconnect c -> valid_order s c (adv i)) /\
      valid_advice v (fst (spec_step v s e (adv i))) r adv (S i)
  end.

(* where the two variants can differ: the situation of F4 *)
Definition exception_trigger (s : sstate) (e : event) : bool :=
  match e with
  | EvRequest c name flags =>
      match sfind (s_conns s) c with
      | Some x =>
          sc_active x && requestable name &&
          (let q := sget (s_names s) (KW name) in
           match q with
           | p :: _ => negb (is c p) && f_replace flags && negb (f_dnq flags) && negb (o_allow p)
           | [] => false
           end)
      | None => false
      end
  | _ => false
  end.

Fixpoint quiet (v : variant) (s : sstate) (h : list event) (adv : nat -> list key) (i : nat) : Prop :=
  match h with
  | [] => True
  | e :: r => exception_trigger s e = false /\ quiet v (fst (spec_step v s e (adv i))) r adv (S i)
  end.

(* ---- the query methods as projections of the map ---------------------------------------- *)
Definition names_bus (a : qarg) : bool :=
  match a with QS s => bytes_eqb s bus_name_str | QU _ => false end.

(* GetNameOwner: "the unique connection name of the primary owner"; the bus owns its own name *)
Definition spec_owner (s : sstate) (a : qarg) : option who :=
  if names_bus a then Some WBus
  else match primary (sget (s_names s) (qkey a)) with Some c => Some (WConn c) | None => None end.

Definition spec_has_owner (s : sstate) (a : qarg) : bool :=
  match spec_owner s a with Some _ => true | None => false end.

(* ListQueuedOwners: the queue, primary owner first *)
Definition spec_queued (s : sstate) (a : qarg) : option (list who) :=
  if names_bus a then Some [WBus]
  else match sget (s_names s) (qkey a) with
       | [] => None
       | q => Some (map (fun o => WConn (o_conn o)) q)
       end.

(* ListNames: "all currently-owned names on the bus" -- as a set: the bus's own name and every name with an owner *)
Definition spec_listed (s : sstate) (k : option key) : Prop :=
  match k with
  | None => True
  | Some k => sget (s_names s) k <> []
  end.
