(* Specification of the DBUS_COOKIE_SHA1 cookie store, written from
   doc/dbus-specification.xml (section DBUS_COOKIE_SHA1): context names, the
   format of a cookie line, which cookies a server keeps and which it uses for
   new challenges.  Declarative: fields by splitting at single spaces, numbers as
   canonical decimals, the cookie as strict lower/upper-case hex pairs. *)
From Coq Require Import ZArith.
From DV Require Import Lib.Base Spec.AuthSpec.
Local Open Scope Z_scope.

(* "Context names must be valid ASCII, nonzero length, and may not contain the characters slash, backslash,
   space, newline, carriage return, tab, or period." *)
Definition spec_context_ok (ctx : bytes) : Prop :=
  ctx <> [] /\ forall c, In c ctx ->
    (0 < c < 128)%N /\ c <> 47%N /\ c <> 92%N /\ c <> 32%N /\ c <> 10%N /\ c <> 13%N /\ c <> 9%N /\ c <> 46%N.

(* a canonical decimal numeral: digits only, no leading zero except "0" itself *)
Definition is_digit (c : N) : bool := ((48 <=? c) && (c <=? 57))%N.
Fixpoint dec_val (ds : bytes) (acc : N) : N :=
  match ds with [] => acc | c :: r => dec_val r (acc * 10 + (c - 48))%N end.
Definition spec_decimal (w : bytes) : option N :=
  match w with
  | [] => None
  | [48%N] => Some 0%N
  | 48%N :: _ => None
  | _ => if forallb is_digit w then Some (dec_val w 0%N) else None
  end.

(* the next field: everything up to the first space *)
Fixpoint span_field (s : bytes) : bytes * bytes :=
  match s with
  | [] => ([], [])
  | c :: r => if (c =? 32)%N then ([], s) else let '(w, t) := span_field r in (c :: w, t)
  end.

(* "Each line has three space-separated fields: the cookie ID number, which must be a non-negative integer; the
   cookie's creation time, in UNIX seconds-since-the-epoch format; the cookie itself, a hex-encoded random block of bytes." *)
Definition spec_cookie_line (l : bytes) : option (N * Z * bytes) :=
  let '(f1, r1) := span_field l in
  match r1 with
  | 32%N :: r1' =>
      let '(f2, r2) := span_field r1' in
      match r2 with
      | 32%N :: f3 =>
          match spec_decimal f1, spec_decimal f2, f3, unhex f3 with
          | Some id, Some t, _ :: _, Some cookie => Some (id, Z.of_N t, cookie)
          | _, _, _, _ => None
          end
      | _ => None
      end
  | _ => None
  end.

(* "The reference implementation deletes cookies that are more than 5 minutes into the future, or more than 7 minutes in the past." *)
Definition cookie_kept_at (now t : Z) : Prop := now - 420 <= t <= now + 300.
(* "generates a new cookie whenever the most recent cookie is older than 5 minutes" *)
Definition cookie_recent_at (now t : Z) : Prop := now - 300 < t.
