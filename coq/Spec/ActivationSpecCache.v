(* Specification side of C19, the table of activatable names: from dbus-daemon(1)
   (<servicedir>, <standard_session_servicedirs>: "directories are searched in the
   order given; the first service file found that provides a particular name is
   used") and the D-Bus specification ("Message Bus Starting Services"): a
   service description file must have a Name and an Exec key in its
   [D-BUS Service] group; in directories with strict naming the file must be
   called <Name>.service.  Written as a list comprehension over directories and
   files; nothing here mentions the bus's two hash tables. *)
From DV Require Import Lib.Base Activation.Helper Activation.Cache.
Local Open Scope N_scope.

(* the entry a file stands for, if it is a valid service file for directory d *)
Definition valid_file (d : N) (strict : bool) (fname : bytes) (f : file) : option sentry :=
  if ends_with DOT_SERVICE fname then
    match parse_entry f.(fl_content) with
    | Some (n, e, u, sy) =>
        if negb (bytes_eqb (n ++ DOT_SERVICE) fname) && strict then None
        else Some (mkSentry n e u sy f.(fl_mtime) d fname)
    | None => None
    end
  else None.

Definition opt_list {A} (o : option A) : list A := match o with Some x => [x] | None => [] end.

Definition dir_candidates (fs : fsys) (d : N) (strict : bool) : list sentry :=
  match nth (N.to_nat d) fs None with
  | None => []
  | Some files => flat_map (fun p => opt_list (valid_file d strict (fst p) (snd p))) files
  end.

(* every valid service file, directories in search order, files in listing order *)
Fixpoint candidates_from (fs : fsys) (d : N) (flags : list bool) : list sentry :=
  match flags with
  | [] => []
  | s :: r => dir_candidates fs d s ++ candidates_from fs (d + 1) r
  end.

Definition candidates (flags : list bool) (fs : fsys) : list sentry := candidates_from fs 0 flags.

(* the activatable-name table: for each name the first valid file that provides it *)
Definition spec_lookup (flags : list bool) (fs : fsys) (n : bytes) : option sentry :=
  find (fun e => bytes_eqb e.(se_name) n) (candidates flags fs).

(* a directory does not list a file name twice *)
Definition wf_fs (fs : fsys) : Prop :=
  forall files, In (Some files) fs -> NoDup (map fst files).
