(* Well-formed UTF-8 per the Unicode Standard, Table 3-7, with NUL excluded
   (D-Bus strings may not contain NUL). *)
From DV Require Export Lib.Base.
Local Open Scope N_scope.

Definition in_range (lo hi c : N) : bool := (lo <=? c) && (c <=? hi).
Definition cont := in_range 128 191.

Fixpoint spec_utf8_fuel (fuel : nat) (s : bytes) : bool :=
  match fuel with
  | O => false
  | S f =>
      match s with
      | [] => true
      | c1 :: r1 =>
          if in_range 1 127 c1 then spec_utf8_fuel f r1
          else match r1 with
          | [] => false
          | c2 :: r2 =>
              if in_range 194 223 c1 then cont c2 && spec_utf8_fuel f r2
              else match r2 with
              | [] => false
              | c3 :: r3 =>
                  if (c1 =? 224) then in_range 160 191 c2 && cont c3 && spec_utf8_fuel f r3
                  else if in_range 225 236 c1 || in_range 238 239 c1 then cont c2 && cont c3 && spec_utf8_fuel f r3
                  else if (c1 =? 237) then in_range 128 159 c2 && cont c3 && spec_utf8_fuel f r3
                  else match r3 with
                  | [] => false
                  | c4 :: r4 =>
                      if (c1 =? 240) then in_range 144 191 c2 && cont c3 && cont c4 && spec_utf8_fuel f r4
                      else if in_range 241 243 c1 then cont c2 && cont c3 && cont c4 && spec_utf8_fuel f r4
                      else if (c1 =? 244) then in_range 128 143 c2 && cont c3 && cont c4 && spec_utf8_fuel f r4
                      else false
                  end
              end
          end
      end
  end.

Definition spec_utf8 (s : bytes) : bool := spec_utf8_fuel (S (length s)) s.
