(* What the DBusString operations are supposed to do, on plain byte lists
   (from the function descriptions in dbus/dbus-string.c), independent of
   capacity and allocation; and the clause of C14 for them: an operation that
   reports failure (returns FALSE) leaves the string exactly as it was. *)
From DV Require Export Oom.DString.
Local Open Scope nat_scope.

(* insert [x] before position [at_] *)
Definition ins (at_ : nat) (x b : bytes) : bytes := firstn at_ b ++ x ++ skipn at_ b.

Definition zeros (n : nat) : bytes := repeat 0%N n.
Definition junk (n : nat) : bytes := repeat JUNK n.          (* bytes the description leaves unspecified *)

Definition spec_sop (b : bytes) (op : sop) : bytes :=
  match op with
  | OLengthen n => b ++ junk n
  | OShorten n => firstn (length b - n) b
  | OSetLength n => firstn n b ++ junk (n - length b)
  | OInsertBytes at_ n byte => ins at_ (repeat byte n) b
  | OInsertByte at_ byte => ins at_ [byte] b
  | OAlignLength a => b ++ zeros (align_value (length b) a - length b)
  | OInsertAligned at_ octets => ins at_ (zeros (align_value at_ (length octets) - at_) ++ octets) b
  | OInsertAlignment at_ a => ins at_ (zeros (align_value at_ a - at_)) b
  | OAllocSpace _ => b
  | OAppend buf => b ++ buf
  | OAppendByte x => b ++ [x]
  | ODelete start len => firstn start b ++ skipn (start + len) b
  | OCopyLen src start len at_ => ins at_ (firstn len (skipn start src)) b
  | OReplaceLen src start len at_ rlen => firstn at_ b ++ firstn len (skipn start src) ++ skipn (at_ + rlen) b
  end.

(* the longest the string gets while the operation runs (alloc_space grows and shrinks again) *)
Definition peak_len (b : bytes) (op : sop) : nat :=
  match op with
  | OAllocSpace n => length b + n
  | _ => length (spec_sop b op)
  end.

(* the invariant DBUS_STRING_PREAMBLE asserts *)
Definition wf (s : dstr) : Prop := dlen s + PAD <= d_alloc s /\ too_long (dlen s) = false.

(* C14 for one string operation: reported failure means nothing happened *)
Definition fail_means_unchanged (s : dstr) (r : bool * dstr * N) : Prop :=
  match r with (false, s', _) => s' = s | _ => True end.

(* a reported failure: the string is what it was; either a length limit (nothing allocated) or the one allocation failed *)
Definition fail_res (F : N -> bool) (i : N) (s s' : dstr) (i' : N) : Prop :=
  s' = s /\ (i' = i \/ (i' = (i + 1)%N /\ F i = true)).

(* the allocation bookkeeping shared by all results: nothing allocated when [need] fits, else exactly one *)
Definition counted (F : N -> bool) (i : N) (s : dstr) (need : nat) (s' : dstr) (i' : N) : Prop :=
  d_alloc s <= d_alloc s' /\
  ((need <= d_alloc s - PAD /\ i' = i /\ d_alloc s' = d_alloc s) \/ (d_alloc s - PAD < need /\ i' = (i + 1)%N /\ F i = false)).

(* ---- dbus-marshal-header.c ------------------------------------------------------------------- *)
(* the operations write_basic_field's writer performs: insertions inside the window between the last
   field ([start]) and the reserved padding ([pad] bytes at the end), and _dbus_string_alloc_space *)
Definition in_window (start pad : nat) (b : bytes) (op : sop) : Prop :=
  match op with
  | OInsertBytes at_ _ _ | OInsertByte at_ _ | OInsertAlignment at_ _ | OCopyLen _ _ _ at_ | OInsertAligned at_ _ =>
      start <= at_ /\ at_ + pad <= length b
  | OAllocSpace _ => True
  | _ => False
  end.

Fixpoint window_ops (start pad : nat) (b : bytes) (ops : list sop) : Prop :=
  match ops with
  | [] => True
  | op :: more => in_window start pad b op /\ sop_pre (mkD b 0) op = true /\ window_ops start pad (spec_sop b op) more
  end.

(* a header whose data ends with its (zero) padding on an 8-byte boundary *)
Definition hdr_ok (h : hdr) : Prop :=
  wf (h_data h) /\ h_padding h <= 7 /\
  exists U, d_bytes (h_data h) = U ++ zeros (h_padding h) /\ align_value (length U) 8 = length U + h_padding h.

Definition edit_ok (h : hdr) (e : hedit) : Prop :=
  match e with
  | HAppend ops => window_ops (dlen (h_data h) - h_padding h) 7 (d_bytes (h_data h) ++ junk (7 - h_padding h)) ops
  | HReplace _ _ _ _ => True
  end.
