(* Specification side of C17, written from the property text and the API
   documentation of dbus_connection_send_with_reply / dbus_pending_call_*
   ("A DBusPendingCall will always see exactly one reply message, unless it's
   cancelled", "if you cancel the call, no reply is received unless the reply
   was already received before you canceled", serials "must not be zero").

   Everything here is a predicate on what can be OBSERVED: the history of
   events that were issued and the trace of observations that came back.  No
   predicate looks inside the model state. *)
From DV Require Export PendingCall.Pending.
From Coq Require Import List NArith Bool Lia.
Import ListNotations.
Local Open Scope N_scope.

(* ---- serial numbers ----------------------------------------------------- *)
(* the k-th serial (counting from 0) a fresh connection hands out: 1, 2, ...,
   2^32-1, 1, 2, ...: never zero, and periodic with period 2^32-1 *)
Definition spec_serial (k : N) : N := 1 + k mod (two32 - 1).

(* ---- traces ------------------------------------------------------------- *)
Definition is_complete (i : nat) (o : obs) : bool := match o with OComplete j _ => Nat.eqb i j | _ => false end.
Definition is_notify (i : nat) (o : obs) : bool := match o with ONotify j => Nat.eqb i j | _ => false end.
Definition count_complete (i : nat) (tr : list obs) : nat := length (filter (is_complete i) tr).
Definition count_notify (i : nat) (tr : list obs) : nat := length (filter (is_notify i) tr).

(* all serials handed out, in order; and the serials of the calls, by creation index *)
Fixpoint drawn (tr : list obs) : list N :=
  match tr with
  | [] => []
  | OSent (Some s) :: r => s :: drawn r
  | OPlain s :: r => s :: drawn r
  | _ :: r => drawn r
  end.
Fixpoint call_serials (tr : list obs) : list N :=
  match tr with
  | [] => []
  | OSent (Some s) :: r => s :: call_serials r
  | _ :: r => call_serials r
  end.

(* "completes exactly once", safety half: the reply slot of a call is assigned
   at most once, and its notify function runs at most once and only for an
   assigned slot *)
Definition at_most_once (tr : list obs) : Prop :=
  forall i, (count_complete i tr <= 1)%nat /\ (count_notify i tr <= count_complete i tr)%nat.

(* "with the reply whose reply-serial matches it, or with a locally generated
   error": whatever completes call i carries the serial call i was sent with *)
Definition paired (tr : list obs) : Prop :=
  forall i m, In (OComplete i m) tr -> nth_error (call_serials tr) i = Some (m_rs m).
(* "a reply is never paired with a different call" *)
Definition unshared (tr : list obs) : Prop :=
  forall i j m, In (OComplete i m) tr -> nth_error (call_serials tr) j = Some (m_rs m) -> i = j.

(* "serials assigned by a connection are non-zero and, until the counter wraps, distinct" *)
Definition serials_ok (tr : list obs) : Prop := Forall (fun s => s <> 0) (drawn tr) /\ NoDup (drawn tr).

(* ---- histories ---------------------------------------------------------- *)
(* events by which a thread waits for call i *)
Definition block_on (i : nat) (e : event) : bool :=
  match e with EBlock j | EBlockCheck j | EBlockStep j _ => Nat.eqb i j | _ => false end.
Definition no_block_on (i : nat) (h : list event) : Prop := forallb (fun e => negb (block_on i e)) h = true.

(* A connection may have handed out any number of serials before the history
   we look at starts: its counter b is any non-zero 32-bit value (a fresh
   connection has b = 1; a long-running service is far beyond 2^31).  Every
   claim below is made for every such b. *)
Definition valid_base (b : N) : Prop := 1 <= b < two32.

(* trace of a history from the initial state: any interleaving of threads / single-threaded use *)
Definition trace_at (b : N) (h : list event) : list obs := snd (run (init_at b) h).
Definition trace1_at (b : N) (h : list event) : list obs := snd (run1 (init_at b) h).
Definition trace (h : list event) : list obs := trace_at 1 h.
Definition trace1 (h : list event) : list obs := trace1_at 1 h.

(* the 32-bit counter has not come round: fewer than 2^32 - 1 serials have been handed out in this history *)
Definition nowrap_at (b : N) (h : list event) : Prop := N.of_nat (length (drawn (trace_at b h))) < two32 - 1.
Definition nowrap (h : list event) : Prop := nowrap_at 1 h.

(* ---- the claims of the property, at full strength ----------------------- *)
Definition C17_at_most_once_statement : Prop := forall b h, valid_base b -> at_most_once (trace_at b h).
Definition C17_pairing_statement : Prop := forall b h, valid_base b -> nowrap_at b h -> paired (trace_at b h) /\ unshared (trace_at b h).
Definition C17_serials_statement : Prop :=
  forall b h, valid_base b -> N.of_nat (length (drawn (trace_at b h))) <= two32 - 1 -> serials_ok (trace_at b h).

(* "A cancelled call is never notified": if call i has not completed when it is
   cancelled, nothing that happens afterwards completes or notifies it. *)
Definition C17_cancel_silent_full_statement : Prop :=
  forall b h1 h2 i, valid_base b -> (i < length (call_serials (trace_at b h1)))%nat -> count_complete i (trace_at b h1) = 0%nat ->
    let tr2 := snd (run (fst (run (init_at b) (h1 ++ [ECancel i]))) h2) in
    count_complete i tr2 = 0%nat /\ count_notify i tr2 = 0%nat.

(* no schedule makes the library hit an assertion or dereference NULL *)
Definition C17_no_fault_full_statement : Prop := forall b h, valid_base b -> fault (fst (run (init_at b) h)) = 0.

(* "... or with a locally generated error if ... the connection closes first":
   a single-threaded program that has sent calls, sees the connection close,
   and then reads and dispatches long enough, finds every call it did not
   cancel completed. *)
Definition closes (h : list event) : Prop := In EPeerClose h \/ In ELocalClose h.
Definition settled (h : list event) (k : nat) : list event := h ++ ERead :: repeat EDispatch k.
Definition C17_close_completes_full_statement : Prop :=
  forall b h, valid_base b -> nowrap_at b h -> closes h ->
  forall i, (i < length (call_serials (trace1_at b h)))%nat -> ~ In (ECancel i) h ->
  exists k, count_complete i (trace1_at b (settled h k)) = 1%nat.

(* ---- time (for the blocking wait) --------------------------------------- *)
(* A clock reading is seconds + microseconds, 0 <= microseconds < 10^6; the
   time between two readings in microseconds is what "the timeout expires"
   is measured against: a timeout of ms milliseconds has expired at reading
   [now] iff at least ms * 1000 microseconds have passed since [start]. *)
From Coq Require Import ZArith.
From DV Require Import PendingCall.BlockTime.
Definition us_of (t : tv) : Z := (tv_sec t * 1000000 + tv_usec t)%Z.
Definition normal (t : tv) : Prop := (0 <= tv_usec t < 1000000)%Z.
Definition expired (start now : tv) (ms : Z) : Prop := (us_of now - us_of start >= ms * 1000)%Z.

(* "a locally generated error if its timeout expires": the wait gives up only when the timeout has expired.
   The readings come from CLOCK_MONOTONIC (since repo commit 09f2f87 also in the CMake build), so they never go down. *)
Definition C17_timeout_not_early_full_statement : Prop :=
  forall start now ms, normal start -> normal now -> (us_of start <= us_of now)%Z -> (0 <= ms)%Z ->
    give_up start now ms = true -> expired start now ms.
