(* Specification of match rules, written from the "Match Rules" and "Message Bus
   Message Routing" sections of doc/dbus-specification.xml (and the AddMatch /
   RemoveMatch entries), independently of bus/signals.c:

   * the rule text is read by a character-level transition system
     ([sstep], one clause per (state, character class)) that implements the
     quoting paragraph of the specification literally: inside apostrophes every
     character stands for itself; outside, backslash-apostrophe is an apostrophe
     and "any backslash not followed by an apostrophe represents itself" (so the
     character after it is read again in the ordinary way); an unquoted comma
     ends the item;
   * a rule is a SET of constraints ([constraint]); validity of a key/value list
     is a conjunction of independent checks ([items_ok]); what a rule means is
     "every constraint holds" ([spec_matches]); two rules are equal when they put
     the same constraints ([srule_eqb]);
   * the bus holds, per connection, a multiset of rules; a broadcast goes once to
     every connection holding a matching rule ([spec_recipients]).

   Points on which the specification is silent and this file decides (see
   notes/C07.md): blanks (space, TAB, LF, CR) are allowed before a key and
   between a key and '='; a trailing comma or trailing blanks are allowed; a key
   may appear once (path and path_namespace count as one key, argN / argNpath /
   arg0namespace on the same N as one key), except eavesdrop, where the last
   occurrence counts; argument numbers are canonical decimal numerals 0..63.

   No proofs in this file: it is also extracted as the oracle of the check. *)
From DV Require Export Lib.Base Gen.Tables Gen.MatchTables Spec.NamesSpec Match.Matcher.
From Coq Require Import ZArith.
Local Open Scope N_scope.

(* ---- 1. reading the text ------------------------------------------------------ *)
Inductive sstate :=
| SItemStart                                  (* between items *)
| SKey (k : bytes)                            (* in a key; k reversed *)
| SAfterKey (k : bytes)                       (* blanks after a key *)
| SVal (k v : bytes) (quoted : bool)          (* in a value; v reversed *)
| SValBs (k v : bytes).                       (* in an unquoted part of a value, just after a backslash *)

Inductive sending := SEndOk | SEmptyKey | SNoEquals | SUnbalanced.

(* the blanks: space, TAB, LF, CR *)
Definition blank (c : N) : bool := (c =? 32) || (c =? 9) || (c =? 10) || (c =? 13).

(* "Only argument indexes from 0 to 63 should be accepted"; the length limit of a rule text *)
Definition SPEC_MAX_ARG : N := 63.
Definition SPEC_MAX_RULE_LENGTH : N := 1024.

(* one character; Some (state', finished item) or None with the reason *)
Inductive sres := SGo (s : sstate) (emit : option token) | SStop (why : sending).

(* the unquoted-value clause is shared by SVal false and the re-reading after a lone backslash *)
Definition sval_unquoted (k v : bytes) (c : N) : sres :=
  if c =? 39 then SGo (SVal k v true) None
  else if c =? 44 then SGo SItemStart (Some (rev k, rev v))
  else if c =? 92 then SGo (SValBs k v) None
  else SGo (SVal k (c :: v) false) None.

Definition sstep (st : sstate) (c : N) : sres :=
  match st with
  | SItemStart => if blank c then SGo SItemStart None
                  else if c =? 61 then SStop SEmptyKey
                  else SGo (SKey [c]) None
  | SKey k => if blank c then SGo (SAfterKey k) None
              else if c =? 61 then SGo (SVal k [] false) None
              else SGo (SKey (c :: k)) None
  | SAfterKey k => if blank c then SGo (SAfterKey k) None
                   else if c =? 61 then SGo (SVal k [] false) None
                   else SStop SNoEquals
  | SVal k v true => if c =? 39 then SGo (SVal k v false) None else SGo (SVal k (c :: v) true) None
  | SVal k v false => sval_unquoted k v c
  | SValBs k v => if c =? 39 then SGo (SVal k (39 :: v) false) None
                  else sval_unquoted k (92 :: v) c        (* the backslash stood for itself; read c normally *)
  end.

Definition send_of (st : sstate) : list token * sending :=
  match st with
  | SItemStart => ([], SEndOk)
  | SKey _ | SAfterKey _ => ([], SNoEquals)
  | SVal k v false => ([(rev k, rev v)], SEndOk)
  | SVal _ _ true => ([], SUnbalanced)
  | SValBs k v => ([(rev k, rev (92 :: v))], SEndOk)
  end.

Fixpoint srun (st : sstate) (s : bytes) : list token * sending :=
  match s with
  | [] => send_of st
  | c :: r =>
      match sstep st c with
      | SStop why => ([], why)
      | SGo st' None => srun st' r
      | SGo st' (Some t) => let (ts, e) := srun st' r in (t :: ts, e)
      end
  end.

Definition spec_tokens (s : bytes) : list token * sending := srun SItemStart s.

(* ---- 2. constraints -------------------------------------------------------------- *)
Inductive constraint :=
| CType (t : N)
| CSender (s : bytes)
| CIface (s : bytes)
| CMember (s : bytes)
| CPath (s : bytes)
| CPathNs (s : bytes)
| CDest (s : bytes)
| CArg (n : N) (k : argkind) (v : bytes).

Definition constraint_eqb (a b : constraint) : bool :=
  match a, b with
  | CType x, CType y => x =? y
  | CSender x, CSender y | CIface x, CIface y | CMember x, CMember y
  | CPath x, CPath y | CPathNs x, CPathNs y | CDest x, CDest y => bytes_eqb x y
  | CArg n k v, CArg n' k' v' => (n =? n') && argkind_eqb k k' && bytes_eqb v v'
  | _, _ => false
  end.

(* which key a constraint occupies (a key may be used once) *)
Inductive keyclass := KType | KSender | KIface | KMember | KPathAny | KDest | KArgN (n : N).

Definition keyclass_eqb (a b : keyclass) : bool :=
  match a, b with
  | KType, KType | KSender, KSender | KIface, KIface | KMember, KMember | KPathAny, KPathAny | KDest, KDest => true
  | KArgN n, KArgN m => n =? m
  | _, _ => false
  end.

Definition class_of (c : constraint) : keyclass :=
  match c with
  | CType _ => KType | CSender _ => KSender | CIface _ => KIface | CMember _ => KMember
  | CPath _ | CPathNs _ => KPathAny | CDest _ => KDest | CArg n _ _ => KArgN n
  end.

(* canonical decimal numeral: "0" or a non-zero digit followed by digits  (is_digit: Spec.NamesSpec) *)
Fixpoint dec_value (s : bytes) (acc : N) : N :=
  match s with
  | c :: r => dec_value r (acc * 10 + (c - 48))
  | [] => acc
  end.

Fixpoint take_digits (s : bytes) : bytes * bytes :=
  match s with
  | c :: r => if is_digit c then let (d, rest) := take_digits r in (c :: d, rest) else ([], s)
  | [] => ([], [])
  end.

Definition canonical_numeral (d : bytes) : bool :=
  match d with
  | [] => false
  | [48] => true
  | c :: _ => negb (c =? 48)
  end.

Definition S_namespace : bytes := [110;97;109;101;115;112;97;99;101].

(* arg keys: "arg" N | "arg" N "path" | "arg0namespace", N canonical, N <= 63 *)
Definition spec_arg_key (key : bytes) : option (N * argkind) :=
  if negb (is_prefix S_arg key) then None else
  let (d, suffix) := take_digits (skipn 3 key) in
  if negb (canonical_numeral d) then None else
  if 2 <? nlen d then None else                      (* at most two digits can be <= 63 *)
  let n := dec_value d 0 in
  if SPEC_MAX_ARG <? n then None else
  match suffix with
  | [] => Some (n, ArgString)
  | _ => if bytes_eqb suffix S_path then Some (n, ArgPath)
         else if bytes_eqb suffix S_namespace && (n =? 0) then Some (n, ArgNamespace)
         else None
  end.

Definition spec_type_value (v : bytes) : option N :=
  if bytes_eqb v S_signal then Some DBUS_MESSAGE_TYPE_SIGNAL
  else if bytes_eqb v S_method_call then Some DBUS_MESSAGE_TYPE_METHOD_CALL
  else if bytes_eqb v S_method_return then Some DBUS_MESSAGE_TYPE_METHOD_RETURN
  else if bytes_eqb v S_error then Some DBUS_MESSAGE_TYPE_ERROR
  else None.

(* arg0namespace value: "like a bus name, except that the string is not required to contain a '.'" *)
Definition spec_namespace_value (v : bytes) : bool :=
  match v with
  | [] => false
  | 58 :: _ => spec_unique v
  | _ => spec_bus_namespace_wellknown v
  end.

(* the meaning of one item: a constraint, the eavesdrop switch, or nothing (invalid) *)
Inductive item_meaning := IBad | IEaves (b : bool) | ICons (c : constraint).

Definition item_meaning_of (t : token) : item_meaning :=
  let (k, v) := t in
  if bytes_eqb k S_type then match spec_type_value v with Some ty => ICons (CType ty) | None => IBad end
  else if bytes_eqb k S_sender then if spec_bus_name v then ICons (CSender v) else IBad
  else if bytes_eqb k S_interface then if spec_interface v then ICons (CIface v) else IBad
  else if bytes_eqb k S_member then if spec_member v then ICons (CMember v) else IBad
  else if bytes_eqb k S_path then if spec_path v then ICons (CPath v) else IBad
  else if bytes_eqb k S_path_namespace then if spec_path v then ICons (CPathNs v) else IBad
  else if bytes_eqb k S_destination then if spec_bus_name v then ICons (CDest v) else IBad
  else if bytes_eqb k S_eavesdrop then
         (if bytes_eqb v S_true then IEaves true else if bytes_eqb v S_false then IEaves false else IBad)
  else match spec_arg_key k with
       | Some (n, ArgNamespace) => if spec_namespace_value v then ICons (CArg n ArgNamespace v) else IBad
       | Some (n, kind) => ICons (CArg n kind v)
       | None => IBad
       end.

Fixpoint constraints_of (ts : list token) : list constraint :=
  match ts with
  | [] => []
  | t :: r => match item_meaning_of t with ICons c => c :: constraints_of r | _ => constraints_of r end
  end.

(* last eavesdrop item wins; default false *)
Fixpoint eaves_of (ts : list token) (cur : bool) : bool :=
  match ts with
  | [] => cur
  | t :: r => match item_meaning_of t with IEaves b => eaves_of r b | _ => eaves_of r cur end
  end.

Fixpoint classes_distinct (l : list keyclass) : bool :=
  match l with
  | [] => true
  | x :: r => negb (existsb (keyclass_eqb x) r) && classes_distinct r
  end.

Definition items_ok (ts : list token) : bool :=
  forallb (fun t => match item_meaning_of t with IBad => false | _ => true end) ts &&
  classes_distinct (map class_of (constraints_of ts)).

Record srule := mkSRule { sr_owner : conn; sr_eaves : bool; sr_cons : list constraint }.

Inductive spec_parse_result := SPLimits | SPInvalid | SPOk (r : srule).

(* AddMatch / RemoveMatch argument -> rule *)
Definition spec_parse (owner : conn) (text : bytes) : spec_parse_result :=
  if SPEC_MAX_RULE_LENGTH <? nlen text then SPLimits else
  match spec_tokens text with
  | (ts, SEndOk) => if items_ok ts then SPOk (mkSRule owner (eaves_of ts false) (constraints_of ts)) else SPInvalid
  | _ => SPInvalid
  end.

(* ---- 3. what a rule means --------------------------------------------------------- *)
Definition starts_with (p s : bytes) : bool := is_prefix p s.

Fixpoint last_byte (s : bytes) : option N :=
  match s with
  | [] => None
  | [c] => Some c
  | _ :: r => last_byte r
  end.

Definition ends_with_slash (s : bytes) : bool := match last_byte s with Some 47 => true | _ => false end.

(* argNpath: equal, or one of the two ends with '/' and is a prefix of the other *)
Definition spec_argpath (rule_v actual : bytes) : bool :=
  bytes_eqb rule_v actual ||
  (ends_with_slash rule_v && starts_with rule_v actual) ||
  (ends_with_slash actual && starts_with actual rule_v).

(* arg0namespace: the name itself or anything below it *)
Definition spec_argns (rule_v actual : bytes) : bool :=
  bytes_eqb rule_v actual || starts_with (rule_v ++ [46]) actual.

(* path_namespace: the path itself or that value followed by one or more components *)
Definition spec_pathns (rule_v p : bytes) : bool :=
  bytes_eqb rule_v p ||
  (if bytes_eqb rule_v [47] then starts_with [47] p else starts_with (rule_v ++ [47]) p).

Definition sender_is (ns : names) (sender : option conn) (name : bytes) : bool :=
  match sender with
  | None => bytes_eqb name S_org_freedesktop_DBus            (* the bus driver owns exactly that name *)
  | Some c => match owner_of ns name with Some o => o =? c | None => false end
  end.

(* "destination": the message is being sent to the given name.  [addressed] = who the bus resolved the
   DESTINATION to (None: the driver, or nobody known) *)
Definition dest_is (ns : names) (addressed : option conn) (m : msg) (name : bytes) : bool :=
  match m_dest m with
  | None => false
  | Some d => match addressed with
              | None => bytes_eqb name d
              | Some a => match owner_of ns name with Some o => o =? a | None => false end
              end
  end.

Definition holds (ns : names) (sender addressed : option conn) (m : msg) (c : constraint) : bool :=
  match c with
  | CType t => t =? m_type m
  | CSender s => sender_is ns sender s
  | CIface i => match m_iface m with Some x => bytes_eqb x i | None => false end
  | CMember i => match m_member m with Some x => bytes_eqb x i | None => false end
  | CPath p => match m_path m with Some x => bytes_eqb x p | None => false end
  | CPathNs p => match m_path m with Some x => spec_pathns p x | None => false end
  | CDest d => dest_is ns addressed m d
  | CArg n kind v =>
      match nth_error (m_args m) (N.to_nat n), kind with
      | Some (AStr a), ArgString => bytes_eqb v a
      | Some (AStr a), ArgPath | Some (APath a), ArgPath => spec_argpath v a
      | Some (AStr a), ArgNamespace => spec_argns v a
      | _, _ => false
      end
  end.

(* a rule matches when every constraint holds and, for a message that has a DESTINATION, the rule asks to eavesdrop *)
Definition spec_matches (ns : names) (r : srule) (sender addressed : option conn) (m : msg) : bool :=
  forallb (holds ns sender addressed m) (sr_cons r) &&
  (sr_eaves r || negb (isSome (m_dest m))).

(* ---- 4. equality of rules ----------------------------------------------------------- *)
Definition subset_cons (a b : list constraint) : bool := forallb (fun x => existsb (constraint_eqb x) b) a.

Definition srule_eqb (a b : srule) : bool :=
  (sr_owner a =? sr_owner b) && Bool.eqb (sr_eaves a) (sr_eaves b) &&
  subset_cons (sr_cons a) (sr_cons b) && subset_cons (sr_cons b) (sr_cons a).

(* ---- 5. what the model's rule record says, as a specification rule ------------------- *)
Fixpoint arg_constraints (l : list (option (argkind * bytes))) (i : N) : list constraint :=
  match l with
  | [] => []
  | None :: r => arg_constraints r (i + 1)
  | Some (k, v) :: r => CArg i k v :: arg_constraints r (i + 1)
  end.

Definition opt_list {A} (o : option A) (f : A -> constraint) : list constraint :=
  match o with Some x => [f x] | None => [] end.

Definition abs_rule (r : rule) : srule :=
  mkSRule (r_owner r) (r_eaves r)
    (opt_list (r_type r) CType ++ opt_list (r_iface r) CIface ++ opt_list (r_member r) CMember ++
     opt_list (r_sender r) CSender ++ opt_list (r_dest r) CDest ++
     (match r_path r with Some (false, p) => [CPath p] | Some (true, p) => [CPathNs p] | None => [] end) ++
     arg_constraints (r_args r) 0).

(* ---- 6. the bus: rules held, delivery, removal ------------------------------------------ *)
Definition sbus := list srule.          (* a multiset; order is immaterial to every definition below *)

Definition spec_holds_matching (ns : names) (b : sbus) (sender addressed : option conn) (m : msg) (c : conn) : bool :=
  existsb (fun r => (sr_owner r =? c) && spec_matches ns r sender addressed m) b.

(* the set of connections that get a copy because of their rules (the addressed one gets its copy anyway
   and is not listed twice) *)
Fixpoint dedup (l : list conn) : list conn :=
  match l with
  | [] => []
  | x :: r => if existsb (N.eqb x) r then dedup r else x :: dedup r
  end.

Definition spec_recipients (ns : names) (b : sbus) (sender addressed : option conn) (m : msg) : list conn :=
  dedup (filter (fun c => negb (match addressed with Some a => a =? c | None => false end))
                (map sr_owner (filter (fun r => spec_matches ns r sender addressed m) b))).

Fixpoint remove_one (b : sbus) (v : srule) : option sbus :=
  match b with
  | [] => None
  | r :: rest => if srule_eqb r v then Some rest
                 else match remove_one rest v with Some rest' => Some (r :: rest') | None => None end
  end.

Definition spec_count (b : sbus) (c : conn) : N := nlen (filter (fun r => sr_owner r =? c) b).

Inductive sreply := SRepOk | SRepLimits | SRepInvalid | SRepDenied | SRepNotFound.

Definition spec_add (limit : N) (privileged : bool) (b : sbus) (c : conn) (text : bytes) : sbus * sreply :=
  if limit <=? spec_count b c then (b, SRepLimits) else
  match spec_parse c text with
  | SPLimits => (b, SRepLimits)
  | SPInvalid => (b, SRepInvalid)
  | SPOk r => if sr_eaves r && negb privileged then (b, SRepDenied) else (r :: b, SRepOk)
  end.

Definition spec_remove (b : sbus) (c : conn) (text : bytes) : sbus * sreply :=
  match spec_parse c text with
  | SPLimits => (b, SRepLimits)
  | SPInvalid => (b, SRepInvalid)
  | SPOk r => match remove_one b r with Some b' => (b', SRepOk) | None => (b, SRepNotFound) end
  end.

(* a connection's rules cease to have effect when it disconnects *)
Definition spec_disconnect (b : sbus) (c : conn) : sbus := filter (fun r => negb (sr_owner r =? c)) b.

(* ---- 7. classes of rule texts on which the code is known to deviate (used to word the partial
        theorems and by the check to recognise known findings) ----------------------------------- *)
(* the reader takes the "lone backslash" clause on a character that the code would swallow *)
Fixpoint bs_sensitive (st : sstate) (s : bytes) : bool :=
  match s with
  | [] => false
  | c :: r =>
      (match st with SValBs _ _ => (c =? 44) || (c =? 92) | _ => false end) ||
      match sstep st c with
      | SStop _ => false
      | SGo st' _ => bs_sensitive st' r
      end
  end.

(* a bus-name value on which the validator of the code is known to be wider than the grammar (finding F2 of C16):
   it starts with ':' and is not a well-formed unique name *)
Definition f2_value (v : bytes) : bool := match v with 58 :: _ => negb (spec_unique v) | _ => false end.

Definition plain_arg_key (k : bytes) : bool :=
  if is_prefix S_arg k then
    match skipn 3 k with
    | c :: c2 :: _ => is_digit c && negb ((c =? 48) && (is_digit c2 || (c2 =? 120) || (c2 =? 88)))
    | [c] => is_digit c
    | [] => true
    end
  else true.
