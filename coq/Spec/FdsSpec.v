(* Specification for C15, written from the D-Bus specification ("UNIX_FDS: the number of Unix file
   descriptors that accompany the message"; descriptors travel out of band, in order, and only after
   NEGOTIATE_UNIX_FD / AGREE_UNIX_FD) and from dbus-daemon(1) (max_message_unix_fds,
   pending_fd_timeout).  Declarative and index-/count-based: nothing here mentions loaders, reads,
   or how the bus moves descriptors around; the model (coq/Fds/Fds.v) is compared against these
   predicates in coq/Proofs/FdsMain.v. *)
From DV Require Import Lib.Base.
Local Open Scope N_scope.

Definition occ (l : list N) (f : N) : nat := count_occ N.eq_dec l f.

(* (1) ownership.  Every descriptor the process received is, counted with multiplicity, in exactly one
   of three places: closed after the message carrying it was handed to a recipient, closed without
   delivery, or still held. *)
Definition conserved (received delivered dropped held : list N) : Prop :=
  forall f, occ received f = (occ delivered f + occ dropped f + occ held f)%nat.

(* a descriptor has been closed exactly once and is not held, or is held once and was never closed *)
Definition settled_once (closed held : list N) (f : N) : Prop :=
  (occ closed f = 1 /\ occ held f = 0)%nat \/ (occ closed f = 0 /\ occ held f = 1)%nat.

(* (2) surplus descriptors stay with their connection, bounded in number and in time *)
Definition within_limits (maxfds timeout now : N) (pending : list N) (armed : option N) : Prop :=
  nlen pending <= maxfds /\
  (pending <> [] -> exists t, armed = Some t /\ t <= now /\ now < t + timeout).

(* (3) first-in first-out attachment.  stream: the descriptors a connection's transport took in, in
   order; msgs: its messages in order, each with the announced count and the descriptors it was
   given.  The i-th descriptor of the k-th message is the one at position (sum of the counts announced
   by the earlier messages) + i of the stream, and there are exactly as many as announced. *)
Definition sum_before (counts : list N) (k : nat) : N := fold_right N.add 0 (firstn k counts).

Definition fifo_ok (stream : list N) (msgs : list (N * list N)) : Prop :=
  forall k n F, nth_error msgs k = Some (n, F) ->
    nlen F = n /\
    forall i, (i < length F)%nat ->
      nth_error F i = nth_error stream (N.to_nat (sum_before (map fst msgs) k) + i).

(* (4) negotiation.  received_on: the connection of every descriptor the process took in;
   delivered_to: (recipient, descriptors) of every message written to a recipient. *)
Definition only_negotiated (negotiated : N -> Prop) (received_on : list N) (delivered_to : list (N * list N)) : Prop :=
  (forall c, In c received_on -> negotiated c) /\
  (forall r F, In (r, F) delivered_to -> F <> [] -> negotiated r).
