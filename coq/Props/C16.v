(* C16 — name, path, signature and UTF-8 checks accept exactly the specified
   grammars.  Only theorem statements closed by [exact]; proofs live in
   Proofs/.  See DESIGN.md section 4 (C16). *)
From DV Require Import Spec.Codec Lib.Base Gen.Tables Wire.Names Wire.Utf8 Wire.Sig Spec.NamesSpec Spec.Utf8Spec Spec.SigSpec Proofs.NamesProofs Proofs.Utf8Proofs Proofs.SigRoundtrip Proofs.SigAutomaton.
From Coq Require Import ZArith.
Local Open Scope N_scope.

Theorem C16_interface : forall s, validate_interface s = spec_interface s.
Proof. exact interface_correct. Qed.
Print Assumptions C16_interface.

Theorem C16_error_name : forall s, validate_error_name s = spec_error_name s.
Proof. exact error_name_correct. Qed.
Print Assumptions C16_error_name.

Theorem C16_member : forall s, validate_member s = spec_member s.
Proof. exact member_correct. Qed.
Print Assumptions C16_member.

Theorem C16_path : forall s, validate_path s = spec_path s.
Proof. exact path_correct. Qed.
Print Assumptions C16_path.

(* well-known names (anything not starting with ':') *)
Theorem C16_bus_name_wellknown :
  forall s, (match s with 58 :: _ => False | _ => True end) -> validate_bus_name s = spec_bus_name s.
Proof. exact wellknown_correct. Qed.
Print Assumptions C16_bus_name_wellknown.

(* The full statement for bus names, which the faithful model does NOT meet (F2). *)
Definition C16_bus_name_full_statement : Prop := forall s, validate_bus_name s = spec_bus_name s.

(* proved part for unique names: everything the specification accepts is accepted ... *)
Theorem C16_bus_name_unique_partial : forall s, spec_unique s = true -> validate_bus_name s = true.
Proof. exact unique_spec_implies_model. Qed.
Print Assumptions C16_bus_name_unique_partial.

(* ... and exactly which superset the code accepts. *)
Theorem C16_bus_name_unique_exact : forall r, validate_bus_name (58 :: r) = unique_as_implemented (58 :: r).
Proof. exact unique_exact. Qed.
Print Assumptions C16_bus_name_unique_exact.

(* refutation witness: ":" is accepted by the model of the code, rejected by the spec *)
Theorem C16_bus_name_refuted : exists s, validate_bus_name s <> spec_bus_name s.
Proof. exists [58]. vm_compute. discriminate. Qed.
Print Assumptions C16_bus_name_refuted.

Theorem C16_bus_namespace : forall s, (match s with 58 :: _ => False | _ => True end) ->
  validate_bus_namespace s = spec_bus_namespace_wellknown s && negb (match s with [] => true | _ => false end).
Proof. exact bus_namespace_correct. Qed.
Print Assumptions C16_bus_namespace.

(* UTF-8: the model of _dbus_string_validate_utf8 (tables generated from the C
   macros) terminates without fault and accepts exactly Unicode Table 3-7
   without NUL, for every string of bytes *)
Theorem C16_utf8 : forall s, all_bytes s = true -> validate_utf8 s = Some (spec_utf8 s).
Proof. exact utf8_correct. Qed.
Print Assumptions C16_utf8.

(* Signatures.  Full statement (model = grammar with the 32/32 nesting limits for
   EVERY byte string), NOT met by the faithful model (F11): the C automaton counts
   array nesting only over consecutive 'a' codes. *)
Definition C16_signature_full_statement : Prop := forall s, validate_signature s = spec_signature s.

(* What holds: the automaton model accepts exactly the strings of the grammar
   (sequences of single complete types, length <= 255, struct nesting <= 32) --
   whatever it accepts parses, and everything the specification accepts it accepts --
   and the two verdicts are EQUAL on every string whose array nesting respects the
   specification's limit.  F11 is the only way they can differ. *)
Theorem C16_signature : forall s,
  (forall ts, parse_sig s = Some ts -> Forall (fun t => array_nest t <= 32) ts) ->
  validate_signature s = spec_signature s.
Proof. exact signature_model_eq_spec. Qed.
Print Assumptions C16_signature.

Theorem C16_signature_accepts_only_grammar : forall s, validate_signature s = true ->
  exists ts, parse_sig s = Some ts /\ forallb ty_okb ts = true.
Proof. exact validate_signature_sound. Qed.
Print Assumptions C16_signature_accepts_only_grammar.

Theorem C16_signature_accepts_all_spec : forall s, spec_signature s = true -> validate_signature s = true.
Proof. exact spec_signature_validate. Qed.
Print Assumptions C16_signature_accepts_all_spec.

(* printer and parser of the grammar are inverse on well-formed types *)
Theorem C16_signature_print_parse : forall t, ty_okb t = true -> parse_sig (print_ty t) = Some [t].
Proof. exact parse_sig_print. Qed.
Print Assumptions C16_signature_print_parse.

Definition f11_witness : bytes :=
  flat_map (fun _ => [97; 40]) (seq 0 32) ++ [97; 105] ++ repeat 41 32.   (* "a(" x32 "ai" ")" x32 : 33 nested arrays *)
Theorem C16_signature_refuted : exists s, validate_signature s <> spec_signature s.
Proof. exists f11_witness. vm_compute. discriminate. Qed.
Print Assumptions C16_signature_refuted.

(* non-vacuity: concrete non-trivial strings on both sides of each predicate *)
Example ex_iface_ok : validate_interface [111;114;103;46;102;95;48] = true. Proof. reflexivity. Qed.
Example ex_iface_bad : validate_interface [111;114;103;46;48] = false. Proof. reflexivity. Qed.
Example ex_path_ok : validate_path [47;97;47;98;95] = true. Proof. reflexivity. Qed.
Example ex_path_bad : validate_path [47;97;47] = false. Proof. reflexivity. Qed.
Example ex_unique_ok : spec_unique [58;49;46;52;50] = true. Proof. reflexivity. Qed.
Example ex_utf8_ok : validate_utf8 [226; 130; 172; 65] = Some true. Proof. reflexivity. Qed.     (* U+20AC 'A' *)
Example ex_utf8_overlong : validate_utf8 [192; 175] = Some false. Proof. reflexivity. Qed.
Example ex_utf8_surrogate : validate_utf8 [237; 160; 128] = Some false. Proof. reflexivity. Qed.
