(* C17 — every call awaiting a reply completes exactly once.  Only theorem
   statements closed by [exact]; proofs live in Proofs/Pending*.v; the
   vocabulary ([trace], [at_most_once], [paired], ...) is Spec/PendingSpec.v.
   Every theorem is for every counter value b the connection may have reached
   before the history starts ([valid_base b]: any non-zero 32-bit value; the
   lookup key of a call is its full unsigned 32-bit serial).
   [trace_at b h] is the trace of ANY interleaving h of events (threads included,
   completion and notification being separate events); [trace1_at] is
   single-threaded use. *)
From Coq Require Import List NArith ZArith Bool Arith Lia.
Import ListNotations.
From DV Require Import PendingCall.Pending PendingCall.BlockTime PendingCall.Threads Spec.PendingSpec Proofs.PendingSerial Proofs.PendingLemmas Proofs.PendingRel Proofs.PendingCancel Proofs.PendingFault Proofs.PendingLive Proofs.PendingBlock Proofs.PendingNoFault Proofs.PendingTime Proofs.PendingThreads Proofs.PendingRefute Proofs.PendingTie.
Local Open Scope N_scope.

(* the reply slot of every call is assigned at most once and its notify function runs at most once, in every history *)
Theorem C17_at_most_once : forall b h, valid_base b -> at_most_once (trace_at b h).
Proof. exact at_most_once_all. Qed.
Print Assumptions C17_at_most_once.

(* whatever completes call i carries call i's serial; until the counter wraps no other call has that serial *)
Theorem C17_pairing : forall b h, valid_base b -> nowrap_at b h -> paired (trace_at b h) /\ unshared (trace_at b h).
Proof. exact pairing_all. Qed.
Print Assumptions C17_pairing.

(* serials handed out are non-zero and pairwise distinct as long as at most 2^32-1 were handed out *)
Theorem C17_serials : forall b h, valid_base b -> N.of_nat (length (drawn (trace_at b h))) <= two32 - 1 -> serials_ok (trace_at b h).
Proof. exact serials_all. Qed.
Print Assumptions C17_serials.

(* the counter itself: _dbus_connection_get_next_client_serial follows 1 + k mod (2^32-1), for ever *)
Theorem C17_serial_sequence : forall k, snd (next_serial (spec_serial k)) = spec_serial (k + 1).
Proof. exact next_serial_spec. Qed.
Print Assumptions C17_serial_sequence.
Theorem C17_serial_nonzero : forall k, spec_serial k <> 0.
Proof. exact spec_serial_nonzero. Qed.
Print Assumptions C17_serial_nonzero.
(* the model's counter is the C function: checked on the table produced by compiling and running the C text *)
Theorem C17_serial_tie :
  forallb (fun '(c, (s, c')) => let '(s1, c1) := next_serial c in (s1 =? s) && (c1 =? c')) Gen.PendingTables.next_serial_samples = true
  /\ serial init = Gen.PendingTables.initial_client_serial.
Proof. exact (conj tie_next_serial tie_initial_serial). Qed.
Print Assumptions C17_serial_tie.
(* ... and the bound in C17_serials is sharp: the 2^32-th serial repeats the first *)
Theorem C17_serial_wraps : spec_serial (two32 - 1) = spec_serial 0.
Proof. exact spec_serial_wraps. Qed.
Print Assumptions C17_serial_wraps.

(* "A cancelled call is never notified": full statement (Spec.PendingSpec.C17_cancel_silent_full_statement),
   which the faithful model does NOT meet; the part that holds: nobody blocks on the call after the cancel *)
Theorem C17_cancel_silent_partial : forall b h1 h2 i,
  valid_base b ->
  (i < length (call_serials (trace_at b h1)))%nat -> count_complete i (trace_at b h1) = 0%nat -> no_block_on i h2 ->
  let tr2 := snd (run (fst (run (init_at b) (h1 ++ [ECancel i]))) h2) in
  count_complete i tr2 = 0%nat /\ count_notify i tr2 = 0%nat.
Proof. exact cancel_silent_partial. Qed.
Print Assumptions C17_cancel_silent_partial.

Theorem C17_cancel_silent_refuted : ~ C17_cancel_silent_full_statement.
Proof. exact cancel_silent_refuted. Qed.
Print Assumptions C17_cancel_silent_refuted.

(* no schedule crashes the library: full statement Spec.PendingSpec.C17_no_fault_full_statement, refuted below
   (NULL timeout_link, fault 1); what holds: none of the C assertions in the completion path (reply slot empty,
   reply serial matches, not yet completed: faults 2-4) can ever fail, in any history *)
Theorem C17_fault_only_null_link : forall b h, fault (fst (run (init_at b) h)) = 0 \/ fault (fst (run (init_at b) h)) = 1.
Proof. exact fault_only_null_link. Qed.
Print Assumptions C17_fault_only_null_link.

(* ... and the NULL timeout_link itself is unreachable as long as no thread waits (EBlock, EBlockCheck, EBlockStep)
   for a call after that call has been cancelled ([well_behaved]: at each wait the call's cancelled flag is down) *)
Theorem C17_no_fault_partial : forall b h, valid_base b -> nowrap_at b h -> well_behaved (init_at b) h -> fault (fst (run (init_at b) h)) = 0.
Proof. exact no_fault_partial. Qed.
Print Assumptions C17_no_fault_partial.

Theorem C17_no_fault_refuted : ~ C17_no_fault_full_statement.
Proof. exact no_fault_refuted. Qed.
Print Assumptions C17_no_fault_refuted.

(* a closed connection completes the outstanding calls: refuted *)
Theorem C17_close_completes_refuted : ~ C17_close_completes_full_statement.
Proof. exact close_completes_refuted. Qed.
Print Assumptions C17_close_completes_refuted.

(* "completes exactly once", progress half, single-threaded use.  Full statement for the closed connection:
   Spec.PendingSpec.C17_close_completes_full_statement (refuted above).  What holds:
   a call that is still awaited while a message with its serial is queued is completed exactly once and
   notified exactly once by dispatching the queue; ... *)
Theorem C17_queued_reply_completes_once : forall b h i c,
  valid_base b ->
  let st := fst (run1 (init_at b) h) in
  fault st = 0 -> nowrap1_at b h ->
  nth_error (calls st) i = Some c -> c_intable c = true -> (exists m, In m (queue st) /\ m_rs m = c_serial c) ->
  let tr := trace1_at b (h ++ repeat EDispatch (length (queue st))) in
  count_complete i tr = 1%nat /\ count_notify i tr = b2n (c_hasnotify c).
Proof. exact queued_reply_completes_once. Qed.
Print Assumptions C17_queued_reply_completes_once.

(* ... and a timeout that fires while registered leads to exactly one completion (with the local error) *)
Theorem C17_timeout_completes_once : forall b h i c,
  valid_base b ->
  let st := fst (run1 (init_at b) h) in
  fault st = 0 -> nowrap1_at b (h ++ [EFire i]) -> nth_error (calls st) i = Some c -> c_tadded c = true ->
  let st1 := fst (run1 (init_at b) (h ++ [EFire i])) in
  let tr := trace1_at b ((h ++ [EFire i]) ++ repeat EDispatch (length (queue st1))) in
  count_complete i tr = 1%nat /\ count_notify i tr = b2n (c_hasnotify c).
Proof. exact timeout_completes_once. Qed.
Print Assumptions C17_timeout_completes_once.

(* ... and a blocking wait that returns (does not sleep for ever on a call without timeout, does not hit F17.3)
   has completed the call it waited for: exactly once over the whole trace, also after the connection closed *)
Theorem C17_block_completes_once : forall b h i k,
  valid_base b ->
  let st := fst (run1 (init_at b) h) in
  fault st = 0 -> nth_error (cores st) i = Some k ->
  returned (snd (step1 st (EBlock i))) -> fault (fst (step1 st (EBlock i))) = 0 ->
  let tr := trace1_at b (h ++ [EBlock i]) in
  count_complete i tr = 1%nat /\ count_notify i tr = b2n (k_hasnotify k).
Proof. exact block_completes_once. Qed.
Print Assumptions C17_block_completes_once.

(* ---- the blocking wait with the clock explicit (PendingCall/BlockTime.v) ---- *)
(* elapsed_milliseconds as the C code computes it is the true number of whole milliseconds, or one more
   (integer division truncates towards zero when the microsecond field went down) *)
Theorem C17_elapsed_bounds : forall s n, ((us_of n - us_of s) / 1000 <= elapsed_ms s n <= (us_of n - us_of s) / 1000 + 1)%Z.
Proof. exact elapsed_bounds. Qed.
Print Assumptions C17_elapsed_bounds.
(* the wait stops as soon as a reading shows the timeout expired ... *)
Theorem C17_give_up_complete : forall s n ms, expired s n ms -> give_up s n ms = true.
Proof. exact give_up_complete. Qed.
Print Assumptions C17_give_up_complete.
(* ... "never before": full statement Spec.PendingSpec.C17_timeout_not_early_full_statement, refuted below for a monotonic clock (F17.4a);
   what holds: if the seconds did not go down, all but the last millisecond of the timeout has passed, and with no
   borrow from the seconds the decision is exact *)
Theorem C17_give_up_sound_partial : forall s n ms,
  (tv_sec s <= tv_sec n)%Z -> give_up s n ms = true -> (us_of n - us_of s >= (ms - 1) * 1000)%Z.
Proof. exact give_up_sound_partial. Qed.
Print Assumptions C17_give_up_sound_partial.
Theorem C17_give_up_exact : forall s n ms,
  (tv_sec s <= tv_sec n)%Z -> (tv_usec s <= tv_usec n)%Z -> (give_up s n ms = true <-> expired s n ms).
Proof. exact give_up_exact. Qed.
Print Assumptions C17_give_up_exact.
Theorem C17_timeout_not_early_refuted_rounding : ~ C17_timeout_not_early_full_statement.
Proof. exact timeout_not_early_refuted_rounding. Qed.
Print Assumptions C17_timeout_not_early_refuted_rounding.
(* the "clock set backward" branch (code only: a monotonic clock never reaches it, second theorem) *)
Theorem C17_clock_backward_branch : forall s n ms, (tv_sec n < tv_sec s)%Z -> give_up s n ms = true.
Proof. exact clock_backward_branch. Qed.
Print Assumptions C17_clock_backward_branch.
Theorem C17_monotonic_never_backward : forall s n, normal s -> normal n -> (us_of s <= us_of n)%Z -> (tv_sec n <? tv_sec s)%Z = false.
Proof. exact monotonic_never_backward. Qed.
Print Assumptions C17_monotonic_never_backward.

(* a pass of the recheck loop whose reading says "not expired" never makes up a timeout error: what it completes the
   call with was in the incoming queue, or is the Disconnected error of a dead transport (any reachable state) *)
Theorem C17_no_early_timeout : forall b h i st' o j m,
  let st := fst (run (init_at b) h) in
  step st (EBlockStep i false) = (st', o) -> In (OComplete j m) o ->
  j = i /\ (In m (queue (u_status st)) \/ (connected (u_status st) = false /\ m_kind m = KDisconnected)).
Proof. exact no_early_timeout. Qed.
Print Assumptions C17_no_early_timeout.

(* the order of the tests in recheck_status: the incoming queue first, the connection state second.  Whatever a pass
   completes the call with is the first queued message carrying its serial if there is one; only when there is none can it
   be the Disconnected error or the call's own timeout error (any state, any pass) *)
Theorem C17_reply_first : forall st i g st' o j m,
  step st (EBlockStep i g) = (st', o) -> In (OComplete j m) o ->
  j = i /\ exists c, nth_error (calls (u_status st)) i = Some c /\
    match find_reply (queue (u_status st)) (c_serial c) with
    | Some (x, _) => m = x
    | None => m = disconnected_err (c_serial c) \/ m = noreply (c_serial c)
    end.
Proof. exact reply_first. Qed.
Print Assumptions C17_reply_first.

(* the timed wait is an interleaving of model events, so every [run] theorem covers it; e.g. at most once: *)
Theorem C17_timed_block_is_run : forall st i arg clocks arrivals, is_run st (block_timed st i arg clocks arrivals).
Proof. exact block_timed_run. Qed.
Print Assumptions C17_timed_block_is_run.
Theorem C17_timed_block_at_most_once : forall b h i arg clocks arrivals, valid_base b ->
  at_most_once (trace_at b h ++ t_obs (block_timed (fst (run (init_at b) h)) i arg clocks arrivals)).
Proof. exact timed_block_at_most_once. Qed.
Print Assumptions C17_timed_block_at_most_once.

(* the timeout object: registered only while the call is in the table, not completed, not cancelled and owns its
   timeout_link; gone once the call is completed -- in every reachable state *)
Theorem C17_timeout_lifecycle : forall b h, valid_base b ->
  Forall (fun c => (c_tadded c = true -> c_intable c = true /\ c_completed c = false /\ c_cancelled c = false /\ c_link c = true) /\
                   (c_completed c = true -> c_intable c = false /\ c_tadded c = false))
         (calls (fst (run (init_at b) h))).
Proof. exact timeout_lifecycle. Qed.
Print Assumptions C17_timeout_lifecycle.

(* ---- several threads blocking on calls of one connection: the I/O-path hand-over (PendingCall/Threads.v) ---- *)
(* For every number of threads, every interleaving of their steps (each thread holds the connection lock between two
   release points: waiting for the I/O path, sleeping in poll, before its notify function), poll wake-ups and timeouts,
   peer writes and other threads' non-reading entry points: no thread is ever asleep in poll() while a message carrying
   its call's serial is in the incoming queue -- a reply that has been read is never slept on. *)
Theorem C17_no_lost_wakeup : no_lost_wakeup_statement true.
Proof. exact no_lost_wakeup. Qed.
Print Assumptions C17_no_lost_wakeup.
(* ... the I/O path has at most one owner ... *)
Theorem C17_io_path_exclusive : forall st targets sched, calls_ok st -> forallb step_ok sched = true ->
  let ts := fst (trun true (tinit st targets) sched) in
  forall j k tj tk, nth_error (ts_threads ts) j = Some tj -> nth_error (ts_threads ts) k = Some tk ->
                    holder tj = true -> holder tk = true -> j = k.
Proof. exact io_path_exclusive. Qed.
Print Assumptions C17_io_path_exclusive.
(* ... and a thread that obtains the I/O path while a reply for its call is queued completes the call in its next two
   steps, with that reply, without polling *)
Theorem C17_handover_completes : forall ts k th c m q',
  tinv ts -> fault (ts_base ts) = 0 -> nth_error (ts_threads ts) k = Some th -> th_pc th = PHaveIo ->
  nth_error (calls (ts_base ts)) (th_call th) = Some c -> c_completed c = false ->
  find_reply (queue (ts_base ts)) (c_serial c) = Some (m, q') ->
  let '(ts2, o) := trun true ts [TRun k; TRun k] in
  pc_of ts2 k = PNotify /\ o = [TObs k (OComplete (th_call th) m)] /\
  exists c2, nth_error (calls (ts_base ts2)) (th_call th) = Some c2 /\ c_completed c2 = true /\ c_reply c2 = Some m.
Proof. exact handover_completes. Qed.
Print Assumptions C17_handover_completes.
(* the same statement with the checks of do_iteration made BEFORE acquiring the I/O path (the order of seeded defect
   C17_3) is false: the order of the C code is what makes C17_no_lost_wakeup true *)
Theorem C17_check_before_acquire_refuted : ~ no_lost_wakeup_statement false.
Proof. exact seeded_order_refuted. Qed.
Print Assumptions C17_check_before_acquire_refuted.

(* ---- non-vacuity: the hypotheses above are satisfiable, the conclusions are about real completions ---- *)
Definition ex_h : list event := [ESend true true; EPlain; ESend false true; EPeerReply PReturn 1 7; EPeerReply PError 0 8; ERead].
Example ex_nowrap : nowrap1 ex_h. Proof. vm_compute. reflexivity. Qed.
Example ex_queued : let st := fst (run1 init ex_h) in
  fault st = 0 /\ exists c, nth_error (calls st) 1 = Some c /\ c_intable c = true /\ c_serial c = 3 /\ exists m, In m (queue st) /\ m_rs m = 3.
Proof. vm_compute. split; [reflexivity|]. eexists. split; [reflexivity|]. split; [reflexivity|]. split; [reflexivity|]. eexists. split; [left; reflexivity|reflexivity]. Qed.
Example ex_completed_trace : trace1 (ex_h ++ [EDispatch; EDispatch]) =
  [OSent (Some 1); OPlain 2; OSent (Some 3); OComplete 1 (mkMsg (KPeer PReturn) 3 7); ODispatch true; ONotify 1;
   OComplete 0 (mkMsg (KPeer PError) 1 8); ODispatch false; ONotify 0].
Proof. vm_compute. reflexivity. Qed.
Example ex_timeout : let st := fst (run1 init [ESend true true]) in exists c, nth_error (calls st) 0 = Some c /\ c_tadded c = true.
Proof. vm_compute. eexists. split; reflexivity. Qed.
Example ex_cancel_hyp : (0 < length (call_serials (trace [ESend true true])))%nat /\ count_complete 0 (trace [ESend true true]) = 0%nat
  /\ no_block_on 0 [EPeerReply PReturn 0 1; ERead; EDispatch].
Proof. vm_compute. repeat split; auto. Qed.
Example ex_cancelled_reply_goes_to_filter :
  snd (run (fst (run init [ESend true true; ECancel 0])) [EPeerReply PReturn 0 1; ERead; EDispatch]) = [OFilter (mkMsg (KPeer PReturn) 1 1); ODispatch false].
Proof. vm_compute. reflexivity. Qed.
Example ex_threads_notify_after_other_events :
  trace [ESend true true; EPeerReply PReturn 0 1; ERead; EDispatch; ESteal 0; EFinish 0; EFinish 0] =
  [OSent (Some 1); OComplete 0 (mkMsg (KPeer PReturn) 1 1); ODispatch false; OStolen (Some (Some (mkMsg (KPeer PReturn) 1 1))); ONotify 0].
Proof. vm_compute. reflexivity. Qed.
Example ex_block_after_close : trace1 [ESend true true; EPeerClose; EBlock 0] =
  [OSent (Some 1); OComplete 0 (mkMsg KNoReply 1 0); ONotify 0].
Proof. vm_compute. reflexivity. Qed.
Example ex_block_returns : let st := fst (run1 init [ESend true true; EPeerClose]) in
  returned (snd (step1 st (EBlock 0))) /\ fault (fst (step1 st (EBlock 0))) = 0.
Proof. vm_compute. split; [split; intros [H|[H|[]]]; discriminate|reflexivity]. Qed.
Example ex_well_behaved : well_behaved init [ESend true true; EFire 0; EBlock 0; ECancel 0; EDispatch] /\ nowrap [ESend true true; EFire 0; EBlock 0; ECancel 0; EDispatch].
Proof. split; [|vm_compute; reflexivity]. simpl. unfold well, not_cancelled. repeat split; intros i Hb; try discriminate.
  simpl in Hb. apply Nat.eqb_eq in Hb. subst i. vm_compute. intros c H. inversion H; reflexivity. Qed.

(* ---- the same histories on a connection whose counter is beyond 2^31, and across the wrap ---- *)
Example ex_valid_high : valid_base 2147483646 /\ valid_base 4294967294. Proof. unfold valid_base, two32. lia. Qed.
Example ex_high_serials : trace1_at 2147483646 [ESend true true; ESend true true; ESend true true; EPeerReply PReturn 2 5; ERead; EDispatch; EFire 1; EDispatch] =
  [OSent (Some 2147483646); OSent (Some 2147483647); OSent (Some 2147483648);
   OComplete 2 (mkMsg (KPeer PReturn) 2147483648 5); ODispatch false; ONotify 2; OFired true;
   OComplete 1 (mkMsg KNoReply 2147483647 0); ODispatch false; ONotify 1].
Proof. vm_compute. reflexivity. Qed.
Example ex_wrap_serials : trace1_at 4294967294 [ESend true true; EPlain; ESend true true; EPeerReply PError 1 9; ERead; EDispatch] =
  [OSent (Some 4294967294); OPlain 4294967295; OSent (Some 1); OComplete 1 (mkMsg (KPeer PError) 1 9); ODispatch false; ONotify 1].
Proof. vm_compute. reflexivity. Qed.

Example ex_elapsed_one_more : elapsed_ms (mkTv 0 999999) (mkTv 1 500) = 1%Z /\ ((us_of (mkTv 1 500) - us_of (mkTv 0 999999)) / 1000 = 0)%Z.
Proof. vm_compute. split; reflexivity. Qed.
Example ex_timed_block : let r := block_timed (fst (run init [ESend true true])) 0 100 [mkTv 5 0; mkTv 5 30000; mkTv 5 60000]
                                   [[PM PSignal (inr 0) 1]; []; [PM PReturn (inl 0%nat) 2]] in
  t_polls r = [100; 70; 40]%Z /\ t_out r = Returned /\ t_obs r = [OComplete 0 (mkMsg (KPeer PReturn) 1 2); ONotify 0].
Proof. vm_compute. repeat split; reflexivity. Qed.
Example ex_timed_block_gives_up : let r := block_timed (fst (run init [ESend true true])) 0 5 [mkTv 10 0; mkTv 10 4999; mkTv 10 5000] [] in
  t_polls r = [5; 1]%Z /\ t_obs r = [OComplete 0 (mkMsg KNoReply 1 0); ONotify 0].
Proof. vm_compute. repeat split; reflexivity. Qed.
Example ex_two_threads_handover :
  let '(ts, o) := two_threads true w_two_calls 0 1 [PM PReturn (inl 0%nat) 1; PM PReturn (inl 1%nat) 2] in
  filter (fun x => match x with TPoll _ | TSleep _ => true | _ => false end) o = [TPoll 0] /\
  map th_pc (ts_threads ts) = [PDone; PDone] /\ map c_completed (calls (ts_base ts)) = [true; true].
Proof. exact faithful_handover. Qed.
Example ex_reply_and_eof_in_one_read :
  let r := block_timed (fst (run init [ESend false true])) 0 2147483647 [mkTv 5 0; mkTv 6 0] [[PM PReturn (inl 0%nat) 1; PClose]] in
  t_obs r = [OComplete 0 (mkMsg (KPeer PReturn) 1 1); ONotify 0] /\ connected (t_state r) = false.
Proof. vm_compute. split; reflexivity. Qed.
