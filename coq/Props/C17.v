(* C17 — every call awaiting a reply completes exactly once (placeholder while the proofs are being written). *)
From DV Require Import PendingCall.Pending.
