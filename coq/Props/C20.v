(* C20 — object-path handlers are chosen by exact path, then nearest fallback.
   Only theorem statements closed by [exact]; proofs live in Proofs/Objtree*.v.

   [run ops]   = the model of dbus-object-tree.c after the history [ops] on a fresh connection
   [s_run ops] = the flat map  path |-> (handler, is_fallback)  of the specification
   Every statement is for ALL histories of register / register-fallback /
   unregister and ALL called paths; each also says that the model neither
   faults (array index out of range) nor runs out of fuel. *)
From DV Require Import Lib.Base ObjTree.ObjTree ObjTree.Dispatch Spec.ObjtreeSpec Spec.ObjtreeSpecDispatch
  Proofs.ObjtreeOrder Proofs.ObjtreeProofs Proofs.ObjtreeOracle Proofs.ObjtreeSim Proofs.ObjtreeDispatch
  Proofs.ObjtreeDispatchSpec Proofs.ObjtreeMisc Proofs.ObjtreeCount ObjTree.Decompose Spec.NamesSpec Proofs.ObjtreeDecompose.
From Coq Require Import Sorted.

(* (1) offered first to the exact handler, then to the fallbacks of successively
   shorter ancestors, stopping at the first that declares it handled *)
Theorem C20_order : forall ops p accepts,
  exists t invoked out, run ops = Ok t /\ tree_dispatch t p accepts = Ok (invoked, out) /\
    s_invocation (s_offered (s_run ops) p) accepts invoked (is_handled out).
Proof. exact order_correct. Qed.
Print Assumptions C20_order.

(* (2) registering an occupied path fails without changing anything (the whole
   tree, flags included, is identical) *)
Theorem C20_register_occupied_noop : forall ops fb p h,
  s_registered (s_run ops) p ->
  exists t, run ops = Ok t /\ step t (Register fb p h) = Ok (t, false).
Proof. exact register_occupied_noop. Qed.
Print Assumptions C20_register_occupied_noop.

Theorem C20_register_free_succeeds : forall ops fb p h,
  ~ s_registered (s_run ops) p ->
  exists t t', run ops = Ok t /\ step t (Register fb p h) = Ok (t', true).
Proof. exact register_free_ok. Qed.
Print Assumptions C20_register_free_succeeds.

(* (3) the child listing reflects exactly the registered tree: strictly sorted
   (so duplicate-free), and e is listed below p iff some registered path
   starts with p/e *)
Theorem C20_children : forall ops p,
  exists t l, run ops = Ok t /\ list_registered t p = Ok l /\ StronglySorted blt l /\
    forall e, In e l <-> s_child (s_run ops) p e.
Proof. exact children_correct. Qed.
Print Assumptions C20_children.

(* (4) trie invariant for all histories: children sorted by strcmp (hence unique)
   at every node, no childless unregistered non-root node *)
Theorem C20_tree_invariant : forall ops, exists t, run ops = Ok t /\ wf t.
Proof. exact tree_invariant. Qed.
Print Assumptions C20_tree_invariant.

(* every step of every history refines the flat map, return values included *)
Theorem C20_refinement : forall ops o,
  exists t t' b, run ops = Ok t /\ step t o = Ok (t', b) /\ b = snd (s_step (s_run ops) o) /\
    forall q, amap t' q = s_lookup (fst (s_step (s_run ops) o)) q.
Proof. exact refinement_step. Qed.
Print Assumptions C20_refinement.

(* (5) error choice.  The full statement, which the faithful model does NOT meet (F12): *)
Definition C20_error_full_statement : Prop := forall ops p accepts,
  exists t invoked out, run ops = Ok t /\ tree_dispatch t p accepts = Ok (invoked, out) /\
    (is_handled out = false -> s_error (s_run ops) p out).

(* proved part: whenever the property demands UnknownMethod (registered path,
   ancestor of one, below a fallback registration) UnknownObject is not sent ... *)
Theorem C20_error_partial : forall ops p accepts,
  s_known_object (s_run ops) p ->
  exists t invoked out, run ops = Ok t /\ tree_dispatch t p accepts = Ok (invoked, out) /\ out <> UnknownObject.
Proof. exact error_method_sound. Qed.
Print Assumptions C20_error_partial.

(* ... and the exception, spelled out: as long as no NON-fallback handler has ever
   been registered at "/", UnknownObject is never sent for any path at all *)
Theorem C20_error_root_fallback : forall ops p accepts,
  forallb (fun o => negb (root_exact_registration o)) ops = true ->
  exists t invoked out, run ops = Ok t /\ tree_dispatch t p accepts = Ok (invoked, out) /\ out <> UnknownObject.
Proof. exact error_root_fallback. Qed.
Print Assumptions C20_error_root_fallback.

(* refutation witness: nothing registered, call to /nope: the property demands
   UnknownObject, the code (model) sends UnknownMethod.  Replayed on the real
   connection by the check: corpus line "c c:/nope:-". *)
Theorem C20_error_refuted : ~ C20_error_full_statement.
Proof. exact error_refuted. Qed.
Print Assumptions C20_error_refuted.

(* (6) the executable specification oracle evaluated by the correspondence run
   (s_children, s_dispatch, s_known_object_b) is tied to the statements above:
   the model's child listing EQUALS the oracle's, the invoked handlers equal the
   oracle's, and the outcome differs from the oracle's only in the F12 direction
   (UnknownMethod where the oracle says UnknownObject) *)
Theorem C20_children_oracle : forall ops p,
  exists t, run ops = Ok t /\ list_registered t p = Ok (s_children (s_run ops) p).
Proof. exact children_oracle. Qed.
Print Assumptions C20_children_oracle.

Theorem C20_dispatch_oracle : forall ops p accepts,
  exists t inv out, run ops = Ok t /\ tree_dispatch t p accepts = Ok (inv, out) /\
    inv = fst (s_dispatch (s_run ops) p accepts) /\
    (out = snd (s_dispatch (s_run ops) p accepts) \/
     (out = UnknownMethod /\ snd (s_dispatch (s_run ops) p accepts) = UnknownObject)).
Proof. exact dispatch_oracle. Qed.
Print Assumptions C20_dispatch_oracle.

Theorem C20_known_object_oracle : forall s p, s_known_object_b s p = true <-> s_known_object s p.
Proof. exact known_object_b_correct. Qed.
Print Assumptions C20_known_object_oracle.

(* the stale-flag variant of the same defect: after register-fallback /a,
   register /a/b, unregister /a, a call to /a/x still counts as a known object
   even on a connection whose root lost its flag *)
Example ex_stale_flag :
  let a := [97%N] in let b := [98%N] in let x := [120%N] in
  let ops := [Register false [] 1%N; Register true [a] 2%N; Register false [a; b] 3%N; Unregister [a]] in
  (exists t, run ops = Ok t /\ tree_dispatch t [a; x] (fun _ => false) = Ok ([], UnknownMethod)) /\
  s_lookup (s_run ops) [a] = None.
Proof. split; [eexists; split; vm_compute; reflexivity | reflexivity]. Qed.

(* non-vacuity *)
Example ex_order :
  let a := [97%N] in let b := [98%N] in let c := [99%N] in
  exists t, run [Register true [a] 1%N; Register false [a; b] 2%N; Register true [] 3%N; Register true [a; b; c] 4%N;
                 Unregister [a; b; c]] = Ok t /\
    tree_dispatch t [a; b] (fun _ => false) = Ok ([2; 1; 3]%N, UnknownMethod) /\
    tree_dispatch t [a; b; c] (fun h => N.eqb h 1) = Ok ([1]%N, Handled) /\
    list_registered t [a] = Ok [b] /\ list_registered t [a; b] = Ok [].
Proof. eexists; repeat split; vm_compute; reflexivity. Qed.

Example ex_unknown_object :
  exists t, run [Register false [] 1%N] = Ok t /\ tree_dispatch t nope (fun _ => false) = Ok ([], UnknownObject).
Proof. eexists; split; vm_compute; reflexivity. Qed.

Example ex_occupied : s_registered (s_run [Register true [[97%N]] 1%N]) [[97%N]].
Proof. vm_compute. discriminate. Qed.

Example ex_known_object : s_known_object (s_run [Register true [[97%N]] 1%N]) [[97%N]; [98%N]].
Proof. right. exists [[97%N]], [[98%N]], 1%N. split; reflexivity. Qed.

(* =====================================================================================
   Deepening: one message through the whole of dbus_connection_dispatch
   (ObjTree/Dispatch.v: pending call, Peer built-ins, filters, the snapshot of
   referenced subtrees with re-entrant register/unregister from inside callbacks,
   default Introspect, automatic error reply, NEED_MEMORY re-dispatch).
   [dispatch_message] = model of the C code; [s_dispatch_message] = the same
   procedure over the flat registration map, strict about re-entrancy;
   [s_dispatch_message_lax] = without the re-check at invocation time. *)

(* (7) for every history, every filter list, every well-formed message and every script of
   the callbacks (accepting, declining, out of memory once, registering and unregistering
   while the dispatch runs): the code runs the same callbacks in the same order as the lax
   flat-map dispatch, ends in a tree that refines the flat map again, never faults, never
   runs out of fuel, and its reply differs at most by UnknownMethod-for-UnknownObject (F12) *)
Theorem C20_dispatch_refines : forall ops fs m b oom, well_formed m ->
  exists t t' s' log r r',
    run ops = Ok t /\ dispatch_message t fs m b oom = Ok (t', log, r) /\
    s_dispatch_message_lax (s_run ops) fs m b oom = Ok (s', log, r') /\
    refines t' s' /\ reply_rel r r'.
Proof. exact dispatch_after_history. Qed.
Print Assumptions C20_dispatch_refines.

(* (8) the strict statement, which the faithful model does NOT meet (F12b): *)
Definition C20_dispatch_strict_full_statement : Prop := forall ops fs m b oom, well_formed m ->
  exists t t' s' log r r',
    run ops = Ok t /\ dispatch_message t fs m b oom = Ok (t', log, r) /\
    s_dispatch_message (s_run ops) fs m b oom = Ok (s', log, r').

(* proved part: it holds whenever no callback registers a NON-fallback handler during the dispatch *)
Theorem C20_dispatch_strict_partial : forall ops fs m b oom, well_formed m -> fallback_only b ->
  exists t t' s' log r r',
    run ops = Ok t /\ dispatch_message t fs m b oom = Ok (t', log, r) /\
    s_dispatch_message (s_run ops) fs m b oom = Ok (s', log, r') /\ refines t' s' /\ reply_rel r r'.
Proof. exact dispatch_strict_partial. Qed.
Print Assumptions C20_dispatch_strict_partial.

(* witness: fallback 2 at /a, handler 1 at /a/b; during a call to /a/b handler 1 unregisters /a and
   registers the NON-fallback handler 5 there; the code then calls 5 for the message to /a/b.
   Replayed on the real connection: corpus line "c f:/a:2 r:/a/b:1 d:/a/b:-:-:cox:1=u~/a+r~/a~5" *)
Theorem C20_dispatch_strict_refuted : ~ C20_dispatch_strict_full_statement.
Proof. exact strict_refuted. Qed.
Print Assumptions C20_dispatch_strict_refuted.

(* (9) callbacks that leave the registrations alone, no allocation failure, a message with a PATH that
   is neither a reply to a pending call nor on the Peer interface (any type): the callbacks run are
   the filters in the order they were added, then the exact handler, then the fallbacks of shorter and
   shorter ancestors, cut after the first that takes the message; the tree is unchanged; the reply is:
   none needed if somebody took it, else the default Introspect child list (= s_children, cf.
   C20_children) for an Introspect call, else for a method call UnknownMethod / UnknownObject (the latter
   only up to F12), else nothing *)
Theorem C20_dispatch_quiet : forall ops fs m b p,
  quiet b -> m_reply_pending m = false -> peer_filter m = None -> m_path m = Some p ->
  exists t r,
    run ops = Ok t /\
    dispatch_message t fs m b [] = Ok (t, take_until (accepts b) (fs ++ s_offered (s_run ops) p), r) /\
    reply_rel r (quiet_reply b (s_run ops) fs m p).
Proof. exact dispatch_quiet. Qed.
Print Assumptions C20_dispatch_quiet.

(* the error clause as a statement about dbus_connection_dispatch: refuted (F12), the proved part is
   the reply_rel of C20_dispatch_quiet *)
Definition C20_conn_error_full_statement : Prop := forall ops fs m b p,
  quiet b -> m_reply_pending m = false -> peer_filter m = None -> m_path m = Some p ->
  exists t log, run ops = Ok t /\ dispatch_message t fs m b [] = Ok (t, log, quiet_reply b (s_run ops) fs m p).

Theorem C20_conn_error_refuted : ~ C20_conn_error_full_statement.
Proof. exact conn_error_refuted. Qed.
Print Assumptions C20_conn_error_refuted.

(* (10) a message that answers a pending call goes to that call and to nobody else; a message on the
   Peer interface is answered by the library itself and reaches neither filters nor handlers *)
Theorem C20_pending_first : forall t fs m b oom,
  m_reply_pending m = true -> dispatch_message t fs m b oom = Ok (t, [], RepPendingCompleted).
Proof. exact dispatch_pending. Qed.
Print Assumptions C20_pending_first.

Theorem C20_peer_builtin : forall t fs m b oom,
  m_reply_pending m = false -> m_iface m = IfPeer ->
  exists r, dispatch_message t fs m b oom = Ok (t, [], r) /\
    r = (if is_method_call m IfPeer MemPing then RepPeerPing
         else if is_method_call m IfPeer MemGetMachineId then RepPeerMachineId else RepUnknownMethod).
Proof. exact dispatch_peer. Qed.
Print Assumptions C20_peer_builtin.

(* (11) dbus_connection_get_object_path_data: the user data registered at exactly that path *)
Theorem C20_get_user_data : forall ops p,
  exists t, run ops = Ok t /\
    get_user_data t p = Ok (match s_lookup (s_run ops) p with Some (h, _) => Some h | None => None end).
Proof. exact get_user_data_history. Qed.
Print Assumptions C20_get_user_data.

(* (12) when the connection dies the unregister callbacks that run are those of the registered paths *)
Theorem C20_free_all_members : forall ops,
  exists t, run ops = Ok t /\ forall h, In h (free_all t) <-> exists p fb, s_lookup (s_run ops) p = Some (h, fb).
Proof. exact free_all_history. Qed.
Print Assumptions C20_free_all_members.

(* ... and there are exactly as many of them as registered paths: each registered handler's unregister
   function runs exactly once (the order — children from the last to the first, each subtree completely,
   then the node itself — is part of the model and compared with the real code, the specification leaves it open) *)
Theorem C20_free_all_count : forall ops, exists t, run ops = Ok t /\ length (free_all t) = length (s_run ops).
Proof. exact free_all_count. Qed.
Print Assumptions C20_free_all_count.

(* (13) _dbus_decompose_path at byte level: the complete set of its assertion-free runs — a one-byte
   string gives the empty vector (whatever the byte: the public API checks path[0] == '/' before), any
   other string must be '/' e1 '/' e2 ... with non-empty, slash-free elements and no NUL, and the result is
   exactly e1, e2, ...; in particular every string of the object-path grammar (Spec.NamesSpec.spec_path,
   equal to _dbus_validate_path by C16_path) is split into its elements, and flatten_path is its inverse *)
Theorem C20_decompose_spec : forall s cs,
  decompose s = Ok cs <->
  (cs = [] /\ exists c, s = [c]) \/ (cs <> [] /\ Forall good_comp cs /\ s = flatten_elems cs /\ nul_free s).
Proof. exact decompose_spec. Qed.
Print Assumptions C20_decompose_spec.

Theorem C20_decompose_valid_path : forall s, spec_path s = true ->
  decompose s = Ok (path_elements s) /\ flatten (path_elements s) = s /\ Forall good_comp (path_elements s).
Proof. exact decompose_valid_path. Qed.
Print Assumptions C20_decompose_valid_path.

Example ex_decompose : decompose [47; 97; 47; 98; 95]%N = Ok [[97%N]; [98; 95]%N]. Proof. reflexivity. Qed.
Example ex_decompose_trailing : decompose [47; 97; 47]%N = Fault. Proof. reflexivity. Qed.
Example ex_decompose_one_byte : decompose [97%N] = Ok []. Proof. reflexivity. Qed.

(* non-vacuity / behaviour samples of the dispatch model *)
Example ex_requeue :   (* filter 50 and handler 1 each run out of memory once: the message is dispatched three times *)
  exists t, run swap_history = Ok t /\
    dispatch_message t [50%N] (plain_msg [la; lb]) (Behaviour (fun _ => false) (fun _ => [])) [50%N; 1%N]
    = Ok (t, [50; 50; 1; 50; 1; 2]%N, RepUnknownMethod).
Proof. eexists; split; vm_compute; reflexivity. Qed.

Example ex_unregistered_during_dispatch :   (* handler 1 unregisters the fallback that would have come next *)
  exists t t', run swap_history = Ok t /\
    dispatch_message t [] (plain_msg [la; lb])
      (Behaviour (fun _ => false) (fun h => if N.eqb h 1 then [Unregister [la]] else [])) [] = Ok (t', [1%N], RepUnknownMethod).
Proof. eexists; eexists; split; vm_compute; reflexivity. Qed.

Example ex_introspect_after_actions :   (* the child list is taken after the handlers have run *)
  exists t t', run swap_history = Ok t /\
    dispatch_message t [] (Msg MethodCall IfIntrospectable MemIntrospect (Some [la]) false)
      (Behaviour (fun _ => false) (fun h => if N.eqb h 2 then [Register false [la; [99%N]] 7%N] else [])) []
    = Ok (t', [2%N], RepIntrospect [lb; [99%N]]).
Proof. eexists; eexists; split; vm_compute; reflexivity. Qed.

Example ex_peer_signal :   (* even a SIGNAL on the Peer interface is bounced with an UnknownMethod error *)
  dispatch_message tree_new [50%N] (Msg Signal IfPeer MemOther (Some [la]) false) (Behaviour (fun _ => true) (fun _ => [])) []
  = Ok (tree_new, [], RepUnknownMethod).
Proof. vm_compute. reflexivity. Qed.

Example ex_fallback_only : fallback_only (Behaviour (fun _ => false) (fun _ => [Unregister [la]; Register true [la] 9%N])).
Proof. intros h o [<-|[<-|[]]]; reflexivity. Qed.
