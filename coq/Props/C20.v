(* C20 — object-path handlers are chosen by exact path, then nearest fallback.
   Only theorem statements closed by [exact]; proofs live in Proofs/Objtree*.v.

   [run ops]   = the model of dbus-object-tree.c after the history [ops] on a fresh connection
   [s_run ops] = the flat map  path |-> (handler, is_fallback)  of the specification
   Every statement is for ALL histories of register / register-fallback /
   unregister and ALL called paths; each also says that the model neither
   faults (array index out of range) nor runs out of fuel. *)
From DV Require Import Lib.Base ObjTree.ObjTree Spec.ObjtreeSpec Proofs.ObjtreeOrder Proofs.ObjtreeProofs Proofs.ObjtreeOracle.
From Coq Require Import Sorted.

(* (1) offered first to the exact handler, then to the fallbacks of successively
   shorter ancestors, stopping at the first that declares it handled *)
Theorem C20_order : forall ops p accepts,
  exists t invoked out, run ops = Ok t /\ tree_dispatch t p accepts = Ok (invoked, out) /\
    s_invocation (s_offered (s_run ops) p) accepts invoked (is_handled out).
Proof. exact order_correct. Qed.
Print Assumptions C20_order.

(* (2) registering an occupied path fails without changing anything (the whole
   tree, flags included, is identical) *)
Theorem C20_register_occupied_noop : forall ops fb p h,
  s_registered (s_run ops) p ->
  exists t, run ops = Ok t /\ step t (Register fb p h) = Ok (t, false).
Proof. exact register_occupied_noop. Qed.
Print Assumptions C20_register_occupied_noop.

Theorem C20_register_free_succeeds : forall ops fb p h,
  ~ s_registered (s_run ops) p ->
  exists t t', run ops = Ok t /\ step t (Register fb p h) = Ok (t', true).
Proof. exact register_free_ok. Qed.
Print Assumptions C20_register_free_succeeds.

(* (3) the child listing reflects exactly the registered tree: strictly sorted
   (so duplicate-free), and e is listed below p iff some registered path
   starts with p/e *)
Theorem C20_children : forall ops p,
  exists t l, run ops = Ok t /\ list_registered t p = Ok l /\ StronglySorted blt l /\
    forall e, In e l <-> s_child (s_run ops) p e.
Proof. exact children_correct. Qed.
Print Assumptions C20_children.

(* (4) trie invariant for all histories: children sorted by strcmp (hence unique)
   at every node, no childless unregistered non-root node *)
Theorem C20_tree_invariant : forall ops, exists t, run ops = Ok t /\ wf t.
Proof. exact tree_invariant. Qed.
Print Assumptions C20_tree_invariant.

(* every step of every history refines the flat map, return values included *)
Theorem C20_refinement : forall ops o,
  exists t t' b, run ops = Ok t /\ step t o = Ok (t', b) /\ b = snd (s_step (s_run ops) o) /\
    forall q, amap t' q = s_lookup (fst (s_step (s_run ops) o)) q.
Proof. exact refinement_step. Qed.
Print Assumptions C20_refinement.

(* (5) error choice.  The full statement, which the faithful model does NOT meet (F12): *)
Definition C20_error_full_statement : Prop := forall ops p accepts,
  exists t invoked out, run ops = Ok t /\ tree_dispatch t p accepts = Ok (invoked, out) /\
    (is_handled out = false -> s_error (s_run ops) p out).

(* proved part: whenever the property demands UnknownMethod (registered path,
   ancestor of one, below a fallback registration) UnknownObject is not sent ... *)
Theorem C20_error_partial : forall ops p accepts,
  s_known_object (s_run ops) p ->
  exists t invoked out, run ops = Ok t /\ tree_dispatch t p accepts = Ok (invoked, out) /\ out <> UnknownObject.
Proof. exact error_method_sound. Qed.
Print Assumptions C20_error_partial.

(* ... and the exception, spelled out: as long as no NON-fallback handler has ever
   been registered at "/", UnknownObject is never sent for any path at all *)
Theorem C20_error_root_fallback : forall ops p accepts,
  forallb (fun o => negb (root_exact_registration o)) ops = true ->
  exists t invoked out, run ops = Ok t /\ tree_dispatch t p accepts = Ok (invoked, out) /\ out <> UnknownObject.
Proof. exact error_root_fallback. Qed.
Print Assumptions C20_error_root_fallback.

(* refutation witness: nothing registered, call to /nope: the property demands
   UnknownObject, the code (model) sends UnknownMethod.  Replayed on the real
   connection by the check: corpus line "c c:/nope:-". *)
Theorem C20_error_refuted : ~ C20_error_full_statement.
Proof. exact error_refuted. Qed.
Print Assumptions C20_error_refuted.

(* (6) the executable specification oracle evaluated by the correspondence run
   (s_children, s_dispatch, s_known_object_b) is tied to the statements above:
   the model's child listing EQUALS the oracle's, the invoked handlers equal the
   oracle's, and the outcome differs from the oracle's only in the F12 direction
   (UnknownMethod where the oracle says UnknownObject) *)
Theorem C20_children_oracle : forall ops p,
  exists t, run ops = Ok t /\ list_registered t p = Ok (s_children (s_run ops) p).
Proof. exact children_oracle. Qed.
Print Assumptions C20_children_oracle.

Theorem C20_dispatch_oracle : forall ops p accepts,
  exists t inv out, run ops = Ok t /\ tree_dispatch t p accepts = Ok (inv, out) /\
    inv = fst (s_dispatch (s_run ops) p accepts) /\
    (out = snd (s_dispatch (s_run ops) p accepts) \/
     (out = UnknownMethod /\ snd (s_dispatch (s_run ops) p accepts) = UnknownObject)).
Proof. exact dispatch_oracle. Qed.
Print Assumptions C20_dispatch_oracle.

Theorem C20_known_object_oracle : forall s p, s_known_object_b s p = true <-> s_known_object s p.
Proof. exact known_object_b_correct. Qed.
Print Assumptions C20_known_object_oracle.

(* the stale-flag variant of the same defect: after register-fallback /a,
   register /a/b, unregister /a, a call to /a/x still counts as a known object
   even on a connection whose root lost its flag *)
Example ex_stale_flag :
  let a := [97%N] in let b := [98%N] in let x := [120%N] in
  let ops := [Register false [] 1%N; Register true [a] 2%N; Register false [a; b] 3%N; Unregister [a]] in
  (exists t, run ops = Ok t /\ tree_dispatch t [a; x] (fun _ => false) = Ok ([], UnknownMethod)) /\
  s_lookup (s_run ops) [a] = None.
Proof. split; [eexists; split; vm_compute; reflexivity | reflexivity]. Qed.

(* non-vacuity *)
Example ex_order :
  let a := [97%N] in let b := [98%N] in let c := [99%N] in
  exists t, run [Register true [a] 1%N; Register false [a; b] 2%N; Register true [] 3%N; Register true [a; b; c] 4%N;
                 Unregister [a; b; c]] = Ok t /\
    tree_dispatch t [a; b] (fun _ => false) = Ok ([2; 1; 3]%N, UnknownMethod) /\
    tree_dispatch t [a; b; c] (fun h => N.eqb h 1) = Ok ([1]%N, Handled) /\
    list_registered t [a] = Ok [b] /\ list_registered t [a; b] = Ok [].
Proof. eexists; repeat split; vm_compute; reflexivity. Qed.

Example ex_unknown_object :
  exists t, run [Register false [] 1%N] = Ok t /\ tree_dispatch t nope (fun _ => false) = Ok ([], UnknownObject).
Proof. eexists; split; vm_compute; reflexivity. Qed.

Example ex_occupied : s_registered (s_run [Register true [[97%N]] 1%N]) [[97%N]].
Proof. vm_compute. discriminate. Qed.

Example ex_known_object : s_known_object (s_run [Register true [[97%N]] 1%N]) [[97%N]; [98%N]].
Proof. right. exists [[97%N]], [[98%N]], 1%N. split; reflexivity. Qed.
