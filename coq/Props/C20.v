(* C20 - placeholder, theorems follow *)
From DV Require Import Lib.Base ObjTree.ObjTree Spec.ObjtreeSpec.
