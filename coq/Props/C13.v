(* C13 — configured resource limits are never exceeded.
   Only theorem statements closed by [exact]; proofs live in Proofs/Limits*.v.

   Model:          Limits/Limits.v      (lstep, lrun; names via the C04 model Registry.step)
   Specification:  Spec/LimitsSpec.v    (counts read off the observable structures of a state,
                                         demand / exhaustion, the clauses of the property)
   A history is a list of events (Connect uid / Hello / Disconnect / RequestName / ReleaseName /
   AddMatch / RemoveMatch / Call / Reply / ReplyTimeout / Emit / Message) started from the empty
   bus; the limits are a parameter.  [linv L s] is the invariant; every state reached by a
   history satisfies it (C13_invariant). *)
From DV Require Import Lib.Base Gen.Tables Registry.RegTypes Registry.Registry Spec.RegistrySpec
  Limits.Limits Spec.LimitsSpec
  Proofs.LimitsBase Proofs.LimitsReg Proofs.LimitsInv Proofs.LimitsMain Proofs.LimitsRefuse Proofs.LimitsFree Proofs.LimitsReload.
Local Open Scope N_scope.

(* ------------------------------------------------------------------------------------------
   "At every moment of every history the number of registered connections, registered
   connections per user, not-yet-authenticated connections, names per connection, match rules
   per connection and pending replies per connection stays within the configured limits."
   (The code counts connections that have not said Hello, which includes the not yet
   authenticated ones.  Names: owned or queued, unique name included.) *)
Theorem C13_limits_never_exceeded : limits_never_exceeded.
Proof. exact limits_never_exceeded_proved. Qed.
Print Assumptions C13_limits_never_exceeded.

(* the same under the only hypotheses the proof needs ([usable]): the unique name must fit, and at least one
   unregistered connection must be allowed (with 0 the first accept() trips the daemon's own assertion) *)
Theorem C13_within_limits : forall L h, usable L -> within_limits L (fst (lrun L linit h)).
Proof. exact within_limits_reachable. Qed.
Print Assumptions C13_within_limits.

(* the counters the daemon keeps (n_completed, n_incomplete, the per-uid table, n_match_rules,
   the length of services_owned) are the true counts *)
Theorem C13_counters_exact : forall L h, usable L -> counters_exact (fst (lrun L linit h)).
Proof. exact counters_exact_reachable. Qed.
Print Assumptions C13_counters_exact.

Theorem C13_invariant : forall L h, usable L -> linv L (fst (lrun L linit h)).
Proof. exact reachable_linv. Qed.
Print Assumptions C13_invariant.

(* ------------------------------------------------------------------------------------------
   "the request that would exceed one is refused with LimitsExceeded (or the connection is
   not accepted) and changes nothing".  Literal form: in ANY state, a step whose output contains
   a LimitsExceeded error or a not-accepted connection leaves the state as it was. *)
Definition C13_full_statement : Prop := refusal_changes_nothing.

(* What holds: it does, for every event except a method call that itself carries a REPLY_SERIAL
   header field ([plain]) ... *)
Theorem C13_refusal_is_noop_partial : forall L s e, plain e = true ->
  refusal (snd (lstep L s e)) = true -> fst (lstep L s e) = s.
Proof. exact refusal_changes_nothing_partial. Qed.
Print Assumptions C13_refusal_is_noop_partial.

(* ... and for such a call the state after the refusal is the old one minus the reply slot its
   REPLY_SERIAL referred to (bus_connections_check_reply has run and is not undone; this is the
   situation recorded as finding F7(b) under C09). *)
Theorem C13_refusal_effect : forall L s e, refusal (snd (lstep L s e)) = true -> fst (lstep L s e) = after_refusal s e.
Proof. exact refusal_effect. Qed.
Print Assumptions C13_refusal_effect.

(* Witness (replayed on the daemon, corpus/C13/findings.json): max_replies_per_connection = 1;
   1 calls 0 (serial 7), 0 calls 1 (serial 20, its only slot), then 0 sends 1 another call that
   carries REPLY_SERIAL 7: refused with LimitsExceeded, yet connection 1's slot for serial 7 is
   gone - 1 may call again although its first call was never answered, and never gets NoReply. *)
Definition L1r : limits := mkLimits 64 64 64 64 64 1 1000.
Definition f7b_prefix : list levent :=
  [Connect 0; Auth 0; Hello 0; Connect 0; Auth 1; Hello 1; Call 1 0 7 false 0; Call 0 1 20 false 0].
Definition f7b_event : levent := Call 0 1 21 false 7.

Theorem C13_refusal_is_noop_refuted :
  let s := fst (lrun L1r linit f7b_prefix) in
  snd (lstep L1r s f7b_event) = [(0, OErr LLimitsExceeded)] /\
  n_awaiting s 1 = 1 /\ n_awaiting (fst (lstep L1r s f7b_event)) 1 = 0 /\
  snd (lstep L1r (fst (lstep L1r s f7b_event)) (Call 1 0 8 false 0)) = [(0, OCall 1 8)] /\
  snd (lstep L1r s (Call 1 0 8 false 0)) = [(1, OErr LLimitsExceeded)].
Proof. vm_compute. repeat split; reflexivity. Qed.
Print Assumptions C13_refusal_is_noop_refuted.

Theorem C13_full_statement_refuted : ~ C13_full_statement.
Proof.
  intros H. pose proof (H L1r (fst (lrun L1r linit f7b_prefix)) f7b_event eq_refl) as E.
  apply (f_equal (fun s => n_awaiting s 1)) in E. vm_compute in E. discriminate E.
Qed.
Print Assumptions C13_full_statement_refuted.

(* ... and in every reachable state a (plain) event is refused exactly when it demands a unit of a
   resource whose true count has reached its limit. *)
Theorem C13_refused_exactly_when_exhausted : refused_exactly_when_exhausted.
Proof. exact refused_exactly_when_exhausted_proved. Qed.
Print Assumptions C13_refused_exactly_when_exhausted.

Theorem C13_refused_iff_exhausted_inv : forall L s e, linv L s -> plain e = true ->
  refusal (snd (lstep L s e)) = should_refuse L s e.
Proof. exact refusal_iff_exhausted. Qed.
Print Assumptions C13_refused_iff_exhausted_inv.

(* The limit the property calls "not-yet-authenticated connections" (and the manual page
   "unauthenticated connections") is enforced on the connections that have not yet said Hello:
   the number of unauthenticated ones stays within it a fortiori (wl_unauthenticated in
   C13_within_limits), but a connection attempt also waits while authenticated connections that
   have not registered occupy the slots.  Literal reading refuted: *)
Definition L1i : limits := mkLimits 64 64 1 64 64 64 1000.
Theorem C13_unauthenticated_limit_literal_refuted : ~ unauthenticated_limit_literal.
Proof.
  intros H. assert (A : all_at_least_one L1i) by (unfold all_at_least_one, L1i; simpl; repeat split; discriminate).
  specialize (H L1i A [Connect 0; Auth 0] 0). vm_compute in H. discriminate H.
Qed.
Print Assumptions C13_unauthenticated_limit_literal_refuted.

(* ------------------------------------------------------------------------------------------
   "requests below the limit are unaffected": in any state, an event that neither
   configuration refuses (nor aborts on) has the same output under both and the same effect,
   up to the two values a state caches from the configuration ([uncached]: the listening
   flag and the loaders' maxima) - so the same as under a configuration that never refuses. *)
Theorem C13_below_limit_unaffected : limits_act_only_by_refusing.
Proof. exact limits_act_only_by_refusing_proved. Qed.
Print Assumptions C13_below_limit_unaffected.

(* ------------------------------------------------------------------------------------------
   "capacity freed by a release or disconnect becomes usable again": each way of giving a unit
   back lowers the true count by exactly one (so it is below the limit afterwards, by
   C13_within_limits), and a demand for a resource that is not exhausted is not refused. *)
Theorem C13_capacity_usable : forall L s e r, linv L s -> plain e = true -> demand s e = Some r -> exhausted L s r = false ->
  refusal (snd (lstep L s e)) = false.
Proof. exact capacity_usable. Qed.
Print Assumptions C13_capacity_usable.

Theorem C13_free_connection : forall L s c byb, linv L s -> registered s c = true ->
  let s' := fst (disconnect L s c byb) in
  n_registered s' + 1 = n_registered s /\
  n_registered_of s' (uid_of s c) + 1 = n_registered_of s (uid_of s c) /\
  (forall u, u <> uid_of s c -> n_registered_of s' u = n_registered_of s u) /\
  n_unregistered s' = n_unregistered s.
Proof. exact disconnect_frees_connection. Qed.
Print Assumptions C13_free_connection.

Theorem C13_free_incomplete_by_disconnect : forall L s c byb, linv L s -> connected s c = true -> registered s c = false ->
  let s' := fst (disconnect L s c byb) in
  n_unregistered s' + 1 = n_unregistered s /\ n_registered s' = n_registered s.
Proof. exact disconnect_frees_incomplete. Qed.
Print Assumptions C13_free_incomplete_by_disconnect.

Theorem C13_free_incomplete_by_hello : forall L s c, 1 <= max_names_per_connection L -> linv L s ->
  registered s c = false -> registered (fst (lstep L s (Hello c))) c = true ->
  n_unregistered (fst (lstep L s (Hello c))) + 1 = n_unregistered s.
Proof. exact hello_frees_incomplete. Qed.
Print Assumptions C13_free_incomplete_by_hello.

Theorem C13_free_name : forall L s c name q, linv L s -> registered s c = true -> requestable name = true ->
  lookup (s_services s) (KW name) = Some q -> queued c q = true ->
  n_names (fst (lstep L s (ReleaseName c name))) c + 1 = n_names s c.
Proof. exact release_frees_name. Qed.
Print Assumptions C13_free_name.

Theorem C13_free_rule : forall L s c r, registered s c = true -> connected s c = true ->
  (exists d, find_cd (s_cdata s) c = Some d) -> In (c, r) (s_rules s) ->
  n_rules (fst (lstep L s (RemoveMatch c (Some r)))) c + 1 = n_rules s c.
Proof. exact removematch_frees_rule. Qed.
Print Assumptions C13_free_rule.

Theorem C13_free_reply_by_answer : forall L s d c serial, registered s d = true -> registered s c = true ->
  outstanding s c d serial = true ->
  n_awaiting (fst (lstep L s (Reply d c serial))) c + 1 = n_awaiting s c.
Proof. exact reply_frees_slot. Qed.
Print Assumptions C13_free_reply_by_answer.

Theorem C13_free_reply_by_timeout : forall L s c serial,
  In (c, ONoReply serial) (snd (lstep L s (ReplyTimeout c serial))) ->
  n_awaiting (fst (lstep L s (ReplyTimeout c serial))) c + 1 = n_awaiting s c.
Proof. exact timeout_frees_slot. Qed.
Print Assumptions C13_free_reply_by_timeout.

Theorem C13_free_reply_by_callee_disconnect : forall L s d c byb, linv L s -> connected s d = true -> c <> d ->
  n_awaiting (fst (disconnect L s d byb)) c + cnt (fun p => (p_get p =? c) && (p_send p =? d)) (s_pending s) = n_awaiting s c.
Proof. exact callee_disconnect_frees_slots. Qed.
Print Assumptions C13_free_reply_by_callee_disconnect.

(* ------------------------------------------------------------------------------------------
   "A message larger than the configured maximum size causes only its sender to be
   disconnected."  The size is the one announced in the fixed header (Spec.declared_size);
   the test is the loader's (Wire.Message.have_message) with the configured maximum clamped
   to 128 MiB. *)
Theorem C13_size_test : forall L hdr,
  too_long L hdr = match declared_size hdr with Some n => effective_max L <? n | None => true end.
Proof. exact too_long_spec. Qed.
Print Assumptions C13_size_test.

Theorem C13_oversize_only_sender : forall L s c hdr n,
  linv L s -> connected s c = true -> declared_size hdr = Some n -> effective_max L < n ->
  let s' := fst (lstep L s (Message c hdr)) in
  let o := snd (lstep L s (Message c hdr)) in
  connected s' c = false /\
  (forall d, d <> c -> connected s' d = connected s d /\ registered s' d = registered s d) /\
  (forall d, In (d, OClosed) o <-> d = c).
Proof. exact oversize_only_sender. Qed.
Print Assumptions C13_oversize_only_sender.

Theorem C13_fitting_message_harmless : forall L s c hdr n,
  linv L s -> declared_size hdr = Some n -> n <= effective_max L -> connected s c = true ->
  lstep L s (Message c hdr) = (s, []).
Proof. exact fitting_message_harmless. Qed.
Print Assumptions C13_fitting_message_harmless.

(* ------------------------------------------------------------------------------------------
   The configuration is reloaded in mid-history (SIGHUP / ReloadConfig: bus_context_reload_config
   overwrites context->limits and revisits nothing).  [crun]: histories of events and reloads.

   Literal property, "at every moment ... within the configured limits": refuted - a lowered
   limit leaves the counts where they are (finding C13-D3). *)
Definition C13_reload_full_statement : Prop := limits_never_exceeded_across_reloads.

Definition Lr (completed incomplete msg : N) : limits := mkLimits completed 4 incomplete 4 4 4 msg.
Example Lr_ok : forall a b c, 1 <= a -> 1 <= b -> all_at_least_one (Lr a b c).
Proof. intros a b c Ha Hb. unfold all_at_least_one, Lr. simpl. repeat split; try assumption; discriminate. Qed.

Definition two_registered : list citem :=
  [Ev (Connect 0); Ev (Auth 0); Ev (Hello 0); Ev (Connect 0); Ev (Auth 1); Ev (Hello 1)].

Theorem C13_reload_full_statement_refuted : ~ C13_reload_full_statement.
Proof.
  intros H. assert (A : all_at_least_one (Lr 2 4 1000)) by (apply Lr_ok; discriminate).
  assert (O : all_items_ok (two_registered ++ [Reload (Lr 1 4 1000)])).
  { simpl. split; [apply Lr_ok; discriminate | exact I]. }
  pose proof (wl_completed _ _ (H _ _ A O)) as W. vm_compute in W. apply W. reflexivity.
Qed.
Print Assumptions C13_reload_full_statement_refuted.

(* What holds instead, for every history with reloads and every next event: no count grows past the
   limit in force - a count above its limit can only fall (so the excess drains and never returns). *)
Theorem C13_never_grows_across_reloads : forall L0 h e, all_at_least_one L0 -> all_items_ok h ->
  let cs := fst (crun (L0, linit) h) in never_grows (fst cs) (snd cs) (fst (lstep (fst cs) (snd cs) e)).
Proof. exact never_grows_across_reloads. Qed.
Print Assumptions C13_never_grows_across_reloads.

Theorem C13_reload_invariant : forall L0 h, all_at_least_one L0 -> all_items_ok h ->
  let cs := fst (crun (L0, linit) h) in
  all_at_least_one (fst cs) /\ (exists B, ginv B (snd cs)) /\ s_watches (snd cs) = watches_for (fst cs) (s_nincomplete (snd cs)).
Proof. exact creachable_ginv. Qed.
Print Assumptions C13_reload_invariant.

(* the same for any state with the structural invariant, under any limits *)
Theorem C13_step_never_grows : forall B L s e, 1 <= max_names_per_connection L -> ginv B s -> never_grows L s (fst (lstep L s e)).
Proof. exact step_never_grows. Qed.
Print Assumptions C13_step_never_grows.

(* The listening flag (context->watches_enabled).  A reload re-evaluates it (bus_context_check_all_watches at the end of
   bus_context_reload_config, /repo 577eae6; before that fix it kept the verdict of the old limits: finding C13-D4, fixed).
   So across reloads too the assertion of bus_connections_setup_connection, _dbus_assert (n_incomplete <=
   max_incomplete_connections), never fails, and a connection attempt waits exactly when the limit in force is reached. *)
Theorem C13_never_aborts_without_reload : forall L h e, usable L -> aborts (snd (lstep L (fst (lrun L linit h)) e)) = false.
Proof. exact never_aborts_without_reload. Qed.
Print Assumptions C13_never_aborts_without_reload.

Theorem C13_never_aborts_across_reloads : never_aborts_across_reloads.
Proof. exact never_aborts_across_reloads_proved. Qed.
Print Assumptions C13_never_aborts_across_reloads.

Theorem C13_step_never_aborts_across_reloads : forall L0 h e, all_at_least_one L0 -> all_items_ok h ->
  let cs := fst (crun (L0, linit) h) in aborts (snd (lstep (fst cs) (snd cs) e)) = false.
Proof. exact step_never_aborts_across_reloads. Qed.
Print Assumptions C13_step_never_aborts_across_reloads.

Theorem C13_abort_only_in_accept : forall L s e, aborts (snd (lstep L s e)) = true ->
  exists uid, e = Connect uid /\ s_watches s = true /\ max_incomplete_connections L < s_nincomplete s + 1.
Proof. exact abort_only_in_accept. Qed.
Print Assumptions C13_abort_only_in_accept.

Theorem C13_accept_follows_configuration : accept_follows_configuration.
Proof. exact accept_follows_configuration_proved. Qed.
Print Assumptions C13_accept_follows_configuration.

(*  the mechanism: the answer to a connection attempt is the flag; the flag is recomputed from the limits in
    force whenever the number of unregistered connections changes, and by every reload *)
Theorem C13_accept_follows_flag : forall L s uid, refusal (snd (lstep L s (Connect uid))) = negb (s_watches s).
Proof. exact accept_follows_flag. Qed.
Print Assumptions C13_accept_follows_flag.

Theorem C13_flag_refreshed_when_count_changes : forall L s e,
  s_nincomplete (fst (lstep L s e)) <> s_nincomplete s ->
  s_watches (fst (lstep L s e)) = watches_for L (s_nincomplete (fst (lstep L s e))).
Proof. exact flag_refreshed_when_count_changes. Qed.
Print Assumptions C13_flag_refreshed_when_count_changes.

(*  the two situations of the former finding: limit lowered below the count while accepting -> the next client
    waits (no abort); limit raised while paused -> the next client is accepted at once *)
Definition lowered_history : list citem :=
  [Ev (Connect 0); Ev (Auth 0); Ev (Hello 0); Ev (Connect 0); Ev (Connect 0); Reload (Lr 4 1 1000); Ev (Connect 0); Ev (Disconnect 1); Ev (Connect 0); Ev (Disconnect 2); Ev (Connect 0)].
Example ex_reload_lowered :
  map (map snd) (snd (crun (Lr 4 4 1000, linit) lowered_history)) =
  [[OAccepted]; [OAuthOk]; [OReg (MHelloReply 0); OReg (MAcquired (KU 0))]; [OAccepted]; [OAccepted]; []; [ONotAccepted]; []; [ONotAccepted]; []; [OAccepted]].
Proof. vm_compute. reflexivity. Qed.

Definition raised_history : list citem :=
  [Ev (Connect 0); Ev (Auth 0); Ev (Hello 0); Ev (Connect 0); Ev (Connect 0); Reload (Lr 4 4 1000); Ev (Connect 0)].
Example ex_reload_raised :
  map (map snd) (snd (crun (Lr 4 1 1000, linit) raised_history)) =
  [[OAccepted]; [OAuthOk]; [OReg (MHelloReply 0); OReg (MAcquired (KU 0))]; [OAccepted]; [ONotAccepted]; []; [OAccepted]].
Proof. vm_compute. reflexivity. Qed.

(* max_message_size reaches a connection's loader once, when it is accepted (finding C13-D5): after the
   limit was lowered an older connection may still send messages above it *)
Definition size_history : list citem :=
  [Ev (Connect 0); Ev (Auth 0); Ev (Hello 0); Ev (Connect 0); Ev (Auth 1); Ev (Hello 1); Reload (Lr 4 4 600)].
Definition hdr800 : bytes := [108; 1; 0; 1; 16; 3; 0; 0; 1; 0; 0; 0; 0; 0; 0; 0].   (* 16 + 0 + 784 = 800 bytes *)
Theorem C13_size_limit_follows_configuration_refuted : ~ size_limit_follows_configuration.
Proof.
  intros H. assert (A : all_at_least_one (Lr 4 4 1000)) by (apply Lr_ok; discriminate).
  assert (O : all_items_ok size_history). { simpl. split; [apply Lr_ok; discriminate | exact I]. }
  specialize (H _ _ 1 hdr800 800 A O). cbv zeta in H.
  assert (C : connected (snd (fst (crun (Lr 4 4 1000, linit) size_history))) 1 = true) by (vm_compute; reflexivity).
  assert (D : declared_size hdr800 = Some 800) by (vm_compute; reflexivity).
  assert (E : effective_max (fst (fst (crun (Lr 4 4 1000, linit) size_history))) < 800) by (vm_compute; reflexivity).
  specialize (H C D E). vm_compute in H. discriminate H.
Qed.
Print Assumptions C13_size_limit_follows_configuration_refuted.

(*  what holds: the test is against the connection's own maximum, which it keeps as long as it is connected
    and which was the configured (clamped) value when it was accepted *)
Theorem C13_oversize_by_own_maximum : forall B L s c d hdr n,
  ginv B s -> connected s c = true -> find_cd (s_cdata s) c = Some d -> declared_size hdr = Some n -> d_maxmsg d < n ->
  let s' := fst (lstep L s (Message c hdr)) in
  let o := snd (lstep L s (Message c hdr)) in
  connected s' c = false /\
  (forall x, x <> c -> connected s' x = connected s x /\ registered s' x = registered s x) /\
  (forall x, In (x, OClosed) o <-> x = c).
Proof. exact oversize_by_own_maximum. Qed.
Print Assumptions C13_oversize_by_own_maximum.

Theorem C13_fitting_by_own_maximum : forall L s c d hdr n,
  connected s c = true -> find_cd (s_cdata s) c = Some d -> declared_size hdr = Some n -> n <= d_maxmsg d ->
  lstep L s (Message c hdr) = (s, []).
Proof. exact fitting_by_own_maximum. Qed.
Print Assumptions C13_fitting_by_own_maximum.

Theorem C13_maxmsg_fixed_at_accept : forall L s e c m,
  maxmsg_of s c = Some m -> connected (fst (lstep L s e)) c = true -> ginv (own_or L s) s -> maxmsg_of (fst (lstep L s e)) c = Some m.
Proof. exact maxmsg_fixed_at_accept. Qed.
Print Assumptions C13_maxmsg_fixed_at_accept.

Theorem C13_accepted_gets_configured_maximum : forall L s uid,
  In (s_next s, OAccepted) (snd (lstep L s (Connect uid))) -> (forall d, In d (s_cdata s) -> d_id d <> s_next s) ->
  maxmsg_of (fst (lstep L s (Connect uid))) (s_next s) = Some (loader_max L).
Proof. exact accepted_gets_configured_maximum. Qed.
Print Assumptions C13_accepted_gets_configured_maximum.

(* reload examples: the excess after lowering max_completed_connections drains and is not refilled *)
Example ex_reload_drain :
  snd (crun (Lr 2 4 1000, linit)
        (two_registered ++ [Reload (Lr 1 4 1000); Ev (Connect 0); Ev (Auth 2); Ev (Hello 2); Ev (Disconnect 1); Ev (Hello 2); Ev (Disconnect 0); Ev (Hello 2)])) =
  [[(0, OAccepted)]; [(0, OAuthOk)]; [(0, OReg (MHelloReply 0)); (0, OReg (MAcquired (KU 0)))];
   [(1, OAccepted)]; [(1, OAuthOk)]; [(1, OReg (MHelloReply 1)); (1, OReg (MAcquired (KU 1)))];
   []; [(2, OAccepted)]; [(2, OAuthOk)]; [(2, OErr LLimitsExceeded)]; []; [(2, OErr LLimitsExceeded)]; [];
   [(2, OReg (MHelloReply 2)); (2, OReg (MAcquired (KU 2)))]].
Proof. vm_compute. reflexivity. Qed.



(* ------------------------------------------------------------------------------------------
   non-vacuity *)
Definition L2 : limits := mkLimits 2 2 2 2 2 2 1000.
Definition nameA : bytes := [97; 46; 98].
Definition nameB : bytes := [99; 46; 100].

Example ex_limits_ok : all_at_least_one L2.
Proof. unfold all_at_least_one, L2; simpl; repeat split; discriminate. Qed.

(* three users' connections: the third Hello is refused (max_completed_connections = 2), changes
   nothing, and succeeds once connection 1 has left *)
Definition ex_conn : list levent := [Connect 0; Auth 0; Hello 0; Connect 5; Auth 1; Hello 1; Connect 7; Auth 2; Hello 2; Disconnect 1; Hello 2].
Example ex_conn_outputs :
  snd (lrun L2 linit ex_conn) =
  [[(0, OAccepted)]; [(0, OAuthOk)]; [(0, OReg (MHelloReply 0)); (0, OReg (MAcquired (KU 0)))];
   [(1, OAccepted)]; [(1, OAuthOk)]; [(1, OReg (MHelloReply 1)); (1, OReg (MAcquired (KU 1)))];
   [(2, OAccepted)]; [(2, OAuthOk)]; [(2, OErr LLimitsExceeded)]; []; [(2, OReg (MHelloReply 2)); (2, OReg (MAcquired (KU 2)))]].
Proof. vm_compute. reflexivity. Qed.

(* names: the unique name counts, the second well-known name is refused, releasing the first makes room *)
Definition ex_names : list levent :=
  [Connect 0; Auth 0; Hello 0; RequestName 0 nameA 0; RequestName 0 nameB 0; ReleaseName 0 nameA; RequestName 0 nameB 0].
Example ex_names_outputs :
  map (map snd) (snd (lrun L2 linit ex_names)) =
  [[OAccepted]; [OAuthOk]; [OReg (MHelloReply 0); OReg (MAcquired (KU 0))]; [OReg (MAcquired (KW nameA)); OReg (MReply 1)];
   [OErr LLimitsExceeded]; [OReg (MLost (KW nameA)); OReg (MReply 1)]; [OReg (MAcquired (KW nameB)); OReg (MReply 1)]].
Proof. vm_compute. reflexivity. Qed.

(* at the limit a request for a name the connection already holds is still granted (it adds nothing;
   /repo 54eb1c0, formerly finding F4b of C04): ALREADY_OWNER, whereas a further name is refused *)
Example ex_rerequest_at_limit_granted :
  nth 4 (snd (lrun L2 linit [Connect 0; Auth 0; Hello 0; RequestName 0 nameA 0; RequestName 0 nameA 0; RequestName 0 nameB 0])) [] = [(0, OReg (MReply 4))] /\
  nth 5 (snd (lrun L2 linit [Connect 0; Auth 0; Hello 0; RequestName 0 nameA 0; RequestName 0 nameA 0; RequestName 0 nameB 0])) [] = [(0, OErr LLimitsExceeded)].
Proof. vm_compute. split; reflexivity. Qed.

(* accept() pauses at max_incomplete_connections = 2 and resumes when a connection says Hello;
   calls: two may be outstanding, the third is refused, an answer frees a slot, the callee's
   disconnection answers the rest with NoReply *)
Definition ex_mixed : list levent :=
  [Connect 0; Auth 0; Connect 0; Auth 1; Connect 0; Hello 0; Connect 0; Hello 1;
   Call 0 1 10 false 0; Call 0 1 11 false 0; Call 0 1 12 false 0; Reply 1 0 10; Call 0 1 12 false 0; Disconnect 1].
Example ex_mixed_outputs :
  snd (lrun L2 linit ex_mixed) =
  [[(0, OAccepted)]; [(0, OAuthOk)]; [(1, OAccepted)]; [(1, OAuthOk)]; [(2, ONotAccepted)]; [(0, OReg (MHelloReply 0)); (0, OReg (MAcquired (KU 0)))];
   [(2, OAccepted)]; [(1, OReg (MHelloReply 1)); (1, OReg (MAcquired (KU 1)))];
   [(1, OCall 0 10)]; [(1, OCall 0 11)]; [(0, OErr LLimitsExceeded)]; [(0, OReply 1 10)]; [(1, OCall 0 12)];
   [(0, ONoReply 12); (0, ONoReply 11)]].
Proof. vm_compute. reflexivity. Qed.

(* a header announcing 16 + 0 (padded) + 1000 bytes fits max_message_size = 1000 exactly; one byte more does not *)
Definition hdr_le (body : N) : bytes := [108; 1; 0; 1; body mod 256; body / 256; 0; 0; 1; 0; 0; 0; 0; 0; 0; 0].
Example ex_size_fits : declared_size (hdr_le 984) = Some 1000 /\ too_long L2 (hdr_le 984) = false.
Proof. vm_compute. split; reflexivity. Qed.
Example ex_size_too_long : declared_size (hdr_le 985) = Some 1001 /\ too_long L2 (hdr_le 985) = true.
Proof. vm_compute. split; reflexivity. Qed.
Example ex_oversize_step :
  snd (lrun L2 linit [Connect 0; Auth 0; Hello 0; Connect 0; Auth 1; Hello 1; Message 1 (hdr_le 985); Call 0 1 10 false 0]) =
  [[(0, OAccepted)]; [(0, OAuthOk)]; [(0, OReg (MHelloReply 0)); (0, OReg (MAcquired (KU 0)))];
   [(1, OAccepted)]; [(1, OAuthOk)]; [(1, OReg (MHelloReply 1)); (1, OReg (MAcquired (KU 1)))];
   [(1, OClosed)]; [(0, OErr LServiceUnknown)]].
Proof. vm_compute. reflexivity. Qed.
