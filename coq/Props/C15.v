(* C15 — passed file descriptors arrive intact and are never leaked.
   Statements only; proofs are in Proofs/Fds{Base,Inv,Step,Hist,Main}.v.  Vocabulary:
     Fds.step / run           model of do_reading, the message loader, bus dispatch and connection teardown
     reach cf h               state of the bus after history h, starting from the empty bus
     received / closed / held the ledger: descriptors installed by recvmsg, close() calls, loaders' pending arrays
     closed_delivered / closed_dropped    close() after the message reached a recipient / without delivery
     c_acc, c_loaded, c_pend  per connection (live: st_conns, gone: st_dead): descriptors its loader took in,
                              messages load_message completed (with their descriptors), descriptors pending
     sent_fds h / sent_by c h the descriptors the clients attached to their writes (all / connection c), in order
     FdsSpec.*                the specification predicates (conserved, settled_once, within_limits, fifo_ok, only_negotiated)
   What is NOT proved here (it is about kernel state, not about the model): that the C code calls close()
   exactly once on every path; that part is explored by the correspondence run against the daemon's
   /proc/<pid>/fd (tools/props/c15.py). *)
From Coq Require Import Permutation.
From DV Require Import Lib.Base Fds.Fds Spec.FdsSpec Proofs.FdsBase Proofs.FdsStep Proofs.FdsHist Proofs.FdsMain Proofs.FdsFuel Fds.Write Proofs.FdsWrite.
Local Open Scope N_scope.

(* The property as stated, over the model: for every history,
   (a) what reaches a recipient is a message of the sender with the announced number of descriptors, assigned first-in
       first-out from what the sender's transport accepted, which is in order part of what the sender attached;
   (b) descriptors are received from, and delivered to, negotiated connections only;
   (c) every received descriptor is closed exactly once or still held; held only by live connections, at most
       max_message_unix_fds each, for less than pending_fd_timeout; with no connection left nothing is held and the
       number of open descriptors is back at the baseline. *)
Definition C15_full_statement : Prop :=
  forall cf h, 0 < fd_timeout cf ->
  let st := reach cf h in
  (* (a) *)
  (forall x, In x (all_conns st) ->
     fifo_ok (c_acc x) (map announced (c_loaded x)) /\ subseq (c_acc x) (sent_by (c_id x) h)) /\
  (forall r s d F, In (r, (s, (d, F))) (g_deliv (st_led st)) ->
     nlen F = w_nfds d /\ exists x, In x (all_conns st) /\ c_id x = s /\ In (d, F) (c_loaded x)) /\
  (* (b) *)
  only_negotiated (negotiated st) (map fst (g_recv (st_led st)))
                  (map (fun e => (fst e, snd (snd (snd e)))) (g_deliv (st_led st))) /\
  (* (c) *)
  conserved (received st) (closed_delivered st) (closed_dropped st) (held st) /\
  (NoDup (sent_fds h) -> forall f, In f (received st) -> settled_once (closed st) (held st) f) /\
  (forall x, In x (st_conns st) -> within_limits (max_fds cf) (fd_timeout cf) (st_now st) (c_pend x) (c_since x)) /\
  (st_conns st = [] -> held st = [] /\ length (received st) = length (closed st)).

(* every history: received = delivered + closed without delivery + held (as multisets); what is held is held by a
   live connection within its limit and its timeout; what a closed connection still had pending was closed; once no
   connection is left nothing is held and as many descriptors were closed as were received *)
Theorem C15_conservation : forall cf h, 0 < fd_timeout cf ->
  let st := reach cf h in
  conserved (received st) (closed_delivered st) (closed_dropped st) (held st) /\
  (forall x, In x (st_conns st) -> within_limits (max_fds cf) (fd_timeout cf) (st_now st) (c_pend x) (c_since x)) /\
  (forall x f, In x (st_dead st) -> In f (c_pend x) -> In (f, WConnClosed (c_id x)) (g_closed (st_led st))) /\
  (st_conns st = [] -> held st = [] /\ length (received st) = length (closed st)).
Proof. exact conservation. Qed.
Print Assumptions C15_conservation.

(* if the clients never send the same descriptor identity twice, every descriptor the process received has been
   closed exactly once and is not held, or is held (once) and has never been closed *)
Theorem C15_closed_exactly_once : forall cf h, 0 < fd_timeout cf -> NoDup (sent_fds h) ->
  let st := reach cf h in
  forall f, In f (received st) -> settled_once (closed st) (held st) f.
Proof. exact closed_exactly_once. Qed.
Print Assumptions C15_closed_exactly_once.

(* nothing is received that was not sent: the received descriptors are a sub-multiset of the attached ones *)
Theorem C15_received_from_sent : forall cf h f,
  (FdsHist.occ (received (reach cf h)) f <= FdsHist.occ (sent_fds h) f)%nat.
Proof. exact received_from_sent. Qed.
Print Assumptions C15_received_from_sent.

(* order and count: first-in first-out attachment by announced counts (index-wise, Spec.FdsSpec.fifo_ok); accepted =
   given to messages ++ pending; accepted is an order-preserving sublist of what that client attached; every delivery
   is a loaded message of its sender with exactly the announced number of descriptors *)
Theorem C15_order_and_count : forall cf h, 0 < fd_timeout cf ->
  let st := reach cf h in
  (forall x, In x (all_conns st) ->
     fifo_ok (c_acc x) (map announced (c_loaded x)) /\
     c_acc x = concat (map snd (c_loaded x)) ++ c_pend x /\
     subseq (c_acc x) (sent_by (c_id x) h)) /\
  (forall r s d F, In (r, (s, (d, F))) (g_deliv (st_led st)) ->
     nlen F = w_nfds d /\ exists x, In x (all_conns st) /\ c_id x = s /\ In (d, F) (c_loaded x)).
Proof. exact order_and_count. Qed.
Print Assumptions C15_order_and_count.

(* descriptors are taken in only on negotiated connections and handed only to negotiated recipients; a connection
   number denotes one connection, so "negotiated" is unambiguous *)
Theorem C15_only_negotiated : forall cf h, 0 < fd_timeout cf ->
  let st := reach cf h in
  only_negotiated (negotiated st) (map fst (g_recv (st_led st)))
                  (map (fun e => (fst e, snd (snd (snd e)))) (g_deliv (st_led st))) /\
  (forall x y, In x (all_conns st) -> In y (all_conns st) -> c_id x = c_id y -> c_neg x = c_neg y).
Proof. exact negotiated_only. Qed.
Print Assumptions C15_only_negotiated.

(* the statement as a whole *)
Theorem C15_full : C15_full_statement.
Proof. exact full_statement_holds. Qed.
Print Assumptions C15_full.

(* the transport write step (do_writing): however the recipient's socket splits a message into writes (caps: bytes taken at
   each attempt, 0 = EAGAIN), the descriptors on the wire are exactly the message's descriptors if the transport passes
   descriptors and at least one byte went out, none otherwise: they accompany the first piece and no other *)
Theorem C15_write_split : forall can_fd hlen blen F caps,
  let '(calls, w) := do_writing can_fd hlen blen F 0 caps in
  wire_fds calls = (if can_fd && (0 <? w) then F else []) /\ w = wire_bytes calls /\ w <= hlen + blen.
Proof. exact write_split. Qed.
Print Assumptions C15_write_split.

(* every delivery of every history, written to its recipient in k >= 1 pieces of any sizes: the recipient's descriptor
   count for the message equals the announced count, and they are the message's descriptors in order *)
Theorem C15_delivery_on_the_wire : forall cf h, 0 < fd_timeout cf ->
  let st := reach cf h in
  forall r s d F y hlen blen caps calls,
    In (r, (s, (d, F))) (g_deliv (st_led st)) -> In y (all_conns st) -> c_id y = r ->
    0 < hlen + blen -> do_writing (c_neg y) hlen blen F 0 caps = (calls, hlen + blen) ->
    wire_fds calls = F /\ nlen (wire_fds calls) = w_nfds d.
Proof. exact delivery_on_the_wire. Qed.
Print Assumptions C15_delivery_on_the_wire.

(* the loops of the model are never cut short: serving a write never ends with "out of fuel" or with unread bytes, so the
   fault flag of a state can only come from an ill-formed event (all theorems above hold for those histories too) *)
Theorem C15_fuel_suffices : forall cf now cs c ps fds led,
  let '(_, _, _, rs) := pump (fuel_for ps) cf now cs c ps fds led [] in
  rs <> ROutOfFuel /\ forall r, rs <> RMore r.
Proof. exact step_never_out_of_fuel. Qed.
Print Assumptions C15_fuel_suffices.

(* ---------------------------------------------------------------- the hypotheses are satisfiable, the conclusions are not vacuous *)
Example C15_ex_timeout_positive : 0 < fd_timeout cf0 /\ 0 < fd_timeout cf_default.
Proof. split; reflexivity. Qed.

(* a message announcing two descriptors, sent with two, reaches a negotiated recipient with both, in order;
   the bus then closes its copies *)
Example C15_ex_delivered :
  g_deliv (st_led (reach cf0 h_deliver)) = [(1, (0, (m1, [50; 51])))] /\
  closed_delivered (reach cf0 h_deliver) = [50; 51] /\ held (reach cf0 h_deliver) = [] /\
  received (reach cf0 h_deliver) = [50; 51].
Proof. vm_compute. repeat split. Qed.

(* two descriptors more than announced stay pending with the sender's connection, timer armed *)
Example C15_ex_surplus :
  held (reach cf0 h_surplus) = [60; 61] /\
  map c_since (st_conns (reach cf0 h_surplus)) = [Some 0; None].
Proof. vm_compute. repeat split. Qed.

(* three more when only two fit: the two that were installed are closed at once (CVE-2020-12049 path), the third
   never arrives, the connection is dropped and its pending descriptors are closed; nothing is held any more *)
Example C15_ex_truncated :
  received (reach cf0 h_trunc) = [60; 61; 62; 63] /\
  g_closed (st_led (reach cf0 h_trunc)) = [(62, WTruncated); (63, WTruncated); (60, WConnClosed 0); (61, WConnClosed 0)] /\
  g_kdrop (st_led (reach cf0 h_trunc)) = [64] /\
  held (reach cf0 h_trunc) = [] /\ live_ids (reach cf0 h_trunc) = [1] /\ st_fault (reach cf0 h_trunc) = false.
Proof. vm_compute. repeat split. Qed.

(* a 300000-byte header taken by the socket in three pieces, then the body: one call carries the two descriptors *)
Example C15_ex_split :
  map wr_fds (fst (do_writing true 300000 8 [7; 9] 0 [212992; 0; 50000; 37008; 8])) = [[7; 9]; []; []; []] /\
  snd (do_writing true 300000 8 [7; 9] 0 [212992; 0; 50000; 37008; 8]) = 300008.
Proof. vm_compute. split; reflexivity. Qed.

Example C15_ex_nodup : NoDup (sent_fds h_trunc).
Proof. vm_compute. repeat constructor; simpl; intuition discriminate. Qed.
