(* C15 — passed file descriptors arrive intact and are never leaked.
   Statements only; proofs are in Proofs/Fds{Base,Inv,Step,Hist,Main}.v.  Vocabulary:
     Fds.step / run           model of do_reading, the message loader, bus dispatch and connection teardown
     reach cf h               state of the bus after history h, starting from the empty bus
     received / closed / held the ledger: descriptors installed by recvmsg, close() calls, loaders' pending arrays
     closed_delivered / closed_dropped    close() after the message reached a recipient / without delivery
     c_acc, c_loaded, c_pend  per connection (live: st_conns, gone: st_dead): descriptors its loader took in,
                              messages load_message completed (with their descriptors), descriptors pending
     sent_fds h / sent_by c h the descriptors the clients attached to their writes (all / connection c), in order
     FdsSpec.*                the specification predicates (conserved, settled_once, within_limits, fifo_ok, only_negotiated)
   What is NOT proved here (it is about kernel state, not about the model): that the C code calls close()
   exactly once on every path; that part is explored by the correspondence run against the daemon's
   /proc/<pid>/fd (tools/props/c15.py). *)
From Coq Require Import Permutation.
From DV Require Import Lib.Base Fds.Fds Spec.FdsSpec Proofs.FdsBase Proofs.FdsStep Proofs.FdsHist Proofs.FdsMain Proofs.FdsFuel Fds.Write Proofs.FdsWrite
  Fds.MsgApi Proofs.FdsMsgApi Wire.Message Fds.ByteLoader Proofs.FdsByte Fds.Async Proofs.FdsAsync.
Local Open Scope N_scope.

(* The property as stated, over the model: for every history,
   (a) what reaches a recipient is a message of the sender with the announced number of descriptors, assigned first-in
       first-out from what the sender's transport accepted, which is in order part of what the sender attached;
   (b) descriptors are received from, and delivered to, negotiated connections only;
   (c) every received descriptor is closed exactly once or still held; held only by live connections, at most
       max_message_unix_fds each, for less than pending_fd_timeout; with no connection left nothing is held and the
       number of open descriptors is back at the baseline. *)
Definition C15_full_statement : Prop :=
  forall cf h, 0 < fd_timeout cf ->
  let st := reach cf h in
  (* (a) *)
  (forall x, In x (all_conns st) ->
     fifo_ok (c_acc x) (map announced (c_loaded x)) /\ subseq (c_acc x) (sent_by (c_id x) h)) /\
  (forall r s d F, In (r, (s, (d, F))) (g_deliv (st_led st)) ->
     nlen F = w_nfds d /\ exists x, In x (all_conns st) /\ c_id x = s /\ In (d, F) (c_loaded x)) /\
  (* (b) *)
  only_negotiated (negotiated st) (map fst (g_recv (st_led st)))
                  (map (fun e => (fst e, snd (snd (snd e)))) (g_deliv (st_led st))) /\
  (* (c) *)
  conserved (received st) (closed_delivered st) (closed_dropped st) (held st) /\
  (NoDup (sent_fds h) -> forall f, In f (received st) -> settled_once (closed st) (held st) f) /\
  (forall x, In x (st_conns st) -> within_limits (max_fds cf) (fd_timeout cf) (st_now st) (c_pend x) (c_since x)) /\
  (st_conns st = [] -> held st = [] /\ length (received st) = length (closed st)).

(* every history: received = delivered + closed without delivery + held (as multisets); what is held is held by a
   live connection within its limit and its timeout; what a closed connection still had pending was closed; once no
   connection is left nothing is held and as many descriptors were closed as were received *)
Theorem C15_conservation : forall cf h, 0 < fd_timeout cf ->
  let st := reach cf h in
  conserved (received st) (closed_delivered st) (closed_dropped st) (held st) /\
  (forall x, In x (st_conns st) -> within_limits (max_fds cf) (fd_timeout cf) (st_now st) (c_pend x) (c_since x)) /\
  (forall x f, In x (st_dead st) -> In f (c_pend x) -> In (f, WConnClosed (c_id x)) (g_closed (st_led st))) /\
  (st_conns st = [] -> held st = [] /\ length (received st) = length (closed st)).
Proof. exact conservation. Qed.
Print Assumptions C15_conservation.

(* if the clients never send the same descriptor identity twice, every descriptor the process received has been
   closed exactly once and is not held, or is held (once) and has never been closed *)
Theorem C15_closed_exactly_once : forall cf h, 0 < fd_timeout cf -> NoDup (sent_fds h) ->
  let st := reach cf h in
  forall f, In f (received st) -> settled_once (closed st) (held st) f.
Proof. exact closed_exactly_once. Qed.
Print Assumptions C15_closed_exactly_once.

(* nothing is received that was not sent: the received descriptors are a sub-multiset of the attached ones *)
Theorem C15_received_from_sent : forall cf h f,
  (FdsHist.occ (received (reach cf h)) f <= FdsHist.occ (sent_fds h) f)%nat.
Proof. exact received_from_sent. Qed.
Print Assumptions C15_received_from_sent.

(* order and count: first-in first-out attachment by announced counts (index-wise, Spec.FdsSpec.fifo_ok); accepted =
   given to messages ++ pending; accepted is an order-preserving sublist of what that client attached; every delivery
   is a loaded message of its sender with exactly the announced number of descriptors *)
Theorem C15_order_and_count : forall cf h, 0 < fd_timeout cf ->
  let st := reach cf h in
  (forall x, In x (all_conns st) ->
     fifo_ok (c_acc x) (map announced (c_loaded x)) /\
     c_acc x = concat (map snd (c_loaded x)) ++ c_pend x /\
     subseq (c_acc x) (sent_by (c_id x) h)) /\
  (forall r s d F, In (r, (s, (d, F))) (g_deliv (st_led st)) ->
     nlen F = w_nfds d /\ exists x, In x (all_conns st) /\ c_id x = s /\ In (d, F) (c_loaded x)).
Proof. exact order_and_count. Qed.
Print Assumptions C15_order_and_count.

(* descriptors are taken in only on negotiated connections and handed only to negotiated recipients; a connection
   number denotes one connection, so "negotiated" is unambiguous *)
Theorem C15_only_negotiated : forall cf h, 0 < fd_timeout cf ->
  let st := reach cf h in
  only_negotiated (negotiated st) (map fst (g_recv (st_led st)))
                  (map (fun e => (fst e, snd (snd (snd e)))) (g_deliv (st_led st))) /\
  (forall x y, In x (all_conns st) -> In y (all_conns st) -> c_id x = c_id y -> c_neg x = c_neg y).
Proof. exact negotiated_only. Qed.
Print Assumptions C15_only_negotiated.

(* the statement as a whole *)
Theorem C15_full : C15_full_statement.
Proof. exact full_statement_holds. Qed.
Print Assumptions C15_full.

(* the transport write step (do_writing): however the recipient's socket splits a message into writes (caps: bytes taken at
   each attempt, 0 = EAGAIN), the descriptors on the wire are exactly the message's descriptors if the transport passes
   descriptors and at least one byte went out, none otherwise: they accompany the first piece and no other *)
Theorem C15_write_split : forall can_fd hlen blen F caps,
  let '(calls, w) := do_writing can_fd hlen blen F 0 caps in
  wire_fds calls = (if can_fd && (0 <? w) then F else []) /\ w = wire_bytes calls /\ w <= hlen + blen.
Proof. exact write_split. Qed.
Print Assumptions C15_write_split.

(* every delivery of every history, written to its recipient in k >= 1 pieces of any sizes: the recipient's descriptor
   count for the message equals the announced count, and they are the message's descriptors in order *)
Theorem C15_delivery_on_the_wire : forall cf h, 0 < fd_timeout cf ->
  let st := reach cf h in
  forall r s d F y hlen blen caps calls,
    In (r, (s, (d, F))) (g_deliv (st_led st)) -> In y (all_conns st) -> c_id y = r ->
    0 < hlen + blen -> do_writing (c_neg y) hlen blen F 0 caps = (calls, hlen + blen) ->
    wire_fds calls = F /\ nlen (wire_fds calls) = w_nfds d.
Proof. exact delivery_on_the_wire. Qed.
Print Assumptions C15_delivery_on_the_wire.

(* the loops of the model are never cut short: serving a write never ends with "out of fuel" or with unread bytes, so the
   fault flag of a state can only come from an ill-formed event (all theorems above hold for those histories too) *)
Theorem C15_fuel_suffices : forall cf now cs c ps fds led,
  let '(_, _, _, rs) := pump (fuel_for ps) cf now cs c ps fds led [] in
  rs <> ROutOfFuel /\ forall r, rs <> RMore r.
Proof. exact step_never_out_of_fuel. Qed.
Print Assumptions C15_fuel_suffices.

(* ================================================================ deepening: the message API (coq/Fds/MsgApi.v) *)
(* every descriptor the library duplicated (append_basic, copy, get_basic, get_args) is in exactly one place: closed by the
   library, in a live message, or handed to the application; nothing is in two places or closed twice *)
Theorem C15_api_conservation : forall evs,
  let st := lreach evs in
  Permutation (ls_dups st) (ls_closed st ++ lib_held st ++ ls_given st) /\
  NoDup (ls_closed st ++ lib_held st ++ ls_given st).
Proof. exact api_conservation. Qed.
Print Assumptions C15_api_conservation.

(* the process's descriptor table = the application's descriptors + what live messages hold; with every message released
   (also through failed copies and failed get_args) only the application's descriptors are open *)
Theorem C15_api_open_table : forall evs,
  let st := lreach evs in
  Permutation (open_fds st) (ls_app st ++ lib_held st) /\ NoDup (open_fds st) /\
  (ls_msgs st = [] -> Permutation (open_fds st) (ls_app st)).
Proof. exact api_open_table. Qed.
Print Assumptions C15_api_open_table.

(* the library closes only its own duplicates, never a descriptor the application owns or was handed *)
Theorem C15_api_closes_only_own : forall evs f,
  let st := lreach evs in
  In f (ls_closed st) -> In f (ls_dups st) /\ ~ In f (ls_given st) /\ ~ In f (ls_app st) /\ ~ In f (open_fds st).
Proof. exact api_closes_only_own. Qed.
Print Assumptions C15_api_closes_only_own.

(* the descriptors of a message denote, in order, the open files of the descriptors that were appended (also in copies) *)
Theorem C15_api_identity : forall evs m,
  let st := lreach evs in In m (ls_msgs st) -> files_of st (lm_fds m) = map Some (lm_src m).
Proof. exact api_identity. Qed.
Print Assumptions C15_api_identity.

Theorem C15_api_get_same_file : forall st h idx st' g,
  LInv st -> lstep st (LGet h idx true) = (st', RFd (Some g)) ->
  exists m f, find_msg (ls_msgs st) h = Some m /\ nth_error (lm_fds m) (N.to_nat idx) = Some f /\
              file_of (ls_open st') g = file_of (ls_open st) f /\ file_of (ls_open st) f <> None /\
              In g (ls_app st') /\ ~ In g (open_fds st).
Proof. exact api_get_same_file. Qed.
Print Assumptions C15_api_get_same_file.

Theorem C15_api_copy_same_files : forall st h h' st',
  LInv st -> lstep st (LCopy h h' None) = (st', RBool true) ->
  exists m m', find_msg (ls_msgs st) h = Some m /\ In m' (ls_msgs st') /\ lm_h m' = h' /\
               lm_src m' = lm_src m /\ files_of st' (lm_fds m') = files_of st (lm_fds m) /\
               (forall f, In f (lm_fds m') -> ~ In f (open_fds st)).
Proof. exact api_copy_same_files. Qed.
Print Assumptions C15_api_copy_same_files.

(* ================================================================ deepening: the receive path on the real bytes (coq/Fds/ByteLoader.v) *)
(* identities erased, the byte-level loader with its descriptor array IS the wire package's loader (C01 / C11 apply to it);
   the descriptors of the queued messages in queue order followed by the pool are what they were plus what this read
   brought, in that order; every queued message holds exactly m_nfds descriptors *)
Theorem C15_byte_erasure : forall b chunk F, coherent b -> att_ok b ->
  b_l (bfeed b chunk F) = feed (b_l b) chunk (nlen F) /\ coherent (bfeed b chunk F) /\ att_ok (bfeed b chunk F) /\
  owned (bfeed b chunk F) = owned b ++ F.
Proof. exact bfeed_spec. Qed.
Print Assumptions C15_byte_erasure.

(* any sequence of writes through the transport's read loop: received = closed at once (truncation) + attached + pool;
   counts per message as announced; the pool within max_message_unix_fds *)
Theorem C15_byte_conservation : forall maxfds cap neg maxsize ws,
  let t := brun maxfds cap neg (bt_new maxsize) ws in
  Permutation (t_recv t) (t_closed t ++ owned (t_b t)) /\ att_ok (t_b t) /\ coherent (t_b t) /\
  nlen (b_pool (t_b t)) <= maxfds.
Proof. intros. destruct (brun_inv maxfds cap neg ws _ (TInv_new maxfds maxsize)); auto. Qed.
Print Assumptions C15_byte_conservation.

Theorem C15_byte_no_fault : forall maxfds cap neg, 0 < cap -> forall t chunk F,
  snd (bread_write maxfds cap neg t chunk F) <> BFault.
Proof. intros. apply bread_fuel; auto. Qed.
Print Assumptions C15_byte_no_fault.

(* the read limit the connection model uses (Fds.get_buffer) is the byte-level one (Wire.max_to_read, C11_limit theorems) *)
Theorem C15_read_limit_refines : forall l c, abs_loader l c -> max_to_read l = Some (get_buffer c).
Proof. exact get_buffer_refines. Qed.
Print Assumptions C15_read_limit_refines.

(* ================================================================ deepening: no barriers (coq/Fds/Async.v) *)
(* a peer that follows the protocol (one message piece per sendmsg, descriptors with the piece holding the first byte, as
   many as announced, valid messages within max_message_unix_fds) and a receiver that reads whenever it likes: the stream
   never goes bad, the kernel discards nothing, and the messages queued so far are exactly the first messages sent, each
   with exactly the descriptors attached to it (as_sent = as_loaded ++ message in progress ++ what is still in the socket) *)
Theorem C15_protocol_sender_any_schedule : forall cf now evs, 0 < read_cap cf -> forall a,
  AInv cf a -> follows cf now a evs -> AInv cf (arun cf now a evs).
Proof. exact protocol_sender_any_schedule. Qed.
Print Assumptions C15_protocol_sender_any_schedule.

(* ---------------------------------------------------------------- the hypotheses are satisfiable, the conclusions are not vacuous *)
Example C15_ex_timeout_positive : 0 < fd_timeout cf0 /\ 0 < fd_timeout cf_default.
Proof. split; reflexivity. Qed.

(* a message announcing two descriptors, sent with two, reaches a negotiated recipient with both, in order;
   the bus then closes its copies *)
Example C15_ex_delivered :
  g_deliv (st_led (reach cf0 h_deliver)) = [(1, (0, (m1, [50; 51])))] /\
  closed_delivered (reach cf0 h_deliver) = [50; 51] /\ held (reach cf0 h_deliver) = [] /\
  received (reach cf0 h_deliver) = [50; 51].
Proof. vm_compute. repeat split. Qed.

(* two descriptors more than announced stay pending with the sender's connection, timer armed *)
Example C15_ex_surplus :
  held (reach cf0 h_surplus) = [60; 61] /\
  map c_since (st_conns (reach cf0 h_surplus)) = [Some 0; None].
Proof. vm_compute. repeat split. Qed.

(* three more when only two fit: the two that were installed are closed at once (CVE-2020-12049 path), the third
   never arrives, the connection is dropped and its pending descriptors are closed; nothing is held any more *)
Example C15_ex_truncated :
  received (reach cf0 h_trunc) = [60; 61; 62; 63] /\
  g_closed (st_led (reach cf0 h_trunc)) = [(62, WTruncated); (63, WTruncated); (60, WConnClosed 0); (61, WConnClosed 0)] /\
  g_kdrop (st_led (reach cf0 h_trunc)) = [64] /\
  held (reach cf0 h_trunc) = [] /\ live_ids (reach cf0 h_trunc) = [1] /\ st_fault (reach cf0 h_trunc) = false.
Proof. vm_compute. repeat split. Qed.

(* a 300000-byte header taken by the socket in three pieces, then the body: one call carries the two descriptors *)
Example C15_ex_split :
  map wr_fds (fst (do_writing true 300000 8 [7; 9] 0 [212992; 0; 50000; 37008; 8])) = [[7; 9]; []; []; []] /\
  snd (do_writing true 300000 8 [7; 9] 0 [212992; 0; 50000; 37008; 8]) = 300008.
Proof. vm_compute. split; reflexivity. Qed.


(* message API: two descriptors appended, a copy that fails at its second dup (the first dup is closed again), a get_args
   that hits a type mismatch after handing out both (both closed again), then everything released *)
Definition api_h : list lev :=
  [LOpen 1; LOpen 2; LNew 1; LAppend 1 0 true true; LAppend 1 1 true true; LCopy 1 2 (Some 1%nat);
   LGetArgs 1 2 None true; LGet 1 1 true; LUnref 1].
Example C15_ex_api :
  ls_closed (lreach api_h) = [4; 5; 6; 2; 3] /\ ls_given (lreach api_h) = [7] /\ ls_app (lreach api_h) = [0; 1; 7] /\
  open_fds (lreach api_h) = [0; 1; 7] /\ file_of (ls_open (lreach api_h)) 7 = Some 2 /\ ls_fault (lreach api_h) = false.
Proof. vm_compute. repeat split. Qed.

(* bytes: a 117-byte method call announcing two descriptors, read in two pieces with the descriptors on the first *)
Definition ex_bytes : bytes :=
  [108; 1; 1; 1; 13; 0; 0; 0; 7; 0; 0; 0; 88; 0; 0; 0; 1; 1; 111; 0; 2; 0; 0; 0; 47; 120; 0; 0; 0; 0; 0; 0; 2; 1; 115; 0; 3; 0; 0; 0;
   120; 46; 73; 0; 0; 0; 0; 0; 3; 1; 115; 0; 2; 0; 0; 0; 84; 55; 0; 0; 0; 0; 0; 0; 6; 1; 115; 0; 6; 0; 0; 0; 120; 46; 67; 48; 48; 49; 0; 0;
   8; 1; 103; 0; 3; 104; 104; 115; 0; 0; 0; 0; 0; 0; 0; 0; 9; 1; 117; 0; 2; 0; 0; 0; 0; 0; 0; 0; 1; 0; 0; 0; 0; 0; 0; 0; 0].
Example C15_ex_bytes :
  let t := brun 4 2048 true (bt_new 4194304) [(firstn 20 ex_bytes, [7; 9]); (skipn 20 ex_bytes, [])] in
  b_att (t_b t) = [[7; 9]] /\ b_pool (t_b t) = [] /\ length (l_msgs (b_l (t_b t))) = 1%nat /\ l_corrupted (b_l (t_b t)) = false /\
  b_pool (t_b (brun 4 2048 true (bt_new 4194304) [(firstn 20 ex_bytes, [7; 9])])) = [7; 9].
Proof. vm_compute. repeat split. Qed.

(* no barriers: the peer is two messages ahead (the second one split over two sendmsg calls), then the receiver reads *)
Definition am1 : wmsg := mkW 100 true true 1 (DConn 1) false 1.
Definition am2 : wmsg := mkW 3000 true true 2 (DConn 1) false 2.
Definition a_sched : list aev :=
  [AESend (PHead am1 100, [5]); AESend (PHead am2 1000, [6; 7]); AESend (PCont 2000, []); AERead; AERead; AERead; AERead].
Example C15_ex_async :
  follows cf0 0 (ainit true) a_sched /\
  as_loaded (arun cf0 0 (ainit true) a_sched) = [(am1, [5]); (am2, [6; 7])] /\
  as_bad (arun cf0 0 (ainit true) a_sched) = false /\ as_q (arun cf0 0 (ainit true) a_sched) = [].
Proof. vm_compute. repeat split; auto; try discriminate; try (intro; discriminate). Qed.

Example C15_ex_nodup : NoDup (sent_fds h_trunc).
Proof. vm_compute. repeat constructor; simpl; intuition discriminate. Qed.
