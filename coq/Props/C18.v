(* C18 - a monitor sees everything that matches and can affect nothing.

   Model: Monitor/Monitor.v (bus with monitors: capture hook at every site, BecomeMonitor with its argument
   and privilege checks, name release, pending replies, ordinary match rules, the two refusal kinds of the test
   policy, messages held for service activation, what libdbus answers by itself).  Specification:
   Spec/MonitorSpec.v (declarative match-rule semantics, the clauses of the property).  Proofs:
   Proofs/MonitorBase.v, MonitorInv.v, MonitorSees.v, MonitorErase.v, MonitorSwitch.v.

   Where the faithful model breaks the literal text, the full statement is kept, the part that holds is
   proved with the exception spelled out, and the exception is exhibited (`_refuted`); tools/props/c18.py
   replays those witnesses on the real daemon (findings F18a, F18b, F18c, F18e in notes/C18.md).

   [creachable] = reachable by a history in which no connection calls BecomeMonitor while a message of its
   own is still held for service activation (Spec.calm); [reachable] = reachable at all. *)
From Coq Require Import Permutation.
From DV Require Import Lib.Base Monitor.Monitor Spec.MonitorSpec Proofs.MonitorBase Proofs.MonitorInv Proofs.MonitorSees
                       Proofs.MonitorErase Proofs.MonitorSwitch.
Local Open Scope N_scope.

(* ---------------------------------------------------------------- sees everything that matches, once, with the true sender *)
(* every item the bus produces in a state where x is a monitor - calls, replies, signals, driver-made
   signals / replies / errors, refusals, messages put on hold for activation - except those libdbus consumes
   on the bus's side of the socket; a held message is such an item when it is RECEIVED *)
Theorem C18_sees_once : forall st e x it,
  creachable st -> is_monitor st x = true -> In it (snd (step st e)) -> i_local it = false -> i_resumed it = false ->
  sees_once_at st x it /\ true_sender it.
Proof. exact sees_once. Qed.
Print Assumptions C18_sees_once.

(* ... and is not shown a second time when its dispatch is resumed *)
Theorem C18_resumed_no_copy : forall st e it,
  creachable st -> In it (snd (step st e)) -> i_resumed it = true -> i_cap it = [] /\ true_sender it.
Proof. exact resumed_no_copy. Qed.
Print Assumptions C18_resumed_no_copy.

(* the model's matching loop is the declarative rule semantics of the specification *)
Theorem C18_filter_semantics : forall own f from addr m,
  fmatch own true f from addr m = true <-> accepts own f from addr m.
Proof. exact fmatch_accepts. Qed.
Print Assumptions C18_filter_semantics.

(* the matchmaker's index is exact: the rule lists bus_matchmaker_get_recipients consults (no type and no interface; just the
   message's interface; and, for the four defined message types only, just the type and both) contain every rule that can
   accept the message - also for a message whose type byte is none of the defined ones; hence the lookup lists a recipient
   once iff one of ALL its rules accepts (this is what C18_sees_once counts with) *)
Theorem C18_index_exact : forall own ev rules x from addr m,
  existsb (fun p => wantsb own ev p x from addr m) (the_pools rules m) = wantsb own ev rules x from addr m.
Proof. exact wantsb_pools. Qed.
Print Assumptions C18_index_exact.

Theorem C18_lookup_counts : forall own ev rules from addr m x,
  count_occ N.eq_dec (get_recipients own ev rules from addr m) x =
  if negb (match addr with Some a => a =? x | None => false end) && wantsb own ev rules x from addr m then 1%nat else 0%nat.
Proof. exact count_get_recipients. Qed.
Print Assumptions C18_lookup_counts.

Definition ping (serial : N) : bmsg := mkB TCall SNone None I_PEER M_PING serial 0 0 false false [].
Definition bm (c : cid) (serial : N) (rs : list (option flt)) : event := EBecomeMonitor c serial true 0 rs.
Definition h_mon : list event := [EConnect true; EConnect true; bm 1 2 []].
Definition st_mon : state := state_after h_mon.
Lemma st_mon_reachable : reachable st_mon.
Proof. exists h_mon; reflexivity. Qed.

(* F18b: a client's Ping without destination is a message the bus processes (and answers); the monitor,
   whose empty filter wants everything, gets no copy *)
Theorem C18_sees_once_refuted : ~ C18_sees_once_full_statement.
Proof.
  intros H.
  specialize (H st_mon (ESend 0 (ping 2)) 1 (mkItem (st_own st_mon) (Some 0) None (stamp 0 (ping 2)) true [] None [] false)
                st_mon_reachable eq_refl (or_introl eq_refl)).
  destruct H as [H _].
  assert (W : monitor_wants (st_mrules st_mon) (st_own st_mon) 1 (Some 0) None (stamp 0 (ping 2))).
  { exists empty_filter. split; [left; reflexivity|]. apply fmatch_accepts. reflexivity. }
  specialize (H W). vm_compute in H. discriminate.
Qed.
Print Assumptions C18_sees_once_refuted.

(* ---------------------------------------------------------------- never the addressee of a delivery *)
Theorem C18_never_addressee : forall st e x it,
  creachable st -> is_monitor st x = true -> In it (snd (step st e)) -> i_local it = false ->
  i_direct it <> Some x /\ ~ In x (i_match it).
Proof. exact never_addressee. Qed.
Print Assumptions C18_never_addressee.

(* F18a: the answer libdbus gives to a monitor's own Ping is delivered to the monitor *)
Theorem C18_never_addressee_refuted : ~ C18_never_addressee_full_statement.
Proof.
  intros H.
  specialize (H st_mon (ESend 1 (ping 3)) 1
                (mkItem (st_own st_mon) None (Some 1) (mkB TReturn SNone None 0 0 0 3 0 true false []) true [] (Some 1) [] false)
                st_mon_reachable eq_refl (or_intror (or_introl eq_refl))).
  destruct H as [H _]. apply H. reflexivity.
Qed.
Print Assumptions C18_never_addressee_refuted.

(* F18e: connection 0 has a call held for the activatable name 4, becomes a monitor, connection 1 acquires the
   name (the call is delivered to it: something IS routed from a monitor) and leaves without answering: the bus
   originates a NoReply addressed to the monitor and delivers it *)
Definition held_call : bmsg := mkB TCall SNone (Some (NWk 4)) 6 20 2 0 0 false false [].
Definition h_held : list event :=
  [EConnect true; EConnect true; ESend 0 held_call; bm 0 3 []].
Lemma st_held_reachable : forall h, reachable (state_after (h_held ++ h)).
Proof. intros h; exists (h_held ++ h); reflexivity. Qed.

Theorem C18_nothing_routed_from_monitor : forall st e x it,
  creachable st -> is_monitor st x = true -> In it (snd (step st e)) -> i_local it = false -> i_from it <> Some x.
Proof. exact nothing_routed_from_monitor. Qed.
Print Assumptions C18_nothing_routed_from_monitor.

Theorem C18_nothing_routed_from_monitor_refuted : ~ C18_nothing_routed_from_monitor_full_statement.
Proof.
  intros H.
  pose (st := state_after (h_held ++ [])).
  pose (it := nth 3 (snd (step st (ERequestName 1 2 4 false))) (mkItem [] None None (ping 0) true [] None [] false)).
  specialize (H st (ERequestName 1 2 4 false) 0 it (st_held_reachable []) eq_refl).
  assert (Hin : In it (snd (step st (ERequestName 1 2 4 false)))).
  { vm_compute. right. right. right. left. reflexivity. }
  specialize (H Hin eq_refl). apply H. reflexivity.
Qed.
Print Assumptions C18_nothing_routed_from_monitor_refuted.

Theorem C18_never_addressee_routed_refuted : ~ C18_never_addressee_routed_full_statement.
Proof.
  intros H.
  pose (st := state_after (h_held ++ [ERequestName 1 2 4 false])).
  pose (it := nth 4 (snd (step st (EDisconnect 1))) (mkItem [] None None (ping 0) true [] None [] false)).
  specialize (H st (EDisconnect 1) 0 it (st_held_reachable _) eq_refl).
  assert (Hin : In it (snd (step st (EDisconnect 1)))).
  { vm_compute. right. right. right. right. left. reflexivity. }
  specialize (H Hin eq_refl). destruct H as [H _]. apply H. reflexivity.
Qed.
Print Assumptions C18_never_addressee_routed_refuted.

(* ---------------------------------------------------------------- disconnected if it sends anything *)
(* anything but a message on interface Peer without destination: the monitor is gone, nothing is emitted,
   registry, rules and pending replies are untouched *)
Theorem C18_send_closes : forall st e x,
  creachable st -> is_monitor st x = true -> actor e = Some x -> wf_event st e = true ->
  (forall m, wire_msg e = Some m -> peer_local m = false) ->
  closes st e x.
Proof. exact send_closes. Qed.
Print Assumptions C18_send_closes.

(* F18a: the monitor pings the bus and stays *)
Theorem C18_send_closes_refuted : ~ C18_send_closes_full_statement.
Proof.
  intros H. specialize (H st_mon (ESend 1 (ping 3)) 1 st_mon_reachable eq_refl eq_refl eq_refl).
  destruct H as (H & _). vm_compute in H. discriminate.
Qed.
Print Assumptions C18_send_closes_refuted.

(* ---------------------------------------------------------------- owns no names, loses its rules, awaits and owes no reply *)
Theorem C18_owns_nothing : forall st x n, creachable st -> is_monitor st x = true -> ~ in_queue (st_own st) n x.
Proof. exact owns_nothing. Qed.
Print Assumptions C18_owns_nothing.

Theorem C18_loses_rules : forall st x f, creachable st -> is_monitor st x = true -> ~ In (x, f) (st_rules st).
Proof. exact no_ordinary_rules. Qed.
Print Assumptions C18_loses_rules.

Theorem C18_no_pending_replies : forall st x p,
  creachable st -> is_monitor st x = true -> In p (st_pend st) -> p_get p <> x /\ p_send p <> Some x.
Proof. exact no_pending_replies. Qed.
Print Assumptions C18_no_pending_replies.

(* ---------------------------------------------------------------- BecomeMonitor is all or nothing *)
(* refused (caller not privileged / signature not "asu" / a flag set / some rule does not parse, wherever it stands
   in the array): the step returns the state it started from and produces the captured call and ONE error, nothing else *)
Theorem C18_switch_refused : forall st c s so fl rs,
  ordinary st c -> s <> 0 -> refused st c so fl rs ->
  let m := call_msg c s I_MONITORING M_BECOME_MONITOR in
  step st (EBecomeMonitor c s so fl rs) = (st, [entry_item st c m; error_reply st c m (refusal_code st c so fl)]).
Proof. exact switch_refused. Qed.
Print Assumptions C18_switch_refused.

(* accepted: the state afterwards, field by field *)
Theorem C18_switch_exact : forall st c s rs fs,
  ordinary st c -> s <> 0 -> memN c (st_unpriv st) = false -> parse_all rs = Some fs ->
  fst (step st (EBecomeMonitor c s true 0 rs)) =
  mkState (st_conns st) (st_next st) (filter (fun p => negb (snd p =? c)) (st_own st)) (drop_rules (st_rules st) c)
          (st_mrules st ++ map (fun f => (c, f)) (match fs with [] => [empty_filter] | _ => fs end)) (st_mons st ++ [c])
          (drop_pending (st_pend st) c) (st_unpriv st) (st_held st).
Proof. exact switch_exact. Qed.
Print Assumptions C18_switch_exact.

(* accepted: what every other connection is delivered - per name of c, in the order c got them, what releasing
   that name delivers (NameOwnerChanged to the rules that match, NameAcquired to the next in the queue), then
   NoReply to everyone who was waiting for c *)
Theorem C18_switch_signals : forall st c s rs fs x,
  creachable st -> ordinary st c -> s <> 0 -> memN c (st_unpriv st) = false -> parse_all rs = Some fs -> x <> c ->
  view x (snd (step st (EBecomeMonitor c s true 0 rs))) =
  flat_map (fun n => view x (snd (remove_owner st c n))) (owned (st_own st) c) ++ view x (snd (noreply_items st c)).
Proof. intros st c s rs fs x R. apply switch_signals. apply Inv_creachable; auto. Qed.
Print Assumptions C18_switch_signals.

Theorem C18_switch_effect : forall st c s rs fs,
  ordinary st c -> s <> 0 -> memN c (st_unpriv st) = false -> parse_all rs = Some fs ->
  let st' := fst (step st (EBecomeMonitor c s true 0 rs)) in
  is_monitor st' c = true /\ connected st' c = true /\
  owned (st_own st') c = [] /\ (forall f, ~ In (c, f) (st_rules st')) /\
  (forall p, In p (st_pend st') -> involves c p = false) /\
  (forall f, In (c, f) (st_mrules st') <-> In (c, f) (st_mrules st) \/ In f (match fs with [] => [empty_filter] | _ => fs end)).
Proof. exact switch_effect. Qed.
Print Assumptions C18_switch_effect.

(* ---------------------------------------------------------------- what every other client observes *)
Theorem C18_transparent : C18_transparent_statement.
Proof. exact transparent. Qed.
Print Assumptions C18_transparent.

(* F18e again: with the held call, connection 1 is delivered the monitor's call when it acquires the name; had
   connection 0 simply left, it would be delivered nothing of the sort *)
Theorem C18_transparent_refuted : ~ C18_transparent_full_statement.
Proof.
  intros H.
  destruct (H [EConnect true; EConnect true; ESend 0 held_call] 0 3 true 0 [] I) as [_ H2].
  - vm_compute. split; reflexivity.
  - discriminate.
  - vm_compute. reflexivity.
  - destruct (H2 [] (ERequestName 1 2 4 false) 1 I) as [_ H3].
    + vm_compute. split; reflexivity.
    + vm_compute in H3. discriminate.
Qed.
Print Assumptions C18_transparent_refuted.

(* monitors are erasable altogether: deleting all monitors from a state changes nothing any ordinary
   connection is delivered in the next step, nor the state they can observe later *)
Theorem C18_erasable : forall st e,
  creachable st ->
  core (fst (step (core st) e)) = core (fst (step st e)) /\
  forall x, is_monitor st x = false -> view x (snd (step (core st) e)) = view x (snd (step st e)).
Proof. intros st e R. apply step_erase. apply Inv_creachable; auto. Qed.
Print Assumptions C18_erasable.

(* ---------------------------------------------------------------- at most once in total *)
Theorem C18_once_total : forall st e x it,
  creachable st -> is_monitor st x = true -> In it (snd (step st e)) -> i_local it = false -> (total x it <= 1)%nat.
Proof. exact once_total_old_monitor. Qed.
Print Assumptions C18_once_total.

(* F18c: with another monitor present, the connection that is becoming a monitor receives the
   NameOwnerChanged for its own unique name twice: through the ordinary rule it still has and as a monitor copy *)
Definition noc_filter : flt := mkFilter (Some KSignal) None None None (Some M_NAME_OWNER_CHANGED).
Definition h_two : list event := [EConnect true; EConnect true; EConnect true; bm 2 2 []; EAddMatch 0 2 noc_filter].
Lemma st_two_reachable : reachable (state_after h_two).
Proof. exists h_two; reflexivity. Qed.

Theorem C18_once_total_refuted : ~ C18_once_total_full_statement.
Proof.
  intros H.
  pose (it := nth 3 (snd (step (state_after h_two) (bm 0 3 []))) (mkItem [] None None (ping 0) true [] None [] false)).
  specialize (H (state_after h_two) (bm 0 3 []) 0 it st_two_reachable eq_refl).
  assert (Hin : In it (snd (step (state_after h_two) (bm 0 3 [])))).
  { vm_compute. right. right. right. left. reflexivity. }
  specialize (H Hin). vm_compute in H. exact (PeanoNat.Nat.nle_succ_diag_l 1 H).
Qed.
Print Assumptions C18_once_total_refuted.

(* ---------------------------------------------------------------- non-vacuity *)
Definition sig (serial : N) : bmsg := mkB TSignal SNone None 6 20 serial 0 0 false false [].
Definition call (d : name) (serial : N) : bmsg := mkB TCall SNone (Some d) 6 20 serial 0 0 false false [].

(* a broadcast signal: one copy to the monitor, bearing the sender's unique name, although the client wrote none *)
Example ex_signal_copy :
  map (fun it => (i_cap it, b_sender (i_msg it))) (snd (step st_mon (ESend 0 (sig 2)))) = [([1], SConn 0)].
Proof. vm_compute. reflexivity. Qed.

(* a call to a name nobody owns and nobody can provide: the call and the bus's error are both copied *)
Example ex_undeliverable :
  map (fun it => (i_cap it, b_type (i_msg it), b_err (i_msg it))) (snd (step st_mon (ESend 0 (call (NWk 3) 2)))) =
  [([1], TCall, 0); ([1], TError, E_SERVICE_UNKNOWN)].
Proof. vm_compute. reflexivity. Qed.

(* a call addressed to the monitor's former unique name is undeliverable: copied, never delivered *)
Example ex_to_monitor :
  map (fun it => (i_cap it, i_direct it, b_err (i_msg it))) (snd (step st_mon (ESend 0 (call (NUniq 1) 2)))) =
  [([1], None, 0); ([1], Some 0, E_SERVICE_UNKNOWN)].
Proof. vm_compute. reflexivity. Qed.

(* a call to an activatable name: copied when received (nothing else happens), delivered without a second copy
   when the name is acquired; the monitor sees NameOwnerChanged, NameAcquired and the reply in between *)
Example ex_held :
  let s1 := step st_mon (ESend 0 (call (NWk 4) 2)) in
  let s2 := step (fst s1) (ERequestName 0 3 4 false) in
  (map (fun it => (i_cap it, i_direct it, i_resumed it)) (snd s1),
   map (fun it => (i_cap it, i_direct it, i_resumed it)) (snd s2)) =
  ([([1], None, false)],
   [([1], None, false); ([1], None, false); ([1], Some 0, false); ([], Some 0, true); ([1], Some 0, false)]).
Proof. vm_compute. reflexivity. Qed.

(* a selective monitor: rule "sender = well-known name 0" wants what the owner of that name sends and nothing else *)
Definition h_sel : list event :=
  [EConnect true; EConnect true; EConnect true; ERequestName 0 2 0 false; bm 2 2 [Some (mkFilter None (Some (NWk 0)) None None None)]].
Example ex_selective :
  (map i_cap (snd (step (state_after h_sel) (ESend 0 (sig 3)))), map i_cap (snd (step (state_after h_sel) (ESend 1 (sig 3))))) =
  ([[2]], [[]]).
Proof. vm_compute. reflexivity. Qed.

(* a message of a type the specification does not define (type byte 5) to connection 1: refused with AccessDenied, never
   delivered; the monitor whose only rule is interface=6 (no type) gets its copy of the message, and none of the error *)
Definition h_odd : list event :=
  [EConnect true; EConnect true; EConnect true; bm 2 2 [Some (mkFilter None None None (Some 6) None)]].
Example ex_undefined_type :
  map (fun it => (i_cap it, i_direct it, b_err (i_msg it)))
      (snd (step (state_after h_odd) (ESend 0 (mkB (TOther 5) SNone (Some (NUniq 1)) 6 20 2 0 0 false false [])))) =
  [([2], None, 0); ([], Some 0, E_ACCESS_DENIED)].
Proof. vm_compute. reflexivity. Qed.

(* the monitor sends a signal: closed, nothing emitted *)
Example ex_closed :
  let r := step st_mon (ESend 1 (sig 3)) in (snd r, connected (fst r) 1, is_monitor (fst r) 1) = ([], false, false).
Proof. vm_compute. reflexivity. Qed.

(* the four refusals, and a bad rule after two good ones: in each case the state is untouched *)
Definition h_ref : list event := [EConnect true; EConnect false; ERequestName 0 2 0 false; EAddMatch 0 3 noc_filter].
Example ex_refusals :
  let st := state_after h_ref in
  map (fun e => (fst (step st e) = st, map (fun it => b_err (i_msg it)) (snd (step st e))))
      [EBecomeMonitor 1 2 true 0 []; EBecomeMonitor 0 4 false 0 []; EBecomeMonitor 0 4 true 1 [];
       EBecomeMonitor 0 4 true 0 [Some empty_filter; Some noc_filter; None]] =
  [(fst (step st (EBecomeMonitor 1 2 true 0 [])) = st, [0; E_ACCESS_DENIED]);
   (fst (step st (EBecomeMonitor 0 4 false 0 [])) = st, [0; E_INVALID_ARGS]);
   (fst (step st (EBecomeMonitor 0 4 true 1 [])) = st, [0; E_INVALID_ARGS]);
   (fst (step st (EBecomeMonitor 0 4 true 0 [Some empty_filter; Some noc_filter; None])) = st, [0; E_MATCH_RULE_INVALID])] /\
  refused st 1 true 0 [] /\ refused st 0 true 0 [Some empty_filter; Some noc_filter; None].
Proof. vm_compute. split; [reflexivity | split; [left; reflexivity | right; right; right; right; right; left; reflexivity]]. Qed.

(* why the switch step is compared up to order: x = 0 owns its unique name and n0; an observer of
   NameOwnerChanged reads the two signals in opposite orders *)
Definition h_ord : list event := [EConnect true; EConnect true; ERequestName 0 2 0 false; EAddMatch 1 2 noc_filter].
Example ex_release_order :
  let v e := map (fun km => b_args (snd km)) (view 1 (snd (step (state_after h_ord) e))) in
  v (bm 0 3 []) = [[AName (NUniq 0); AName (NUniq 0); AEmpty]; [AName (NWk 0); AName (NUniq 0); AEmpty]] /\
  v (EDisconnect 0) = [[AName (NWk 0); AName (NUniq 0); AEmpty]; [AName (NUniq 0); AName (NUniq 0); AEmpty]].
Proof. vm_compute. split; reflexivity. Qed.

(* the hypotheses of C18_transparent are satisfiable, and a later step really delivers something *)
Example ex_transparent_nonvacuous :
  calm init (h_ord ++ [bm 0 3 []]) = true /\ ordinary (state_after h_ord) 0 /\
  is_monitor (fst (step (state_after h_ord) (bm 0 3 []))) 0 = true /\
  length (view 1 (snd (step (state_after (h_ord ++ [bm 0 3 []])) (ERequestName 1 3 1 false)))) = 3%nat.
Proof. vm_compute. repeat split; reflexivity. Qed.
