(* C18 - a monitor sees everything that matches and can affect nothing.

   Model: Monitor/Monitor.v (bus with monitors: capture hook at every site, BecomeMonitor, name release,
   pending replies, ordinary match rules, the two refusal kinds of the test policy, what libdbus answers
   by itself).  Specification: Spec/MonitorSpec.v (declarative match-rule semantics, the clauses of the
   property).  Proofs: Proofs/MonitorBase.v, MonitorInv.v, MonitorSees.v, MonitorErase.v, MonitorSwitch.v.

   Where the faithful model breaks the literal text, the full statement is kept, the part that holds is
   proved with the exception spelled out, and the exception is exhibited (`_refuted`); tools/props/c18.py
   replays those witnesses on the real daemon (findings F18a, F18b, F18c in notes/C18.md). *)
From Coq Require Import Permutation.
From DV Require Import Lib.Base Monitor.Monitor Spec.MonitorSpec Proofs.MonitorBase Proofs.MonitorInv Proofs.MonitorSees
                       Proofs.MonitorErase Proofs.MonitorSwitch.
Local Open Scope N_scope.

(* ---------------------------------------------------------------- sees everything that matches, once, with the true sender *)
(* every item the bus produces in a state where x is a monitor - calls, replies, signals, driver-made
   signals / replies / errors, refusals - except those libdbus consumes on the bus's side of the socket *)
Theorem C18_sees_once : forall st e x it,
  reachable st -> is_monitor st x = true -> In it (snd (step st e)) -> i_local it = false ->
  sees_once_at st x it /\ true_sender it.
Proof. exact sees_once. Qed.
Print Assumptions C18_sees_once.

(* the model's matching loop is the declarative rule semantics of the specification *)
Theorem C18_filter_semantics : forall own f from addr m,
  fmatch own true f from addr m = true <-> accepts own f from addr m.
Proof. exact fmatch_accepts. Qed.
Print Assumptions C18_filter_semantics.

Definition ping (serial : N) : bmsg := mkB TCall SNone None I_PEER M_PING serial 0 0 false false [].
Definition h_mon : list event := [EConnect; EConnect; EBecomeMonitor 1 2 []].
Definition st_mon : state := state_after h_mon.
Lemma st_mon_reachable : reachable st_mon.
Proof. exists h_mon; reflexivity. Qed.

(* F18b: a client's Ping without destination is a message the bus processes (and answers); the monitor,
   whose empty filter wants everything, gets no copy *)
Theorem C18_sees_once_refuted : ~ C18_sees_once_full_statement.
Proof.
  intros H.
  specialize (H st_mon (ESend 0 (ping 2)) 1 (mkItem (st_own st_mon) (Some 0) None (stamp 0 (ping 2)) true [] None [])
                st_mon_reachable eq_refl (or_introl eq_refl)).
  destruct H as [H _].
  assert (W : monitor_wants (st_mrules st_mon) (st_own st_mon) 1 (Some 0) None (stamp 0 (ping 2))).
  { exists empty_filter. split; [left; reflexivity|]. apply fmatch_accepts. reflexivity. }
  specialize (H W). vm_compute in H. discriminate.
Qed.
Print Assumptions C18_sees_once_refuted.

(* ---------------------------------------------------------------- never the addressee of a delivery *)
Theorem C18_never_addressee : forall st e x it,
  reachable st -> is_monitor st x = true -> In it (snd (step st e)) -> i_local it = false ->
  i_direct it <> Some x /\ ~ In x (i_match it).
Proof. exact never_addressee. Qed.
Print Assumptions C18_never_addressee.

(* F18a: the answer libdbus gives to a monitor's own Ping is delivered to the monitor *)
Theorem C18_never_addressee_refuted : ~ C18_never_addressee_full_statement.
Proof.
  intros H.
  specialize (H st_mon (ESend 1 (ping 3)) 1
                (mkItem (st_own st_mon) None (Some 1) (mkB TReturn SNone None 0 0 0 3 0 true false []) true [] (Some 1) [])
                st_mon_reachable eq_refl (or_intror (or_introl eq_refl))).
  destruct H as [H _]. apply H. reflexivity.
Qed.
Print Assumptions C18_never_addressee_refuted.

(* ---------------------------------------------------------------- disconnected if it sends anything *)
(* anything but a message on interface Peer without destination: the monitor is gone, nothing is emitted,
   registry, rules and pending replies are untouched *)
Theorem C18_send_closes : forall st e x,
  is_monitor st x = true -> actor e = Some x -> wf_event st e = true ->
  (forall m, wire_msg e = Some m -> peer_local m = false) ->
  closes st e x.
Proof. exact send_closes. Qed.
Print Assumptions C18_send_closes.

(* F18a: the monitor pings the bus and stays *)
Theorem C18_send_closes_refuted : ~ C18_send_closes_full_statement.
Proof.
  intros H. specialize (H st_mon (ESend 1 (ping 3)) 1 st_mon_reachable eq_refl eq_refl eq_refl).
  destruct H as (H & _). vm_compute in H. discriminate.
Qed.
Print Assumptions C18_send_closes_refuted.

(* ---------------------------------------------------------------- owns no names, loses its rules, awaits and owes no reply *)
Theorem C18_owns_nothing : forall st x n, reachable st -> is_monitor st x = true -> ~ in_queue (st_own st) n x.
Proof. exact owns_nothing. Qed.
Print Assumptions C18_owns_nothing.

Theorem C18_loses_rules : forall st x f, reachable st -> is_monitor st x = true -> ~ In (x, f) (st_rules st).
Proof. exact no_ordinary_rules. Qed.
Print Assumptions C18_loses_rules.

Theorem C18_no_pending_replies : forall st x p,
  reachable st -> is_monitor st x = true -> In p (st_pend st) -> p_get p <> x /\ p_send p <> Some x.
Proof. exact no_pending_replies. Qed.
Print Assumptions C18_no_pending_replies.

(* the switch itself: whatever c owned, waited for or had asked for, afterwards it is a connected monitor
   with no names, no ordinary rules, no part in any pending reply, and exactly the rules it asked for *)
Theorem C18_switch_effect : forall st c s fs,
  reachable st -> ordinary st c -> s <> 0 ->
  let st' := fst (step st (EBecomeMonitor c s fs)) in
  is_monitor st' c = true /\ connected st' c = true /\
  owned (st_own st') c = [] /\ (forall f, ~ In (c, f) (st_rules st')) /\
  (forall p, In p (st_pend st') -> involves c p = false) /\
  (forall f, In (c, f) (st_mrules st') <-> In (c, f) (st_mrules st) \/ In f (match fs with [] => [empty_filter] | _ => fs end)).
Proof. exact switch_effect. Qed.
Print Assumptions C18_switch_effect.

(* ---------------------------------------------------------------- what every other client observes *)
Theorem C18_transparent : C18_transparent_statement.
Proof. exact transparent. Qed.
Print Assumptions C18_transparent.

(* monitors are erasable altogether: deleting all monitors from a state changes nothing any ordinary
   connection is delivered in the next step, nor the state they can observe later *)
Theorem C18_erasable : forall st e,
  reachable st ->
  core (fst (step (core st) e)) = core (fst (step st e)) /\
  forall x, is_monitor st x = false -> view x (snd (step (core st) e)) = view x (snd (step st e)).
Proof. intros st e R. apply step_erase. apply Inv_reachable; auto. Qed.
Print Assumptions C18_erasable.

(* ---------------------------------------------------------------- at most once in total *)
Theorem C18_once_total : forall st e x it,
  reachable st -> is_monitor st x = true -> In it (snd (step st e)) -> i_local it = false -> (total x it <= 1)%nat.
Proof. exact once_total_old_monitor. Qed.
Print Assumptions C18_once_total.

(* F18c: with another monitor present, the connection that is becoming a monitor receives the
   NameOwnerChanged for its own unique name twice: through the ordinary rule it still has and as a monitor copy *)
Definition noc_filter : flt := mkFilter (Some TSignal) None None None (Some M_NAME_OWNER_CHANGED).
Definition h_two : list event := [EConnect; EConnect; EConnect; EBecomeMonitor 2 2 []; EAddMatch 0 2 noc_filter].
Lemma st_two_reachable : reachable (state_after h_two).
Proof. exists h_two; reflexivity. Qed.

Theorem C18_once_total_refuted : ~ C18_once_total_full_statement.
Proof.
  intros H.
  pose (it := nth 3 (snd (step (state_after h_two) (EBecomeMonitor 0 3 []))) (mkItem [] None None (ping 0) true [] None [])).
  specialize (H (state_after h_two) (EBecomeMonitor 0 3 []) 0 it st_two_reachable eq_refl).
  assert (Hin : In it (snd (step (state_after h_two) (EBecomeMonitor 0 3 [])))).
  { vm_compute. right. right. right. left. reflexivity. }
  specialize (H Hin). vm_compute in H. exact (PeanoNat.Nat.nle_succ_diag_l 1 H).
Qed.
Print Assumptions C18_once_total_refuted.

(* ---------------------------------------------------------------- non-vacuity *)
Definition sig (serial : N) : bmsg := mkB TSignal SNone None 6 20 serial 0 0 false false [].
Definition call (d : name) (serial : N) : bmsg := mkB TCall SNone (Some d) 6 20 serial 0 0 false false [].

(* a broadcast signal: one copy to the monitor, bearing the sender's unique name, although the client wrote none *)
Example ex_signal_copy :
  map (fun it => (i_cap it, b_sender (i_msg it))) (snd (step st_mon (ESend 0 (sig 2)))) = [([1], SConn 0)].
Proof. vm_compute. reflexivity. Qed.

(* a call to a name nobody owns: the call and the bus's error are both copied *)
Example ex_undeliverable :
  map (fun it => (i_cap it, b_type (i_msg it), b_err (i_msg it))) (snd (step st_mon (ESend 0 (call (NWk 3) 2)))) =
  [([1], TCall, 0); ([1], TError, E_SERVICE_UNKNOWN)].
Proof. vm_compute. reflexivity. Qed.

(* a call addressed to the monitor's former unique name is undeliverable: copied, never delivered *)
Example ex_to_monitor :
  map (fun it => (i_cap it, i_direct it, b_err (i_msg it))) (snd (step st_mon (ESend 0 (call (NUniq 1) 2)))) =
  [([1], None, 0); ([1], Some 0, E_SERVICE_UNKNOWN)].
Proof. vm_compute. reflexivity. Qed.

(* a selective monitor: rule "sender = well-known name 0" wants what the owner of that name sends and nothing else *)
Definition h_sel : list event :=
  [EConnect; EConnect; EConnect; ERequestName 0 2 0 false; EBecomeMonitor 2 2 [mkFilter None (Some (NWk 0)) None None None]].
Example ex_selective :
  (map i_cap (snd (step (state_after h_sel) (ESend 0 (sig 3)))), map i_cap (snd (step (state_after h_sel) (ESend 1 (sig 3))))) =
  ([[2]], [[]]).
Proof. vm_compute. reflexivity. Qed.

(* the monitor sends a signal: closed, nothing emitted *)
Example ex_closed :
  let r := step st_mon (ESend 1 (sig 3)) in (snd r, connected (fst r) 1, is_monitor (fst r) 1) = ([], false, false).
Proof. vm_compute. reflexivity. Qed.

(* why the switch step is compared up to order: x = 0 owns its unique name and n0; an observer of
   NameOwnerChanged reads the two signals in opposite orders *)
Definition h_ord : list event := [EConnect; EConnect; ERequestName 0 2 0 false; EAddMatch 1 2 noc_filter].
Example ex_release_order :
  let v e := map (fun km => b_args (snd km)) (view 1 (snd (step (state_after h_ord) e))) in
  v (EBecomeMonitor 0 3 []) = [[AName (NUniq 0); AName (NUniq 0); AEmpty]; [AName (NWk 0); AName (NUniq 0); AEmpty]] /\
  v (EDisconnect 0)         = [[AName (NWk 0); AName (NUniq 0); AEmpty]; [AName (NUniq 0); AName (NUniq 0); AEmpty]].
Proof. vm_compute. split; reflexivity. Qed.

(* the hypotheses of C18_transparent are satisfiable, and a later step really delivers something *)
Example ex_transparent_nonvacuous :
  ordinary (state_after h_ord) 0 /\
  length (view 1 (snd (step (state_after (h_ord ++ [EBecomeMonitor 0 3 []])) (ERequestName 1 3 1 false)))) = 3%nat.
Proof. vm_compute. split; [split; reflexivity | reflexivity]. Qed.
