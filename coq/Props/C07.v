(* C07 — broadcasts reach exactly the connections whose match rules match.
   Theorem statements only; proofs live in Proofs/Match*.v. *)
From DV Require Import Lib.Base Match.Rule Match.Matcher Match.Bus.
Local Open Scope N_scope.
