(* C07 — broadcasts reach exactly the connections whose match rules match.
   Theorem statements only, each closed by [exact]; proofs live in
   Proofs/Match{Recipients,Semantics,History,Tokenize,Parse}.v.  Model:
   Match/{Rule,Matcher,Bus}.v; specification: Spec/MatchSpec.v. *)
From DV Require Import Lib.Base Match.Rule Match.Matcher Match.Bus Match.Index Spec.MatchSpec
  Proofs.MatchRecipients Proofs.MatchSemantics Proofs.MatchHistory Proofs.MatchTokenize Proofs.MatchParse Proofs.MatchIndex Proofs.MatchEqual.
Local Open Scope N_scope.

(* witnesses (ASCII) *)
Definition T_eq_x : bytes := [61;120].                       (* =x *)
Definition T_t17 : bytes := [101;97;118;101;115;100;114;111;112;61;39;116;114;117;101;39;44;101;97;118;101;115;100;114;111;112;61;39;116;114;117;101;39;44;101;97;118;101;115;100;114;111;112;61;39;116;114;117;101;39;44;101;97;118;101;115;100;114;111;112;61;39;116;114;117;101;39;44;101;97;118;101;115;100;114;111;112;61;39;116;114;117;101;39;44;101;97;118;101;115;100;114;111;112;61;39;116;114;117;101;39;44;101;97;118;101;115;100;114;111;112;61;39;116;114;117;101;39;44;101;97;118;101;115;100;114;111;112;61;39;116;114;117;101;39;44;101;97;118;101;115;100;114;111;112;61;39;116;114;117;101;39;44;101;97;118;101;115;100;114;111;112;61;39;116;114;117;101;39;44;101;97;118;101;115;100;114;111;112;61;39;116;114;117;101;39;44;101;97;118;101;115;100;114;111;112;61;39;116;114;117;101;39;44;101;97;118;101;115;100;114;111;112;61;39;116;114;117;101;39;44;101;97;118;101;115;100;114;111;112;61;39;116;114;117;101;39;44;101;97;118;101;115;100;114;111;112;61;39;116;114;117;101;39;44;101;97;118;101;115;100;114;111;112;61;39;116;114;117;101;39;44;116;121;112;101;61;39;98;111;103;117;115;39].   (* eavesdrop='true' x16 ,type='bogus' *)
Definition T_specex : bytes := [97;114;103;48;61;92;39;44;97;114;103;49;61;92;44;97;114;103;50;61;39;44;39;44;97;114;103;51;61;92;92].   (* arg0=\',arg1=\,arg2=',',arg3=\\  (the specification's own example) *)
Definition T_arg010 : bytes := [97;114;103;48;49;48;61;120].                     (* arg010=x *)
Definition T_argpath_empty : bytes := [97;114;103;48;112;97;116;104;61;39;39].            (* arg0path='' *)
Definition T_pns_x : bytes := [112;97;116;104;95;110;97;109;101;115;112;97;99;101;61;39;47;120;39].                    (* path_namespace='/x' *)
Definition T_pns_y : bytes := [112;97;116;104;95;110;97;109;101;115;112;97;99;101;61;39;47;121;39].                    (* path_namespace='/y' *)
Definition T_good : bytes := [116;121;112;101;61;39;115;105;103;110;97;108;39;44;105;110;116;101;114;102;97;99;101;61;39;97;46;98;39;44;97;114;103;48;112;97;116;104;61;39;47;97;47;39].   (* type='signal',interface='a.b',arg0path='/a/' *)
Definition T_terr : bytes := [116;121;112;101;61;39;101;114;114;111;114;39].                     (* type='error' *)
Definition M_sig (args : list marg) : msg := mkMsg 4 (Some [47]) (Some [97;46;98]) (Some [77]) None args.

(* ===== 1. delivery: exactly once, to exactly the holders of a matching rule ============================ *)

(* bus_matchmaker_get_recipients: no connection twice; a connection is listed iff it is not the addressed
   recipient and owns a rule that match_rule_matches accepts; no rule evaluation faulted *)
Theorem C07_exactly_once : forall ns mk s a m l,
  Forall type_wf mk -> get_recipients ns mk s a m = Some l ->
  NoDup l /\
  (forall c, In c l <-> a <> Some c /\ exists r, In r mk /\ r_owner r = c /\ rule_matches ns r s a m false = Some true) /\
  (forall r, In r mk -> rule_matches ns r s a m false <> None).
Proof. exact get_recipients_exact. Qed.
Print Assumptions C07_exactly_once.

(* for every key: what the matcher computes is what the specification says the rule means *)
Theorem C07_matches_spec : forall ns r s a m b,
  path_wf r -> rule_matches ns r s a m false = Some b -> spec_matches ns (abs_rule r) s a m = b.
Proof. exact matches_spec. Qed.
Print Assumptions C07_matches_spec.

(* in every state reachable by AddMatch / RemoveMatch / disconnect histories, a broadcast signal goes exactly
   once to exactly the connections that hold a rule matching according to the specification AND can take the
   message: it carries no unix fds ([nfds] = 0) or they negotiated fd passing ([caps]).  A listener that is
   skipped for lack of fd passing has no influence on any other listener (the right-hand side speaks about x only). *)
Theorem C07_broadcast_delivery : forall limit mk ns caps c m nfds l,
  reachable limit mk -> m_dest m = None -> m_type m = DBUS_MESSAGE_TYPE_SIGNAL ->
  dispatch ns mk caps c m nfds = Some (RDelivered l) ->
  NoDup l /\
  forall x, In x l <-> (nfds = 0 \/ In x caps) /\
                       exists r, In r mk /\ r_owner r = x /\ spec_matches ns (abs_rule r) (Some c) None m = true.
Proof. exact broadcast_delivery. Qed.
Print Assumptions C07_broadcast_delivery.

Theorem C07_unicast_delivery : forall limit mk ns caps c m nfds d a l,
  reachable limit mk -> m_dest m = Some d -> bytes_eqb d S_org_freedesktop_DBus = false -> owner_of ns d = Some a ->
  dispatch ns mk caps c m nfds = Some (RDelivered l) ->
  valid_type (m_type m) = true /\ (nfds = 0 \/ In a caps) /\ NoDup l /\ In a l /\
  forall x, x <> a -> (In x l <-> (nfds = 0 \/ In x caps) /\
                                  exists r, In r mk /\ r_owner r = x /\ spec_matches ns (abs_rule r) (Some c) (Some a) m = true).
Proof. exact unicast_delivery. Qed.
Print Assumptions C07_unicast_delivery.

(* ===== 2. memory safety of the matcher ================================================================= *)
(* every computed-index read of the matcher goes through read_heap / read_body (None outside the object).
   Since commit c577f29 (finding F6 fixed) no rule and no message make any of them fail: *)
Theorem C07_no_fault : forall ns r s a m skip, rule_matches ns r s a m skip <> None.
Proof. exact no_fault. Qed.
Print Assumptions C07_no_fault.

(* ... and therefore dispatching any message in any state of the matchmaker never faults *)
Theorem C07_dispatch_total : forall ns mk caps c m nfds, dispatch ns mk caps c m nfds <> None.
Proof. exact dispatch_total. Qed.
Print Assumptions C07_dispatch_total.

(* the former F6 witness, now evaluated without a fault, and not matching (the empty value does not end in '/') *)
Example ex_former_F6 :
  match parse_rule 1 T_argpath_empty with
  | POk r => rule_matches [] r None None (M_sig [AStr [120]]) false = Some false /\
             rule_matches [] r None None (M_sig [AStr []]) false = Some true
  | _ => False
  end.
Proof. vm_compute. split; reflexivity. Qed.

(* ===== 3. RemoveMatch ==================================================================================== *)
(* rules are equal exactly when they are the same rule (since commit 5996fca, finding F8 fixed) *)
Theorem C07_rule_equal : forall a b, rule_equal a b = true <-> a = b.
Proof. exact rule_equal_eq. Qed.
Print Assumptions C07_rule_equal.

(* the former F8 witness: rules that differ only in the path_namespace value are different *)
Example ex_former_F8 :
  match parse_rule 1 T_pns_x, parse_rule 1 T_pns_y with
  | POk x, POk y => rule_equal x y = false /\ rule_equal x x = true
  | _, _ => False
  end.
Proof. vm_compute. split; reflexivity. Qed.

(* removal by value: exactly one rule goes — the newest rule_equal one; None iff there is none *)
Theorem C07_remove : forall m v,
  match remove_rule_by_value m v with
  | Some m' => exists l1 r l2, m = l1 ++ r :: l2 /\ m' = l1 ++ l2 /\ rule_equal r v = true /\
                               (forall x, In x l2 -> rule_equal x v = false)
  | None => forall x, In x m -> rule_equal x v = false
  end.
Proof. exact remove_rule_by_value_spec. Qed.
Print Assumptions C07_remove.

(* a RemoveMatch is answered once (since the F9 fix): success, or one error; and MatchRuleNotFound is
   the answer exactly when the text is a valid rule and no held rule is equal to it, the rule set then
   being left untouched *)
Theorem C07_remove_single_reply : forall m c text, snd (handle_remove_match m c text) <> RepOkThenNotFound.
Proof. exact remove_single_reply. Qed.
Print Assumptions C07_remove_single_reply.

Theorem C07_remove_not_found : forall m c text,
  snd (handle_remove_match m c text) = RepNotFound <->
  exists r, parse_rule c text = POk r /\ (forall x, In x m -> x <> r).
Proof. exact remove_not_found. Qed.
Print Assumptions C07_remove_not_found.

Theorem C07_remove_failure_keeps : forall m c text,
  snd (handle_remove_match m c text) <> RepOk -> fst (handle_remove_match m c text) = m.
Proof. exact remove_failure_keeps. Qed.
Print Assumptions C07_remove_failure_keeps.

(* the former F9 witness *)
Example ex_former_F9 : handle_remove_match [] 1 T_terr = ([], RepNotFound).
Proof. vm_compute. reflexivity. Qed.

(* ===== 4. disconnect and invariants of every history ========================================================= *)
Theorem C07_disconnect_clears : forall m c name r, In r (handle_disconnect m c name) -> r_owner r <> c.
Proof. exact disconnect_clears. Qed.
Print Assumptions C07_disconnect_clears.

Theorem C07_disconnect_keeps : forall m c name r,
  In r m -> r_owner r <> c -> r_sender r <> Some name -> r_dest r <> Some name -> In r (handle_disconnect m c name).
Proof. exact disconnect_keeps. Qed.
Print Assumptions C07_disconnect_keeps.

Theorem C07_reachable_inv : forall limit m, reachable limit m ->
  Forall rule_ok m /\ (forall c, n_match_rules m c <= limit).
Proof. exact reachable_inv. Qed.
Print Assumptions C07_reachable_inv.

(* ===== 5. the grammar ============================================================================================ *)
(* full statement: AddMatch accepts exactly the rule strings of the specified grammar and quoting, and
   reads them as specified *)
Definition C07_parse_full_statement : Prop :=
  forall c s, no_nul s ->
  match parse_rule c s, spec_parse c s with
  | POk r, SPOk sr => srule_eqb (abs_rule r) sr = true
  | PInvalid, SPInvalid | PLimits, SPLimits => True
  | _, _ => False
  end.

(* exact description of the tokenizer (which items reach the per-key checks) *)
Theorem C07_tokenize_exact : forall s, no_nul s -> bs_sensitive SItemStart s = false ->
  option_map token_prefix (tokenize s) = as_implemented MAX_RULE_TOKENS (spec_tokens s).
Proof. exact tokenize_exact. Qed.
Print Assumptions C07_tokenize_exact.

(* agreement outside the known classes: no item beginning with '=', fewer than MAX_RULE_TOKENS items, no
   unquoted backslash followed by ',' or '\' *)
Theorem C07_tokenize_partial : forall s ts e, no_nul s -> bs_sensitive SItemStart s = false ->
  spec_tokens s = (ts, e) -> e <> SEmptyKey -> (length ts < MAX_RULE_TOKENS)%nat ->
  option_map token_prefix (tokenize s) = match e with SEndOk => Some ts | _ => None end.
Proof. exact tokenize_agrees. Qed.
Print Assumptions C07_tokenize_partial.

(* the per-key checks on an item list: accepted exactly when the specification accepts it, and the rule
   built stands for exactly the specified constraints.  In scope: argument keys written as plain decimal
   numbers, sender / destination / arg0namespace values that are not malformed unique names (C16/F2). *)
Theorem C07_parse_items : forall c ts, forallb item_in_scope ts = true ->
  match parse_tokens (empty_rule c) ts with
  | Some r => items_ok ts = true /\ srule_eqb (abs_rule r) (mkSRule c (eaves_of ts false) (constraints_of ts)) = true
  | None => items_ok ts = false
  end.
Proof. exact parse_tokens_spec. Qed.
Print Assumptions C07_parse_items.

(* the full statement holds for every text outside the known classes: no item beginning with '=' (F5),
   fewer than MAX_RULE_TOKENS items (F5), no unquoted backslash before ',' or '\' (C07-N2), plain argument
   keys (C07-N1), no malformed unique names (F2) *)
Theorem C07_parse_partial : forall c s ts e,
  no_nul s -> bs_sensitive SItemStart s = false ->
  spec_tokens s = (ts, e) -> e <> SEmptyKey -> (length ts < MAX_RULE_TOKENS)%nat ->
  forallb item_in_scope ts = true ->
  match parse_rule c s, spec_parse c s with
  | POk r, SPOk sr => srule_eqb (abs_rule r) sr = true
  | PInvalid, SPInvalid | PLimits, SPLimits => True
  | _, _ => False
  end.
Proof. exact parse_rule_spec. Qed.
Print Assumptions C07_parse_partial.

Theorem C07_parse_refuted : ~ C07_parse_full_statement.
Proof.
  intros H. specialize (H 1 T_eq_x).
  assert (Hn : no_nul T_eq_x) by (repeat constructor; discriminate).
  specialize (H Hn). vm_compute in H. exact H.
Qed.
Print Assumptions C07_parse_refuted.

(* the other classes, each with its own witness *)
Theorem C07_parse_refuted_token_cap : parse_rule 1 T_t17 <> PInvalid /\ spec_parse 1 T_t17 = SPInvalid.
Proof. split; vm_compute; [discriminate | reflexivity]. Qed.
Print Assumptions C07_parse_refuted_token_cap.

Theorem C07_parse_refuted_backslash :
  match parse_rule 1 T_specex, spec_parse 1 T_specex with
  | POk r, SPOk sr =>
      srule_eqb (abs_rule r) sr = false /\
      r_args r = [Some (ArgString, [39]); Some (ArgString, [92;44;97;114;103;50;61;44]); None; Some (ArgString, [92;92])] /\
      sr_cons sr = [CArg 0 ArgString [39]; CArg 1 ArgString [92]; CArg 2 ArgString [44]; CArg 3 ArgString [92;92]]
  | _, _ => False
  end.
Proof. vm_compute. repeat split. Qed.
Print Assumptions C07_parse_refuted_backslash.

Theorem C07_parse_refuted_arg_key :
  match parse_rule 1 T_arg010 with
  | POk r => nth_error (r_args r) 8 = Some (Some (ArgString, [120])) /\ spec_parse 1 T_arg010 = SPInvalid
  | _ => False
  end.
Proof. vm_compute. repeat split. Qed.
Print Assumptions C07_parse_refuted_arg_key.

Definition T_sender_colon : bytes := [115;101;110;100;101;114;61;39;58;39].      (* sender=':' *)
Theorem C07_parse_refuted_unique_name :
  parse_rule 1 T_sender_colon <> PInvalid /\ spec_parse 1 T_sender_colon = SPInvalid.
Proof. split; vm_compute; [discriminate | reflexivity]. Qed.
Print Assumptions C07_parse_refuted_unique_name.

(* ===== 6. the indexed matchmaker (pools by message type, hash by interface, gc of empty entries) =============== *)
(* event by event the world built on the indexed structure answers what the flat world answers and stays in the
   representation relation (each indexed list = the pool of the flat list in the same order; nothing else stored) *)
Theorem C07_index_step : forall limit (iw : iworld) (w : world) e,
  wrel imm mm repr iw w -> res_rel imm mm repr (istep limit iw e) (step limit w e).
Proof. exact istep_refines. Qed.
Print Assumptions C07_index_step.

(* for every history from the empty bus the two worlds produce the same outputs *)
Theorem C07_index_history : forall limit es,
  run (istep limit) iworld_new es = run (step limit) (mkWorld [] [] []) es.
Proof. exact index_history. Qed.
Print Assumptions C07_index_history.

(* in any state the indexed matchmaker can reach, the pool-based lookup returns nobody twice and exactly the
   connections for which SOME stored rule, whatever its pool, matches according to the specification *)
Theorem C07_index_recipients : forall limit im mk ns s a m l,
  ireachable limit im mk -> iget_recipients ns im s a m = Some l ->
  NoDup l /\
  forall x, In x l <-> a <> Some x /\ exists r, In r (all_rules im) /\ r_owner r = x /\ spec_matches ns (abs_rule r) s a m = true.
Proof. exact index_recipients. Qed.
Print Assumptions C07_index_recipients.

(* ===== 7. RemoveMatch compares rules, not strings ================================================================ *)
Theorem C07_abs_injective : forall a b,
  canonb (r_args a) = true -> canonb (r_args b) = true -> srule_eqb (abs_rule a) (abs_rule b) = true -> a = b.
Proof. exact abs_rule_injective. Qed.
Print Assumptions C07_abs_injective.

Theorem C07_rule_equal_spec : forall c1 s1 c2 s2 r1 r2,
  parse_rule c1 s1 = POk r1 -> parse_rule c2 s2 = POk r2 ->
  rule_equal r1 r2 = srule_eqb (abs_rule r1) (abs_rule r2).
Proof. exact rule_equal_is_spec_equal. Qed.
Print Assumptions C07_rule_equal_spec.

Theorem C07_remove_match_spec : forall limit m c text r,
  reachable limit m -> parse_rule c text = POk r ->
  (snd (handle_remove_match m c text) = RepOk <-> exists x, In x m /\ srule_eqb (abs_rule x) (abs_rule r) = true) /\
  (snd (handle_remove_match m c text) = RepNotFound <-> forall x, In x m -> srule_eqb (abs_rule x) (abs_rule r) = false).
Proof. exact remove_match_spec. Qed.
Print Assumptions C07_remove_match_spec.

(* ===== 8. name ownership: rules are not touched by owner changes, names are resolved when a message is dispatched == *)
Theorem C07_owner_change_keeps_rules : forall limit (w w' : world) e o,
  names_only e = true -> step limit w e = Some (w', o) -> w_mm w' = w_mm w.
Proof. exact names_events_keep_rules. Qed.
Print Assumptions C07_owner_change_keeps_rules.

(* ===== non-vacuity =================================================================================================== *)
Example ex_parse_ok : match parse_rule 1 T_good with POk r => rule_ok r | _ => False end.
Proof.
  destruct (parse_rule 1 T_good) as [| |r] eqn:E; try (vm_compute in E; discriminate).
  exact (proj1 (parse_rule_ok _ _ _ E)).
Qed.
Example ex_spec_agrees : match parse_rule 1 T_good, spec_parse 1 T_good with POk r, SPOk sr => srule_eqb (abs_rule r) sr = true | _, _ => False end.
Proof. vm_compute. reflexivity. Qed.
Example ex_match_yes : match parse_rule 1 T_good with POk r => rule_matches [] r None None (M_sig [AStr [47;97;47;98]]) false = Some true | _ => False end.
Proof. vm_compute. reflexivity. Qed.
Example ex_match_no : match parse_rule 1 T_good with POk r => rule_matches [] r None None (M_sig [AStr [120]]) false = Some false | _ => False end.
Proof. vm_compute. reflexivity. Qed.
Example ex_reachable : exists m, reachable 512 m /\ m <> [] /\
  dispatch [] m [] 9 (M_sig [AStr [47;97;47;98]]) 0 = Some (RDelivered [1]).
Proof.
  exists (fst (handle_add_match 512 true (fst (handle_add_match 512 true [] 1 T_good)) 1 T_good)).
  split; [apply reach_add, reach_add, reach_empty|]. vm_compute. split; [discriminate | reflexivity].
Qed.
(* fds: listener 1 did not negotiate fd passing and is skipped, listener 2 (whose rule was added later) still
   gets the broadcast *)
Example ex_fds_skip :
  dispatch [] (fst (handle_add_match 512 true (fst (handle_add_match 512 true [] 1 T_good)) 2 T_good)) [2; 9] 9
           (M_sig [AStr [47;97;47;98]; AOther]) 1 = Some (RDelivered [2]).
Proof. vm_compute. reflexivity. Qed.
(* two spellings of one rule are rule_equal; the indexed structure collects the emptied interface entry *)
Definition T_sp1 : bytes := [105;110;116;101;114;102;97;99;101;61;39;97;46;98;39;44;97;114;103;48;61;120;92;39;121].      (* interface='a.b',arg0=x\'y *)
Definition T_sp2 : bytes := [97;114;103;48;61;39;120;39;92;39;39;121;39;44;32;105;110;116;101;114;102;97;99;101;32;61;97;46;98].      (* arg0='x'\''y', interface =a.b *)
Example ex_spellings : match parse_rule 1 T_sp1, parse_rule 1 T_sp2 with POk a, POk b => rule_equal a b = true | _, _ => False end.
Proof. vm_compute. reflexivity. Qed.
Example ex_index_gc :
  let im1 := fst (ihandle_add_match 512 true imm_new 1 T_sp1) in
  let im2 := fst (ihandle_remove_match im1 1 T_sp2) in
  (exists l, iget im1 0 (Some [97;46;98]) = Some l /\ length l = 1%nat) /\ iget im2 0 (Some [97;46;98]) = None /\ im2 = imm_new.
Proof. vm_compute. split; [eexists; split; reflexivity | split; reflexivity]. Qed.
(* sender='w.a' held by connection 3; 1 owns w.a with 2 queued; after 1 releases the name, 2 is the sender that matches *)
Definition T_sender_wa : bytes := [115;101;110;100;101;114;61;39;119;46;97;39].  (* sender='w.a' *)
Example ex_owner_change :
  let wa := [119;46;97] in
  let w0 := mkWorld (fst (handle_add_match 512 true [] 3 T_sender_wa)) [([58;49], 1); ([58;50], 2); ([58;51], 3); (wa, 1); (wa, 2)] [] in
  step 512 w0 (EvSend 1 (M_sig []) 0) = Some (w0, ORouting (RDelivered [3])) /\
  step 512 w0 (EvSend 2 (M_sig []) 0) = Some (w0, ORouting (RDelivered [])) /\
  match step 512 w0 (EvRelease 1 wa) with
  | Some (w1, OOwn 1 _) => w_mm w1 = w_mm w0 /\
                           step 512 w1 (EvSend 2 (M_sig []) 0) = Some (w1, ORouting (RDelivered [3])) /\
                           step 512 w1 (EvSend 1 (M_sig []) 0) = Some (w1, ORouting (RDelivered []))
  | _ => False
  end.
Proof. vm_compute. repeat split. Qed.

Example ex_tokenize_hyp : no_nul T_good /\ bs_sensitive SItemStart T_good = false /\ snd (spec_tokens T_good) = SEndOk /\
  (length (fst (spec_tokens T_good)) < MAX_RULE_TOKENS)%nat /\ forallb item_in_scope (fst (spec_tokens T_good)) = true.
Proof.
  split; [repeat constructor; discriminate|]. split; [vm_compute; reflexivity|]. split; [vm_compute; reflexivity|].
  split; [vm_compute; repeat constructor | vm_compute; reflexivity].
Qed.
