(* C02 — built messages serialise to valid wire format and round-trip exactly.
   Statements only; proofs in Proofs/EditProofs.v.  The model of construction is
   [Wire.HeaderEdit.build] followed by the specification encoder; the
   DBusTypeWriter is tied to it byte-for-byte by the correspondence run. *)
From DV Require Import Lib.Base Spec.Codec Wire.HeaderEdit Proofs.EditProofs.
Local Open Scope N_scope.

(* Full statement: the encoder/decoder round trip, not yet a theorem (decided
   today on every generated program by evaluating the extracted
   [spec_decode_message] on the bytes the implementation produced). *)
Definition C02_full_statement : Prop :=
  forall le t f s es body, let m := build le t f s es body in
    fields_ok [] (s_fields m) = true -> mandatory_ok t (s_fields m) = true -> t <> 0 -> s <> 0 ->
    exists n, spec_decode_message (spec_encode_message m) = Some (m, n).

Theorem C02_body_and_signature : forall le t f s es body,
  s_body (build le t f s es body) = body /\ s_sig (build le t f s es body) = sig_of_vals body.
Proof. exact build_body. Qed.
Print Assumptions C02_body_and_signature.

Theorem C02_signature_field : forall le t f s es b bs,
  get_field (s_fields (build le t f s es (b :: bs))) 8 = Some (VStr 103 (sig_of_vals (b :: bs))).
Proof. exact build_signature_field. Qed.
Print Assumptions C02_signature_field.

(* conversion to the other byte order changes no value, and is an involution *)
Theorem C02_byteswap_values : forall m,
  s_fields (swap_order m) = s_fields m /\ s_body (swap_order m) = s_body m /\ s_sig (swap_order m) = s_sig m /\
  s_type (swap_order m) = s_type m /\ s_flags (swap_order m) = s_flags m /\ s_serial (swap_order m) = s_serial m.
Proof. exact swap_same_values. Qed.
Print Assumptions C02_byteswap_values.

Theorem C02_byteswap_involutive : forall m, swap_order (swap_order m) = m.
Proof. exact swap_involutive. Qed.
Print Assumptions C02_byteswap_involutive.

(* copy: equal message with serial zero *)
Theorem C02_copy : forall m,
  s_serial (copy_msg m) = 0 /\ s_fields (copy_msg m) = s_fields m /\ s_body (copy_msg m) = s_body m /\ s_sig (copy_msg m) = s_sig m /\
  s_type (copy_msg m) = s_type m /\ s_flags (copy_msg m) = s_flags m /\ s_le (copy_msg m) = s_le m.
Proof. exact copy_equal_serial0. Qed.
Print Assumptions C02_copy.

(* non-vacuity: a concrete built message round-trips through the specification decoder *)
Definition ex_built : smsg :=
  build true 4 0 7 [ESet 1 (VStr 111 [47;97]); ESet 2 (VStr 115 [97;46;98]); ESet 3 (VStr 115 [83])]
        [VNum 121 5; VStr 115 [104;105]; VArr (TBasic 105) [VNum 105 1; VNum 105 2]; VVar (TBasic 115) (VStr 115 [97])].
Example ex_roundtrip : match spec_decode_message (spec_encode_message ex_built) with
                       | Some (m, _) => s_body m = s_body ex_built /\ map sf_code (s_fields m) = [1; 2; 3; 8]
                       | None => False end.
Proof. vm_compute. split; reflexivity. Qed.
