(* C02 — built messages serialise to valid wire format and round-trip exactly.
   Statements only; proofs in Proofs/EditProofs.v.  The model of construction is
   [Wire.HeaderEdit.build] followed by the specification encoder; the
   DBusTypeWriter is tied to it byte-for-byte by the correspondence run. *)
From DV Require Import Lib.Base Spec.Codec Wire.HeaderEdit Proofs.EditProofs Proofs.CodecWf Proofs.CodecRoundtrip Proofs.CodecMessage Proofs.SigRoundtrip Proofs.Utf8Proofs Proofs.BodySound Proofs.WireClean.
Local Open Scope N_scope.

(* THE ROUND TRIP, message level: the specification decoder applied to the
   canonical serialisation of any well-formed abstract message (either byte
   order; any field order incl. unknown fields; any body of nested values)
   returns exactly that message and its exact length.  [wf_msg] is a decidable
   predicate: type/flags/serial in range, header fields valid per the
   specification's table and mandatory for the type, SIGNATURE field = signature
   of the body, every value well-formed ([wfb]), sizes within 2^26 / 2^27.
   Its signature premises (a variant's contained type and the body signature print
   and parse back to themselves) hold for every well-formed type within the limits:
   C02_variant_wellformed below and C16_signature_print_parse. *)
Theorem C02_roundtrip : forall m, wf_msg m = true ->
  spec_decode_message (spec_encode_message m) = Some (m, nlen (spec_encode_message m)).
Proof. exact message_roundtrip. Qed.
Print Assumptions C02_roundtrip.

(* the signature premise inside [wfb] for variants is no extra assumption: it holds for
   every well-formed contained type within the specification's limits *)
Theorem C02_variant_wellformed : forall le depth pos t x,
  ty_of_val x = t -> ty_okb t = true ->
  nlen (print_ty t) <= 255 -> array_nest t <= 32 -> struct_nest t <= 32 ->
  wfb le (depth + 1) (pos + (nlen (print_ty t) + 2)) x = true ->
  wfb le depth pos (VVar t x) = true.
Proof. exact wfb_variant. Qed.
Print Assumptions C02_variant_wellformed.

(* built messages, and their conversion to the other byte order *)
Corollary C02_built_roundtrip : forall le t f s es body,
  let m := build le t f s es body in wf_msg m = true ->
  spec_decode_message (spec_encode_message m) = Some (m, nlen (spec_encode_message m)).
Proof. intros. apply message_roundtrip. assumption. Qed.

Corollary C02_byteswap_roundtrip : forall m, wf_msg (swap_order m) = true ->
  exists n, spec_decode_message (spec_encode_message (swap_order m)) = Some (swap_order m, n) /\
            s_fields (swap_order m) = s_fields m /\ s_body (swap_order m) = s_body m.
Proof. intros m H. eexists. split; [apply message_roundtrip; exact H | split; reflexivity]. Qed.

Theorem C02_body_and_signature : forall le t f s es body,
  s_body (build le t f s es body) = body /\ s_sig (build le t f s es body) = sig_of_vals body.
Proof. exact build_body. Qed.
Print Assumptions C02_body_and_signature.

Theorem C02_signature_field : forall le t f s es b bs,
  get_field (s_fields (build le t f s es (b :: bs))) 8 = Some (VStr 103 (sig_of_vals (b :: bs))).
Proof. exact build_signature_field. Qed.
Print Assumptions C02_signature_field.

(* conversion to the other byte order changes no value, and is an involution *)
Theorem C02_byteswap_values : forall m,
  s_fields (swap_order m) = s_fields m /\ s_body (swap_order m) = s_body m /\ s_sig (swap_order m) = s_sig m /\
  s_type (swap_order m) = s_type m /\ s_flags (swap_order m) = s_flags m /\ s_serial (swap_order m) = s_serial m.
Proof. exact swap_same_values. Qed.
Print Assumptions C02_byteswap_values.

Theorem C02_byteswap_involutive : forall m, swap_order (swap_order m) = m.
Proof. exact swap_involutive. Qed.
Print Assumptions C02_byteswap_involutive.

(* copy: equal message with serial zero *)
Theorem C02_copy : forall m,
  s_serial (copy_msg m) = 0 /\ s_fields (copy_msg m) = s_fields m /\ s_body (copy_msg m) = s_body m /\ s_sig (copy_msg m) = s_sig m /\
  s_type (copy_msg m) = s_type m /\ s_flags (copy_msg m) = s_flags m /\ s_le (copy_msg m) = s_le m.
Proof. exact copy_equal_serial0. Qed.
Print Assumptions C02_copy.

(* THE ROUND TRIP, value level: for every byte order, position, nesting depth and
   trailing bytes, decoding the canonical encoding of a well-formed value (numbers
   in range, booleans 0/1, valid strings/paths/signatures, arrays of one element
   type within 2^26 bytes, non-empty structs, dict entries with basic keys,
   variants whose contained type's signature prints and parses back; nesting <= 64)
   yields exactly that value, the exact end position and the untouched rest. *)
Theorem C02_value_roundtrip : forall le v d depth pos rest,
  wfb le depth pos v = true -> (height v < d)%nat ->
  dec le d (ty_of_val v) depth pos (enc le v pos ++ rest) = Some (v, pos + nlen (enc le v pos), rest).
Proof. intros le v. exact (dec_enc le v). Qed.
Print Assumptions C02_value_roundtrip.

(* ... and for a whole body (sequence of top-level values) with the decoder's own fuel *)
Theorem C02_body_roundtrip : forall le vs pos rest, wfsb le vs 0 pos = true ->
  dec_seq le (map ty_of_val vs) pos (encs le vs pos ++ rest) = Some (vs, pos + nlen (encs le vs pos), rest).
Proof. exact dec_seq_encs. Qed.
Print Assumptions C02_body_roundtrip.

(* the converse direction (Proofs/WireClean.v): whatever the specification decoder returns re-encodes to exactly the
   bytes it consumed, is well formed and has the requested type -- so decoding and encoding are mutually inverse
   bijections between well-formed values and their canonical encodings (no information is lost or invented in
   either direction) *)
Theorem C02_value_decode_encode : forall le d t depth pos data v pos' rest, tygood t = true -> all_bytes data = true ->
  dec le d t depth pos data = Some (v, pos', rest) ->
  ty_of_val v = t /\ wfb le depth pos v = true /\ data = enc le v pos ++ rest /\ pos' = pos + nlen (enc le v pos).
Proof. exact dec_sound. Qed.
Print Assumptions C02_value_decode_encode.

Theorem C02_body_decode_encode : forall le ts pos data vs pos' rest, forallb tygood ts = true -> all_bytes data = true ->
  dec_seq le ts pos data = Some (vs, pos', rest) ->
  map ty_of_val vs = ts /\ wfsb le vs 0 pos = true /\ data = encs le vs pos ++ rest /\ pos' = pos + nlen (encs le vs pos).
Proof. exact dec_seq_sound. Qed.
Print Assumptions C02_body_decode_encode.

Theorem C02_message_decode_encode : forall d m, all_bytes d = true ->
  (spec_decode_message d = Some (m, nlen d) <-> d = spec_encode_message m /\ wf_msg m = true).
Proof. exact spec_decode_iff. Qed.
Print Assumptions C02_message_decode_encode.

(* non-vacuity of the well-formedness premise: containers, variants, both byte orders *)
Definition ex_val : val :=
  VStruct [VNum 121 5; VArr (TDict 115 TVariant) [VDictE (VStr 115 [107]) (VVar (TArray (TBasic 105)) (VArr (TBasic 105) [VNum 105 1; VNum 105 2]))];
           VStr 111 [47; 97]; VNum 100 4609434218613702656].
Example ex_val_wf_le : wfb true 0 3 ex_val = true. Proof. vm_compute. reflexivity. Qed.
Example ex_val_wf_be : wfb false 0 3 ex_val = true. Proof. vm_compute. reflexivity. Qed.

(* non-vacuity: a concrete built message round-trips through the specification decoder *)
Definition ex_built : smsg :=
  build true 4 0 7 [ESet 1 (VStr 111 [47;97]); ESet 2 (VStr 115 [97;46;98]); ESet 3 (VStr 115 [83])]
        [VNum 121 5; VStr 115 [104;105]; VArr (TBasic 105) [VNum 105 1; VNum 105 2]; VVar (TBasic 115) (VStr 115 [97])].
Example ex_built_wf : wf_msg ex_built = true. Proof. vm_compute. reflexivity. Qed.
Example ex_built_wf_be : wf_msg (swap_order ex_built) = true. Proof. vm_compute. reflexivity. Qed.
Example ex_roundtrip : match spec_decode_message (spec_encode_message ex_built) with
                       | Some (m, _) => s_body m = s_body ex_built /\ map sf_code (s_fields m) = [1; 2; 3; 8]
                       | None => False end.
Proof. vm_compute. split; reflexivity. Qed.
