(* C02 — built messages serialise to valid wire format and round-trip exactly.
   Statements only; proofs in Proofs/EditProofs.v.  The model of construction is
   [Wire.HeaderEdit.build] followed by the specification encoder; the
   DBusTypeWriter is tied to it byte-for-byte by the correspondence run. *)
From DV Require Import Lib.Base Spec.Codec Wire.HeaderEdit Proofs.EditProofs Proofs.CodecWf Proofs.CodecRoundtrip Proofs.CodecMessage Proofs.SigRoundtrip Proofs.Utf8Proofs Proofs.BodySound Proofs.WireClean.
From DV Require Import Wire.Byteswap Proofs.ByteswapProofs.
Local Open Scope N_scope.

(* THE ROUND TRIP, message level: the specification decoder applied to the
   canonical serialisation of any well-formed abstract message (either byte
   order; any field order incl. unknown fields; any body of nested values)
   returns exactly that message and its exact length.  [wf_msg] is a decidable
   predicate: type/flags/serial in range, header fields valid per the
   specification's table and mandatory for the type, SIGNATURE field = signature
   of the body, every value well-formed ([wfb]), sizes within 2^26 / 2^27.
   Its signature premises (a variant's contained type and the body signature print
   and parse back to themselves) hold for every well-formed type within the limits:
   C02_variant_wellformed below and C16_signature_print_parse. *)
Theorem C02_roundtrip : forall m, wf_msg m = true ->
  spec_decode_message (spec_encode_message m) = Some (m, nlen (spec_encode_message m)).
Proof. exact message_roundtrip. Qed.
Print Assumptions C02_roundtrip.

(* the signature premise inside [wfb] for variants is no extra assumption: it holds for
   every well-formed contained type within the specification's limits *)
Theorem C02_variant_wellformed : forall le depth pos t x,
  ty_of_val x = t -> ty_okb t = true ->
  nlen (print_ty t) <= 255 -> array_nest t <= 32 -> struct_nest t <= 32 ->
  wfb le (depth + 1) (pos + (nlen (print_ty t) + 2)) x = true ->
  wfb le depth pos (VVar t x) = true.
Proof. exact wfb_variant. Qed.
Print Assumptions C02_variant_wellformed.

(* built messages, and their conversion to the other byte order *)
Corollary C02_built_roundtrip : forall le t f s es body,
  let m := build le t f s es body in wf_msg m = true ->
  spec_decode_message (spec_encode_message m) = Some (m, nlen (spec_encode_message m)).
Proof. intros. apply message_roundtrip. assumption. Qed.

Corollary C02_byteswap_roundtrip : forall m, wf_msg (swap_order m) = true ->
  exists n, spec_decode_message (spec_encode_message (swap_order m)) = Some (swap_order m, n) /\
            s_fields (swap_order m) = s_fields m /\ s_body (swap_order m) = s_body m.
Proof. intros m H. eexists. split; [apply message_roundtrip; exact H | split; reflexivity]. Qed.

Theorem C02_body_and_signature : forall le t f s es body,
  s_body (build le t f s es body) = body /\ s_sig (build le t f s es body) = sig_of_vals body.
Proof. exact build_body. Qed.
Print Assumptions C02_body_and_signature.

Theorem C02_signature_field : forall le t f s es b bs,
  get_field (s_fields (build le t f s es (b :: bs))) 8 = Some (VStr 103 (sig_of_vals (b :: bs))).
Proof. exact build_signature_field. Qed.
Print Assumptions C02_signature_field.

(* conversion to the other byte order changes no value, and is an involution *)
Theorem C02_byteswap_values : forall m,
  s_fields (swap_order m) = s_fields m /\ s_body (swap_order m) = s_body m /\ s_sig (swap_order m) = s_sig m /\
  s_type (swap_order m) = s_type m /\ s_flags (swap_order m) = s_flags m /\ s_serial (swap_order m) = s_serial m.
Proof. exact swap_same_values. Qed.
Print Assumptions C02_byteswap_values.

Theorem C02_byteswap_involutive : forall m, swap_order (swap_order m) = m.
Proof. exact swap_involutive. Qed.
Print Assumptions C02_byteswap_involutive.

(* copy: equal message with serial zero *)
Theorem C02_copy : forall m,
  s_serial (copy_msg m) = 0 /\ s_fields (copy_msg m) = s_fields m /\ s_body (copy_msg m) = s_body m /\ s_sig (copy_msg m) = s_sig m /\
  s_type (copy_msg m) = s_type m /\ s_flags (copy_msg m) = s_flags m /\ s_le (copy_msg m) = s_le m.
Proof. exact copy_equal_serial0. Qed.
Print Assumptions C02_copy.

(* THE ROUND TRIP, value level: for every byte order, position, nesting depth and
   trailing bytes, decoding the canonical encoding of a well-formed value (numbers
   in range, booleans 0/1, valid strings/paths/signatures, arrays of one element
   type within 2^26 bytes, non-empty structs, dict entries with basic keys,
   variants whose contained type's signature prints and parses back; nesting <= 64)
   yields exactly that value, the exact end position and the untouched rest. *)
Theorem C02_value_roundtrip : forall le v d depth pos rest,
  wfb le depth pos v = true -> (height v < d)%nat ->
  dec le d (ty_of_val v) depth pos (enc le v pos ++ rest) = Some (v, pos + nlen (enc le v pos), rest).
Proof. intros le v. exact (dec_enc le v). Qed.
Print Assumptions C02_value_roundtrip.

(* ... and for a whole body (sequence of top-level values) with the decoder's own fuel *)
Theorem C02_body_roundtrip : forall le vs pos rest, wfsb le vs 0 pos = true ->
  dec_seq le (map ty_of_val vs) pos (encs le vs pos ++ rest) = Some (vs, pos + nlen (encs le vs pos), rest).
Proof. exact dec_seq_encs. Qed.
Print Assumptions C02_body_roundtrip.

(* the converse direction (Proofs/WireClean.v): whatever the specification decoder returns re-encodes to exactly the
   bytes it consumed, is well formed and has the requested type -- so decoding and encoding are mutually inverse
   bijections between well-formed values and their canonical encodings (no information is lost or invented in
   either direction) *)
Theorem C02_value_decode_encode : forall le d t depth pos data v pos' rest, tygood t = true -> all_bytes data = true ->
  dec le d t depth pos data = Some (v, pos', rest) ->
  ty_of_val v = t /\ wfb le depth pos v = true /\ data = enc le v pos ++ rest /\ pos' = pos + nlen (enc le v pos).
Proof. exact dec_sound. Qed.
Print Assumptions C02_value_decode_encode.

Theorem C02_body_decode_encode : forall le ts pos data vs pos' rest, forallb tygood ts = true -> all_bytes data = true ->
  dec_seq le ts pos data = Some (vs, pos', rest) ->
  map ty_of_val vs = ts /\ wfsb le vs 0 pos = true /\ data = encs le vs pos ++ rest /\ pos' = pos + nlen (encs le vs pos).
Proof. exact dec_seq_sound. Qed.
Print Assumptions C02_body_decode_encode.

Theorem C02_message_decode_encode : forall d m, all_bytes d = true ->
  (spec_decode_message d = Some (m, nlen d) <-> d = spec_encode_message m /\ wf_msg m = true).
Proof. exact spec_decode_iff. Qed.
Print Assumptions C02_message_decode_encode.

(* non-vacuity of the well-formedness premise: containers, variants, both byte orders *)
Definition ex_val : val :=
  VStruct [VNum 121 5; VArr (TDict 115 TVariant) [VDictE (VStr 115 [107]) (VVar (TArray (TBasic 105)) (VArr (TBasic 105) [VNum 105 1; VNum 105 2]))];
           VStr 111 [47; 97]; VNum 100 4609434218613702656].
Example ex_val_wf_le : wfb true 0 3 ex_val = true. Proof. vm_compute. reflexivity. Qed.
Example ex_val_wf_be : wfb false 0 3 ex_val = true. Proof. vm_compute. reflexivity. Qed.

(* non-vacuity: a concrete built message round-trips through the specification decoder *)
Definition ex_built : smsg :=
  build true 4 0 7 [ESet 1 (VStr 111 [47;97]); ESet 2 (VStr 115 [97;46;98]); ESet 3 (VStr 115 [83])]
        [VNum 121 5; VStr 115 [104;105]; VArr (TBasic 105) [VNum 105 1; VNum 105 2]; VVar (TBasic 115) (VStr 115 [97])].
Example ex_built_wf : wf_msg ex_built = true. Proof. vm_compute. reflexivity. Qed.
Example ex_built_wf_be : wf_msg (swap_order ex_built) = true. Proof. vm_compute. reflexivity. Qed.
Example ex_roundtrip : match spec_decode_message (spec_encode_message ex_built) with
                       | Some (m, _) => s_body m = s_body ex_built /\ map sf_code (s_fields m) = [1; 2; 3; 8]
                       | None => False end.
Proof. vm_compute. split; reflexivity. Qed.


(* THE BYTE-LEVEL CONVERTER.  Wire/Byteswap.v models byteswap_body_helper /
   _dbus_marshal_byteswap (dbus-marshal-byteswap.c), _dbus_header_byteswap and
   _dbus_message_byteswap: a walk over the marshalled bytes driven by the signature types, swapping
   words in place.  The theorems below tie it to the specification codec: on the canonical encoding
   of ANY well-formed value / body / message in one byte order it yields exactly the canonical
   encoding in the other order (so C02_byteswap_values / C02_byteswap_roundtrip above, which speak
   about [swap_order] on abstract messages, are statements about what the byte-shuffling code
   produces).  The C code is tied to the model by the correspondence run (tools/props/c02_byteswap.py). *)

(* the encoder's lengths (hence all alignment padding) do not depend on the byte order ... *)
Theorem C02_byteswap_length_invariant : forall v le le' pos, nlen (enc le v pos) = nlen (enc le' v pos).
Proof. exact enc_len_order. Qed.
Print Assumptions C02_byteswap_length_invariant.

(* ... so neither does well-formedness of a message *)
Theorem C02_byteswap_wf_invariant : forall m, wf_msg (swap_order m) = wf_msg m.
Proof. exact wf_msg_swap. Qed.
Print Assumptions C02_byteswap_wf_invariant.

(* one value: at every offset, nesting depth, with anything behind it, the converter's walk (one
   iteration of byteswap_body_helper's loop) returns the encoding in the other order, stops exactly at
   the end of the value and leaves the rest alone.  [tygood]: the value's type is a signature type. *)
Theorem C02_byteswap_bytes_value : forall le v d depth pos rest,
  wfb le depth pos v = true -> tygood (ty_of_val v) = true -> (height v < d)%nat ->
  bsv le d (ty_of_val v) pos (enc le v pos ++ rest) = BOk (enc (negb le) v pos, pos + nlen (enc le v pos), rest).
Proof. exact byteswap_value_correct. Qed.
Print Assumptions C02_byteswap_bytes_value.

(* a body (sequence of top-level values) with the converter's own fuel: _dbus_marshal_byteswap at
   value_pos = pos (the C code converts a body at offset 0) *)
Theorem C02_byteswap_bytes_body : forall le vs pos rest,
  wfsb le vs 0 pos = true -> forallb tygood (map ty_of_val vs) = true ->
  byteswap_at le (map ty_of_val vs) pos (encs le vs pos ++ rest) = Some (encs (negb le) vs pos ++ rest).
Proof. exact byteswap_at_correct. Qed.
Print Assumptions C02_byteswap_bytes_body.

(* the type premise is needed: [wfb] does not constrain the element type of an empty array, and the C
   alignment table gives the pseudo type code 'r' alignment 8 *)
Theorem C02_byteswap_bytes_body_needs_types :
  exists vs, wfsb true vs 0 0 = true /\ byteswap_body true (map ty_of_val vs) (encs true vs 0) <> Some (encs false vs 0).
Proof. exact byteswap_body_needs_types. Qed.
Print Assumptions C02_byteswap_bytes_body_needs_types.

(* a whole message: header (incl. the lookup of the body signature in the not yet converted header,
   the fixed words, the field array) and body; the byte-order mark is flipped *)
Theorem C02_byteswap_bytes_message : forall m, wf_msg m = true ->
  byteswap_message (spec_encode_message m) = Some (spec_encode_message (swap_order m)).
Proof. exact byteswap_message_correct. Qed.
Print Assumptions C02_byteswap_bytes_message.

Theorem C02_byteswap_bytes_involutive : forall m, wf_msg m = true ->
  match byteswap_message (spec_encode_message m) with
  | Some b => byteswap_message b = Some (spec_encode_message m)
  | None => False
  end.
Proof. exact byteswap_message_involutive. Qed.
Print Assumptions C02_byteswap_bytes_involutive.

Theorem C02_byteswap_bytes_length : forall m b, wf_msg m = true ->
  byteswap_message (spec_encode_message m) = Some b -> nlen b = nlen (spec_encode_message m).
Proof. exact byteswap_message_length. Qed.
Print Assumptions C02_byteswap_bytes_length.

(* the converted bytes decode (specification decoder) to the same message in the other order: no
   header field and no body value changes *)
Theorem C02_byteswap_bytes_decodes : forall m b, wf_msg m = true ->
  byteswap_message (spec_encode_message m) = Some b ->
  spec_decode_message b = Some (swap_order m, nlen b) /\
  s_fields (swap_order m) = s_fields m /\ s_body (swap_order m) = s_body m /\ s_sig (swap_order m) = s_sig m /\
  s_type (swap_order m) = s_type m /\ s_flags (swap_order m) = s_flags m /\ s_serial (swap_order m) = s_serial m /\
  s_le (swap_order m) = negb (s_le m).
Proof. exact byteswap_message_decodes. Qed.
Print Assumptions C02_byteswap_bytes_decodes.

(* starting from bytes instead of an abstract message: whatever the specification decoder accepts as one
   message, the converter maps to the encoding of that message in the other order *)
Theorem C02_byteswap_bytes_decoded : forall d m, all_bytes d = true -> spec_decode_message d = Some (m, nlen d) ->
  byteswap_message d = Some (spec_encode_message (swap_order m)).
Proof. exact byteswap_decoded. Qed.
Print Assumptions C02_byteswap_bytes_decoded.

(* non-vacuity (Proofs/ByteswapProofs.v, by vm_compute): ex_swap1 = empty a{sv} followed by an int32,
   ex_swap2 = variant holding an array of structs, string, int16, array of uint16, uint64; both directions *)
Example C02_byteswap_ex1 : wf_msg ex_swap1 = true /\
  byteswap_message (spec_encode_message ex_swap1) = Some (spec_encode_message (swap_order ex_swap1)) /\
  byteswap_message (spec_encode_message (swap_order ex_swap1)) = Some (spec_encode_message ex_swap1).
Proof. exact (conj ex_swap1_wf (conj ex_swap1_le_to_be ex_swap1_be_to_le)). Qed.
Example C02_byteswap_ex2 : wf_msg ex_swap2 = true /\
  byteswap_message (spec_encode_message ex_swap2) = Some (spec_encode_message (swap_order ex_swap2)) /\
  byteswap_message (spec_encode_message (swap_order ex_swap2)) = Some (spec_encode_message ex_swap2).
Proof. exact (conj ex_swap2_wf (conj ex_swap2_be_to_le ex_swap2_le_to_be)). Qed.

(* ==== C02, writer part: append this to Props/C02.v ====================================================
   Extra Require (put it with the other Require line at the top of Props/C02.v, or leave it here: Coq accepts
   a Require in the middle of a file): *)
From DV Require Import Wire.Writer Proofs.WriterProofs.

(* THE WRITER IS INSIDE THE MODEL.  [Wire.Writer] is the DBusTypeWriter state machine behind
   dbus_message_iter_append_basic / open_container / close_container (dbus-marshal-recursive.c,
   _dbus_marshal_write_basic, and the signature glue of dbus-message.c), one [writer_step] per API call.
   [ops_of_vals vs] is the call sequence a well-typed program makes for the values [vs].
   For ALL well-formed bodies (unbounded values, any nesting), both byte orders: the writer does not fail, the bytes
   it leaves in the body are the specification encoding [encs le vs 0] and the SIGNATURE header field is the types'
   signature.  Premises: [wfsb] (the one of C02_body_roundtrip); the body types are types ([tygood]: needed only for
   the element types of EMPTY arrays, which [wfsb] does not constrain, cf. C02_writer_premises_needed); the body
   signature fits the 255-byte SIGNATURE field (beyond it the real code asserts, cf. C02_writer_premises_needed). *)
Theorem C02_writer_correct : forall le vs,
  wfsb le vs 0 0 = true -> forallb tygood (map ty_of_val vs) = true ->
  nlen (flat_map print_ty (map ty_of_val vs)) <= 255 ->
  run_writer le (ops_of_vals vs) = Some (encs le vs 0, flat_map print_ty (map ty_of_val vs)).
Proof. exact writer_correct. Qed.
Print Assumptions C02_writer_correct.

(* for the messages of C02_roundtrip the extra premises are part of [wf_msg]: the writer, run on the body of any
   well-formed abstract message, produces exactly the body bytes and the signature that [spec_encode_message] uses *)
Theorem C02_writer_correct_message : forall m, wf_msg m = true ->
  run_writer (s_le m) (ops_of_vals (s_body m)) = Some (encs (s_le m) (s_body m) 0, s_sig m).
Proof. exact writer_correct_msg. Qed.
Print Assumptions C02_writer_correct_message.

(* appending to a message that already has a body (dbus_message_iter_init_append on a non-empty message):
   the new values are encoded at the position where the old body ends, the signature is extended at its end *)
Theorem C02_writer_appends : forall le body0 sg0 vs,
  wfsb le vs 0 (nlen body0) = true -> forallb tygood (map ty_of_val vs) = true ->
  nlen (sg0 ++ flat_map print_ty (map ty_of_val vs)) <= 255 ->
  run_writer_from le body0 sg0 (ops_of_vals vs) =
  Some (body0 ++ encs le vs (nlen body0), sg0 ++ flat_map print_ty (map ty_of_val vs)).
Proof. exact writer_correct_from. Qed.
Print Assumptions C02_writer_appends.

(* never fails, and every container is closed at the end *)
Theorem C02_writer_never_fails : forall le vs,
  wfsb le vs 0 0 = true -> forallb tygood (map ty_of_val vs) = true ->
  nlen (flat_map print_ty (map ty_of_val vs)) <= 255 ->
  exists st, run_ops (ops_of_vals vs) (winit le [] []) = Some st /\ length (ws_iters st) = 1%nat.
Proof. exact writer_never_fails. Qed.
Print Assumptions C02_writer_never_fails.

(* THE INVARIANT behind it ([value_written], Proofs/WriterProofs.v): one value written through an iterator [w] that sits
   on top of ANY stack [rest] of open containers, at ANY position (after any body written so far), with any expected
   signature tail: if [w] is the idle top-level iterator or a ready one ([head_ok]: it either extends the signature
   string at its end, or verifies against an expected signature that starts with the value's type), the value's call
   sequence succeeds, appends exactly [enc le v (position)] and advances the type side by exactly the value's signature
   ([post_state]); the iterators below are untouched. *)
Theorem C02_writer_value_anywhere : forall le v sf body sigstr w rest depth tail,
  head_ok sf (mkS body sigstr) w (print_ty (ty_of_val v)) tail ->
  w_vpos w = nlen body -> wfb le depth (nlen body) v = true -> tygood (ty_of_val v) = true ->
  run_ops (ops_of_val v) (mkWS le (mkS body sigstr) sf (w :: rest)) =
  Some (post_state le sf body sigstr w rest (print_ty (ty_of_val v)) (tpos_after w v) (body ++ enc le v (nlen body))).
Proof. exact value_written_all. Qed.
Print Assumptions C02_writer_value_anywhere.

(* array length back-patching, inside any stack of open containers: the word at the 4-aligned position is the byte
   count of the encoded elements (what [enc] writes), the padding to the element alignment follows it whether or not
   there are elements, and the iterators below are unchanged *)
Theorem C02_writer_array_length_word : forall le et vs sf body sigstr w rest depth tail,
  head_ok sf (mkS body sigstr) w (print_ty (TArray et)) tail -> w_vpos w = nlen body ->
  wfb le depth (nlen body) (VArr et vs) = true -> tygood et = true ->
  let p1 := pad_amount (nlen body) 4 in
  let start := arr_start (nlen body) et in
  exists st', run_ops (ops_of_val (VArr et vs)) (mkWS le (mkS body sigstr) sf (w :: rest)) = Some st' /\
    s_bodystr (ws_strs st') =
      body ++ zeros p1 ++ bytes_of le 4 (nlen (encs le vs start)) ++ zeros (pad_amount (nlen body + p1 + 4) (spec_align et)) ++ encs le vs start /\
    exists w', ws_iters st' = w' :: rest.
Proof. exact writer_array_length_word. Qed.
Print Assumptions C02_writer_array_length_word.

(* the unrecurse step itself: whatever 4 bytes the placeholder holds, closing the array overwrites exactly them with
   the distance from start_pos to the end of the body *)
Theorem C02_writer_unrecurse_backpatch : forall le body sigstr w ts tp lp0 refs' et payload old,
  nlen old = 4 ->
  let p1 := pad_amount (nlen body) 4 in
  let p2 := pad_amount (nlen body + p1 + 4) (spec_align et) in
  let body3 := body ++ zeros p1 ++ old ++ zeros p2 ++ payload in
  type_writer_unrecurse le (mkS body3 sigstr) w
    (mkW 97 ts tp true (nlen body3) (nlen body + p1) (arr_start (nlen body) et) lp0 refs') =
  Some (mkS (body ++ zeros p1 ++ bytes_of le 4 (nlen payload) ++ zeros p2 ++ payload) sigstr,
        post_w w (w_tpos w) (nlen body3)).
Proof. exact close_array. Qed.
Print Assumptions C02_writer_unrecurse_backpatch.

(* empty arrays, at any offset (after any existing body): the padding is still written, the length is 0 *)
Theorem C02_writer_empty_array : forall le et body0 sg0, tygood et = true -> nlen (sg0 ++ 97 :: print_ty et) <= 255 ->
  run_writer_from le body0 sg0 (ops_of_val (VArr et [])) =
  Some (body0 ++ zeros (pad_amount (nlen body0) 4) ++ bytes_of le 4 0 ++
        zeros (pad_amount (nlen body0 + pad_amount (nlen body0) 4 + 4) (spec_align et)), sg0 ++ 97 :: print_ty et).
Proof. exact writer_empty_array. Qed.
Print Assumptions C02_writer_empty_array.

(* the two extra premises of C02_writer_correct cannot be dropped (both are assertion failures in the C code:
   255 one-byte arguments are fine, the 256th makes the SIGNATURE field too long; an element "type" that is no type) *)
Theorem C02_writer_premises_needed :
  (wfsb true (repeat (VNum 121 0) 256) 0 0 = true /\ forallb tygood (map ty_of_val (repeat (VNum 121 0) 256)) = true /\
   run_writer true (ops_of_vals (repeat (VNum 121 0) 255)) = Some (repeat 0 255, repeat 121 255) /\
   run_writer true (ops_of_vals (repeat (VNum 121 0) 256)) = None) /\
  (wfsb true [VArr (TBasic 40) []] 0 0 = true /\ run_writer true (ops_of_vals [VArr (TBasic 40) []]) = None).
Proof. exact (conj writer_signature_limit writer_types_premise). Qed.
Print Assumptions C02_writer_premises_needed.

(* non-vacuity: the premises hold and the conclusion is checked by computation on nested containers (struct of
   array of dict entries of variants of arrays), empty arrays of 8-aligned elements at odd offsets, arrays of arrays
   with empty inner arrays, variants of arrays / of variants / of structs, both byte orders; API misuse is None *)
Example C02_writer_ex_nested : wchk true [wex_nested; wex_nested] = true /\ wchk false [VNum 121 1; wex_nested] = true.
Proof. vm_compute. split; reflexivity. Qed.
Example C02_writer_ex_empty8 : wchk true wex_empty8 = true /\ wchk false wex_empty8 = true.
Proof. vm_compute. split; reflexivity. Qed.
Example C02_writer_ex_variants : wchk true wex_var = true /\ wchk false wex_var = true.
Proof. vm_compute. split; reflexivity. Qed.
Example C02_writer_ex_message : run_writer (s_le ex_built) (ops_of_vals (s_body ex_built)) = Some (encs true (s_body ex_built) 0, s_sig ex_built).
Proof. apply C02_writer_correct_message. exact ex_built_wf. Qed.
Example C02_writer_ex_misuse :
  run_writer true [WClose] = None /\
  run_writer true [WOpen KArray [105]; WBasic (VNum 120 5); WClose] = None /\
  run_writer true [WOpen KArray [97; 105]; WOpen KArray [120]; WClose; WClose] = None /\
  run_writer true [WOpen KVariant [105]; WBasic (VNum 105 1); WBasic (VNum 105 2); WClose] = None.
Proof. vm_compute. repeat split; reflexivity. Qed.
(* ==== C02, writer part 2: append this to Props/C02.v (after the first writer snippet; no new Require needed) ==========
   The remaining entry points named by the property: dbus_message_iter_append_fixed_array, dbus_message_append_args
   (dbus_message_append_args_valist), and what dbus_message_iter_abandon_container leaves behind. *)

(* dbus_message_iter_append_fixed_array -> _dbus_type_writer_write_fixed_multi -> _dbus_marshal_write_fixed_multi is the
   writer operation [WFixedMulti c elems] (alignment once, the caller's n*size bytes copied in HOST order, then
   _dbus_swap_array over the copied region if the message is in the other order).
   The block marshaller at the end of the body, for every host order and every message order: the padding, then the
   elements in the MESSAGE's order -- so the host order does not matter *)
Theorem C02_writer_fixed_multi_marshal : forall host le body sz ns, (sz = 2 \/ sz = 4 \/ sz = 8) ->
  marshal_fixed_multi host le body (nlen body) sz ns =
  Some (body ++ zeros (pad_amount (nlen body) sz) ++ flat_map (fun n => bytes_of le (N.to_nat sz) n) ns,
        nlen body + pad_amount (nlen body) sz + nlen ns * sz).
Proof. exact marshal_fixed_multi_end. Qed.
Print Assumptions C02_writer_fixed_multi_marshal.

(* ONE WFixedMulti in the sub-writer of an open array of fixed element type [c] (every fixed type: y b n q i u x t d;
   booleans are 4 bytes; descriptors are excluded by the API), for every number of elements incl. 0, inside ANY stack
   [rest] of open containers, in both byte orders: the same final state as the elements appended one by one by
   dbus_message_iter_append_basic, namely the body extended by the elements' specification encoding *)
Theorem C02_writer_fixed_multi_as_basics : forall le c sz vs sf body sigstr w rest depth,
  fixed_size c = Some sz -> c <> 104 ->
  active (mkS body sigstr) w [c] -> w_ct w = 97 -> w_vpos w = nlen body -> pad_amount (nlen body) sz = 0 ->
  wfsb le vs depth (nlen body) = true -> forallb (fun x => ty_eqb (ty_of_val x) (TBasic c)) vs = true ->
  nlen (encs le vs (nlen body)) <= max_array ->
  run_ops [WFixedMulti c vs] (mkWS le (mkS body sigstr) sf (w :: rest)) =
  run_ops (map WBasic vs) (mkWS le (mkS body sigstr) sf (w :: rest)) /\
  run_ops (map WBasic vs) (mkWS le (mkS body sigstr) sf (w :: rest)) =
  Some (mkWS le (mkS (body ++ encs le vs (nlen body)) sigstr) sf (post_w w (w_tpos w) (nlen (body ++ encs le vs (nlen body))) :: rest)).
Proof. exact fixed_multi_as_basics. Qed.
Print Assumptions C02_writer_fixed_multi_as_basics.

(* open_container, ONE append_fixed_array, close_container = the array value (same statement as C02_writer_value_anywhere,
   for this call sequence instead of [ops_of_val]): through the idle top-level iterator or any ready one, at any position *)
Theorem C02_writer_fixed_array : forall le c sz vs sf body sigstr w rest depth tail,
  fixed_size c = Some sz -> c <> 104 ->
  head_ok sf (mkS body sigstr) w (print_ty (TArray (TBasic c))) tail ->
  w_vpos w = nlen body -> wfb le depth (nlen body) (VArr (TBasic c) vs) = true -> tygood (TArray (TBasic c)) = true ->
  run_ops [WOpen KArray [c]; WFixedMulti c vs; WClose] (mkWS le (mkS body sigstr) sf (w :: rest)) =
  Some (post_state le sf body sigstr w rest (print_ty (TArray (TBasic c))) (tpos_after w (VArr (TBasic c) vs))
                   (body ++ enc le (VArr (TBasic c) vs) (nlen body))).
Proof. intros le c sz vs sf body sigstr w rest depth tail Hsz Hc. exact (fixed_array_written le c sz vs Hsz Hc sf body sigstr w rest depth tail). Qed.
Print Assumptions C02_writer_fixed_array.

(* dbus_message_append_args_valist: [ops_of_args] is the loop's call sequence on its one append iterator (basic ->
   append_basic; array of a fixed type other than 'h' -> open, ONE append_fixed_array (also for n = 0), close; array of
   s/o/g -> open, append_basic per string, close; anything else -> open, abandon, stop).  For supported arguments it
   produces exactly what the iterator API produces for the same values, i.e. the specification encoding *)
Theorem C02_writer_append_args : forall le args, forallb arg_supported args = true ->
  wfsb le (map val_of_arg args) 0 0 = true -> forallb tygood (map ty_of_val (map val_of_arg args)) = true ->
  nlen (flat_map print_ty (map ty_of_val (map val_of_arg args))) <= 255 ->
  run_writer le (ops_of_args args) = Some (encs le (map val_of_arg args) 0, flat_map print_ty (map ty_of_val (map val_of_arg args))) /\
  run_writer le (ops_of_args args) = run_writer le (ops_of_vals (map val_of_arg args)).
Proof. exact writer_append_args. Qed.
Print Assumptions C02_writer_append_args.

(* ... and so does one dbus_message_append_args call PER argument (each with its own dbus_message_iter_init_append),
   also when the message already has a body *)
Theorem C02_writer_append_args_calls : forall le args body sg, forallb arg_supported args = true ->
  wfsb le (map val_of_arg args) 0 (nlen body) = true -> forallb tygood (map ty_of_val (map val_of_arg args)) = true ->
  nlen (sg ++ flat_map print_ty (map ty_of_val (map val_of_arg args))) <= 255 ->
  run_calls le body sg (map (fun a => ops_of_args [a]) args) =
  Some (body ++ encs le (map val_of_arg args) (nlen body), sg ++ flat_map print_ty (map ty_of_val (map val_of_arg args))).
Proof. exact writer_append_args_calls. Qed.
Print Assumptions C02_writer_append_args_calls.

(* dbus_message_iter_abandon_container (a theorem about what the code does, not a finding: the API documents the message
   as unusable afterwards).  The step drops the signature reference and nothing else: body bytes and SIGNATURE field are
   untouched, the parent's value_pos is NOT brought up to date *)
Theorem C02_writer_abandon_step : forall le m sf sub real rest st',
  writer_step (mkWS le m sf (sub :: real :: rest)) WAbandon = Some st' ->
  s_bodystr (ws_strs st') = s_bodystr m /\ ws_sigfield st' = sf /\
  exists r1, ws_iters st' = r1 :: rest /\ w_vpos r1 = w_vpos real /\ w_ct r1 = w_ct real.
Proof. exact abandon_step. Qed.
Print Assumptions C02_writer_abandon_step.

(* so a top-level array abandoned after its elements is left HALF-WRITTEN in the body: padding, a length word that still
   says 0, the element padding and all element bytes stay, and the signature does not mention the array *)
Theorem C02_writer_abandon_array : forall le et vs body0 sg0 depth, tygood et = true -> wfb le depth (nlen body0) (VArr et vs) = true ->
  run_writer_from le body0 sg0 (WOpen KArray (print_ty et) :: flat_map ops_of_val vs ++ [WAbandon]) =
  Some (body0 ++ zeros (pad_amount (nlen body0) 4) ++ bytes_of le 4 0 ++
        zeros (pad_amount (nlen body0 + pad_amount (nlen body0) 4 + 4) (spec_align et)) ++ encs le vs (arr_start (nlen body0) et), sg0).
Proof. exact writer_abandon_array. Qed.
Print Assumptions C02_writer_abandon_array.

(* non-vacuity / boundary examples by computation: all 9 fixed types x n in {0,1,3} x both byte orders after one byte;
   300 elements; big-endian bytes of a block; misuse (outside an array, wrong element type, boolean 2, descriptors,
   strings) is None; append_args incl. the unsupported-array path (open, abandon, stop: 4 stray bytes, no signature);
   the stale value_pos after an abandon *)
Example C02_writer_ex_fixed_multi :
  forallb (fun le => forallb (fun c => forallb (fun ns =>
     wchk_ops le (WBasic (VNum 121 1) :: fxops c ns ++ [WBasic (VNum 121 2)]) [VNum 121 1; fx c ns; VNum 121 2])
     [[]; [1]; [0; 1; 1]]) [121; 98; 110; 113; 105; 117; 120; 116; 100]) [true; false] = true.
Proof. vm_compute. reflexivity. Qed.
Example C02_writer_ex_fixed_multi_be : run_writer false (fxops 113 [258; 3]) = Some ([0;0;0;4; 1;2; 0;3], [97; 113]).
Proof. vm_compute. reflexivity. Qed.
Example C02_writer_ex_fixed_multi_misuse :
  run_writer true [WFixedMulti 105 [VNum 105 1]] = None /\
  run_writer true [WOpen KArray [120]; WFixedMulti 105 [VNum 105 1]; WClose] = None /\
  run_writer true [WOpen KArray [98]; WFixedMulti 98 [VNum 98 2]; WClose] = None /\
  run_writer true [WOpen KArray [104]; WFixedMulti 104 [VNum 104 0]; WClose] = None.
Proof. vm_compute. repeat split; reflexivity. Qed.
Example C02_writer_ex_append_args :
  forallb arg_supported wex_args = true /\ wchk true (map val_of_arg wex_args) = true /\
  wchk_ops true (ops_of_args wex_args) (map val_of_arg wex_args) = true /\ wchk_ops false (ops_of_args wex_args) (map val_of_arg wex_args) = true /\
  run_calls true [] [] (map (fun a => ops_of_args [a]) wex_args) = run_writer true (ops_of_vals (map val_of_arg wex_args)).
Proof. vm_compute. repeat split; reflexivity. Qed.
Example C02_writer_ex_append_args_unsupported :
  ops_of_args [ABasic (VNum 121 1); AArray 118 []; ABasic (VNum 121 2)] = [WBasic (VNum 121 1); WOpen KArray [118]; WAbandon] /\
  run_writer true (ops_of_args [ABasic (VNum 121 1); AArray 118 []; ABasic (VNum 121 2)]) = Some ([1; 0;0;0; 0;0;0;0], [121]).
Proof. vm_compute. split; reflexivity. Qed.
Example C02_writer_ex_abandon_then_append :
  run_writer true [WOpen KArray [120]; WBasic (VNum 120 5); WAbandon; WBasic (VNum 121 7)]
  = Some ([7; 0;0;0;0; 0;0;0;0; 5;0;0;0;0;0;0;0], [121]).
Proof. vm_compute. reflexivity. Qed.

(* ---- C02 + C01 composed: sender's iterator -> wire -> loader -> receiver's iterator ------------------------
   For EVERY well-formed abstract message m (unbounded body, both byte orders), any bytes following it in the
   stream and any sufficient number of received descriptors:
   (1) the DBusTypeWriter model, driven by the append calls for m's body, leaves exactly the body bytes and the
       SIGNATURE that the canonical serialisation E of m contains;
   (2) the loader model frames E ++ rest as one complete message and accepts it;
   (3) header ++ body of the queued message are exactly E (nothing of [rest] leaks in, nothing is lost);
   (4) the DBusTypeReader model, initialised as dbus_message_iter_init does on the queued message, reads back
       exactly the values the sender appended.
   Proof: composition of C02_writer_correct_message, C01_complete and the reader theorem (Proofs/EndToEnd.v).
   Each of the three models is compared with libdbus separately (legs `writer`, loader cases, `reader`); the
   build -> load -> dump cases of the C02 leg exercise the composition on the real library. *)
From DV Require Import Wire.Message Wire.Reader Wire.Writer Proofs.LoaderComplete Proofs.EndToEnd.
Theorem C02_writer_loader_reader : forall m rest avail,
  wf_msg m = true -> spec_nfds (s_fields m) <= avail ->
  let E := spec_encode_message m in
  run_writer (s_le m) (ops_of_vals (s_body m)) = Some (m_bodyb m, s_sig m) /\
  have_message DBUS_MAXIMUM_MESSAGE_LENGTH (E ++ rest) = HaveOk (s_le m) (m_flen m) (m_hlen m) (m_blen m) true /\
  exists msg,
    load_message (s_le m) (m_flen m) (m_hlen m) (m_blen m) avail (E ++ rest) = inl msg /\
    m_header msg ++ m_body msg = E /\
    m_body msg = m_bodyb m /\
    read_all (s_le m) (s_sig m) (m_body msg) = inl (s_body m).
Proof. exact writer_loader_reader. Qed.
Print Assumptions C02_writer_loader_reader.

(* non-vacuity: the premises hold for the example message with a nested body, in both byte orders *)
Example C02_writer_loader_reader_ex :
  wf_msg ex_built = true /\ spec_nfds (s_fields ex_built) <= 0 /\
  wf_msg (swap_order ex_built) = true /\ s_body ex_built <> [].
Proof. split; [vm_compute; reflexivity|]. split; [vm_compute; discriminate|]. split; [vm_compute; reflexivity|]. vm_compute. discriminate. Qed.

(* the same chain with the byte-order converter in the middle (a receiver that converts to its native order,
   or a relay that does): the converter model succeeds on the canonical bytes of every well-formed message, the
   converted bytes followed by anything are accepted by the loader model as a message of the OTHER order,
   header ++ body are exactly the converted bytes, and the reader reads exactly the original values with the
   original signature.  Non-vacuity: C02_writer_loader_reader_ex. *)
Theorem C02_byteswapped_message_received : forall m rest avail,
  wf_msg m = true -> spec_nfds (s_fields m) <= avail ->
  let m' := swap_order m in
  exists b msg,
    byteswap_message (spec_encode_message m) = Some b /\
    load_message (negb (s_le m)) (m_flen m') (m_hlen m') (m_blen m') avail (b ++ rest) = inl msg /\
    m_header msg ++ m_body msg = b /\
    read_all (negb (s_le m)) (s_sig m) (m_body msg) = inl (s_body m).
Proof. exact byteswapped_message_received. Qed.
Print Assumptions C02_byteswapped_message_received.
