(* C02 — placeholder while the codec proofs are being written. *)
From DV Require Import Wire.HeaderEdit.
