(* C19 — auto-started services get held messages once, in order, or callers get
   errors; the activation helper executes only for a valid name whose service
   file declares that name, an Exec and a User.
   Only theorem statements closed by [exact]; proofs live in Proofs/Activation*.v.
   See notes/C19.md.  [after cf h] = (state, trace) of the model after history h;
   [waiting tr n] = the calls for name n that have arrived and not met their fate,
   in order of arrival, read off the observable trace (Spec/ActivationSpec.v). *)
From DV Require Import Lib.Base Wire.Names Spec.NamesSpec Activation.Activation Activation.Helper Activation.Cache Spec.ActivationSpec
  Spec.ActivationSpecCache Proofs.ActivationBase Proofs.ActivationInv Proofs.ActivationMain Proofs.ActivationHelper Proofs.ActivationCache Proofs.ActivationShell.
From Coq Require Import Permutation.
Local Open Scope N_scope.

(* ---- bookkeeping = ledger: the entries of the pending activation of n are exactly the calls waiting for n, in arrival order *)
Theorem C19_ledger : forall cf h st tr n, wk_services cf /\ wk_history h -> after cf h = (st, tr) ->
  pend_entries st.(st_pend) n = map entry_of (waiting tr n).
Proof. exact ledger. Qed.
Print Assumptions C19_ledger.

(* ---- exactly once, globally: no call ever meets two fates (delivery, StartServiceByName reply, error, or drop), and
        every fate belongs to a call that arrived *)
Theorem C19_one_fate : forall cf h st tr, wk_services cf /\ wk_history h -> after cf h = (st, tr) ->
  NoDup (fated tr) /\ (forall i, In i (fated tr) -> exists c, In c (calls tr) /\ c.(c_id) = i).
Proof. exact one_fate. Qed.
Print Assumptions C19_one_fate.

(* ---- at most one start per activation: a process is started for n only if nobody is waiting for n, one process per
        step, for the call arriving in that step, which waits afterwards *)
Theorem C19_spawn_once : forall cf h st tr e sid n x, wk_services cf /\ wk_history h -> after cf h = (st, tr) ->
  In (OSpawn sid n x) (snd (step cf st e)) ->
  waiting tr n = [] /\
  snd (step cf st e) = [OSpawn sid n x] /\
  (exists c, call_of (n_calls tr) e = [c] /\ c.(c_dest) = n /\ waiting (tr ++ [(e, snd (step cf st e))]) n = [c]).
Proof. exact spawn_once. Qed.
Print Assumptions C19_spawn_once.

Theorem C19_no_spawn_while_waiting : forall cf h st tr e sid n x, wk_services cf /\ wk_history h -> after cf h = (st, tr) ->
  waiting tr n <> [] -> ~ In (OSpawn sid n x) (snd (step cf st e)).
Proof. exact no_spawn_while_waiting. Qed.
Print Assumptions C19_no_spawn_while_waiting.

(* ---- the service takes the name.  The outputs are exactly: SUCCESS to the waiting StartServiceByName callers, then for every held
        message in arrival order what [release] says, then the RequestName reply, which is always PRIMARY_OWNER.  [release] treats
        each held message on its own (bus_dispatch_matches): passed on to the new owner, or exactly one error to ITS sender --
        AccessDenied (policy), LimitsExceeded (the sender has max_replies_per_connection calls open), NotSupported (the message
        carries a unix fd and the owner did not negotiate fd passing) -- and carries on with the next; nobody is left waiting.
        (Together with C19_one_fate: never again.) *)
Theorem C19_held_once_in_order : forall cf h st tr c s k, wk_services cf /\ wk_history h -> after cf h = (st, tr) ->
  connected st c = true -> assoc k st.(st_owners) = None ->
  let W := waiting tr (Wk k) in
  let o := snd (step cf st (ERequest c s k)) in
  let names := k :: names_of st.(st_owners) c in
  let rel := snd (release cf (live tr) names (fd_capable st c) c st.(st_replies) W) in
  o = map started_to (filter (fun w => live tr w.(c_conn) && negb w.(c_auto)) W) ++ rel ++ [ODrv c s 1] /\
  Forall2 (release_outcome (live tr) c) (filter (fun w => negb (live tr w.(c_conn) && negb w.(c_auto))) W) rel /\
  waiting (tr ++ [(ERequest c s k, o)]) (Wk k) = [].
Proof. exact held_once_in_order. Qed.
Print Assumptions C19_held_once_in_order.

(* per-message independence of the release, for any list of waiting calls and any state of the reply table *)
Theorem C19_release_per_message : forall cf alive names fdok o W replies,
  Forall2 (release_outcome alive o) (filter (fun w => negb (alive w.(c_conn) && negb w.(c_auto))) W)
          (snd (release cf alive names fdok o replies W)).
Proof. exact release_per_message. Qed.
Print Assumptions C19_release_per_message.

(* ---- failure: the started process exits with a status other than 0, is killed by a signal or cannot be executed: every
        caller waiting for a name whose pending activation has the same Exec line is answered exactly once (connected:
        error; gone: dropped), and those names have nobody waiting afterwards; other names are untouched *)
Theorem C19_failure_each_waiter_once : forall cf h st tr sid r p er, wk_services cf /\ wk_history h -> after cf h = (st, tr) ->
  find_sid sid st.(st_pend) = Some p -> child_error r = Some er ->
  let o := snd (step cf st (EChild sid r)) in
  let same := filter (fun q => p_exec q =? p_exec p) st.(st_pend) in
  Permutation o (flat_map (fun q => map (fail_to tr er) (waiting tr q.(p_name))) same) /\
  In p same /\
  (forall q, In q same -> waiting (tr ++ [(EChild sid r, o)]) q.(p_name) = []) /\
  (forall m, (forall q, In q same -> q.(p_name) <> m) -> waiting (tr ++ [(EChild sid r, o)]) m = waiting tr m).
Proof. exact failure_each_waiter_once. Qed.
Print Assumptions C19_failure_each_waiter_once.

(* ---- the start timeout passes *)
Theorem C19_timeout_each_waiter_once : forall cf h st tr sid p, wk_services cf /\ wk_history h -> after cf h = (st, tr) ->
  find_sid sid st.(st_pend) = Some p ->
  let o := snd (step cf st (ETimeout sid)) in
  o = OKill sid :: map (fail_to tr ETimedOut) (waiting tr p.(p_name)) /\
  waiting (tr ++ [(ETimeout sid, o)]) p.(p_name) = [] /\
  (forall m, m <> p.(p_name) -> waiting (tr ++ [(ETimeout sid, o)]) m = waiting tr m).
Proof. exact timeout_each_waiter_once. Qed.
Print Assumptions C19_timeout_each_waiter_once.

(* ---- exit status 0 before the name is taken changes nothing (the callers are answered when the timeout passes) *)
Theorem C19_exit_zero_ignored : forall cf st sid, step cf st (EChild sid (Exited 0)) = (st, []).
Proof. exact exit_zero_ignored. Qed.
Print Assumptions C19_exit_zero_ignored.

(* ---- reloading the configuration (ReloadConfig, SIGHUP, .service files installed or removed): nobody is answered, nothing is
        started, every pending activation and every waiting call stays as it is.  All theorems above quantify over histories
        that contain such events, so what was pending before a reload is still resolved exactly once afterwards *)
Theorem C19_reload_keeps_pending : forall cf st tr e, is_reload e ->
  (fst (step cf st e)).(st_pend) = st.(st_pend) /\
  fates (snd (step cf st e)) = [] /\
  (forall x, In x (snd (step cf st e)) -> is_spawn x = false) /\
  ((forall i, In i (fated tr) -> i < n_calls tr) -> forall n, waiting (tr ++ [(e, snd (step cf st e))]) n = waiting tr n).
Proof. exact reload_keeps_pending. Qed.
Print Assumptions C19_reload_keeps_pending.

(* spelled out for the success case: the calls waiting *before* the reload are the ones passed on / answered when the name
   is taken *after* it, in their order of arrival *)
Theorem C19_held_once_in_order_across_reload : forall cf h st tr e c s k,
  wk_services cf /\ wk_history h -> wk_event e -> is_reload e -> after cf h = (st, tr) ->
  connected st c = true -> assoc k st.(st_owners) = None ->
  let st1 := fst (step cf st e) in
  let o := snd (step cf st1 (ERequest c s k)) in
  let W := waiting tr (Wk k) in
  let names := k :: names_of st.(st_owners) c in
  o = map started_to (filter (fun w => live tr w.(c_conn) && negb w.(c_auto)) W) ++
      snd (release cf (live tr) names (fd_capable st c) c st.(st_replies) W) ++ [ODrv c s 1] /\
  waiting ((tr ++ [(e, snd (step cf st e))]) ++ [(ERequest c s k, o)]) (Wk k) = [].
Proof. exact held_once_in_order_across_reload. Qed.
Print Assumptions C19_held_once_in_order_across_reload.

(* ---- F19.2.  The literal reading "the callers of the process that failed are answered" (and nobody else): *)
Definition C19_failure_full_statement : Prop := forall cf h st tr sid r p er, wk_services cf /\ wk_history h -> after cf h = (st, tr) ->
  find_sid sid st.(st_pend) = Some p -> child_error r = Some er ->
  snd (step cf st (EChild sid r)) = map (fail_to tr er) (waiting tr p.(p_name)).

(* holds when no other pending activation shares the Exec line ... *)
Theorem C19_failure_own_name_partial : forall cf h st tr sid r p er, wk_services cf /\ wk_history h -> after cf h = (st, tr) ->
  find_sid sid st.(st_pend) = Some p -> child_error r = Some er ->
  (forall q, In q st.(st_pend) -> p_exec q = p_exec p -> q = p) ->
  snd (step cf st (EChild sid r)) = map (fail_to tr er) (waiting tr p.(p_name)).
Proof. exact failure_own_name_only. Qed.
Print Assumptions C19_failure_own_name_partial.

(* ... and fails otherwise: two names with one Exec line, the process of the first exits with status 3, the caller waiting
   for the second is sent the error *)
Theorem C19_failure_own_name_refuted :
  let '(st, tr) := after f19_2_cfg f19_2_history in
  exists p, find_sid 0 st.(st_pend) = Some p /\ p.(p_name) = Wk 1 /\
  snd (step f19_2_cfg st (EChild 0 (Exited 3))) <> map (fail_to tr EChildExited) (waiting tr p.(p_name)) /\
  In (OErr 1 1 1 EChildExited) (snd (step f19_2_cfg st (EChild 0 (Exited 3)))).
Proof. exact failure_own_name_refuted. Qed.
Print Assumptions C19_failure_own_name_refuted.

(* ---- F19.1.  Without [wk_services] (a service file may declare a unique name) exactly-once is false: *)
Definition C19_one_fate_full_statement : Prop := forall cf h, NoDup (fated (snd (after cf h))).

Theorem C19_one_fate_refuted : ~ NoDup (fated (snd (after f19_1_cfg f19_1_history))).
Proof. exact one_fate_refuted. Qed.
Print Assumptions C19_one_fate_refuted.

(* ... and a message held for the unique name is not delivered when the name gets its owner *)
Theorem C19_unique_name_not_delivered :
  let '(st, tr) := after f19_1_cfg f19_1_history2 in
  owner_of st (Uq 2) = Some 2 /\ (waiting tr (Uq 2) <> []) /\ fated tr = [].
Proof. exact held_for_unique_not_delivered. Qed.
Print Assumptions C19_unique_name_not_delivered.

(* ---- the table of activatable names (bus_activation_reload / update_directory / update_desktop_file_entry): for each name the
        entry of the first valid service file in search order (directories in configured order, files in listing order; valid =
        *.service, loads, has Name and Exec, and is called <Name>.service where the directory demands it) *)
Theorem C19_table_is_first_valid : forall flags fs n, wf_fs fs ->
  lookup_name n (by_name (reload flags fs)) = spec_lookup flags fs n.
Proof. exact table_is_first_valid. Qed.
Print Assumptions C19_table_is_first_valid.

(* activation_find_entry on the freshly built cache, files unchanged: the specification's answer, cache left as it is *)
Theorem C19_lookup_fresh : forall flags fs n, wf_fs fs ->
  find_entry flags fs (reload flags fs) n = (reload flags fs, spec_lookup flags fs n).
Proof. exact lookup_fresh. Qed.
Print Assumptions C19_lookup_fresh.

(* F19.4.  Once files change under a live cache the lookup no longer answers with the table of the files that are there: *)
Definition C19_lookup_full_statement : Prop := forall flags fs fs' n, wf_fs fs -> wf_fs fs' ->
  snd (find_entry flags fs' (reload flags fs) n) = spec_lookup flags fs' n.

(* the winning file is removed: "unknown" although the second directory provides the name; the next lookup finds it *)
Theorem C19_lookup_after_removal_refuted :
  let c0 := reload [false; false] fs_before in
  let '(c1, r1) := find_entry [false; false] fs_after c0 [97; 46; 98] in
  let '(c2, r2) := find_entry [false; false] fs_after c1 [97; 46; 98] in
  r1 = None /\ spec_lookup [false; false] fs_after [97; 46; 98] <> None /\ r2 = spec_lookup [false; false] fs_after [97; 46; 98].
Proof. exact lookup_after_removal_refuted. Qed.
Print Assumptions C19_lookup_after_removal_refuted.

(* F19.1 seen from the table: update_desktop_file_entry takes any Name as it is, e.g. the unique name ":1.7" *)
Theorem C19_table_accepts_unique_name :
  exists e, lookup_name [58; 49; 46; 55] (by_name (reload [false] [Some [([117] ++ DOT_SERVICE, file_uniq)]])) = Some e.
Proof. exact table_accepts_unique_name. Qed.
Print Assumptions C19_table_accepts_unique_name.

(* ---- the helper: execv only for a name the validator accepts, whose file <name>.service in the first configured directory
        where it loads declares exactly that name, an Exec line (parsed into argv as _dbus_shell_parse_argv does) and a User *)
Theorem C19_helper : forall env name argv user, helper env name = HExec argv user ->
  validate_bus_name name = true /\ env.(h_perm_ok) = true /\
  exists pre d post content df ex,
    env.(h_dirs) = pre ++ d :: post /\
    Helper.lookup_file (name ++ DOT_SERVICE) d = Some content /\ desktop_load content = LOk df /\
    (forall d', In d' pre -> Helper.lookup_file (name ++ DOT_SERVICE) d' = None \/
                             exists c', Helper.lookup_file (name ++ DOT_SERVICE) d' = Some c' /\ desktop_load c' = LErr) /\
    get_string df SECTION KEY_NAME = Some name /\
    get_string df SECTION KEY_EXEC = Some ex /\
    get_string df SECTION KEY_USER = Some user /\
    env.(h_user_ok) user = true /\ shell_parse ex = ShOk argv.
Proof. exact helper_sound. Qed.
Print Assumptions C19_helper.

(* Exec lines: _dbus_shell_parse_argv recovers every argument vector (any bytes but NUL) from its canonical shell quoting --
   each argument in single quotes, an embedded quote written '\'', one blank between arguments *)
Theorem C19_exec_line_quoting : forall argv, argv <> [] -> (forall a, In a argv -> ~ In 0 a) ->
  shell_parse (join_blank (map squote argv)) = ShOk argv.
Proof. exact shell_parse_quoted. Qed.
Print Assumptions C19_exec_line_quoting.

(* an unterminated quote is refused (the helper exits with INVALID_ARGS, the bus answers the caller with the error) *)
Theorem C19_exec_unclosed_quote_refused : forall a, ~ In 0 a -> shell_parse (39 :: esc a) = ShErr.
Proof. exact unclosed_quote_refused. Qed.
Print Assumptions C19_exec_unclosed_quote_refused.

(* the file is looked up inside the configured directory: an accepted name contains neither '/' nor NUL *)
Theorem C19_helper_name_in_directory : forall name, validate_bus_name name = true -> ~ In 47 name /\ ~ In 0 name.
Proof. exact name_stays_in_directory. Qed.
Print Assumptions C19_helper_name_in_directory.

(* "syntactically valid bus name": for names not starting with ':' the validator is the specification's grammar (C16) *)
Theorem C19_helper_wellknown : forall env name argv user, helper env name = HExec argv user ->
  (match name with 58 :: _ => False | _ => True end) -> spec_bus_name name = true.
Proof. exact helper_name_wellknown. Qed.
Print Assumptions C19_helper_wellknown.

(* F19.3: for names starting with ':' it is not (C16/F2), so the literal statement fails *)
Definition C19_helper_full_statement : Prop := forall env name argv user, helper env name = HExec argv user -> spec_bus_name name = true.

Theorem C19_helper_refuted : exists env name argv user, helper env name = HExec argv user /\ spec_bus_name name = false.
Proof. exact helper_full_refuted. Qed.
Print Assumptions C19_helper_refuted.

(* the model's fuel is never exhausted on files made of bytes *)
Theorem C19_helper_total : forall env name,
  (forall d f c, In d env.(h_dirs) -> In (f, c) d -> Proofs.Utf8Proofs.all_bytes c = true) -> helper env name <> HFault.
Proof. exact helper_total. Qed.
Print Assumptions C19_helper_total.

(* ---- non-vacuity *)
Example ex_wk_services : wk_services (std_cfg [mkService (Wk 1) 1 true; mkService (Wk 2) 1 true] 50) /\
  wk_history [EConnect false; ESend 0 1 (Wk 1) false 0; EReload 0 2; ESetServices [mkService (Wk 2) 1 true]; ERequest 0 3 1].
Proof.
  split; [intros s [<-|[<-|[]]]; eexists; reflexivity|].
  intros e [<-|[<-|[<-|[<-|[<-|[]]]]]]; simpl; auto. intros s [<-|[]]. eexists. reflexivity.
Qed.

(* two callers and a StartServiceByName caller wait; one process is started; the configuration is reloaded and the service
   file removed; the name is taken: replies and messages in order *)
Example ex_history :
  snd (run (std_cfg [mkService (Wk 1) 1 true] 50) (start (std_cfg [mkService (Wk 1) 1 true] 50))
           [EConnect false; EConnect false; ESend 0 1 (Wk 1) false 0; EStart 1 1 (Wk 1); ESend 1 2 (Wk 1) false 2; ESend 0 2 (Wk 1) false 0;
            EReload 0 9; ESetServices []; EConnect false; ERequest 2 1 1])
  = [[]; []; [OSpawn 0 (Wk 1) 1]; []; []; []; [ODrv 0 9 0]; []; [];
     [OStarted 1 1 1 1; OFwd 2 0 0 1; OErr 1 2 2 EAccessDenied; OFwd 2 3 0 2; ODrv 2 1 1]].
Proof. vm_compute. reflexivity. Qed.

(* two directories providing the same name: the first wins, strict naming rejects a misnamed file *)
Example ex_table_first_wins :
  option_map se_exec (spec_lookup [false; false] fs_before [97; 46; 98]) = Some [47; 120] /\
  spec_lookup [false; true] fs_before [97; 46; 98] = spec_lookup [false; false] fs_before [97; 46; 98] /\
  spec_lookup [true; true] fs_after [97; 46; 98] = None /\ wf_fs fs_before.
Proof.
  repeat split; try (vm_compute; reflexivity).
  intros files [H|[H|[]]]; inversion H; subst; repeat constructor; simpl; tauto.
Qed.

(* refusals for reasons other than policy, each for its own message only: the sender (fd-capable, two reply slots) holds a plain call
   (class 8 = reply expected), a call carrying a unix fd (12), a third call (8: it takes the second slot, the refused one took none) and a fire-and-forget message (0);
   another sender holds one call; the service connects without fd passing and takes the name *)
Example ex_release_mixed :
  let cf := std_cfg2 [mkService (Wk 1) 1 true] 50 2 in
  last (snd (run cf (start cf)
           [EConnect true; EConnect false; ESend 0 1 (Wk 1) false 8; ESend 0 2 (Wk 1) false 12; ESend 1 1 (Wk 1) false 8;
            ESend 0 3 (Wk 1) false 8; ESend 0 4 (Wk 1) false 0; EConnect false; ERequest 2 1 1])) []
  = [OFwd 2 0 0 1; OErr 0 1 2 ENotSupported; OFwd 2 2 1 1; OFwd 2 3 0 3; OFwd 2 4 0 4; ODrv 2 1 1].
Proof. vm_compute. reflexivity. Qed.

Example ex_helper_ok : helper good_env [97; 46; 98] = HExec [[47; 120]; [99; 32; 100]] [114].
Proof. exact helper_executes_good. Qed.
Example ex_helper_other : helper good_env [97; 46; 99] = HExit EXIT_SERVICE_NOT_FOUND.
Proof. exact helper_rejects_other_name. Qed.
