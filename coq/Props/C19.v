(* C19 — placeholder while the correspondence is being established; theorems follow. *)
From DV Require Import Lib.Base Activation.Activation Activation.Helper.
