(* C11 — placeholder while the framing proofs are being written. *)
From DV Require Import Wire.Message.
