(* C11 — message framing is independent of how the byte stream is chunked.
   Statements only; proofs in Proofs/LoaderProofs.v. *)
From DV Require Import Lib.Base Wire.Message Proofs.LoaderProofs Proofs.BodyLocal Proofs.LoadLocal Proofs.ReadLimit.
Local Open Scope N_scope.

(* Full statement: for every partition of every stream, the messages produced and
   the corruption verdict equal those of the unsplit stream (reason codes are not
   part of the outcome: see DESIGN.md C11). *)
Definition C11_full_statement : Prop :=
  forall chunks, outcome (feed_all loader_new chunks) = outcome (feed loader_new (concat chunks) 0).

(* THE CHUNKING THEOREM, unconditional: for every stream and every partition of it
   into reads, the loader model produces the same messages and the same corruption
   verdict as for the unsplit stream. *)
Theorem C11_chunking : C11_full_statement.
Proof. exact chunking_unconditional. Qed.
Print Assumptions C11_chunking.

(* It rests on locality of load_message: the verdict on a COMPLETE message (as framed
   by have_message) does not depend on the bytes that follow it in the buffer,
   although the header validator walks the whole buffer.  (The earlier formulation
   [load_local], for lengths not tied to the bytes, is false: [load_local_refuted].) *)
Theorem C11_load_message_local : forall max le fl hl bl fds d c,
  have_message max d = HaveOk le fl hl bl true ->
  match load_message le fl hl bl fds d, load_message le fl hl bl fds (d ++ c) with
  | inl m, inl m' => m = m'
  | inr _, inr _ => True
  | _, _ => False
  end.
Proof. exact load_local_from_have. Qed.
Print Assumptions C11_load_message_local.

(* the framing decision reads only the 16-byte fixed header *)
Theorem C11_have_message_local : forall max d c, (16 <= length d)%nat ->
  have_message max (d ++ c) =
  match have_message max d with
  | HaveInvalid r => HaveInvalid r
  | HaveOk le fl hl bl _ => HaveOk le fl hl bl (bl + hl <=? nlen (d ++ c))
  end.
Proof. exact have_message_app. Qed.
Print Assumptions C11_have_message_local.

(* no message is produced after corruption is detected, whatever arrives later *)
Theorem C11_nothing_after_corruption : forall l chunks, l_corrupted l = true -> outcome (feed_all l chunks) = outcome l.
Proof. exact corruption_is_final. Qed.
Print Assumptions C11_nothing_after_corruption.

(* messages complete before the first invalid one are all delivered, and nothing is
   lost or invented: queued messages ++ unconsumed buffer = the bytes fed *)
Theorem C11_prefix_delivered : forall l c, consumed (feed l c 0) ++ l_buf (feed l c 0) = consumed l ++ l_buf l ++ c.
Proof. exact feed_conservation. Qed.
Print Assumptions C11_prefix_delivered.

(* non-vacuity: a two-message stream split inside the fixed header *)
Definition ex_msg : bytes := [108;2;0;1; 0;0;0;0; 1;0;0;0; 8;0;0;0; 5;1;117;0; 1;0;0;0].
Example ex_two : length (l_msgs (feed_all loader_new [firstn 5 ex_msg; skipn 5 ex_msg ++ ex_msg])) = 2%nat.
Proof. vm_compute. reflexivity. Qed.
Example ex_two_unsplit : length (l_msgs (feed loader_new (ex_msg ++ ex_msg) 0)) = 2%nat.
Proof. vm_compute. reflexivity. Qed.

(* ---- the read limit (_dbus_message_loader_get_buffer, used by do_reading) --------------------
   Proofs in Proofs/ReadLimit.v.  All statements are for every loader state and every buffer. *)

(* PROGRESS: the limit is always defined (the model's fuel suffices) and never 0, so the transport
   never issues a 0-byte read (which it would take for end-of-file) because of the limit *)
Theorem C11_limit_progress : forall l, exists mx b, max_to_read l = Some (mx, b) /\ 0 < mx.
Proof. exact max_to_read_progress. Qed.
Print Assumptions C11_limit_progress.

(* the state queue_messages leaves behind unless it detects corruption *)
Theorem C11_settled_after_queue : forall l0, l_corrupted (norm l0) = false -> settled (norm l0).
Proof. exact settled_norm. Qed.
Print Assumptions C11_settled_after_queue.

(* BOUNDARY: while descriptors are held and a message is in progress, the limit ends exactly at the
   end of the fixed header (fewer than 16 bytes buffered) or at the end of the message in progress
   as framed by have_message, and descriptors may not accompany the read: no byte of the NEXT
   message, nor its descriptors, can be read early *)
Theorem C11_limit_boundary : forall l,
  settled l -> l_fds l <> 0 -> l_buf l <> [] ->
  exists mx, max_to_read l = Some (mx, false) /\
    (nlen (l_buf l) < 16 -> nlen (l_buf l) + mx = 16) /\
    (16 <= nlen (l_buf l) -> exists le fl hl bl,
        have_message (l_max l) (l_buf l) = HaveOk le fl hl bl false /\ nlen (l_buf l) + mx = hl + bl).
Proof. exact limit_boundary. Qed.
Print Assumptions C11_limit_boundary.

Theorem C11_limit_in_fixed_header : forall l,
  l_fds l <> 0 -> 0 < nlen (l_buf l) -> nlen (l_buf l) < 16 ->
  exists mx, max_to_read l = Some (mx, false) /\ nlen (l_buf l) + mx = 16.
Proof. exact limit_in_fixed_header. Qed.
Print Assumptions C11_limit_in_fixed_header.

Theorem C11_limit_in_message : forall l le fl hl bl,
  l_fds l <> 0 -> 16 <= nlen (l_buf l) ->
  have_message (l_max l) (l_buf l) = HaveOk le fl hl bl false ->
  exists mx, max_to_read l = Some (mx, false) /\ nlen (l_buf l) + mx = hl + bl.
Proof. exact limit_in_message. Qed.
Print Assumptions C11_limit_in_message.

(* between messages (empty buffer), and whenever no descriptors are held, there is no limit *)
Theorem C11_limit_empty : forall l, l_buf l = [] -> max_to_read l = Some (DBUS_MAXIMUM_MESSAGE_LENGTH, true).
Proof. exact limit_empty. Qed.
Print Assumptions C11_limit_empty.

Theorem C11_limit_no_fds : forall l, l_fds l = 0 -> max_to_read l = Some (DBUS_MAXIMUM_MESSAGE_LENGTH, true).
Proof. exact limit_no_fds. Qed.
Print Assumptions C11_limit_no_fds.

(* TOTALITY of the transport loop: it never stalls and the model's fuel suffices *)
Theorem C11_limited_total : forall l chunk fds,
  exists l', feed_limited (S (length chunk)) l chunk fds = inl l'.
Proof. exact feed_limited_total. Qed.
Print Assumptions C11_limited_total.

(* EQUIVALENCE: reading under the limit produces the messages and the corruption verdict of
   unlimited reading, for any number of descriptors arriving with the first read *)
Theorem C11_limited_equiv : forall l0 chunk fds l',
  feed_limited (S (length chunk)) (norm l0) chunk fds = inl l' ->
  outcome l' = outcome (feed (norm l0) chunk fds).
Proof. exact feed_limited_equiv. Qed.
Print Assumptions C11_limited_equiv.

Theorem C11_limited_correct : forall l0 chunk fds,
  exists l', feed_limited (S (length chunk)) (norm l0) chunk fds = inl l' /\
             outcome l' = outcome (feed (norm l0) chunk fds).
Proof. exact feed_limited_correct. Qed.
Print Assumptions C11_limited_correct.

(* non-vacuity: a loader holding one descriptor *)
Example ex_limit_16 : max_to_read (feed loader_new (firstn 16 ex_msg) 1) = Some (8, false).
Proof. vm_compute. reflexivity. Qed.
Example ex_limit_5 : max_to_read (feed loader_new (firstn 5 ex_msg) 1) = Some (11, false).
Proof. vm_compute. reflexivity. Qed.
Example ex_limit_settled : settled (feed loader_new (firstn 16 ex_msg) 1) /\ l_fds (feed loader_new (firstn 16 ex_msg) 1) = 1.
Proof. split; [apply (settled_norm (append (add_fds loader_new 1) (firstn 16 ex_msg)))|]; vm_compute; reflexivity. Qed.
(* a raw state whose buffer starts with a complete message (not settled): the loop skips it *)
Example ex_limit_skip :
  max_to_read (mkLoader (ex_msg ++ firstn 3 ex_msg) false V_VALID [] 1 DBUS_MAXIMUM_MESSAGE_LENGTH) = Some (13, false).
Proof. vm_compute. reflexivity. Qed.
Example ex_limit_between : max_to_read (feed loader_new [] 1) = Some (DBUS_MAXIMUM_MESSAGE_LENGTH, true).
Proof. vm_compute. reflexivity. Qed.
(* limited reading of a message and a half, the descriptor arriving with the first read *)
Example ex_limited_run :
  match feed_limited 40 loader_new (ex_msg ++ firstn 12 ex_msg) 1 with
  | inl l' => (length (l_msgs l'), l_corrupted l', nlen (l_buf l')) = (1%nat, false, 12)
  | inr _ => False
  end.
Proof. vm_compute. reflexivity. Qed.
(* the same stream continued in a state that already holds the descriptor: reads of 11, 8, 16, 8 bytes *)
Example ex_limited_run_held :
  match feed_limited 44 (feed loader_new (firstn 5 ex_msg) 1) (skipn 5 ex_msg ++ ex_msg) 0 with
  | inl l' => (length (l_msgs l'), l_corrupted l', nlen (l_buf l')) = (2%nat, false, 0)
  | inr _ => False
  end.
Proof. vm_compute. reflexivity. Qed.
(* ---- to append to Props/C11.v: the handshake-to-message boundary (second quantifier of C11), proved in the auth
   package (Proofs/AuthHandover.v) on top of Auth.Transport, Auth.Handover and the loader theorems chunking_general /
   chunking_unconditional.  hs = a complete successful client handshake (the server model, fed hs in one piece, ends
   Authenticated with nothing left over, so hs ends with the BEGIN line); evs = ANY sequence of read / write / dispatch
   events, i.e. any cutting of hs ++ msgs into reads (inside BEGIN, right after it, inside the first message); once
   hs ++ msgs has been consumed and the hand-over (recover_unused_bytes) has happened, the loader has received exactly
   msgs -- no handshake byte, and no message byte was taken as an auth command -- and its outcome is the one-piece outcome. *)
From DV Require Import Auth.Types Auth.Server Auth.Transport Auth.Handover Proofs.AuthBasics Proofs.AuthHandover.

Theorem C11_handshake_boundary : forall te hs msgs a_hs evs,
  run (t_env te) auth_init [Feed hs] = Some a_hs -> a_state (a_core a_hs) = Authenticated -> a_incoming a_hs = [] ->
  let t := fst (xrun te xinit evs) in
  let ld := snd (xrun te xinit evs) in
  snd (trun te transport_init evs) = hs ++ msgs -> tr_recovered t = true ->
  tr_authenticated t = true /\
  a_core (tr_auth t) = a_core a_hs /\ get_identity (tr_auth t) = get_identity a_hs /\
  admission te (get_identity a_hs) = true /\
  (exists ls aevs rs, run (t_env te) auth_init aevs = Some (tr_auth t) /\ reach (t_env te) (fed aevs) ls rs (tr_auth t) /\ join_lines ls = hs) /\
  tr_loader t = msgs /\
  LoaderProofs.outcome ld = LoaderProofs.outcome (feed loader_new msgs 0).
Proof. exact handshake_boundary. Qed.
Print Assumptions C11_handshake_boundary.
