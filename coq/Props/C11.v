(* C11 — message framing is independent of how the byte stream is chunked.
   Statements only; proofs in Proofs/LoaderProofs.v. *)
From DV Require Import Lib.Base Wire.Message Proofs.LoaderProofs.
Local Open Scope N_scope.

(* Full statement: for every partition of every stream, the messages produced and
   the corruption verdict equal those of the unsplit stream (reason codes are not
   part of the outcome: see DESIGN.md C11). *)
Definition C11_full_statement : Prop :=
  forall chunks, outcome (feed_all loader_new chunks) = outcome (feed loader_new (concat chunks) 0).

(* Proved for all streams and partitions GIVEN that the verdict of load_message on
   a complete message does not depend on the bytes that follow it in the buffer
   ([load_local]); that locality is tied to the code by the correspondence run
   (every case is run chunked and unsplit) and not yet proved of the model. *)
Theorem C11_chunking_partial : load_local -> C11_full_statement.
Proof. exact chunking_from_empty. Qed.
Print Assumptions C11_chunking_partial.

(* the framing decision reads only the 16-byte fixed header *)
Theorem C11_have_message_local : forall max d c, (16 <= length d)%nat ->
  have_message max (d ++ c) =
  match have_message max d with
  | HaveInvalid r => HaveInvalid r
  | HaveOk le fl hl bl _ => HaveOk le fl hl bl (bl + hl <=? nlen (d ++ c))
  end.
Proof. exact have_message_app. Qed.
Print Assumptions C11_have_message_local.

(* no message is produced after corruption is detected, whatever arrives later *)
Theorem C11_nothing_after_corruption : forall l chunks, l_corrupted l = true -> outcome (feed_all l chunks) = outcome l.
Proof. exact corruption_is_final. Qed.
Print Assumptions C11_nothing_after_corruption.

(* messages complete before the first invalid one are all delivered, and nothing is
   lost or invented: queued messages ++ unconsumed buffer = the bytes fed *)
Theorem C11_prefix_delivered : forall l c, consumed (feed l c 0) ++ l_buf (feed l c 0) = consumed l ++ l_buf l ++ c.
Proof. exact feed_conservation. Qed.
Print Assumptions C11_prefix_delivered.

(* non-vacuity: a two-message stream split inside the fixed header *)
Definition ex_msg : bytes := [108;2;0;1; 0;0;0;0; 1;0;0;0; 8;0;0;0; 5;1;117;0; 1;0;0;0].
Example ex_two : length (l_msgs (feed_all loader_new [firstn 5 ex_msg; skipn 5 ex_msg ++ ex_msg])) = 2%nat.
Proof. vm_compute. reflexivity. Qed.
Example ex_two_unsplit : length (l_msgs (feed loader_new (ex_msg ++ ex_msg) 0)) = 2%nat.
Proof. vm_compute. reflexivity. Qed.
