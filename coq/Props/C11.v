(* C11 — message framing is independent of how the byte stream is chunked.
   Statements only; proofs in Proofs/LoaderProofs.v. *)
From DV Require Import Lib.Base Wire.Message Proofs.LoaderProofs Proofs.BodyLocal Proofs.LoadLocal Proofs.ReadLimit.
Local Open Scope N_scope.

(* Full statement: for every partition of every stream, the messages produced and
   the corruption verdict equal those of the unsplit stream (reason codes are not
   part of the outcome: see DESIGN.md C11). *)
Definition C11_full_statement : Prop :=
  forall chunks, outcome (feed_all loader_new chunks) = outcome (feed loader_new (concat chunks) 0).

(* THE CHUNKING THEOREM, unconditional: for every stream and every partition of it
   into reads, the loader model produces the same messages and the same corruption
   verdict as for the unsplit stream. *)
Theorem C11_chunking : C11_full_statement.
Proof. exact chunking_unconditional. Qed.
Print Assumptions C11_chunking.

(* It rests on locality of load_message: the verdict on a COMPLETE message (as framed
   by have_message) does not depend on the bytes that follow it in the buffer,
   although the header validator walks the whole buffer.  (The earlier formulation
   [load_local], for lengths not tied to the bytes, is false: [load_local_refuted].) *)
Theorem C11_load_message_local : forall max le fl hl bl fds d c,
  have_message max d = HaveOk le fl hl bl true ->
  match load_message le fl hl bl fds d, load_message le fl hl bl fds (d ++ c) with
  | inl m, inl m' => m = m'
  | inr _, inr _ => True
  | _, _ => False
  end.
Proof. exact load_local_from_have. Qed.
Print Assumptions C11_load_message_local.

(* the framing decision reads only the 16-byte fixed header *)
Theorem C11_have_message_local : forall max d c, (16 <= length d)%nat ->
  have_message max (d ++ c) =
  match have_message max d with
  | HaveInvalid r => HaveInvalid r
  | HaveOk le fl hl bl _ => HaveOk le fl hl bl (bl + hl <=? nlen (d ++ c))
  end.
Proof. exact have_message_app. Qed.
Print Assumptions C11_have_message_local.

(* no message is produced after corruption is detected, whatever arrives later *)
Theorem C11_nothing_after_corruption : forall l chunks, l_corrupted l = true -> outcome (feed_all l chunks) = outcome l.
Proof. exact corruption_is_final. Qed.
Print Assumptions C11_nothing_after_corruption.

(* messages complete before the first invalid one are all delivered, and nothing is
   lost or invented: queued messages ++ unconsumed buffer = the bytes fed *)
Theorem C11_prefix_delivered : forall l c, consumed (feed l c 0) ++ l_buf (feed l c 0) = consumed l ++ l_buf l ++ c.
Proof. exact feed_conservation. Qed.
Print Assumptions C11_prefix_delivered.

(* non-vacuity: a two-message stream split inside the fixed header *)
Definition ex_msg : bytes := [108;2;0;1; 0;0;0;0; 1;0;0;0; 8;0;0;0; 5;1;117;0; 1;0;0;0].
Example ex_two : length (l_msgs (feed_all loader_new [firstn 5 ex_msg; skipn 5 ex_msg ++ ex_msg])) = 2%nat.
Proof. vm_compute. reflexivity. Qed.
Example ex_two_unsplit : length (l_msgs (feed loader_new (ex_msg ++ ex_msg) 0)) = 2%nat.
Proof. vm_compute. reflexivity. Qed.

(* ---- the read limit (_dbus_message_loader_get_buffer, used by do_reading) --------------------
   Proofs in Proofs/ReadLimit.v.  All statements are for every loader state and every buffer. *)

(* PROGRESS: the limit is always defined (the model's fuel suffices) and never 0, so the transport
   never issues a 0-byte read (which it would take for end-of-file) because of the limit *)
Theorem C11_limit_progress : forall l, exists mx b, max_to_read l = Some (mx, b) /\ 0 < mx.
Proof. exact max_to_read_progress. Qed.
Print Assumptions C11_limit_progress.

(* the state queue_messages leaves behind unless it detects corruption *)
Theorem C11_settled_after_queue : forall l0, l_corrupted (norm l0) = false -> settled (norm l0).
Proof. exact settled_norm. Qed.
Print Assumptions C11_settled_after_queue.

(* BOUNDARY: while descriptors are held and a message is in progress, the limit ends exactly at the
   end of the fixed header (fewer than 16 bytes buffered) or at the end of the message in progress
   as framed by have_message, and descriptors may not accompany the read: no byte of the NEXT
   message, nor its descriptors, can be read early *)
Theorem C11_limit_boundary : forall l,
  settled l -> l_fds l <> 0 -> l_buf l <> [] ->
  exists mx, max_to_read l = Some (mx, false) /\
    (nlen (l_buf l) < 16 -> nlen (l_buf l) + mx = 16) /\
    (16 <= nlen (l_buf l) -> exists le fl hl bl,
        have_message (l_max l) (l_buf l) = HaveOk le fl hl bl false /\ nlen (l_buf l) + mx = hl + bl).
Proof. exact limit_boundary. Qed.
Print Assumptions C11_limit_boundary.

Theorem C11_limit_in_fixed_header : forall l,
  l_fds l <> 0 -> 0 < nlen (l_buf l) -> nlen (l_buf l) < 16 ->
  exists mx, max_to_read l = Some (mx, false) /\ nlen (l_buf l) + mx = 16.
Proof. exact limit_in_fixed_header. Qed.
Print Assumptions C11_limit_in_fixed_header.

Theorem C11_limit_in_message : forall l le fl hl bl,
  l_fds l <> 0 -> 16 <= nlen (l_buf l) ->
  have_message (l_max l) (l_buf l) = HaveOk le fl hl bl false ->
  exists mx, max_to_read l = Some (mx, false) /\ nlen (l_buf l) + mx = hl + bl.
Proof. exact limit_in_message. Qed.
Print Assumptions C11_limit_in_message.

(* between messages (empty buffer), and whenever no descriptors are held, there is no limit *)
Theorem C11_limit_empty : forall l, l_buf l = [] -> max_to_read l = Some (DBUS_MAXIMUM_MESSAGE_LENGTH, true).
Proof. exact limit_empty. Qed.
Print Assumptions C11_limit_empty.

Theorem C11_limit_no_fds : forall l, l_fds l = 0 -> max_to_read l = Some (DBUS_MAXIMUM_MESSAGE_LENGTH, true).
Proof. exact limit_no_fds. Qed.
Print Assumptions C11_limit_no_fds.

(* TOTALITY of the transport loop: it never stalls and the model's fuel suffices *)
Theorem C11_limited_total : forall l chunk fds,
  exists l', feed_limited (S (length chunk)) l chunk fds = inl l'.
Proof. exact feed_limited_total. Qed.
Print Assumptions C11_limited_total.

(* EQUIVALENCE: reading under the limit produces the messages and the corruption verdict of
   unlimited reading, for any number of descriptors arriving with the first read *)
Theorem C11_limited_equiv : forall l0 chunk fds l',
  feed_limited (S (length chunk)) (norm l0) chunk fds = inl l' ->
  outcome l' = outcome (feed (norm l0) chunk fds).
Proof. exact feed_limited_equiv. Qed.
Print Assumptions C11_limited_equiv.

Theorem C11_limited_correct : forall l0 chunk fds,
  exists l', feed_limited (S (length chunk)) (norm l0) chunk fds = inl l' /\
             outcome l' = outcome (feed (norm l0) chunk fds).
Proof. exact feed_limited_correct. Qed.
Print Assumptions C11_limited_correct.

(* non-vacuity: a loader holding one descriptor *)
Example ex_limit_16 : max_to_read (feed loader_new (firstn 16 ex_msg) 1) = Some (8, false).
Proof. vm_compute. reflexivity. Qed.
Example ex_limit_5 : max_to_read (feed loader_new (firstn 5 ex_msg) 1) = Some (11, false).
Proof. vm_compute. reflexivity. Qed.
Example ex_limit_settled : settled (feed loader_new (firstn 16 ex_msg) 1) /\ l_fds (feed loader_new (firstn 16 ex_msg) 1) = 1.
Proof. split; [apply (settled_norm (append (add_fds loader_new 1) (firstn 16 ex_msg)))|]; vm_compute; reflexivity. Qed.
(* a raw state whose buffer starts with a complete message (not settled): the loop skips it *)
Example ex_limit_skip :
  max_to_read (mkLoader (ex_msg ++ firstn 3 ex_msg) false V_VALID [] 1 DBUS_MAXIMUM_MESSAGE_LENGTH) = Some (13, false).
Proof. vm_compute. reflexivity. Qed.
Example ex_limit_between : max_to_read (feed loader_new [] 1) = Some (DBUS_MAXIMUM_MESSAGE_LENGTH, true).
Proof. vm_compute. reflexivity. Qed.
(* limited reading of a message and a half, the descriptor arriving with the first read *)
Example ex_limited_run :
  match feed_limited 40 loader_new (ex_msg ++ firstn 12 ex_msg) 1 with
  | inl l' => (length (l_msgs l'), l_corrupted l', nlen (l_buf l')) = (1%nat, false, 12)
  | inr _ => False
  end.
Proof. vm_compute. reflexivity. Qed.
(* the same stream continued in a state that already holds the descriptor: reads of 11, 8, 16, 8 bytes *)
Example ex_limited_run_held :
  match feed_limited 44 (feed loader_new (firstn 5 ex_msg) 1) (skipn 5 ex_msg ++ ex_msg) 0 with
  | inl l' => (length (l_msgs l'), l_corrupted l', nlen (l_buf l')) = (2%nat, false, 0)
  | inr _ => False
  end.
Proof. vm_compute. reflexivity. Qed.
(* ---- to append to Props/C11.v: the handshake-to-message boundary (second quantifier of C11), proved in the auth
   package (Proofs/AuthHandover.v) on top of Auth.Transport, Auth.Handover and the loader theorems chunking_general /
   chunking_unconditional.  hs = a complete successful client handshake (the server model, fed hs in one piece, ends
   Authenticated with nothing left over, so hs ends with the BEGIN line); evs = ANY sequence of read / write / dispatch
   events, i.e. any cutting of hs ++ msgs into reads (inside BEGIN, right after it, inside the first message); once
   hs ++ msgs has been consumed and the hand-over (recover_unused_bytes) has happened, the loader has received exactly
   msgs -- no handshake byte, and no message byte was taken as an auth command -- and its outcome is the one-piece outcome. *)
From DV Require Import Auth.Types Auth.Server Auth.Transport Auth.Handover Proofs.AuthBasics Proofs.AuthHandover.

Theorem C11_handshake_boundary : forall te hs msgs a_hs evs,
  run (t_env te) auth_init [Feed hs] = Some a_hs -> a_state (a_core a_hs) = Authenticated -> a_incoming a_hs = [] ->
  let t := fst (xrun te xinit evs) in
  let ld := snd (xrun te xinit evs) in
  snd (trun te transport_init evs) = hs ++ msgs -> tr_recovered t = true ->
  tr_authenticated t = true /\
  a_core (tr_auth t) = a_core a_hs /\ get_identity (tr_auth t) = get_identity a_hs /\
  admission te (get_identity a_hs) = true /\
  (exists ls aevs rs, run (t_env te) auth_init aevs = Some (tr_auth t) /\ reach (t_env te) (fed aevs) ls rs (tr_auth t) /\ join_lines ls = hs) /\
  tr_loader t = msgs /\
  LoaderProofs.outcome ld = LoaderProofs.outcome (feed loader_new msgs 0).
Proof. exact handshake_boundary. Qed.
Print Assumptions C11_handshake_boundary.
(* BEGIN C11_flow *)
(* ---- incoming flow control cannot make the outcome depend on the chunking (and C13: capacity freed becomes usable
   again).  Model Wire/Flow.v = DBusCounter with its notify guard (dbus-resources.c), the charge /
   release of messages (dbus-message.c), the transport's dispatch-status test and read watch (dbus-transport.c,
   dbus-transport-socket.c); proofs in Proofs/FlowProofs.v.  evs = ANY sequence of Arrive / Release / Notify / SetLimits
   events (notifications delayed arbitrarily, limits of the live connection changed at any time).  The seeded defect
   /verif/seeded/C11_4 (`<=` for `<` in the crossing test) is the machine srun; C11_flow_seeded_refuted* are its wedges,
   with the value EXACTLY on the limit.  The limit setters before /repo d42cc8a (no check_read_watch) are the machine prun;
   C11_flow_set_limits_prefix_refuted is its wedge (finding F11-flow-setlimits, fixed). *)
From DV Require Import Wire.Flow Proofs.FlowProofs.
From Coq Require Import ZArith List.
Import ListNotations.
Local Open Scope Z_scope.

(* (a) accounting, for every variant of the machine (the seeded and the pre-fix one included): the counter is the sum
   over the live messages *)
Theorem C11_flow_accounting : forall cross rc ms mf evs t, run cross rc (transport_init ms mf) evs = Some t ->
  c_size (t_counter t) = sum_size (t_live t) /\ c_fd (t_counter t) = sum_fds (t_live t) /\
  0 <= c_size (t_counter t) /\ 0 <= c_fd (t_counter t).
Proof. exact flow_accounting. Qed.
Print Assumptions C11_flow_accounting.

(* (b) NO WEDGE: in every reachable state with no notification pending the read watch is enabled iff both values are
   below the limits in force; every event is allowed, changing the limits included *)
Theorem C11_flow_no_wedge : forall ms mf evs t, frun (transport_init ms mf) evs = Some t ->
  c_pending (t_counter t) = false -> read_watch_enabled t = below_limits t.
Proof. exact flow_no_wedge. Qed.
Print Assumptions C11_flow_no_wedge.

(* ... and in EVERY reachable state, once the pending notification (if any) has run: nothing pending, values untouched,
   watch enabled iff below the limits *)
Theorem C11_flow_no_wedge_after_notify : forall ms mf evs t,
  frun (transport_init ms mf) evs = Some t ->
  exists t', fstep t Notify = Some t' /\ c_pending (t_counter t') = false /\
             c_size (t_counter t') = c_size (t_counter t) /\ c_fd (t_counter t') = c_fd (t_counter t) /\
             below_limits t' = below_limits t /\ read_watch_enabled t' = below_limits t.
Proof. exact flow_no_wedge_after_notify. Qed.
Print Assumptions C11_flow_no_wedge_after_notify.

(* the statement that `<` vs `<=` decides: a release that takes the connection from AT or above a limit to below both
   leaves a notification pending *)
Theorem C11_flow_release_wakes : forall ms mf evs t k t', frun (transport_init ms mf) evs = Some t ->
  fstep t (Release k) = Some t' -> below_limits t = false -> below_limits t' = true ->
  c_pending (t_counter t') = true.
Proof. exact flow_release_wakes. Qed.
Print Assumptions C11_flow_release_wakes.

Theorem C11_flow_release_wakes_or : forall ms mf evs t k t', frun (transport_init ms mf) evs = Some t ->
  fstep t (Release k) = Some t' -> below_limits t = false -> below_limits t' = true ->
  c_pending (t_counter t') = true \/ read_watch_enabled t' = true.
Proof. exact flow_release_wakes_or. Qed.
Print Assumptions C11_flow_release_wakes_or.

(* dbus_message_unref in one thread (free_counter = adjusts, then _dbus_counter_notify): right immediately *)
Theorem C11_flow_unref_immediate : forall ms mf evs t k t',
  frun (transport_init ms mf) evs = Some t -> frun t (unref k) = Some t' ->
  c_pending (t_counter t') = false /\ read_watch_enabled t' = below_limits t'.
Proof. exact flow_unref_immediate. Qed.
Print Assumptions C11_flow_unref_immediate.

(* C11 proper: bytes still in the socket (read watch) and bytes already in the loader (dispatch-status test) are
   treated alike in every quiescent reachable state *)
Theorem C11_flow_socket_equals_loader : forall ms mf evs t,
  frun (transport_init ms mf) evs = Some t -> c_pending (t_counter t) = false ->
  read_watch_enabled t = may_queue_more t.
Proof. exact flow_socket_equals_loader. Qed.
Print Assumptions C11_flow_socket_equals_loader.

(* (c) what the C guarantees about the limit: tested BEFORE queueing, so below limit + largest message; at/above it
   nothing more is queued; below it a message of any size is.  (The bound is relative to the initial limits, hence
   no_set_limits here.) *)
Theorem C11_flow_overshoot : forall ms mf M F evs t, 0 < ms -> 0 < mf -> 0 <= M -> 0 <= F ->
  no_set_limits evs = true -> arrivals_within M F evs -> frun (transport_init ms mf) evs = Some t ->
  c_size (t_counter t) < ms + M /\ c_fd (t_counter t) < mf + F.
Proof. exact flow_overshoot. Qed.
Print Assumptions C11_flow_overshoot.

Theorem C11_flow_refused_at_limit : forall t s n, may_queue_more t = false -> fstep t (Arrive s n) = Some t.
Proof. exact flow_refused_at_limit. Qed.
Print Assumptions C11_flow_refused_at_limit.

Theorem C11_flow_taken_below_limit : forall t s n, may_queue_more t = true ->
  exists t', fstep t (Arrive s n) = Some t' /\
             c_size (t_counter t') = c_size (t_counter t) + Z.of_N s /\ c_fd (t_counter t') = c_fd (t_counter t) + Z.of_N n /\
             t_live t' = t_live t ++ [mkMsg s n].
Proof. exact flow_taken_below_limit. Qed.
Print Assumptions C11_flow_taken_below_limit.

(* C13 "capacity freed becomes usable again": everything released and the notification run => reading resumes *)
Theorem C11_flow_capacity_reusable : forall ms mf evs t, frun (transport_init ms mf) evs = Some t ->
  0 < t_max_size t -> 0 < t_max_fds t -> t_live t = [] ->
  exists t', fstep t Notify = Some t' /\ read_watch_enabled t' = true /\ may_queue_more t' = true.
Proof. exact flow_capacity_reusable. Qed.
Print Assumptions C11_flow_capacity_reusable.

(* the seeded crossing test: wedged with nothing live, nothing pending, value having sat exactly on the limit *)
Theorem C11_flow_seeded_refuted :
  exists ms mf evs t, no_set_limits evs = true /\ srun (transport_init ms mf) evs = Some t /\
    c_pending (t_counter t) = false /\ below_limits t = true /\ t_live t = [] /\ read_watch_enabled t = false.
Proof. exact flow_no_wedge_seeded_refuted. Qed.
Print Assumptions C11_flow_seeded_refuted.

Theorem C11_flow_seeded_release_refuted :
  exists ms mf evs t k t', srun (transport_init ms mf) evs = Some t /\ step crossed_seeded true t (Release k) = Some t' /\
    c_size (t_counter t) = t_max_size t /\
    below_limits t = false /\ below_limits t' = true /\ c_pending (t_counter t') = false /\ read_watch_enabled t' = false.
Proof. exact flow_release_wakes_seeded_refuted. Qed.
Print Assumptions C11_flow_seeded_release_refuted.

Theorem C11_flow_seeded_refuted_fds :
  exists ms mf evs t, no_set_limits evs = true /\ srun (transport_init ms mf) evs = Some t /\
    c_pending (t_counter t) = false /\ below_limits t = true /\ read_watch_enabled t = false.
Proof. exact flow_no_wedge_seeded_refuted_fds. Qed.
Print Assumptions C11_flow_seeded_refuted_fds.

(* changing the limits of a live connection: nothing pending afterwards, watch right for the NEW limits at once
   (the setters call live_messages_changed since /repo d42cc8a) ... *)
Theorem C11_flow_set_limits_immediate : forall ms mf evs t ms' mf' t', frun (transport_init ms mf) evs = Some t ->
  fstep t (SetLimits ms' mf') = Some t' ->
  c_pending (t_counter t') = false /\ t_max_size t' = ms' /\ t_max_fds t' = mf' /\
  c_size (t_counter t') = c_size (t_counter t) /\ c_fd (t_counter t') = c_fd (t_counter t) /\
  read_watch_enabled t' = below_limits t'.
Proof. exact flow_set_limits_immediate. Qed.
Print Assumptions C11_flow_set_limits_immediate.

(* ... before that commit they did not, and raising a limit the connection had reached wedged it *)
Theorem C11_flow_set_limits_prefix_refuted :
  exists ms mf evs t, prun (transport_init ms mf) evs = Some t /\
    c_pending (t_counter t) = false /\ below_limits t = true /\ t_live t = [] /\ read_watch_enabled t = false.
Proof. exact flow_set_limits_prefix_refuted. Qed.
Print Assumptions C11_flow_set_limits_prefix_refuted.

(* non-vacuity: the hypotheses are met by runs that sit exactly on the limit *)
Example C11_flow_ex_at_limit :   (* quiescent, AT the limit: watch off, and that is right *)
  exists t, frun (transport_init 100 10) [Arrive 100 0; Notify] = Some t /\ c_pending (t_counter t) = false /\
            c_size (t_counter t) = t_max_size t /\ read_watch_enabled t = false /\ below_limits t = false.
Proof. eexists. split; [vm_compute; reflexivity|]. repeat split. Qed.
Example C11_flow_ex_release_wakes :   (* the hypotheses of C11_flow_release_wakes, from exactly the limit *)
  exists t t', frun (transport_init 100 10) [Arrive 100 0] = Some t /\ fstep t (Release 0) = Some t' /\
               below_limits t = false /\ below_limits t' = true /\ c_pending (t_counter t') = true.
Proof. do 2 eexists. split; [vm_compute; reflexivity|]. split; [vm_compute; reflexivity|]. repeat split. Qed.
Example C11_flow_ex_delayed :   (* a notification delayed past another arrival: still right once it has run *)
  exists t, frun (transport_init 100 10) [Arrive 60 0; Arrive 40 0; Release 0; Arrive 50 0; Notify] = Some t /\
            no_set_limits [Arrive 60 0; Arrive 40 0; Release 0; Arrive 50 0; Notify] = true /\
            c_size (t_counter t) = 90 /\ c_pending (t_counter t) = false /\ read_watch_enabled t = true.
Proof. eexists. split; [vm_compute; reflexivity|]. repeat split. Qed.
Example C11_flow_ex_overshoot :   (* arrivals_within is satisfiable and the bound of C11_flow_overshoot is reached *)
  exists evs t, arrivals_within 50 0 evs /\ frun (transport_init 100 10) evs = Some t /\ c_size (t_counter t) = 100 + 50 - 1.
Proof. exact flow_overshoot_tight. Qed.
Example C11_flow_ex_faithful_on_seeded_witness :
  exists t, frun (transport_init 100 10) seeded_witness = Some t /\ read_watch_enabled t = true.
Proof. exact faithful_on_witness. Qed.
Example C11_flow_ex_set_limits :   (* the pre-fix witness on the machine as it is: limit raised while at the limit, watch re-enabled *)
  exists t, frun (transport_init 100 10) set_limits_witness = Some t /\ read_watch_enabled t = true /\ t_live t = [].
Proof. exact faithful_on_set_limits_witness. Qed.
Local Close Scope Z_scope.
(* END C11_flow *)

(* ---- C11 + C01 + C02 composed: a stream of messages ---------------------------------------------------------
   For EVERY list ms of well-formed messages without descriptors and EVERY way [chunks] of cutting the
   concatenation of their canonical serialisations into reads: the loader model never declares corruption and
   queues exactly one message per element of ms, in order; each queued message's header ++ body are exactly
   the bytes of the corresponding m (no byte moves across a message boundary, none is lost), its body bytes are
   m's body, its loaded header fields are m's fields, it holds no descriptors, and the DBusTypeReader model
   reads exactly m's values from it.  Proof (Proofs/EndToEnd.v): C11_chunking reduces to the unsplit stream;
   induction over ms with C01_complete per message.  Non-vacuity: ex_stream_premises there (two messages in
   different byte orders cut inside the fixed header, a body and the second header). *)
From DV Require Import Spec.Codec Wire.Reader Proofs.CodecMessage Proofs.LoaderComplete Proofs.EndToEnd.
Theorem C11_stream_delivery : forall ms chunks,
  Forall (fun m => wf_msg m = true /\ spec_nfds (s_fields m) = 0) ms ->
  concat chunks = concat (map spec_encode_message ms) ->
  exists msgs, outcome (feed_all loader_new chunks) = (false, msgs) /\
    Forall2 (fun m msg =>
      m_header msg ++ m_body msg = spec_encode_message m /\ m_body msg = m_bodyb m /\ m_nfds msg = 0 /\
      Forall2 (hf_ok (s_le m)) (s_fields m) (m_fields msg) /\
      read_all (s_le m) (s_sig m) (m_body msg) = inl (s_body m)) ms msgs.
Proof. exact stream_delivery. Qed.
Print Assumptions C11_stream_delivery.

(* the same when what has arrived ends inside a message (a proper prefix [tail] of the serialisation of a further
   well-formed message, cut anywhere - inside the fixed header or later): the complete messages are delivered
   exactly as above, no corruption verdict is reached on the partial one, and exactly [tail] stays buffered for
   the bytes still to come.  Non-vacuity: ex_in_flight in Proofs/EndToEnd.v. *)
Theorem C11_stream_delivery_in_flight : forall ms tail chunks,
  Forall (fun m => wf_msg m = true /\ spec_nfds (s_fields m) = 0) ms ->
  (tail = [] \/ exists m c, (wf_msg m = true /\ spec_nfds (s_fields m) = 0) /\ tail ++ c = spec_encode_message m /\ c <> []) ->
  concat chunks = concat (map spec_encode_message ms) ++ tail ->
  exists msgs, outcome (feed_all loader_new chunks) = (false, msgs) /\
    Forall2 (fun m msg =>
      m_header msg ++ m_body msg = spec_encode_message m /\ m_body msg = m_bodyb m /\ m_nfds msg = 0 /\
      Forall2 (hf_ok (s_le m)) (s_fields m) (m_fields msg) /\
      read_all (s_le m) (s_sig m) (m_body msg) = inl (s_body m)) ms msgs /\
    l_buf (feed loader_new (concat chunks) 0) = tail.
Proof. exact stream_delivery_in_flight. Qed.
Print Assumptions C11_stream_delivery_in_flight.

(* valid messages followed by bytes [bad] (at least a fixed header; [bad] includes everything that follows) whose
   fixed header the framing test rejects: for every chunking, every valid message in front is delivered exactly
   as above, then the stream is declared corrupt, and nothing of [bad] ever becomes a message
   (with C11_nothing_after_corruption: whatever arrives later).  Non-vacuity: ex_bad_header in Proofs/EndToEnd.v. *)
Theorem C11_stream_then_corruption : forall ms bad chunks r,
  Forall (fun m => wf_msg m = true /\ spec_nfds (s_fields m) = 0) ms ->
  16 <= nlen bad -> have_message DBUS_MAXIMUM_MESSAGE_LENGTH bad = HaveInvalid r ->
  concat chunks = concat (map spec_encode_message ms) ++ bad ->
  exists msgs, outcome (feed_all loader_new chunks) = (true, msgs) /\
    Forall2 (fun m msg =>
      m_header msg ++ m_body msg = spec_encode_message m /\ m_body msg = m_bodyb m /\ m_nfds msg = 0 /\
      Forall2 (hf_ok (s_le m)) (s_fields m) (m_fields msg) /\
      read_all (s_le m) (s_sig m) (m_body msg) = inl (s_body m)) ms msgs.
Proof. exact stream_then_corruption. Qed.
Print Assumptions C11_stream_then_corruption.

(* the same stream taken in ONE read by the transport's reading loop under the loader's read limit
   (feed_limited: the model of do_reading with _dbus_message_loader_get_buffer's limit): the loop terminates and
   delivers exactly the same messages *)
Theorem C11_stream_delivery_limited : forall ms,
  Forall (fun m => wf_msg m = true /\ spec_nfds (s_fields m) = 0) ms ->
  let d := concat (map spec_encode_message ms) in
  exists l' msgs, feed_limited (S (length d)) loader_new d 0 = inl l' /\
    outcome l' = (false, msgs) /\
    Forall2 (fun m msg =>
      m_header msg ++ m_body msg = spec_encode_message m /\ m_body msg = m_bodyb m /\ m_nfds msg = 0 /\
      Forall2 (hf_ok (s_le m)) (s_fields m) (m_fields msg) /\
      read_all (s_le m) (s_sig m) (m_body msg) = inl (s_body m)) ms msgs.
Proof. exact stream_delivery_limited. Qed.
Print Assumptions C11_stream_delivery_limited.
