(* C11 — message framing is independent of how the byte stream is chunked.
   Statements only; proofs in Proofs/LoaderProofs.v. *)
From DV Require Import Lib.Base Wire.Message Proofs.LoaderProofs Proofs.BodyLocal Proofs.LoadLocal.
Local Open Scope N_scope.

(* Full statement: for every partition of every stream, the messages produced and
   the corruption verdict equal those of the unsplit stream (reason codes are not
   part of the outcome: see DESIGN.md C11). *)
Definition C11_full_statement : Prop :=
  forall chunks, outcome (feed_all loader_new chunks) = outcome (feed loader_new (concat chunks) 0).

(* THE CHUNKING THEOREM, unconditional: for every stream and every partition of it
   into reads, the loader model produces the same messages and the same corruption
   verdict as for the unsplit stream. *)
Theorem C11_chunking : C11_full_statement.
Proof. exact chunking_unconditional. Qed.
Print Assumptions C11_chunking.

(* It rests on locality of load_message: the verdict on a COMPLETE message (as framed
   by have_message) does not depend on the bytes that follow it in the buffer,
   although the header validator walks the whole buffer.  (The earlier formulation
   [load_local], for lengths not tied to the bytes, is false: [load_local_refuted].) *)
Theorem C11_load_message_local : forall max le fl hl bl fds d c,
  have_message max d = HaveOk le fl hl bl true ->
  match load_message le fl hl bl fds d, load_message le fl hl bl fds (d ++ c) with
  | inl m, inl m' => m = m'
  | inr _, inr _ => True
  | _, _ => False
  end.
Proof. exact load_local_from_have. Qed.
Print Assumptions C11_load_message_local.

(* the framing decision reads only the 16-byte fixed header *)
Theorem C11_have_message_local : forall max d c, (16 <= length d)%nat ->
  have_message max (d ++ c) =
  match have_message max d with
  | HaveInvalid r => HaveInvalid r
  | HaveOk le fl hl bl _ => HaveOk le fl hl bl (bl + hl <=? nlen (d ++ c))
  end.
Proof. exact have_message_app. Qed.
Print Assumptions C11_have_message_local.

(* no message is produced after corruption is detected, whatever arrives later *)
Theorem C11_nothing_after_corruption : forall l chunks, l_corrupted l = true -> outcome (feed_all l chunks) = outcome l.
Proof. exact corruption_is_final. Qed.
Print Assumptions C11_nothing_after_corruption.

(* messages complete before the first invalid one are all delivered, and nothing is
   lost or invented: queued messages ++ unconsumed buffer = the bytes fed *)
Theorem C11_prefix_delivered : forall l c, consumed (feed l c 0) ++ l_buf (feed l c 0) = consumed l ++ l_buf l ++ c.
Proof. exact feed_conservation. Qed.
Print Assumptions C11_prefix_delivered.

(* non-vacuity: a two-message stream split inside the fixed header *)
Definition ex_msg : bytes := [108;2;0;1; 0;0;0;0; 1;0;0;0; 8;0;0;0; 5;1;117;0; 1;0;0;0].
Example ex_two : length (l_msgs (feed_all loader_new [firstn 5 ex_msg; skipn 5 ex_msg ++ ex_msg])) = 2%nat.
Proof. vm_compute. reflexivity. Qed.
Example ex_two_unsplit : length (l_msgs (feed loader_new (ex_msg ++ ex_msg) 0)) = 2%nat.
Proof. vm_compute. reflexivity. Qed.
