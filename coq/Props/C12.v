(* C12 — header edits keep a message valid and touch nothing else.
   Statements only; proofs in Proofs/EditProofs.v.  The model is the abstract
   editor on the decoded message; the byte-shuffling C code is tied to it by
   the correspondence run (bytes compared after every edit). *)
From DV Require Import Lib.Base Spec.Codec Wire.HeaderEdit Proofs.EditProofs Proofs.CodecWf Proofs.CodecRoundtrip Proofs.CodecMessage.
From Coq Require Import Lia ZifyN ZifyNat.
Local Open Scope N_scope.

(* Well-formedness after edits: whatever sequence of edits was applied, if the
   edited abstract message is well-formed ([wf_msg]: in particular the fields
   mandatory for its type are still present and every field value is valid) its
   re-serialisation decodes, per the specification, to exactly the edited
   message -- in either byte order and for any field order, unknown fields
   included. *)
Theorem C12_wellformed : forall m es, let m' := fold_left apply_edit es m in
  wf_msg m' = true -> spec_decode_message (spec_encode_message m') = Some (m', nlen (spec_encode_message m')).
Proof. intros m es m' H. apply message_roundtrip. exact H. Qed.
Print Assumptions C12_wellformed.

Theorem C12_readback : forall fs c v, get_field (set_field fs c v) c = Some v.
Proof. exact get_set_same. Qed.
Print Assumptions C12_readback.

Theorem C12_delete_readback : forall fs c, get_field (del_field fs c) c = None.
Proof. exact get_del_same. Qed.
Print Assumptions C12_delete_readback.

Theorem C12_set_other_fields_unchanged : forall fs c c' v, c' <> c -> get_field (set_field fs c v) c' = get_field fs c'.
Proof. exact get_set_other. Qed.
Print Assumptions C12_set_other_fields_unchanged.

(* all other fields keep value, presence and relative order (as a list) *)
Theorem C12_set_preserves_order_of_others : forall fs c v, del_field (set_field fs c v) c = del_field fs c.
Proof. exact set_preserves_others. Qed.
Print Assumptions C12_set_preserves_order_of_others.

Theorem C12_delete_other_fields_unchanged : forall fs c c', c' <> c -> get_field (del_field fs c) c' = get_field fs c'.
Proof. exact get_del_other. Qed.
Print Assumptions C12_delete_other_fields_unchanged.

Theorem C12_strip_keeps_known : forall fs c, c <= 10 -> get_field (strip_unknown fs) c = get_field fs c.
Proof. exact strip_known. Qed.
Print Assumptions C12_strip_keeps_known.

Theorem C12_strip_removes_unknown : forall fs, forallb (fun f => sf_code f <=? 10) (strip_unknown fs) = true.
Proof. exact strip_removes. Qed.
Print Assumptions C12_strip_removes_unknown.

(* flags, serial, type, byte order, signature and body are untouched by any edit sequence *)
Theorem C12_frame : forall es m,
  let m' := fold_left apply_edit es m in
  s_le m' = s_le m /\ s_type m' = s_type m /\ s_flags m' = s_flags m /\ s_serial m' = s_serial m /\ s_sig m' = s_sig m /\ s_body m' = s_body m.
Proof. exact edits_frame. Qed.
Print Assumptions C12_frame.

(* the re-serialised header-field array of ANY field list (after any edits) decodes back to
   exactly that list, in order, given only that the field values are well-formed *)
Theorem C12_fields_reserialise : forall le fs rest,
  wfb le 0 12 (fields_val le fs) = true ->
  dec le DEC_FUEL fields_array_ty 0 12 (enc le (fields_val le fs) 12 ++ rest)
  = Some (fields_val le fs, 12 + nlen (enc le (fields_val le fs) 12), rest).
Proof.
  intros le fs rest H. pose proof (wfb_height le _ 0 12 H) as Hh.
  apply (dec_enc le (fields_val le fs) DEC_FUEL 0 12 rest H). unfold DEC_FUEL. lia.
Qed.
Print Assumptions C12_fields_reserialise.

(* non-vacuity *)
Definition ex_msg0 : smsg :=
  build false 1 0 9 [ESet 1 (VStr 111 [47;97]); ESet 3 (VStr 115 [77]); ESet 6 (VStr 115 [97;46;98])] [VNum 105 7].
Definition ex_edits : list edit := [ESet 6 (VStr 115 [120;46;121;46;122;122;122;122;122]); EDel 2; ESet 7 (VStr 115 [58;49;46;53]); EStrip].
Example ex_edited_wf : wf_msg (fold_left apply_edit ex_edits ex_msg0) = true. Proof. vm_compute. reflexivity. Qed.
Definition ex_fs : list sfield := [mk_field 1 (VStr 111 [47; 97]); mk_field 77 (VNum 121 5); mk_field 3 (VStr 115 [83])].
Example ex_set_replaces_in_place : map sf_code (set_field ex_fs 77 (VNum 121 6)) = [1; 77; 3]. Proof. reflexivity. Qed.
Example ex_set_appends : map sf_code (set_field ex_fs 6 (VStr 115 [97;46;98])) = [1; 77; 3; 6]. Proof. reflexivity. Qed.
Example ex_strip : map sf_code (strip_unknown ex_fs) = [1; 3]. Proof. reflexivity. Qed.

From DV Require Import Wire.Reader Wire.HeaderBytes Proofs.ReaderProofs Proofs.HeaderBytesProofs.
(* ---- to append to Props/C12.v ------------------------------------------------------------------
   extra Require (add to the From DV Require Import line, or as its own line):

     From DV Require Import Wire.Reader Wire.HeaderBytes Proofs.ReaderProofs Proofs.HeaderBytesProofs.

   C12 on the BYTE level: the header editor of libdbus (Wire/HeaderBytes.v: field-position cache,
   find_field_for_modification, in-place overwrite, replacement block with re-alignment of the rest of the
   array and fix-up of the array length, append through the type writer, delete, remove-unknown-fields,
   reserve/correct padding) refines the abstract editor (Wire/HeaderEdit.v) used by the theorems above.

   Premises:  wf_msg m  (Proofs/CodecMessage.v);
              edit_ok e : ESet k v -> field_ty k = Some (ty_of_val v) (so 1 <= k <= 10 and the value has the type
                          of the header-field table) and hval_ok v (u32 < 2^32; string / object path / signature
                          without NUL byte, length < 2^32 resp. < 256: what a C string can carry);
                          EDel k -> k <= 10;  EStrip: none;
              cache_consistent d c : c has 11 entries and every entry that is not UNKNOWN equals the entry a fresh
                          _dbus_header_cache_revalidate of the bytes d computes (cache_truth below says what that
                          means in terms of the fields).
   [dbg] = the library was built with assertions (then _dbus_header_delete_field re-validates the cache in its
   final "expensive assertion"); the theorems hold for both. *)

(* REFINEMENT, one edit: header bytes of the encoding of m, ANY consistent cache  |->  header bytes of the encoding
   of the edited message, consistent cache; no Fault, no failed assertion, no fuel exhaustion *)
Theorem C12_bytes_refinement : forall dbg m e c,
  wf_msg m = true -> edit_ok e -> cache_consistent (msg_hdr_bytes m) c ->
  exists c', hb_apply dbg e (hdr_of m c) = inl (hdr_of (apply_edit m e) c') /\
             cache_consistent (msg_hdr_bytes (apply_edit m e)) c'.
Proof. exact hb_refines. Qed.
Print Assumptions C12_bytes_refinement.

(* ... and the whole message: edited header ++ untouched body = specification encoding of the edited message *)
Theorem C12_bytes_message : forall dbg m e c,
  wf_msg m = true -> edit_ok e -> cache_consistent (msg_hdr_bytes m) c ->
  exists h', hb_apply dbg e (hdr_of m c) = inl h' /\
             h_data h' ++ encs (s_le m) (s_body m) 0 = spec_encode_message (apply_edit m e) /\
             cache_consistent (h_data h') (h_cache h').
Proof. exact hb_refines_message. Qed.
Print Assumptions C12_bytes_message.

(* sequences of edits (the intermediate field arrays must fit their 32-bit length word) *)
Theorem C12_bytes_sequence : forall dbg m es c,
  wf_msg m = true -> run_ok (s_le m) (s_fields m) es -> cache_consistent (msg_hdr_bytes m) c ->
  exists c', hb_run dbg es (hdr_of m c) = inl (hdr_of (fold_left apply_edit es m) c') /\
             cache_consistent (msg_hdr_bytes (fold_left apply_edit es m)) c'.
Proof. exact hb_run_refines. Qed.
Print Assumptions C12_bytes_sequence.

(* the same on the level of field lists, for headers that are not (or no longer) those of a valid message:
   [hwf] = what the reader needs of the values + known fields unique and typed as in the table *)
Theorem C12_bytes_edit_fields : forall dbg le mt fl bl sr fs c e,
  hwf le fs -> cache_sem le fs c -> edit_ok e ->
  exists c', hb_apply dbg e (mkH (hdr_bytes le mt fl bl sr fs) (hdr_pad le fs) c) =
             inl (mkH (hdr_bytes le mt fl bl sr (efields fs e)) (hdr_pad le (efields fs e)) c') /\
             cache_consistent (hdr_bytes le mt fl bl sr (efields fs e)) c' /\
             (nlen (payload le (efields fs e)) < 4294967296 -> cache_sem le (efields fs e) c' /\ hwf le (efields fs e)).
Proof. exact hb_apply_ok. Qed.
Print Assumptions C12_bytes_edit_fields.

(* reading a field THROUGH THE CACHE = the abstract lookup; the cache stays consistent *)
Theorem C12_bytes_get : forall m c k,
  wf_msg m = true -> cache_consistent (msg_hdr_bytes m) c -> 1 <= k <= 10 ->
  exists c', hb_get k (hdr_of m c) = inl (get_field (s_fields m) k, hdr_of m c') /\ cache_consistent (msg_hdr_bytes m) c'.
Proof. exact hb_get_msg. Qed.
Print Assumptions C12_bytes_get.

(* set, then get through the (invalidated, then re-validated) cache: the edited field reads back the new value,
   every other field reads as before *)
Theorem C12_bytes_set_readback : forall dbg m c k v k',
  wf_msg m = true -> edit_val_ok k v -> cache_consistent (msg_hdr_bytes m) c ->
  nlen (payload (s_le m) (set_field (s_fields m) k v)) < 4294967296 -> 1 <= k' <= 10 ->
  exists h' h'', hb_apply dbg (ESet k v) (hdr_of m c) = inl h' /\
                 hb_get k' h' = inl (if k' =? k then Some v else get_field (s_fields m) k', h'') /\
                 h_data h'' = h_data h' /\ cache_consistent (h_data h'') (h_cache h'').
Proof. exact hb_set_then_get. Qed.
Print Assumptions C12_bytes_set_readback.

Theorem C12_bytes_delete_readback : forall dbg m c k k',
  wf_msg m = true -> 1 <= k <= 10 -> cache_consistent (msg_hdr_bytes m) c -> 1 <= k' <= 10 ->
  exists h' h'', hb_apply dbg (EDel k) (hdr_of m c) = inl h' /\
                 hb_get k' h' = inl (if k' =? k then None else get_field (s_fields m) k', h'') /\
                 h_data h'' = h_data h' /\ cache_consistent (h_data h'') (h_cache h'').
Proof. exact hb_delete_then_get. Qed.
Print Assumptions C12_bytes_delete_readback.

(* what a consistent cache entry means: NONEXISTENT -> no such field; a position -> the marshalled value of
   that field sits exactly there *)
Theorem C12_bytes_cache_truth : forall le mt fl bl sr fs c k,
  hwf le fs -> cache_consistent (hdr_bytes le mt fl bl sr fs) c -> k <= 10 ->
  match cache_get c k with
  | CUnknown => True
  | CNonexistent => get_field fs k = None
  | CPos p => exists f tl, get_field fs k = Some (sf_val f) /\ sf_code f = k /\
                           bytes_from (hdr_bytes le mt fl bl sr fs) p = enc le (sf_val f) p ++ tl
  end.
Proof. exact cache_truth. Qed.
Print Assumptions C12_bytes_cache_truth.

(* well-formedness of every result: zero padding up to a multiple of 8, the fields-array length word is the length *)
Theorem C12_bytes_layout : forall le mt fl bl sr fs,
  hdr_bytes le mt fl bl sr fs = hdr_unpadded le mt fl bl sr fs ++ zeros (hdr_pad le fs) /\
  nlen (hdr_bytes le mt fl bl sr fs) mod 8 = 0 /\ hdr_pad le fs < 8 /\
  (nlen (payload le fs) < 4294967296 -> get_num le (hdr_bytes le mt fl bl sr fs) 12 4 = inl (nlen (payload le fs))).
Proof. exact hdr_layout. Qed.
Print Assumptions C12_bytes_layout.

(* with C12_wellformed: when the edited abstract message is well formed, the edited BYTES decode, per the
   specification, to exactly the edited message: every other field, the body, type, flags and serial unchanged *)
Theorem C12_bytes_decodes : forall dbg m e c,
  wf_msg m = true -> edit_ok e -> cache_consistent (msg_hdr_bytes m) c -> wf_msg (apply_edit m e) = true ->
  exists h', hb_apply dbg e (hdr_of m c) = inl h' /\
             spec_decode_message (h_data h' ++ encs (s_le m) (s_body m) 0) =
             Some (apply_edit m e, nlen (h_data h' ++ encs (s_le m) (s_body m) 0)).
Proof. exact hb_edit_decodes. Qed.
Print Assumptions C12_bytes_decodes.

(* the specification encoding splits into the header bytes the editor works on and the body bytes *)
Theorem C12_bytes_split : forall m, spec_encode_message m = msg_hdr_bytes m ++ encs (s_le m) (s_body m) 0.
Proof. exact spec_encode_split. Qed.
Print Assumptions C12_bytes_split.

(* serial and body length words (dbus_message_set_serial / dbus_message_lock) *)
Theorem C12_bytes_set_serial : forall le mt fl bl sr fs c s, sr < 4294967296 -> sr = 0 \/ s = 0 ->
  hb_set_serial s (mkH (hdr_bytes le mt fl bl sr fs) (hdr_pad le fs) c) = inl (mkH (hdr_bytes le mt fl bl s fs) (hdr_pad le fs) c).
Proof. exact hb_set_serial_ok. Qed.
Print Assumptions C12_bytes_set_serial.

Theorem C12_bytes_update_lengths : forall le mt fl bl sr fs c n,
  hb_update_lengths n (mkH (hdr_bytes le mt fl bl sr fs) (hdr_pad le fs) c) = inl (mkH (hdr_bytes le mt fl n sr fs) (hdr_pad le fs) c).
Proof. exact hb_update_lengths_ok. Qed.
Print Assumptions C12_bytes_update_lengths.

(* locally built headers: dbus_message_new, then any edits with NO getter in between (cache invalidated throughout) *)
Theorem C12_bytes_local_build : forall dbg le mt es, run_ok le [] es ->
  exists c', hb_run dbg es (hb_create le mt) =
             inl (mkH (hdr_bytes le mt 0 0 0 (fold_left efields es [])) (hdr_pad le (fold_left efields es [])) c') /\
             cache_consistent (hdr_bytes le mt 0 0 0 (fold_left efields es [])) c' /\ hwf le (fold_left efields es []).
Proof. exact hb_build_ok. Qed.
Print Assumptions C12_bytes_local_build.

Theorem C12_bytes_toggle_flag : forall le mt fl bl sr fs c flag value,
  hb_toggle_flag flag value (mkH (hdr_bytes le mt fl bl sr fs) (hdr_pad le fs) c) =
  inl (mkH (hdr_bytes le mt (if value then N.lor fl flag else N.ldiff fl flag) bl sr fs) (hdr_pad le fs) c).
Proof. exact hb_toggle_flag_ok. Qed.
Print Assumptions C12_bytes_toggle_flag.

(* every well-formed message has a header the editor can work on *)
Theorem C12_bytes_wf_header : forall m, wf_msg m = true -> hwf (s_le m) (s_fields m).
Proof. exact wf_msg_hwf. Qed.
Print Assumptions C12_bytes_wf_header.

(* non-vacuity: a loaded message (full cache), edits of every kind, run through the byte-level editor *)
Example ex_bytes_run :
  match hb_load (spec_encode_message ex_msg0) with
  | inl (h, body) =>
      match hb_run true ex_edits h with
      | inl h' => h_data h' ++ body = spec_encode_message (fold_left apply_edit ex_edits ex_msg0)
      | inr _ => False
      end
  | inr _ => False
  end.
Proof. vm_compute. reflexivity. Qed.
Example ex_bytes_premises : wf_msg ex_msg0 = true /\ run_ok (s_le ex_msg0) (s_fields ex_msg0) ex_edits.
Proof. split; [vm_compute; reflexivity|]. cbn [run_ok]. repeat split; try (vm_compute; reflexivity); try (cbv; intros X; discriminate X). Qed.

(* ---- C12 + C01 composed: what the receiver sees of an edited message -----------------------------------------
   Any sequence of header edits (set / delete / strip: what the bus does when it stamps the sender and
   forwards) on any message m, provided the edited message m' is well-formed: its serialisation followed by any
   bytes is accepted by the loader model, the queued header ++ body are exactly the canonical bytes of m', the
   body bytes are exactly the body bytes of the ORIGINAL m, and the DBusTypeReader model reads exactly m's
   original values with m's original signature.  Non-vacuity: ex_edited_wf above (edits include SENDER). *)
From DV Require Import Wire.Message Wire.Reader Proofs.LoaderComplete Proofs.EndToEnd.
Theorem C12_edited_message_received : forall m es rest avail,
  let m' := fold_left apply_edit es m in
  wf_msg m' = true -> spec_nfds (s_fields m') <= avail ->
  exists msg,
    load_message (s_le m) (m_flen m') (m_hlen m') (m_blen m') avail (spec_encode_message m' ++ rest) = inl msg /\
    m_header msg ++ m_body msg = spec_encode_message m' /\
    m_body msg = encs (s_le m) (s_body m) 0 /\
    read_all (s_le m) (s_sig m) (m_body msg) = inl (s_body m).
Proof. exact edited_message_received. Qed.
Print Assumptions C12_edited_message_received.
