(* C12 — placeholder while the header-edit proofs are being written. *)
From DV Require Import Wire.HeaderEdit.
