(* C12 — header edits keep a message valid and touch nothing else.
   Statements only; proofs in Proofs/EditProofs.v.  The model is the abstract
   editor on the decoded message; the byte-shuffling C code is tied to it by
   the correspondence run (bytes compared after every edit). *)
From DV Require Import Lib.Base Spec.Codec Wire.HeaderEdit Proofs.EditProofs Proofs.CodecWf Proofs.CodecRoundtrip Proofs.CodecMessage.
From Coq Require Import Lia ZifyN ZifyNat.
Local Open Scope N_scope.

(* Well-formedness after edits: whatever sequence of edits was applied, if the
   edited abstract message is well-formed ([wf_msg]: in particular the fields
   mandatory for its type are still present and every field value is valid) its
   re-serialisation decodes, per the specification, to exactly the edited
   message -- in either byte order and for any field order, unknown fields
   included. *)
Theorem C12_wellformed : forall m es, let m' := fold_left apply_edit es m in
  wf_msg m' = true -> spec_decode_message (spec_encode_message m') = Some (m', nlen (spec_encode_message m')).
Proof. intros m es m' H. apply message_roundtrip. exact H. Qed.
Print Assumptions C12_wellformed.

Theorem C12_readback : forall fs c v, get_field (set_field fs c v) c = Some v.
Proof. exact get_set_same. Qed.
Print Assumptions C12_readback.

Theorem C12_delete_readback : forall fs c, get_field (del_field fs c) c = None.
Proof. exact get_del_same. Qed.
Print Assumptions C12_delete_readback.

Theorem C12_set_other_fields_unchanged : forall fs c c' v, c' <> c -> get_field (set_field fs c v) c' = get_field fs c'.
Proof. exact get_set_other. Qed.
Print Assumptions C12_set_other_fields_unchanged.

(* all other fields keep value, presence and relative order (as a list) *)
Theorem C12_set_preserves_order_of_others : forall fs c v, del_field (set_field fs c v) c = del_field fs c.
Proof. exact set_preserves_others. Qed.
Print Assumptions C12_set_preserves_order_of_others.

Theorem C12_delete_other_fields_unchanged : forall fs c c', c' <> c -> get_field (del_field fs c) c' = get_field fs c'.
Proof. exact get_del_other. Qed.
Print Assumptions C12_delete_other_fields_unchanged.

Theorem C12_strip_keeps_known : forall fs c, c <= 10 -> get_field (strip_unknown fs) c = get_field fs c.
Proof. exact strip_known. Qed.
Print Assumptions C12_strip_keeps_known.

Theorem C12_strip_removes_unknown : forall fs, forallb (fun f => sf_code f <=? 10) (strip_unknown fs) = true.
Proof. exact strip_removes. Qed.
Print Assumptions C12_strip_removes_unknown.

(* flags, serial, type, byte order, signature and body are untouched by any edit sequence *)
Theorem C12_frame : forall es m,
  let m' := fold_left apply_edit es m in
  s_le m' = s_le m /\ s_type m' = s_type m /\ s_flags m' = s_flags m /\ s_serial m' = s_serial m /\ s_sig m' = s_sig m /\ s_body m' = s_body m.
Proof. exact edits_frame. Qed.
Print Assumptions C12_frame.

(* the re-serialised header-field array of ANY field list (after any edits) decodes back to
   exactly that list, in order, given only that the field values are well-formed *)
Theorem C12_fields_reserialise : forall le fs rest,
  wfb le 0 12 (fields_val le fs) = true ->
  dec le DEC_FUEL fields_array_ty 0 12 (enc le (fields_val le fs) 12 ++ rest)
  = Some (fields_val le fs, 12 + nlen (enc le (fields_val le fs) 12), rest).
Proof.
  intros le fs rest H. pose proof (wfb_height le _ 0 12 H) as Hh.
  apply (dec_enc le (fields_val le fs) DEC_FUEL 0 12 rest H). unfold DEC_FUEL. lia.
Qed.
Print Assumptions C12_fields_reserialise.

(* non-vacuity *)
Definition ex_msg0 : smsg :=
  build false 1 0 9 [ESet 1 (VStr 111 [47;97]); ESet 3 (VStr 115 [77]); ESet 6 (VStr 115 [97;46;98])] [VNum 105 7].
Definition ex_edits : list edit := [ESet 6 (VStr 115 [120;46;121;46;122;122;122;122;122]); EDel 2; ESet 7 (VStr 115 [58;49;46;53]); EStrip].
Example ex_edited_wf : wf_msg (fold_left apply_edit ex_edits ex_msg0) = true. Proof. vm_compute. reflexivity. Qed.
Definition ex_fs : list sfield := [mk_field 1 (VStr 111 [47; 97]); mk_field 77 (VNum 121 5); mk_field 3 (VStr 115 [83])].
Example ex_set_replaces_in_place : map sf_code (set_field ex_fs 77 (VNum 121 6)) = [1; 77; 3]. Proof. reflexivity. Qed.
Example ex_set_appends : map sf_code (set_field ex_fs 6 (VStr 115 [97;46;98])) = [1; 77; 3; 6]. Proof. reflexivity. Qed.
Example ex_strip : map sf_code (strip_unknown ex_fs) = [1; 3]. Proof. reflexivity. Qed.
