(* C05 — unicast messages reach exactly the current owner, once, in order.
   Same model as C09 (Routing.v); statements only, proofs in Proofs/RoutingProofs.v.
   The model carries a message opaquely: [OFwd c m] is "m with SENDER := unique name of c", so "intact" is
   [m' = m] here; that the real bus leaves every other header field and the body alone is checked
   field by field in the correspondence run (harness/py/routing_impl.py same_message). *)
From DV Require Import Lib.Base Routing.Routing Spec.RoutingSpec Proofs.RoutingProofs Proofs.RoutingHeldProofs.
Local Open Scope N_scope.

(* exactly one delivery per send: the message to the primary owner of the destination AT PROCESSING TIME
   (resolve in the pre-state) followed only by the copies made for eavesdrop match rules ([eav_out], characterised by
   C05_copies_only_to_eavesdroppers / C05_copies_once), or one error to the sender with the message's serial *)
Theorem C05_exactly_once : forall cf st c m,
  wf_event st (ESend c m) = true ->
  (exists r, resolve st (m_dest m) = Some r /\ snd (step cf st (ESend c m)) = (r, OFwd c m) :: eav_out cf st c r m) \/
  (exists e, snd (step cf st (ESend c m)) = [(c, OErr e (m_serial m))]) \/
  (* an auto-start message to an unowned name with a service file: nothing yet, the message is HELD (appended to the
     pending activation's entries) until the name is acquired -- C05_held_released, C05_fifo_held *)
  (snd (step cf st (ESend c m)) = [] /\ resolve st (m_dest m) = None /\ auto_starts m = true /\
   exists n, m_dest m = DName n /\
     st_held (fst (step cf st (ESend c m))) = set_held (st_held st) n (held_for (st_held st) n ++ [(c, m)])).
Proof. exact send_exactly_once. Qed.
Print Assumptions C05_exactly_once.

(* nobody but the owner gets it, and what the owner gets is the message as sent (SENDER = c) *)
Theorem C05_no_third_party_intact : forall cf st c m x f m',
  In (x, OFwd f m') (snd (step cf st (ESend c m))) -> resolve st (m_dest m) = Some x /\ f = c /\ m' = m.
Proof. exact no_third_party. Qed.
Print Assumptions C05_no_third_party_intact.

(* connections "granted eavesdropping": every extra copy goes to a connection OTHER than the addressed recipient that
   holds an eavesdrop='true' match rule matching the message, and each such connection gets at most one copy *)
Theorem C05_copies_only_to_eavesdroppers : forall cf st c r m x,
  In x (eav_out cf st c r m) ->
  snd x = OEav c m /\ fst x <> r /\
  exists rl, In (fst x, rl) (st_rules st) /\ r_eaves rl = true /\ rule_matches st rl c r m = true.
Proof. exact eavesdrop_copies. Qed.
Print Assumptions C05_copies_only_to_eavesdroppers.

Theorem C05_copies_once : forall cf st c r m, NoDup (map fst (eav_out cf st c r m)).
Proof. exact eavesdrop_once. Qed.
Print Assumptions C05_copies_once.

(* messages addressed to the bus driver (org.freedesktop.DBus) are unicast too: the caller gets the driver's reply, and a copy of the
   call (OCall) goes only to connections holding an eavesdrop='true' rule that matches it -- never to the holder of a plain rule --
   one per connection *)
Theorem C05_driver_call_copies_only_to_eavesdroppers : forall cf st c s x,
  In x (drv_copies cf st c s) ->
  snd x = OCall c s /\ exists rl, In (fst x, rl) (st_rules st) /\ r_eaves rl = true /\ drv_rule_matches st rl c = true.
Proof. exact driver_call_copies. Qed.
Print Assumptions C05_driver_call_copies_only_to_eavesdroppers.

Theorem C05_driver_call_copies_once : forall cf st c s, NoDup (map fst (drv_copies cf st c s)).
Proof. exact driver_call_copies_once. Qed.
Print Assumptions C05_driver_call_copies_once.

Theorem C05_driver_step_output : forall cf st e c s,
  wf_event st e = true ->
  match e with EReleaseName c' s' _ | EAddMatch c' s' _ | EDriverCall c' s' => c' = c /\ s' = s | _ => False end ->
  exists code st', snd (step cf st e) = [(c, ODrv s code)] ++ drv_copies cf st' c s.
Proof. exact driver_step_output. Qed.
Print Assumptions C05_driver_step_output.

(* no step other than a send forwards anything -- unless messages are held for an activation (then RequestName releases them) *)
Theorem C05_only_sends_forward : forall cf st e x,
  st_held st = [] ->
  match e with ESend _ _ => False | _ => True end -> In x (snd (step cf st e)) -> match snd x with OFwd _ _ => False | _ => True end.
Proof. exact step_nonsend_no_fwd. Qed.
Print Assumptions C05_only_sends_forward.

(* under the permissive policy the message IS delivered unless fd passing / a full outgoing queue of the recipient / the
   reply-slot rules forbid it *)
Theorem C05_delivered : forall cf st c m r,
  wf_event st (ESend c m) = true -> restrictive cf = false -> resolve st (m_dest m) = Some r ->
  (0 <? m_nfds m) && negb (conn_fds st r) = false -> is_full st r = false -> unknown_type m = false ->
  (is_call m = false \/ m_noreply m = true \/
   ((forall p, In p (st_pend st) -> pend_match c r (m_serial m) p = false) /\ count_get c (st_pend st) < max_replies cf)) ->
  snd (step cf st (ESend c m)) = (r, OFwd c m) :: eav_out cf st c r m.
Proof. exact permissive_delivers. Qed.
Print Assumptions C05_delivered.

(* per (sender, recipient) FIFO, histories in which nothing is held for an activation: what b reads from a is EXACTLY, in order,
   what the bus passed on in a's send steps *)
Theorem C05_fifo : forall cf h a b,
  noauto h = true ->
  filter (from_conn a) (inbox (trace_of cf h) b) = map (OFwd a) (passed_on (trace_of cf h) a b).
Proof. exact fifo. Qed.
Print Assumptions C05_fifo.

(* EVERY history, with activations: per (sender a, destination d, recipient b), what b reads from a for d is, in order, a
   subsequence of what a wrote to d -- through direct delivery, hold, release to the new owner, refusals and disconnects.
   (Across different destinations the order is the order of PROCESSING: a message held for a starting service is overtaken by
   a later message to another name of the same connection.) *)
Theorem C05_fifo_held : forall cf h a d b, Sub (arrived (trace_of cf h) a d b) (written (trace_of cf h) a d).
Proof. exact fifo_held. Qed.
Print Assumptions C05_fifo_held.

(* the invariant behind it: arrivals so far, followed by everything still held for (a, d), is a subsequence of what was written *)
Theorem C05_fifo_held_inv : forall cf h a d b,
  Sub (arrived (trace_of cf h) a d b ++ held_msgs (state_of cf h) a d) (written (trace_of cf h) a d).
Proof. exact fifo_held_inv. Qed.
Print Assumptions C05_fifo_held_inv.

(* held messages exist only for unowned names, and carry that name as destination *)
Theorem C05_held_only_while_unowned : forall cf h, hinv (state_of cf h).
Proof. exact hinv_all. Qed.
Print Assumptions C05_held_only_while_unowned.

(* no owner and not activatable (or NO_AUTO_START): exactly one error, state untouched, no delivery *)
Theorem C05_undeliverable_no_owner : forall cf st c m,
  wf_event st (ESend c m) = true -> resolve st (m_dest m) = None -> auto_starts m = false ->
  step cf st (ESend c m) = (st, [(c, OErr (if m_noauto m then ENameHasNoOwner else EServiceUnknown) (m_serial m))]).
Proof. exact no_owner_error. Qed.
Print Assumptions C05_undeliverable_no_owner.

(* a refused message leaves no trace on the ledger, hence (C09_no_reply_only_for_open_calls) no later NoReply is caused by it *)
Theorem C05_refused_opens_nothing : forall T tr c m o a b s,
  (forall x, fwd_to o x = false) -> age T ((ESend c m, o) :: tr) a b s = age T tr a b s.
Proof. intros T tr c m o a b s H. simpl. rewrite !H, !andb_false_r. reflexivity. Qed.
Print Assumptions C05_refused_opens_nothing.

(* "an undeliverable call produces exactly ONE error with its serial", over a whole history and for EVERY history: if a wrote
   a single message with serial s, at most one error with reply serial s ever reaches a.  (Before the fix for finding F7
   this failed: NotSupported followed by NoReply for the same serial; the former witness is the regression example below.) *)
Theorem C05_undeliverable : forall cf h a s,
  sends_with_serial h a s = 1%nat -> (errors_in (trace_of cf h) a s <= 1)%nat.
Proof. exact one_error_per_serial. Qed.
Print Assumptions C05_undeliverable.

Definition cfg_p : cfg := mkCfg false 4 None.
Definition call_fd : msg := mkMsg TCall false false 7 0 (DUnique 1) 1 1.
Definition h_two : list event := [EConnect true; EConnect false; ESend 0 call_fd; EDisconnect 1].
Example ex_f7_one_error :
  trace_of cfg_p h_two = [(EDisconnect 1, []); (ESend 0 call_fd, [(0, OErr ENotSupported 7)]); (EConnect false, []); (EConnect true, [])].
Proof. vm_compute. reflexivity. Qed.

(* a sender that closes right after writing: the close is processed AFTER everything it wrote (the earlier steps of the trace,
   i.e. every delivery decided for its messages, are exactly those of the history without the close) and then its state is
   gone.  That the real bus reads everything that was completely written before it acts on the hang-up is the
   correspondence's business (fire-and-forget bursts in tools/props/c05.py). *)
Theorem C05_close_keeps_earlier_steps : forall cf h c,
  trace_of cf (h ++ [EDisconnect c]) = (EDisconnect c, snd (step cf (state_of cf h) (EDisconnect c))) :: trace_of cf h.
Proof. exact close_keeps_earlier_steps. Qed.
Print Assumptions C05_close_keeps_earlier_steps.

Theorem C05_close_cleans_up : forall cf st c,
  connected st c = true ->
  let st' := fst (step cf st (EDisconnect c)) in
  connected st' c = false /\
  (forall p, In p (st_pend st') -> p_get p <> c /\ p_send p <> Some c) /\
  (forall n q o, In (n, q) (st_names st') -> In o q -> o_conn o <> c) /\
  (forall x, In x (st_rules st') -> fst x <> c).
Proof. exact close_cleans_up. Qed.
Print Assumptions C05_close_cleans_up.

(* non-vacuity: 1 holds a plain catch-all rule, 2 an eavesdrop rule; 0 calls RequestName: only 2 gets a copy *)
Example ex_driver_call_copy :
  snd (step cfg_p (state_of cfg_p [EConnect false; EConnect false; EConnect false; EAddMatch 1 9 (mkRule false None None None); EAddMatch 2 9 (mkRule true None None None)])
            (ERequestName 0 5 3 false false false))
  = [(0, ODrv 5 1); (2, OCall 0 5)].
Proof. vm_compute. reflexivity. Qed.

(* non-vacuity: two messages held for t.N8, released in order to the connection that acquires it, before its RequestName reply *)
Definition m8a : msg := mkMsg TCall true false 3 0 (DName 8) 0 1.
Definition m8b : msg := mkMsg TSignal false false 4 0 (DName 8) 0 2.
Example ex_hold_release :
  snd (run cfg_p init [EConnect false; EConnect false; ESend 0 m8a; ESend 0 m8b; ERequestName 1 5 8 false false false] [])
  = [(ERequestName 1 5 8 false false false, [(1, OFwd 0 m8a); (1, OFwd 0 m8b); (1, ODrv 5 1)]);
     (ESend 0 m8b, []); (ESend 0 m8a, []); (EConnect false, []); (EConnect false, [])].
Proof. vm_compute. reflexivity. Qed.

(* non-vacuity *)
Definition eav_all : rule := mkRule true None None None.
Example ex_own_rule_no_second_copy :
  snd (step cfg_p (state_of cfg_p [EConnect false; EConnect false; EConnect false; EAddMatch 1 9 eav_all; EAddMatch 2 9 eav_all])
            (ESend 0 (mkMsg TSignal false false 3 0 (DUnique 1) 0 9)))
  = [(1, OFwd 0 (mkMsg TSignal false false 3 0 (DUnique 1) 0 9)); (2, OEav 0 (mkMsg TSignal false false 3 0 (DUnique 1) 0 9))].
Proof. vm_compute. reflexivity. Qed.
Definition own : event := ERequestName 1 5 0 false false false.
Definition to_name : msg := mkMsg TSignal false true 3 0 (DName 0) 0 9.
Example ex_owner_gets_it : snd (step cfg_p (state_of cfg_p [EConnect false; EConnect false; own]) (ESend 0 to_name)) = [(1, OFwd 0 to_name)].
Proof. vm_compute. reflexivity. Qed.
Example ex_handover :
  snd (step cfg_p (state_of cfg_p [EConnect false; EConnect false; EConnect false; own; ERequestName 2 5 0 false false false; EDisconnect 1]) (ESend 0 to_name))
  = [(2, OFwd 0 to_name)].
Proof. vm_compute. reflexivity. Qed.
Example ex_no_owner :
  snd (step cfg_p (state_of cfg_p [EConnect false; EConnect false; own; EReleaseName 1 6 0]) (ESend 0 to_name)) = [(0, OErr ENameHasNoOwner 3)].
Proof. vm_compute. reflexivity. Qed.
