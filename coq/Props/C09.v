(* C09 — only the addressee of a pending call can answer it, once.
   Statements only; proofs are in Proofs/RoutingProofs.v.  Vocabulary:
     Routing.step / run        model of the bus (bus/dispatch.c, bus/bus.c, bus/connection.c)
     state_of cf h, trace_of cf h   state and observable trace after history h from the empty bus
     RoutingSpec.age / is_open / open_call   the ledger of open calls, read off the trace alone
     plain h                   no REPLY_SERIAL on method calls (see the refuted statement, finding F7b)
   "reply" means: a message carrying a REPLY_SERIAL, whatever its type (that is what the bus consults). *)
From DV Require Import Lib.Base Routing.Routing Spec.RoutingSpec Proofs.RoutingProofs.
From Coq Require Import ZArith.
From DV Require Routing.Expire Proofs.RoutingExpireProofs.
Local Open Scope N_scope.

(* the bus's pending-reply table is exactly the ledger of open calls *)
Theorem C09_ledger : forall cf h a b s,
  plain h = true ->
  (is_open (reply_timeout cf) (trace_of cf h) a b s = true <->
   exists p, In p (st_pend (state_of cf h)) /\ p_get p = a /\ p_send p = Some b /\ p_serial p = s).
Proof. exact ledger_is_table. Qed.
Print Assumptions C09_ledger.

(* a reply reaches a only if a addressed a still-unanswered call with that serial to its sender, and a is the addressed recipient *)
Theorem C09_only_addressee : forall cf h c m a,
  restrictive cf = true -> plain h = true -> m_rserial m <> 0 ->
  fwd_to (snd (step cf (state_of cf h) (ESend c m))) a = true ->
  open_call (reply_timeout cf) (trace_of cf h) a c (m_rserial m) /\ resolve (state_of cf h) (m_dest m) = Some a.
Proof. exact only_addressee. Qed.
Print Assumptions C09_only_addressee.

(* the same on the table, in ANY state: the reply found a slot (a, c, reply serial) and removed it *)
Theorem C09_only_addressee_any_state : forall cf st c m st' o a,
  restrictive cf = true -> m_rserial m <> 0 -> dispatch cf st c m = (st', o) -> fwd_to o a = true ->
  resolve st (m_dest m) = Some a /\ o = (a, OFwd c m) :: eav_out cf st c a m /\
  exists l1 p l2, st_pend st = l1 ++ p :: l2 /\ pend_match a c (m_rserial m) p = true /\
                  (forall q, In q (st_pend st') -> In q (l1 ++ l2) \/ (is_call m = true /\ q = mkPend c (Some a) (m_serial m) (st_now st))).
Proof. exact requested_only_state. Qed.
Print Assumptions C09_only_addressee_any_state.

(* any other reply is refused as access denied; nothing changes *)
Theorem C09_refused : forall cf h c m r,
  restrictive cf = true -> plain h = true -> wf_event (state_of cf h) (ESend c m) = true -> m_rserial m <> 0 ->
  resolve (state_of cf h) (m_dest m) = Some r -> (0 <? m_nfds m) && negb (conn_fds (state_of cf h) r) = false ->
  age (reply_timeout cf) (trace_of cf h) r c (m_rserial m) = None ->
  step cf (state_of cf h) (ESend c m) = (state_of cf h, [(c, OErr EAccessDenied (m_serial m))]).
Proof. exact unrequested_denied. Qed.
Print Assumptions C09_refused.

(* at most one reply per call: between two replies (b -> a, serial s) that got through, a new call (a -> b, s) was passed on *)
Theorem C09_at_most_one : forall cf h a b s e1 o1 e2 o2 tr1 tr2,
  restrictive cf = true -> plain h = true ->
  trace_of cf h = (e2, o2) :: tr2 ++ (e1, o1) :: tr1 ->
  answers a b s e1 o1 = true -> answers a b s e2 o2 = true -> opened_in tr2 a b s = true.
Proof. exact at_most_one. Qed.
Print Assumptions C09_at_most_one.

(* callee disconnects before answering: exactly one NoReply for that call *)
Theorem C09_no_reply_exactly_once_disconnect : forall cf h a b s t,
  plain h = true -> age (reply_timeout cf) (trace_of cf h) a b s = Some t -> a <> b ->
  count_noreply (snd (step cf (state_of cf h) (EDisconnect b))) a s = 1%nat.
Proof. exact noreply_once_on_disconnect. Qed.
Print Assumptions C09_no_reply_exactly_once_disconnect.

(* the reply timeout elapses: exactly one NoReply (a caller that has the serial open towards one callee only) *)
Theorem C09_no_reply_exactly_once_timeout : forall cf h a b s t d,
  plain h = true -> age (reply_timeout cf) (trace_of cf h) a b s = Some t -> timed_out (reply_timeout cf) (t + d) = true ->
  (forall b', b' <> b -> age (reply_timeout cf) (trace_of cf h) a b' s = None) ->
  count_noreply (snd (step cf (state_of cf h) (ETick d))) a s = 1%nat.
Proof. exact noreply_once_on_timeout. Qed.
Print Assumptions C09_no_reply_exactly_once_timeout.

(* never a NoReply without an open call; the call is closed afterwards (so: once) *)
Theorem C09_no_reply_only_for_open_calls : forall cf h e a s,
  plain h = true -> (0 < count_noreply (snd (step cf (state_of cf h) e)) a s)%nat ->
  exists b, is_open (reply_timeout cf) (trace_of cf h) a b s = true /\
            is_open (reply_timeout cf) (trace_of cf (h ++ [e])) a b s = false /\
            (e = EDisconnect b \/ exists d, e = ETick d).
Proof. exact noreply_only_for_open_calls. Qed.
Print Assumptions C09_no_reply_only_for_open_calls.

(* a call flagged NO_REPLY_EXPECTED opens no slot: any state, any policy, any message *)
Theorem C09_no_slot_for_no_reply_flag : forall cf st c m st' o,
  m_noreply m = true -> step cf st (ESend c m) = (st', o) -> forall p, In p (st_pend st') -> In p (st_pend st).
Proof. exact noreply_opens_nothing. Qed.
Print Assumptions C09_no_slot_for_no_reply_flag.

(* a message the bus answers itself (any refusal: no owner, fds, policy, outstanding serial, reply limit, FULL OUTGOING QUEUE of
   the recipient) and that carries no REPLY_SERIAL leaves the pending-reply table untouched: any state, any policy *)
Theorem C09_refused_call_leaves_no_slot : forall cf st c m st' o,
  m_rserial m = 0 -> dispatch cf st c m = (st', o) -> (forall x, fwd_to o x = false) -> st_pend st' = st_pend st.
Proof. exact refused_leaves_no_slot. Qed.
Print Assumptions C09_refused_call_leaves_no_slot.

(* per-receiver limit, every history *)
Theorem C09_limit : forall cf h a, count_get a (st_pend (state_of cf h)) <= max_replies cf.
Proof. exact limit_holds. Qed.
Print Assumptions C09_limit.

Theorem C09_limit_refuses : forall cf st c m r,
  wf_event st (ESend c m) = true -> is_call m = true -> m_noreply m = false -> m_rserial m = 0 ->
  resolve st (m_dest m) = Some r -> (0 <? m_nfds m) && negb (conn_fds st r) = false ->
  max_replies cf <= count_get c (st_pend st) ->
  (forall p, In p (st_pend st) -> pend_match c r (m_serial m) p = false) ->
  step cf st (ESend c m) = (st, [(c, OErr ELimitsExceeded (m_serial m))]).
Proof. exact limit_refuses. Qed.
Print Assumptions C09_limit_refuses.

(* ------------------------------------------------------------------------------------------------
   The NoReply statement WITHOUT the restriction to plain histories, which the faithful model does not meet (finding F7b:
   a method call that carries a REPLY_SERIAL is first treated as a reply -- it consumes the matching slot -- and can
   then still be refused by the duplicate / limit test; nothing is rolled back). *)
Definition C09_no_reply_full_statement : Prop := forall cf h a b s t,
  age (reply_timeout cf) (trace_of cf h) a b s = Some t -> a <> b ->
  count_noreply (snd (step cf (state_of cf h) (EDisconnect b))) a s = 1%nat.

Definition cfg_r : cfg := mkCfg true 4 None.
Definition cfg_1 : cfg := mkCfg true 1 None.
Definition call_plain : msg := mkMsg TCall false false 7 0 (DUnique 1) 0 1.
(* 1 has one call open (its limit), 0 calls 1 (serial 7), 1 writes a CALL to 0 carrying REPLY_SERIAL 7: the slot (0,1,7) is
   consumed, the call is refused LimitsExceeded; 1 leaves; 0, whose call is still open on the ledger, gets no NoReply *)
Definition h_f7b : list event :=
  [EConnect false; EConnect false; EConnect false;
   ESend 1 (mkMsg TCall false false 5 0 (DUnique 2) 0 1);
   ESend 0 (mkMsg TCall false false 7 0 (DUnique 1) 0 2);
   ESend 1 (mkMsg TCall false false 6 7 (DUnique 0) 0 3)].

Theorem C09_no_reply_refuted : ~ C09_no_reply_full_statement.
Proof.
  intros H. specialize (H cfg_1 h_f7b 0 1 7 0). vm_compute in H.
  assert (X : 0%nat = 1%nat) by (apply H; [reflexivity|discriminate]). discriminate.
Qed.
Print Assumptions C09_no_reply_refuted.

(* regression for the fixed finding F7: an fd-carrying call to a peer without fd passing is refused NotSupported and leaves
   NO slot: the peer's "reply" is refused, its disconnect / the timeout produce no second error *)
Definition call_fd : msg := mkMsg TCall false false 7 0 (DUnique 1) 1 1.
Definition forged : msg := mkMsg TReturn false false 9 7 (DUnique 0) 0 2.
Definition h_f7 : list event := [EConnect true; EConnect false; ESend 0 call_fd].
Example ex_f7_refused : trace_of cfg_r h_f7 = [(ESend 0 call_fd, [(0, OErr ENotSupported 7)]); (EConnect false, []); (EConnect true, [])].
Proof. vm_compute. reflexivity. Qed.
Example ex_f7_no_slot : st_pend (state_of cfg_r h_f7) = []. Proof. vm_compute. reflexivity. Qed.
Example ex_f7_forged_reply_refused : snd (step cfg_r (state_of cfg_r h_f7) (ESend 1 forged)) = [(1, OErr EAccessDenied 9)].
Proof. vm_compute. reflexivity. Qed.
Example ex_f7_no_second_error : snd (step cfg_r (state_of cfg_r h_f7) (EDisconnect 1)) = []. Proof. vm_compute. reflexivity. Qed.
(* ... and a reply carrying an fd to a caller without fd passing no longer eats the caller's slot *)
Definition reply_fd : msg := mkMsg TReturn false false 9 7 (DUnique 0) 1 2.
Example ex_f7_reply_fd_keeps_slot :
  snd (step cfg_r (state_of cfg_r [EConnect false; EConnect true; ESend 0 call_plain; ESend 1 reply_fd]) (EDisconnect 1)) = [(0, OErr ENoReply 7)].
Proof. vm_compute. reflexivity. Qed.

(* ------------------------------------------------------------------------------------------------ non-vacuity *)
Definition reply_ok : msg := mkMsg TReturn false false 9 7 (DUnique 0) 0 2.
Definition h_ok : list event := [EConnect false; EConnect false; EConnect false; ESend 0 call_plain].
Example ex_plain : plain (h_ok ++ [ESend 1 reply_ok]) = true. Proof. reflexivity. Qed.
Example ex_open : age None (trace_of cfg_r h_ok) 0 1 7 = Some 0. Proof. vm_compute. reflexivity. Qed.
Example ex_reply_through : snd (step cfg_r (state_of cfg_r h_ok) (ESend 1 reply_ok)) = [(0, OFwd 1 reply_ok)]. Proof. vm_compute. reflexivity. Qed.
Example ex_second_refused :
  snd (step cfg_r (state_of cfg_r (h_ok ++ [ESend 1 reply_ok])) (ESend 1 reply_ok)) = [(1, OErr EAccessDenied 9)]. Proof. vm_compute. reflexivity. Qed.
Example ex_third_party_refused :
  snd (step cfg_r (state_of cfg_r h_ok) (ESend 2 reply_ok)) = [(2, OErr EAccessDenied 9)]. Proof. vm_compute. reflexivity. Qed.
Example ex_noreply_disconnect : snd (step cfg_r (state_of cfg_r h_ok) (EDisconnect 1)) = [(0, OErr ENoReply 7)]. Proof. vm_compute. reflexivity. Qed.
Example ex_noreply_timeout :
  snd (step (mkCfg true 4 (Some 300)) (state_of (mkCfg true 4 (Some 300)) h_ok) (ETick 300)) = [(0, OErr ENoReply 7)]. Proof. vm_compute. reflexivity. Qed.
Example ex_limit :
  snd (step (mkCfg true 1 None) (state_of (mkCfg true 1 None) h_ok) (ESend 0 (mkMsg TCall false false 8 0 (DUnique 2) 0 3))) = [(0, OErr ELimitsExceeded 8)].
Proof. vm_compute. reflexivity. Qed.

(* callee 1 stalled with its queue at the bus over the limit: the call bounces LimitsExceeded and opens no slot; after it
   drains, its "reply" is refused, its disconnect produces no NoReply *)
Definition cfg_t : cfg := mkCfg true 4 (Some 300).
Definition h_q : list event := [EConnect false; EConnect false; EBlock 1; ESend 0 call_plain].
Example ex_queue_full_bounce : snd (step cfg_t (state_of cfg_t [EConnect false; EConnect false; EBlock 1]) (ESend 0 call_plain)) = [(0, OErr ELimitsExceeded 7)].
Proof. vm_compute. reflexivity. Qed.
Example ex_queue_full_no_slot : st_pend (state_of cfg_t h_q) = []. Proof. vm_compute. reflexivity. Qed.
Example ex_queue_full_reply_refused :
  snd (step cfg_t (state_of cfg_t (h_q ++ [EDrain 1])) (ESend 1 reply_ok)) = [(1, OErr EAccessDenied 9)]. Proof. vm_compute. reflexivity. Qed.
Example ex_queue_full_no_noreply : snd (step cfg_t (state_of cfg_t h_q) (ETick 420)) = []. Proof. vm_compute. reflexivity. Qed.


(* ================================================================================================
   The expiry machinery behind NoReply, over explicit (tv_sec, tv_usec) clock readings: Routing/Expire.v mirrors
   bus/expirelist.c (do_expiration_with_monotonic_time, bus_expirelist_expire, bus_expire_timeout_set_interval,
   bus_expire_list_add / remove / recheck_immediately) and dbus/dbus-mainloop.c (check_timeout, the two timeout passes of
   _dbus_loop_iterate); run one-to-one against those C functions by harness/c/routing_h.c. *)
Module X := Routing.Expire.
Module XP := Proofs.RoutingExpireProofs.
Local Open Scope Z_scope.

(* one walk over the list: exactly the due entries go, in list order; the next interval is -1 when nothing waits (or the
   timeout is infinite), otherwise it never passes the earliest deadline, and it IS the earliest one (ms, rounded down)
   unless the one-hour cap applies *)
Theorem C09_expiry_walk : forall after now l,
  let '(kept, ex, next) := X.do_expiration after now l in
  kept = filter (fun it => negb (X.due after now it)) l /\
  ex = map X.it_id (filter (X.due after now) l) /\
  (0 < after ->
     match kept with
     | [] => next = -1
     | _ => 0 <= next <= 3600 * 1000 /\
            (forall it, In it kept -> next * 1000 <= XP.deadline_us after it - X.us now) /\
            (next = 3600 * 1000 \/ exists it, In it kept /\ next = (XP.deadline_us after it - X.us now) / 1000)
     end) /\
  (after <= 0 -> next = -1).
Proof. exact XP.do_expiration_spec. Qed.
Print Assumptions C09_expiry_walk.

(* not before reply_timeout has elapsed since it was added (unless its callee left) *)
Theorem C09_expiry_not_early : forall after now l id,
  In id (snd (fst (X.do_expiration after now l))) ->
  exists it, In it l /\ X.it_id it = id /\
    (X.is_marked it = true \/ (0 < after /\ after * 1000 <= X.us now - X.us (X.it_added it))).
Proof. exact XP.expired_not_early. Qed.
Print Assumptions C09_expiry_not_early.

(* at the first walk after that it goes *)
Theorem C09_expiry_when_due : forall after now l it,
  In it l -> X.due after now it = true ->
  In (X.it_id it) (snd (fst (X.do_expiration after now l))) /\ ~ In it (fst (fst (X.do_expiration after now l))).
Proof. exact XP.expired_when_due. Qed.
Print Assumptions C09_expiry_when_due.

(* after the handler: disabled iff nothing is left, else enabled, to be restarted, with the minimum interval *)
Theorem C09_expiry_timer_interval : forall x now,
  let '(x', ex) := X.expire x now in
  X.x_after x' = X.x_after x /\
  X.x_items x' = filter (fun it => negb (X.due (X.x_after x) now it)) (X.x_items x) /\
  ex = map X.it_id (filter (X.due (X.x_after x) now) (X.x_items x)) /\
  match X.x_items x' with
  | [] => X.tm_enabled (X.x_timer x') = false
  | _ => 0 < X.x_after x ->
         X.tm_enabled (X.x_timer x') = true /\ X.tm_needs_restart (X.x_timer x') = true /\
         (forall it, In it (X.x_items x') -> X.tm_interval (X.x_timer x') * 1000 <= XP.deadline_us (X.x_after x) it - X.us now) /\
         (X.tm_interval (X.x_timer x') = 3600 * 1000 \/
          exists it, In it (X.x_items x') /\ X.tm_interval (X.x_timer x') = (XP.deadline_us (X.x_after x) it - X.us now) / 1000)
  end.
Proof. exact XP.expire_timer. Qed.
Print Assumptions C09_expiry_timer_interval.

(* whatever is done to the list (add, remove, callee left, loop iterations at ANY clock readings): with a finite timeout the
   timer is enabled whenever an entry waits *)
Theorem C09_expiry_timer_armed : forall after ops, XP.armed (fst (X.xrun (X.xinit after) ops)).
Proof. exact XP.armed_always. Qed.
Print Assumptions C09_expiry_timer_armed.

(* each entry expires at most once; an entry removed by a real reply never expires *)
Theorem C09_expiry_at_most_once : forall after ops,
  NoDup (XP.all_adds ops) -> NoDup (concat (snd (X.xrun (X.xinit after) ops))).
Proof. exact XP.expires_at_most_once. Qed.
Print Assumptions C09_expiry_at_most_once.

Theorem C09_expiry_removed_never_expires : forall x id ops,
  NoDup (XP.ids x ++ XP.all_adds ops) -> ~ In id (XP.all_adds ops) ->
  ~ In id (concat (snd (X.xrun (X.remove x id) ops))).
Proof. exact XP.removed_never_expires. Qed.
Print Assumptions C09_expiry_removed_never_expires.

(* check_timeout: never late, at most 1 ms early, and a clock that went backwards restarts the interval *)
Theorem C09_check_timeout_due : forall now tm,
  XP.norm now -> XP.norm (X.tm_last tm) -> 0 <= X.tm_interval tm -> XP.fire_at_us tm <= X.us now ->
  X.check_timeout now tm = (0, tm).
Proof. exact XP.check_timeout_due. Qed.
Print Assumptions C09_check_timeout_due.

Theorem C09_check_timeout_not_early : forall now tm,
  XP.norm now -> XP.norm (X.tm_last tm) -> 0 < X.tm_interval tm -> fst (X.check_timeout now tm) = 0 ->
  XP.fire_at_us tm - X.us now < 1000.
Proof. exact XP.check_timeout_not_early. Qed.
Print Assumptions C09_check_timeout_not_early.

Theorem C09_check_timeout_clock_backward : forall now tm,
  XP.norm now -> XP.norm (X.tm_last tm) -> 0 <= X.tm_interval tm <= 3600 * 1000 -> X.us now + 1000 <= X.us (X.tm_last tm) ->
  X.check_timeout now tm = (X.tm_interval tm, X.mkTimer (X.tm_enabled tm) (X.tm_interval tm) (X.tm_needs_restart tm) now).
Proof. exact XP.check_timeout_clock_backward. Qed.
Print Assumptions C09_check_timeout_clock_backward.

(* the routing model's millisecond clock applies the same test *)
Theorem C09_expiry_test_agrees : forall cf now id p,
  Routing.expired cf now p = X.due (XP.after_of cf) (XP.tv_of_ms now) (XP.item_of id p).
Proof. exact XP.expired_agrees. Qed.
Print Assumptions C09_expiry_test_agrees.

(* non-vacuity: two entries 150 ms apart, timeout 300 ms: the first walk arms the timer with 300, the walk at +300.000 ms
   expires the first only and re-arms with 150 *)
Example ex_expiry_run :
  snd (X.xrun (X.xinit 300) [X.XAdd 1 (X.mkTv 10 0); X.XIter (X.mkTv 10 0) (X.mkTv 10 0) (X.mkTv 10 0); X.XIter (X.mkTv 10 0) (X.mkTv 10 0) (X.mkTv 10 0); X.XAdd 2 (X.mkTv 10 150000);
                            X.XIter (X.mkTv 10 150000) (X.mkTv 10 300000) (X.mkTv 10 300000)])
  = [[]; []; []; []; [1]].
Proof. vm_compute. reflexivity. Qed.
Example ex_expiry_interval :
  X.tm_interval (X.x_timer (fst (X.xrun (X.xinit 300) [X.XAdd 1 (X.mkTv 10 0); X.XIter (X.mkTv 10 0) (X.mkTv 10 0) (X.mkTv 10 0); X.XIter (X.mkTv 10 0) (X.mkTv 10 0) (X.mkTv 10 0); X.XAdd 2 (X.mkTv 10 150000);
                            X.XIter (X.mkTv 10 150000) (X.mkTv 10 300000) (X.mkTv 10 300000)]))) = 150.
Proof. vm_compute. reflexivity. Qed.

(* ================================================================================================
   Callee hung up (transport saw EOF, dbus_connection_get_is_connected is FALSE) but its Disconnected message is not processed
   yet: it is still registered and calls are still routed to it (event EHangup). *)
Local Open Scope N_scope.
Theorem C09_hangup_changes_nothing : forall cf st c,
  let st' := fst (step cf st (EHangup c)) in
  snd (step cf st (EHangup c)) = [] /\ st_pend st' = st_pend st /\ st_names st' = st_names st /\ st_conns st' = st_conns st /\
  st_held st' = st_held st /\ st_full st' = st_full st /\ forall d, resolve st' d = resolve st d.
Proof. exact hangup_changes_nothing. Qed.
Print Assumptions C09_hangup_changes_nothing.

(* a call routed to such a connection records its slot; when the disconnect is processed the caller gets exactly one NoReply *)
Theorem C09_call_to_hung_up_callee : forall cf h a b m,
  plain (h ++ [EHangup b; ESend a m]) = true -> a <> b -> is_call m = true -> m_noreply m = false ->
  fwd_to (snd (step cf (state_of cf (h ++ [EHangup b])) (ESend a m))) b = true ->
  count_noreply (snd (step cf (state_of cf (h ++ [EHangup b; ESend a m])) (EDisconnect b))) a (m_serial m) = 1%nat.
Proof. exact call_to_hung_up_callee. Qed.
Print Assumptions C09_call_to_hung_up_callee.

Example ex_hung_up_callee :
  snd (run cfg_r init [EConnect false; EConnect false; EHangup 1; ESend 0 call_plain; EDisconnect 1] [])
  = [(EDisconnect 1, [(0, OErr ENoReply 7)]); (ESend 0 call_plain, [(1, OFwd 0 call_plain)]); (EHangup 1, []); (EConnect false, []); (EConnect false, [])].
Proof. vm_compute. reflexivity. Qed.


(* ================================================================================================
   Message types the bus does not know (TOther k), and refusals in general *)
Theorem C09_unknown_type_changes_nothing : forall cf st c m,
  unknown_type m = true -> resolve st (m_dest m) <> None ->
  fst (dispatch cf st c m) = st /\
  (snd (dispatch cf st c m) = [(c, OErr EAccessDenied (m_serial m))] \/ snd (dispatch cf st c m) = [(c, OErr ENotSupported (m_serial m))]).
Proof. exact unknown_type_changes_nothing. Qed.
Print Assumptions C09_unknown_type_changes_nothing.

(* EVERY refusal of EVERY message type, REPLY_SERIAL or not, leaves the pending-reply table as it was, except the known class F7b
   (a method call carrying REPLY_SERIAL bounced by the duplicate / limit test; a reply to a caller whose queue is full) *)
Theorem C09_refused_leaves_table : forall cf st c m st' o,
  dispatch cf st c m = (st', o) -> (forall x, fwd_to o x = false) ->
  (is_call m = true -> m_rserial m = 0) ->
  (forall r, resolve st (m_dest m) = Some r -> m_rserial m <> 0 -> is_full st r = false) ->
  st_pend st' = st_pend st.
Proof. exact refused_leaves_table. Qed.
Print Assumptions C09_refused_leaves_table.

Example ex_unknown_type_keeps_slot :
  snd (run cfg_r init [EConnect false; EConnect false; ESend 0 call_plain; ESend 1 (mkMsg (TOther 9) false false 8 7 (DUnique 0) 0 2); ESend 1 reply_ok] [])
  = [(ESend 1 reply_ok, [(0, OFwd 1 reply_ok)]); (ESend 1 (mkMsg (TOther 9) false false 8 7 (DUnique 0) 0 2), [(1, OErr EAccessDenied 8)]);
     (ESend 0 call_plain, [(1, OFwd 0 call_plain)]); (EConnect false, []); (EConnect false, [])].
Proof. vm_compute. reflexivity. Qed.
