(* C09 — only the addressee of a pending call can answer it, once. *)
From DV Require Import Lib.Base Routing.Routing Spec.RoutingSpec.
