(* C03 — the bus stamps the true sender; unique names are unique forever.
   Only theorem statements closed by [exact]; proofs live in Proofs/Stamp*.v; the vocabulary
   (sender_is, defined_only, same_content, trace_ok, emit_ok, names_ok, view, issued) is
   Spec/StampSpec.v; the model is Stamp/Stamp.v.  See DESIGN.md section 4 (C03) and notes/C03.md.

   All history theorems hold for EVERY environment: connection limit, machine id, security policy
   towards the driver, the rest of the driver (any messages it builds through the message API), and
   its byte-order conversions; routing is not even a parameter of the run, only of who receives an
   emission (C03_every_delivery). *)
From DV Require Import Lib.Base Wire.HeaderEdit Stamp.Stamp Spec.StampSpec Gen.StampTables
  Proofs.Utf8Proofs Proofs.CodecWf Proofs.CodecRoundtrip Proofs.CodecMessage Proofs.WireClean Proofs.StampFields Proofs.StampNames Proofs.StampShift Proofs.StampBytes Proofs.StampInv Proofs.StampMain Proofs.StampTie.
From Coq Require Import ZArith.
Local Open Scope N_scope.

(* ---------------- one message: whatever the client put on the wire -------------------------------- *)
(* forged SENDER anywhere in the field array, any unknown field codes with any payload, CONTAINER_INSTANCE *)
Theorem C03_stamp_sender : forall n m, wire_ok m -> sender_is (stamp n m) n.
Proof. exact stamp_sender. Qed.
Print Assumptions C03_stamp_sender.

Theorem C03_stamp_clean : forall n m, wire_ok m -> defined_only (stamp n m).
Proof. exact stamp_defined_only. Qed.
Print Assumptions C03_stamp_clean.

Theorem C03_stamp_intact : forall n m, same_content m (stamp n m).
Proof. exact stamp_same_content. Qed.
Print Assumptions C03_stamp_intact.

(* two messages that differ only in SENDER, unknown fields and CONTAINER_INSTANCE are stamped alike *)
Theorem C03_forged_irrelevant : forall n m1 m2,
  wire_ok m1 -> wire_ok m2 ->
  filter (fun f => (sf_code f <=? 9) && negb (is_code 7 f)) (s_fields m1) =
  filter (fun f => (sf_code f <=? 9) && negb (is_code 7 f)) (s_fields m2) ->
  filter (fun f => negb (is_code 7 f)) (s_fields (stamp n m1)) = filter (fun f => negb (is_code 7 f)) (s_fields (stamp n m2)) /\
  filter (is_code 7) (s_fields (stamp n m1)) = filter (is_code 7) (s_fields (stamp n m2)).
Proof. exact forged_irrelevant. Qed.
Print Assumptions C03_forged_irrelevant.

(* ---------------- the sender clause over all histories ---------------------------------------------- *)
(* The literal property (strict = true: every emitted message names its true origin's unique name or
   org.freedesktop.DBus) together with the unique-name clause. *)
Definition C03_full_statement : Prop := full_statement.

(* Proved: the same with the two exception classes spelled out in Spec.StampSpec.emit_ok:
   (1) F13: replies built by libdbus on the daemon's end (origin OLocal) carry no SENDER; they exist only
       for a message without DESTINATION that is a method call or names org.freedesktop.DBus.Peer, and
       go to the writer only (scope SSelf);
   (2) what a connection without a unique name writes is shown to monitors only, under ":not.active.yet". *)
Theorem C03_sender_partial :
  forall max_completed machine_id send_allowed driver reads_args on_disconnect activatable granted,
    (forall b c m, Forall dmsg_wf (driver b c m)) ->
    (forall b c, Forall dmsg_wf (on_disconnect b c)) ->
    forall h, Forall event_ok h ->
      trace_ok false (trace_of max_completed machine_id send_allowed driver reads_args on_disconnect activatable granted h).
Proof. exact sender_partial. Qed.
Print Assumptions C03_sender_partial.

Theorem C03_every_delivery :
  forall max_completed machine_id send_allowed driver reads_args on_disconnect activatable granted
         (route matches : conn -> smsg -> list conn) (bcast : smsg -> list conn) (monitors : list conn),
    (forall b c m, Forall dmsg_wf (driver b c m)) ->
    (forall b c, Forall dmsg_wf (on_disconnect b c)) ->
    forall h, Forall event_ok h ->
    forall pre o s m' post r,
      trace_of max_completed machine_id send_allowed driver reads_args on_disconnect activatable granted h = pre ++ TEmit o s m' :: post ->
      In r (recipients route matches bcast monitors s m') ->
      emit_ok false (view pre) (last_recv pre) (wrote pre) o s m'.
Proof. exact every_delivery. Qed.
Print Assumptions C03_every_delivery.

(* the literal statement fails: witness = connect, then a method call without DESTINATION (F13) *)
Theorem C03_sender_refuted : ~ C03_full_statement.
Proof. exact sender_refuted. Qed.
Print Assumptions C03_sender_refuted.

(* the placeholder of exception (2) and the driver's name are not names the bus can hand out *)
Theorem C03_placeholder_is_no_name : forall a b, unique_name a b <> not_active /\ unique_name a b <> drv_name.
Proof. exact (fun a b => conj (not_active_not_minted a b) (drv_name_not_minted a b)). Qed.
Print Assumptions C03_placeholder_is_no_name.

(* ---------------- the unique-name clause ----------------------------------------------------------- *)
(* pairwise distinct over the whole history (so never reused after a disconnect), begin with ':',
   given only to a live connection that has none *)
Theorem C03_unique :
  forall max_completed machine_id send_allowed driver reads_args on_disconnect activatable granted,
    (forall b c m, Forall dmsg_wf (driver b c m)) ->
    (forall b c, Forall dmsg_wf (on_disconnect b c)) ->
    forall h, Forall event_ok h ->
      names_ok (trace_of max_completed machine_id send_allowed driver reads_args on_disconnect activatable granted h).
Proof. exact names_unique. Qed.
Print Assumptions C03_unique.

(* exactly: the k-th name handed out is ":1.k" *)
Theorem C03_names_exact :
  forall max_completed machine_id send_allowed driver reads_args on_disconnect activatable granted,
    (forall b c m, Forall dmsg_wf (driver b c m)) ->
    (forall b c, Forall dmsg_wf (on_disconnect b c)) ->
    forall h, Forall event_ok h ->
      let tr := trace_of max_completed machine_id send_allowed driver reads_args on_disconnect activatable granted h in
      issued tr = map name_k (seq 0 (length (issued tr))).
Proof. exact names_exact. Qed.
Print Assumptions C03_names_exact.

Theorem C03_name_form_injective : forall a b a' b',
  (0 <= a)%Z -> (0 <= b)%Z -> (0 <= a')%Z -> (0 <= b')%Z -> unique_name a b = unique_name a' b' -> a = a' /\ b = b'.
Proof. exact unique_name_inj. Qed.
Print Assumptions C03_name_form_injective.

(* the bound: the run cannot stop (signed overflow of the minor counter, the only fault reachable from
   a fresh bus) before INT_MAX messages have been written *)
Theorem C03_no_fault_below_bound :
  forall max_completed machine_id send_allowed driver reads_args on_disconnect activatable granted,
    (forall b c m, Forall dmsg_wf (driver b c m)) ->
    (forall b c, Forall dmsg_wf (on_disconnect b c)) ->
    forall h, Forall event_ok h -> (sends h < INT_MAX)%Z ->
      fault_of max_completed machine_id send_allowed driver reads_args on_disconnect activatable granted h = None.
Proof. exact no_fault_below_bound. Qed.
Print Assumptions C03_no_fault_below_bound.

(* a registered connection that says Hello again gets an error and nothing else happens *)
Theorem C03_second_hello_refused :
  forall max_completed machine_id send_allowed driver reads_args on_disconnect activatable granted b c n m,
    lookup c (b_conns b) = Some (Some n) ->
    str_field m F_DESTINATION = Some drv_name ->
    is_call (stamp n m) drv_name mem_hello = true ->
    exists e, In e [err_access; err_failed; err_args] /\
      step max_completed machine_id send_allowed driver reads_args on_disconnect activatable granted b (ESend c m) =
      Ok b [TRecv c m; TEmit (OClient c) SMonitors (stamp n m); error_reply b c (stamp n m) e].
Proof. exact second_hello_refused. Qed.
Print Assumptions C03_second_hello_refused.

(* ---------------- the registry side: RequestName / ReleaseName / lookups on ':' names ----------------- *)
(* In every reachable state each registry entry for a name beginning with ':' has exactly one owner and no
   queue, and that owner is the connection Hello gave the name to: no other step (in particular no
   RequestName with any flags, on a live, departed, never minted or one's own name) makes a connection an
   owner or queued owner of a ':' name. *)
Theorem C03_registry_only_hello :
  forall max_completed machine_id send_allowed driver reads_args on_disconnect activatable granted,
    (forall b c m, Forall dmsg_wf (driver b c m)) ->
    (forall b c, Forall dmsg_wf (on_disconnect b c)) ->
    forall h, Forall event_ok h ->
    forall n q, In (n, q) (b_reg (final_bus max_completed machine_id send_allowed driver reads_args on_disconnect activatable granted h)) ->
    exists c, q = [c] /\
      view (trace_of max_completed machine_id send_allowed driver reads_args on_disconnect activatable granted h) c = CNamed n.
Proof. exact registry_only_hello. Qed.
Print Assumptions C03_registry_only_hello.

(* a ':' name resolves (bus_registry_lookup + primary owner: GetNameOwner, routing) only to the connection
   that holds it by Hello *)
Theorem C03_resolve_sound :
  forall max_completed machine_id send_allowed driver reads_args on_disconnect activatable granted,
    (forall b c m, Forall dmsg_wf (driver b c m)) ->
    (forall b c, Forall dmsg_wf (on_disconnect b c)) ->
    forall h d r, Forall event_ok h ->
    resolve (final_bus max_completed machine_id send_allowed driver reads_args on_disconnect activatable granted h) d = Some r ->
    view (trace_of max_completed machine_id send_allowed driver reads_args on_disconnect activatable granted h) r = CNamed d.
Proof. exact (fun mc mi sa dr ra od ac gr H1 H2 h d r => resolve_sound mc mi sa dr ra od ac gr H1 H2 h d r). Qed.
Print Assumptions C03_resolve_sound.

(* the name of a connection that has gone away is nobody's in EVERY later state (h is any history in which
   the connection has left): no connection is named so, and the registry resolves it to nobody *)
Theorem C03_departed_never_again :
  forall max_completed machine_id send_allowed driver reads_args on_disconnect activatable granted,
    (forall b c m, Forall dmsg_wf (driver b c m)) ->
    (forall b c, Forall dmsg_wf (on_disconnect b c)) ->
    forall h n, Forall event_ok h ->
    let tr := trace_of max_completed machine_id send_allowed driver reads_args on_disconnect activatable granted h in
    In n (departed tr) ->
    In n (issued tr) /\ (forall r, view tr r <> CNamed n) /\
    resolve (final_bus max_completed machine_id send_allowed driver reads_args on_disconnect activatable granted h) n = None.
Proof. exact (fun mc mi sa dr ra od ac gr H1 H2 h n => departed_never_again mc mi sa dr ra od ac gr H1 H2 h n). Qed.
Print Assumptions C03_departed_never_again.

(* RequestName (any flags) / ReleaseName of any name beginning with ':' is refused with an error and changes
   nothing, in any state *)
Theorem C03_colon_request_refused :
  forall max_completed machine_id send_allowed driver reads_args on_disconnect activatable granted b c n m x,
    lookup c (b_conns b) = Some (Some n) ->
    str_field m F_DESTINATION = Some drv_name ->
    send_allowed b c (stamp n m) = true ->
    colon_request_of (stamp n m) = Some x ->
    step max_completed machine_id send_allowed driver reads_args on_disconnect activatable granted b (ESend c m) =
    Ok b [TRecv c m;
          TEmit (OClient c) SMonitors (if reads_args b c (stamp n m) then to_native (stamp n m) else stamp n m);
          error_reply b c (stamp n m) err_args].
Proof. exact colon_request_refused. Qed.
Print Assumptions C03_colon_request_refused.

(* (the addressed recipient of a message to ':x.y' is part of C03_sender_partial: Spec.StampSpec.addr_ok --
   only the connection named ':x.y', and "nobody" only if no connection is named so) *)

(* ---------------- messages kept while a service is started (activation hold-and-release) ------------ *)
(* bus_activation_send_pending_auto_activation_messages / try_send_activation_failure: whatever comes out
   for client origin is a kept message whose writer is still connected under the name recorded when it was
   kept; it is covered by C03_sender_partial (scope SReleased: sender = that name, content = something this
   very connection wrote under that name) -- also in the strict reading: no exception class is involved. *)
Theorem C03_release_only_live :
  forall driver b name i,
    In i (release driver b name) ->
    match i with
    | TEmit (OClient c) (SReleased c') m' =>
        c' = c /\ exists h, In h (b_held b) /\ h_conn h = c /\ h_msg h = m' /\ name_of b c = Some (h_sender h)
    | TEmit (OClient _) _ _ => False
    | TEmit OLocal _ _ => False
    | TEmit ODriver _ _ => True
    | _ => False
    end.
Proof. exact release_only_live. Qed.
Print Assumptions C03_release_only_live.

(* ---------------- the relayed BYTES ------------------------------------------------------------------ *)
(* The specification encoder, and well-formedness, of a value depend on its start position only modulo 8;
   so a header field (a struct) is encoded the same wherever it ends up in the field array. *)
Theorem C03_field_position_independent : forall le d p fs,
  wfb le d p (VStruct fs) = wfb le d 0 (VStruct fs) /\
  enc le (VStruct fs) p = zeros (pad_amount p 8) ++ encs le fs 0.
Proof. exact (fun le d p fs => conj (wfb_struct_anywhere le d p fs) (enc_struct_anywhere le p fs)). Qed.
Print Assumptions C03_field_position_independent.

(* stamping keeps a message loadable (wf_msg = what the specification decoder accepts), provided the name
   is a valid bus name and the grown header still fits the wire format's limits (2^26 for the field
   array, 2^27 for the message) *)
Theorem C03_relay_wellformed : forall n m,
  wf_msg m = true -> name_ok n = true -> stamp_fits n m = true -> wf_msg (stamp n m) = true.
Proof. exact stamp_wf_msg. Qed.
Print Assumptions C03_relay_wellformed.

(* for EVERY byte string d that is exactly one loadable message m: the bytes the bus relays under name n
   (= what the correspondence run compares with the daemon's output byte for byte) are exactly one loadable
   message again, which is m with n as its only SENDER, no field outside 1..9, everything else as received *)
Theorem C03_relay_bytes : forall d m n r,
  spec_decode_message d = Some (m, nlen d) -> wf_msg m = true ->
  name_ok n = true -> stamp_fits n m = true ->
  relay_bytes n d = Some r ->
  spec_decode_message r = Some (stamp n m, nlen r) /\
  sender_is (stamp n m) n /\ defined_only (stamp n m) /\ same_content m (stamp n m).
Proof. exact relay_bytes_correct. Qed.
Print Assumptions C03_relay_bytes.

(* ... and they are the only byte string that decodes to that message *)
Theorem C03_relay_bytes_unique : forall d' m', all_bytes d' = true ->
  spec_decode_message d' = Some (m', nlen d') -> d' = spec_encode_message m'.
Proof. exact (fun d' m' Hb H => proj1 (proj1 (spec_decode_iff d' m' Hb) H)). Qed.
Print Assumptions C03_relay_bytes_unique.

(* every name create_unique_client_name can return is a valid SENDER value *)
Theorem C03_minted_name_valid : forall a b, nlen (unique_name a b) <= 255 -> name_ok (unique_name a b) = true.
Proof. exact minted_name_ok. Qed.
Print Assumptions C03_minted_name_valid.

(* ---------------- tie to the C text (tables regenerated from /repo on every run) --------------------- *)
Theorem C03_mint_matches_c : forallb sample_ok cuc_samples = true.
Proof. exact mint_matches_c. Qed.
Print Assumptions C03_mint_matches_c.

Theorem C03_constants_match_c : INT_MAX = c_int_max /\ drv_name = c_service_dbus /\ not_active = c_not_active.
Proof. exact (conj int_max_matches_c (conj drv_name_matches_c not_active_matches_c)). Qed.
Print Assumptions C03_constants_match_c.

(* ---------------- non-vacuity --------------------------------------------------------------------- *)
Example C03_ex_hypotheses_satisfiable : Forall event_ok demo_hist /\ Forall event_ok f13_hist.
Proof. exact (conj demo_hist_ok f13_hist_ok). Qed.

(* three Hellos (one refused in between), a disconnect and a reconnect: :1.0, :1.1, :1.2 *)
Example C03_ex_names : issued (env_run demo_hist) = [name0; name1; [58;49;46;50]].
Proof. exact demo_names. Qed.

(* a signal with SENDER org.freedesktop.DBus forged in first position, unknown field 200 and
   CONTAINER_INSTANCE arrives with sender :1.1 and without the two foreign fields *)
Example C03_ex_forwarded :
  In (TEmit (OClient 1) (SRouted 1 (ATo 0))
        (mkSMsg true 4 0 7
           [mkSField 7 (TBasic 115) (VStr 115 name1);
            mkSField 1 (TBasic 111) (VStr 111 [47;120]); mkSField 2 (TBasic 115) (VStr 115 [116;46;73]);
            mkSField 3 (TBasic 115) (VStr 115 [77]); mkSField 6 (TBasic 115) (VStr 115 name0)] [] []))
     (env_run demo_hist).
Proof. exact demo_forwarded. Qed.

Example C03_ex_placeholder :
  env_run [EConnect 0; ESend 0 forged_msg] =
  [TConn 0; TRecv 0 forged_msg; TEmit (OClient 0) SMonitors (stamp not_active forged_msg); TGone 0].
Proof. exact demo_placeholder. Qed.

(* the refutation witness is the replayed byte string, and its answer has no SENDER *)
Example C03_ex_f13 :
  spec_decode_message f13_bytes = Some (f13_msg, 48) /\
  env_run f13_hist = [TConn 0; TRecv 0 f13_msg; TEmit OLocal (SSelf 0) (new_error (scrub f13_msg) err_unknown_method [])] /\
  has_no_sender (new_error (scrub f13_msg) err_unknown_method []).
Proof. exact (conj f13_msg_is_the_replay (conj f13_trace f13_reply_has_no_sender)). Qed.

(* two clients write to a service that is being started; one of them leaves and its id is taken by a new
   client; when the service name is claimed only the other one's message is dispatched, under :1.1 *)
Example C03_ex_hold_release : released_of (env_run hold_hist) = [(1, stamp name1 (act_msg 7))].
Proof. exact hold_released. Qed.

Example C03_ex_hold_fail :
  flat_map (fun i => match i with
                     | TEmit ODriver (STo c) m => if s_type m =? 3 then [(c, get_field (s_fields m) 5, get_field (s_fields m) 6)] else []
                     | _ => [] end)
           (env_run fail_hist) = [(1, Some (VNum 117 7), Some (VStr 115 name1))].
Proof. exact fail_bounced. Qed.

(* the byte-level theorem applies: a concrete received byte string, its relayed form *)
Example C03_ex_relay_bytes :
  wf_msg forged_msg = true /\ name_ok name1 = true /\ stamp_fits name1 forged_msg = true /\
  relay_bytes name1 (spec_encode_message forged_msg) = Some (spec_encode_message (stamp name1 forged_msg)).
Proof. vm_compute. repeat split; reflexivity. Qed.

(* client 1 asks for client 0's live name, its own, a never minted one, tries to release 0's name: all refused;
   a message to :1.0 is addressed to client 0; after 0 has left, asking again is refused and a message to
   :1.0 is addressed to nobody *)
Example C03_ex_no_squatting :
  refusals_of (env_run squat_hist) = map (fun k => Some (VNum 117 k)) [2; 3; 4; 5; 7] /\
  addressed_of (env_run squat_hist) = [(6, ATo 0); (8, ANobody)] /\
  departed (env_run squat_hist) = [name0].
Proof. exact squat_refused. Qed.

(* ---- C03 + C01 + C02 composed: the receiver's side of a relayed message ---------------------------------------
   For EVERY well-formed message m from a client, every name n the bus may stamp (C03_minted_name_valid) within
   the size limits, any bytes following on the recipient's socket and any sufficient number of descriptors:
   the bytes the bus relays are accepted by the recipient's loader model as one message, header ++ body are exactly
   those bytes, the body bytes are exactly the sender's, the DBusTypeReader model reads exactly the sender's
   values with the sender's signature, and the SENDER field the recipient sees is n.
   Premises satisfiable: C03_ex_relay_bytes.  Proof: Proofs/StampReceive.v (stamp_wf_msg + the chain of
   Proofs/EndToEnd.v). *)
From DV Require Import Spec.Codec Wire.Message Wire.Reader Proofs.LoaderComplete Proofs.StampReceive.
Theorem C03_relayed_message_received : forall m n rest avail,
  wf_msg m = true -> name_ok n = true -> stamp_fits n m = true ->
  let m' := stamp n m in
  spec_nfds (s_fields m') <= avail ->
  exists msg,
    load_message (s_le m) (m_flen m') (m_hlen m') (m_blen m') avail (spec_encode_message m' ++ rest) = inl msg /\
    m_header msg ++ m_body msg = spec_encode_message m' /\
    m_body msg = encs (s_le m) (s_body m) 0 /\
    read_all (s_le m) (s_sig m) (m_body msg) = inl (s_body m) /\
    get_field (s_fields m') 7 = Some (VStr 115 n).
Proof. exact relayed_message_received. Qed.
Print Assumptions C03_relayed_message_received.
