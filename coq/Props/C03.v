(* placeholder while the correspondence is being set up *)
From DV Require Import Stamp.Stamp.
