(* C04 — name ownership follows the specification's state machine.
   Only theorem statements closed by [exact]; proofs live in Proofs/Registry*.v.

   Model:          Registry/Registry.v      (step, run, the four query functions)
   Specification:  Spec/RegistrySpec.v      (spec_step, spec_run; variants [literal] and
                                             [as_implemented] = literal + exception F4)
   A history is a list of events (Connect / Hello / AddMatch / RequestName /
   ReleaseName / Disconnect) started from the empty bus with any per-connection
   name limit.  The release order among the well-known names of a closing
   connection is left open by the specification; [advice_run] reads the order the
   model uses off the model's run and [valid_advice] states that it is one the
   specification allows (a duplicate-free enumeration of exactly the names held,
   the unique name last). *)
From DV Require Import Lib.Base Gen.Tables Wire.Names Registry.RegTypes Registry.Registry Registry.Driver Registry.Transaction
  Spec.NamesSpec Spec.RegistrySpec Spec.DriverSpec
  Proofs.RegistryBase Proofs.RegistryInv Proofs.RegistryRefine Proofs.RegistryDisc Proofs.RegistryMain
  Proofs.DriverBase Proofs.DriverMain Proofs.TransactionProofs.
From DV Require Policy.Policy Spec.PolicySpec.
Local Open Scope N_scope.

(* ------------------------------------------------------------------------------------------
   The property at full strength: for every history the messages every connection receives
   (per event, in delivery order: signals, then the reply), the resulting queues and the four
   query methods are those of the LITERAL specification. *)
Definition C04_full_statement : Prop :=
  forall limit h, exists adv,
    valid_advice literal (sinit limit) h adv 0 /\
    snd (spec_run literal (sinit limit) h adv 0) = snd (run (init_bus limit) h) /\
    forall a, list_queued_owners (fst (run (init_bus limit) h)) a = spec_queued (fst (spec_run literal (sinit limit) h adv 0)) a.

(* What holds for every history: the same with the one recorded exception switched on
   (Spec.RegistrySpec.as_implemented: F4 queue position).  The former second exception
   (F4b, the limit refusing re-requests of held names) was repaired in the bus: the limit
   rule is the literal one in both variants, see C04_limit_spares_held_names below. *)
Theorem C04_refines_partial : forall limit h,
  let adv := advice_run (init_bus limit) h 0 in
  valid_advice as_implemented (sinit limit) h adv 0 /\
  snd (spec_run as_implemented (sinit limit) h adv 0) = snd (run (init_bus limit) h) /\
  R (fst (run (init_bus limit) h)) (fst (spec_run as_implemented (sinit limit) h adv 0)).
Proof. exact refines_partial. Qed.
Print Assumptions C04_refines_partial.

(* ... and the literal specification itself on every history in which the exceptional
   situation does not arise ([quiet]: [exception_trigger] is false at every step). *)
Theorem C04_refines_outside_exceptions : forall limit h,
  let adv := advice_run (init_bus limit) h 0 in
  quiet as_implemented (sinit limit) h adv 0 ->
  valid_advice literal (sinit limit) h adv 0 /\
  snd (spec_run literal (sinit limit) h adv 0) = snd (run (init_bus limit) h) /\
  R (fst (run (init_bus limit) h)) (fst (spec_run literal (sinit limit) h adv 0)).
Proof. exact refines_outside_exceptions. Qed.
Print Assumptions C04_refines_outside_exceptions.

(* the two variants of the specification differ in no other situation, in any state *)
Theorem C04_exceptions_are_the_only_difference : forall s e ord,
  exception_trigger s e = false -> spec_step literal s e ord = spec_step as_implemented s e ord.
Proof. exact literal_step_eq. Qed.
Print Assumptions C04_exceptions_are_the_only_difference.

(* Refutation witnesses (replayed on the real daemon by tools/props/c04.py, corpus/C04/f4_new.json
   and f4b_owner.json).  "a.b" = [97;46;98]. *)
Definition nameA : bytes := [97; 46; 98].

Definition f4_history : list event :=
  [EvConnect; EvHello 0; EvConnect; EvHello 1; EvConnect; EvHello 2;
   EvRequest 0 nameA 0; EvRequest 1 nameA 0; EvRequest 2 nameA 2].

(* F4: queue [0;1], connection 2 asks with REPLACE_EXISTING and cannot replace:
   the code gives [0;2;1], the specification [0;1;2] *)
Theorem C04_queue_position_refuted : forall adv,
  list_queued_owners (fst (run (init_bus 512) f4_history)) (QS nameA) = Some [WConn 0; WConn 2; WConn 1] /\
  spec_queued (fst (spec_run literal (sinit 512) f4_history adv 0)) (QS nameA) = Some [WConn 0; WConn 1; WConn 2].
Proof. intros adv. split; vm_compute; reflexivity. Qed.
Print Assumptions C04_queue_position_refuted.

Definition f4b_history : list event :=
  [EvConnect; EvHello 0; EvRequest 0 nameA 1; EvRequest 0 nameA 0].

(* Formerly F4b (fixed in /repo): the per-connection limit counts names held, so a RequestName
   for a name the caller already owns or waits for is never answered LimitsExceeded, in any
   reachable state and with any limit ... *)
Theorem C04_limit_spares_held_names : forall limit h c name flags,
  queued c (mget (b_services (fst (run (init_bus limit) h))) (KW name)) = true ->
  ~ In (c, MError ELimitsExceeded) (snd (step (fst (run (init_bus limit) h)) (EvRequest c name flags))).
Proof. exact limit_spares_held_reachable. Qed.
Print Assumptions C04_limit_spares_held_names.

(* ... and the former refutation witness (max_names_per_connection = 2, the owner of a.b, holding
   2 names, re-requests it) now gets ALREADY_OWNER (4) from the model as from the literal specification *)
Theorem C04_limit_rerequest : forall adv,
  nth 3 (snd (run (init_bus 2) f4b_history)) [] = [(0, MReply 4)] /\
  nth 3 (snd (spec_run literal (sinit 2) f4b_history adv 0)) [] = [(0, MReply 4)].
Proof. intros adv. split; vm_compute; reflexivity. Qed.
Print Assumptions C04_limit_rerequest.

Theorem C04_full_statement_refuted : ~ C04_full_statement.
Proof.
  intros H. destruct (H 512 f4_history) as [adv [_ [_ Hq]]]. specialize (Hq (QS nameA)).
  destruct (C04_queue_position_refuted adv) as [E1 E2]. rewrite E1, E2 in Hq. discriminate.
Qed.
Print Assumptions C04_full_statement_refuted.

(* ------------------------------------------------------------------------------------------
   "A name never has two primary owners": in every reachable state the service table has
   no name twice, every stored name has an owner (the head of its queue), no connection is
   in a queue twice, and nobody waits with DO_NOT_QUEUE. *)
Theorem C04_single_primary : forall limit h,
  NoDup (map fst (b_services (fst (run (init_bus limit) h)))) /\
  forall k q, lookup (b_services (fst (run (init_bus limit) h))) k = Some q ->
    q <> [] /\ NoDup (map o_conn q) /\ (forall o, In o (tl q) -> o_dnq o = false).
Proof. intros limit h. split; [exact (service_keys_unique limit h) | exact (single_primary limit h)]. Qed.
Print Assumptions C04_single_primary.

(* the whole invariant (queues, connection table, services_owned bookkeeping, unique names) *)
Theorem C04_invariant : forall limit h, inv (fst (run (init_bus limit) h)).
Proof. exact reachable_inv. Qed.
Print Assumptions C04_invariant.

(* ------------------------------------------------------------------------------------------
   "The bus's own name and unique names can be neither requested nor released":
   a name that is not [requestable] (not a valid well-known name by the grammar of the
   specification, or starting with ':', or org.freedesktop.DBus) is never in the table, and
   RequestName / ReleaseName for it change nothing and answer InvalidArgs. *)
Theorem C04_reserved :
  (forall limit h name, requestable name = false ->
     lookup (b_services (fst (run (init_bus limit) h))) (KW name) = None) /\
  (forall b c cn name flags, find_conn (b_conns b) c = Some cn -> c_active cn = true -> requestable name = false ->
     step b (EvRequest c name flags) = (b, [(c, MError EInvalidArgs)])) /\
  (forall b c cn name, find_conn (b_conns b) c = Some cn -> c_active cn = true -> requestable name = false ->
     step b (EvRelease c name) = (b, [(c, MError EInvalidArgs)])) /\
  requestable bus_name_str = false /\
  (forall r, requestable (58 :: r) = false).
Proof.
  split; [exact reserved_never_owned|]. split; [exact reserved_request_refused|]. split; [exact reserved_release_refused|].
  split; [exact bus_name_not_requestable | exact colon_not_requestable].
Qed.
Print Assumptions C04_reserved.

(* ------------------------------------------------------------------------------------------
   "GetNameOwner, NameHasOwner, ListNames and ListQueuedOwners always agree with that state":
   after every history the model's query functions (written after the C handlers) are the
   specification's projections of the refined state (ListNames as a set). *)
Theorem C04_queries_agree : forall limit h a,
  let b := fst (run (init_bus limit) h) in
  let s := fst (spec_run as_implemented (sinit limit) h (advice_run (init_bus limit) h 0) 0) in
  get_name_owner b a = spec_owner s a /\
  name_has_owner b a = spec_has_owner s a /\
  list_queued_owners b a = spec_queued s a /\
  (forall k, In k (list_names b) <-> spec_listed s k).
Proof. exact queries_agree_reachable. Qed.
Print Assumptions C04_queries_agree.

(* ------------------------------------------------------------------------------------------
   "those sent to the requester arriving before its reply": in every reachable state the
   output of a RequestName / ReleaseName by a connected caller ends with the reply (or
   error) to the caller and contains no other reply; all signals precede it. *)
Theorem C04_signals_before_reply : forall limit h e c,
  (exists name flags, e = EvRequest c name flags) \/ (exists name, e = EvRelease c name) ->
  find_conn (b_conns (fst (run (init_bus limit) h))) c <> None ->
  reply_last c (snd (step (fst (run (init_bus limit) h)) e)).
Proof. exact signals_before_reply_reachable. Qed.
Print Assumptions C04_signals_before_reply.

(* the reply codes say what happened: read on the queue after the call *)
Theorem C04_reply_code_meaning : forall v q c flags,
  NoDup (map o_conn q) -> (forall o, In o (tl q) -> o_dnq o = false) ->
  let q' := request_queue v q c flags in
  match request_code q c flags with
  | 4 => primary q = Some c /\ primary q' = Some c
  | 1 => primary q <> Some c /\ primary q' = Some c
  | 2 => primary q <> Some c /\ primary q' = primary q /\ queued c q' = true
  | 3 => primary q <> Some c /\ primary q' = primary q /\ queued c q' = false
  | _ => False
  end.
Proof. exact reply_code_meaning. Qed.
Print Assumptions C04_reply_code_meaning.

(* the places where the C code asserts (or would dereference NULL) are unreachable: the
   model never reports MFault for an event of a connected client *)
Theorem C04_no_assertion_reached : forall limit h e,
  (forall c, event_conn e = Some c -> find_conn (b_conns (fst (run (init_bus limit) h))) c <> None) ->
  forall o, In o (snd (step (fst (run (init_bus limit) h)) e)) -> snd o <> MFault.
Proof. exact no_fault_reachable. Qed.
Print Assumptions C04_no_assertion_reached.

(* ==========================================================================================
   The driver layer (Registry/Driver.v): raw strings on the wire, the own-policy gate,
   ReloadConfig, the query methods on raw argument strings; and the transaction layer
   (Registry/Transaction.v).  A driver history is [admissible] if it has fewer than 2^31
   events and its policy rules are as the configuration parser builds them (C06's rule_wf);
   [dstate rules limit h] is the state after it. *)

(* _dbus_string_append_int is injective, so are the unique names ":1.<minor>"; they start with ':' and
   are therefore never requestable; in every reachable state two connections never have the same name,
   and a name once handed out is never forgotten (so it is never handed out again) *)
Theorem C04_unique_names :
  (forall a b, ustr a = ustr b -> a = b) /\
  (forall m, requestable (ustr m) = false) /\
  (forall rules limit h, admissible rules h ->
     forall c1 m1 c2 m2, In (c1, m1) (d_unique (dstate rules limit h)) -> In (c2, m2) (d_unique (dstate rules limit h)) ->
     ustr m1 = ustr m2 -> c1 = c2) /\
  (forall d e, exists ext, d_unique (fst (dstep d e)) = d_unique d ++ ext).
Proof.
  split; [exact ustr_inj|]. split; [exact ustr_not_requestable|]. split; [exact unique_names_reachable | exact names_only_grow].
Qed.
Print Assumptions C04_unique_names.

(* the C registry is a hash keyed by strings, the model's table is indexed by abstract keys: on every
   reachable state the rendering of the keys present is injective and total, and looking a string up in the
   rendered table is looking its key up in the model's table *)
Theorem C04_string_table_faithful : forall rules limit h, admissible rules h ->
  let d := dstate rules limit h in
  (forall k1 k2 q1 q2 s, lookup (b_services (d_bus d)) k1 = Some q1 -> lookup (b_services (d_bus d)) k2 = Some q2 ->
                         kstr d k1 = Some s -> kstr d k2 = Some s -> k1 = k2) /\
  (forall k q, lookup (b_services (d_bus d)) k = Some q -> exists s, kstr d k = Some s) /\
  (forall s, option_map snd (slookup d s) = lookup (b_services (d_bus d)) (qkey (resolve d s))).
Proof. exact string_table_reachable. Qed.
Print Assumptions C04_string_table_faithful.

(* every registry event at the driver level is the rendering of a step of the specification with the
   own-policy gate (Spec/DriverSpec.v; the decision is C06's spec_can_own), and the refinement relation
   carries on -- for every reachable state, i.e. every admissible history *)
Theorem C04_driver_refines : forall rules limit h e, admissible rules h ->
  let d := dstate rules limit h in
  (exists s, R (d_bus d) s) /\
  forall s, R (d_bus d) s ->
  let (d', o) := dstep d (DReg e) in
  let (s', o') := dspec_step as_implemented (d_rules d) s e (advice (d_bus d) e) in
  o = render d' o' /\ R (d_bus d') s'.
Proof.
  intros rules limit h e Ha. split; [exact (refinement_exists_reachable rules limit h Ha) | exact (driver_refines_reachable rules limit h e Ha)].
Qed.
Print Assumptions C04_driver_refines.

(* the gate: bus_rules_check_can_own decides as "the last matching rule" says; a registered caller that may
   not own a (requestable) name gets AccessDenied and nothing changes -- whatever the queue of the name looks
   like, before the limit is consulted *)
Theorem C04_policy_gate :
  (forall rules name, rules_wf rules = true -> check_can_own rules name = Some (spec_can_own rules name)) /\
  (forall d c cn name flags,
     find_conn (b_conns (d_bus d)) c = Some cn -> c_active cn = true -> requestable name = true ->
     check_can_own (d_rules d) name = Some false ->
     dstep d (DReg (EvRequest c name flags)) = (d, [(c, WErr WAccessDenied)])).
Proof. split; [exact gate_decision | exact policy_refusal]. Qed.
Print Assumptions C04_policy_gate.

(* a RequestName / ReleaseName that is answered with an error -- not registered, bad syntax, reserved name,
   policy, limit -- leaves the whole state as it was and nobody receives anything but that error *)
Theorem C04_error_changes_nothing : forall rules limit h e c er, admissible rules h ->
  (exists name flags, e = EvRequest c name flags) \/ (exists name, e = EvRelease c name) ->
  In (c, WErr er) (snd (dstep (dstate rules limit h) (DReg e))) ->
  dstep (dstate rules limit h) (DReg e) = (dstate rules limit h, [(c, WErr er)]).
Proof. exact error_changes_nothing_reachable. Qed.
Print Assumptions C04_error_changes_nothing.

(* ReloadConfig: new rules and limit from now on; connections, queues and names stay *)
Theorem C04_reload_keeps_names : forall rules limit h c rules' limit', admissible rules h ->
  let d := dstate rules limit h in
  let (d', o) := dstep d (DReload c rules' limit') in
  (d' = d \/ (d_rules d' = rules' /\ b_limit (d_bus d') = limit' /\ o = [(c, WAck)])) /\
  b_conns (d_bus d') = b_conns (d_bus d) /\ b_services (d_bus d') = b_services (d_bus d) /\ d_unique d' = d_unique d.
Proof. exact reload_reachable. Qed.
Print Assumptions C04_reload_keeps_names.

(* GetNameOwner / NameHasOwner / ListQueuedOwners / ListNames on a RAW argument string, asked by a registered
   connection in any reachable state: the answer is what the string-keyed table says ([owner_answer] etc. in
   Proofs/DriverMain.v: the bus for its own name, the unique name of the head / of every member of the queue
   stored under that string, NameHasNoOwner if there is none -- also for syntactically invalid strings and for
   unique names of connections that left or never existed); the state does not change; "Could not determine
   unique name" (the FIXME in bus_driver_handle_get_service_owner) never happens *)
Theorem C04_raw_queries : forall rules limit h c cn s, admissible rules h ->
  let d := dstate rules limit h in
  find_conn (b_conns (d_bus d)) c = Some cn -> c_active cn = true ->
  dstep d (DGetNameOwner c s) = (d, [(c, owner_answer d s)]) /\
  dstep d (DNameHasOwner c s) = (d, [(c, has_owner_answer d s)]) /\
  dstep d (DListQueuedOwners c s) = (d, [(c, queued_answer d s)]) /\
  owner_answer d s <> WErr WFailed /\ queued_answer d s <> WFault /\
  (exists l, dstep d (DListNames c) = (d, [(c, WList l)]) /\ NoDup l /\
     forall t, In t l <-> t = DBUS_SERVICE_DBUS_str \/ exists k q, In (k, q) (b_services (d_bus d)) /\ kstr d k = Some t).
Proof. exact raw_queries_reachable. Qed.
Print Assumptions C04_raw_queries.

(* the transaction layer: whatever was staged with bus_transaction_send reaches each connected recipient
   exactly, in staging order (so the reply, staged last, comes last), other transactions' messages in the
   same lists are not touched; a cancelled transaction delivers nothing and restores the lists *)
Theorem C04_transaction_fifo : forall connected tid ts0 ms, fresh tid ts0 ->
  let ts := stage_all connected tid ts0 ms in
  (forall c, to c (fst (texec tid ts)) = staged_for connected c ms) /\
  (forall c, snd (texec tid ts) c = tp ts0 c) /\
  (forall c, tcancel tid ts c = tp ts0 c).
Proof.
  intros connected tid ts0 ms Hf. cbn zeta. destruct (transaction_fifo connected tid ts0 ms Hf) as [A B].
  split; [exact A|]. split; [exact B | exact (transaction_cancel connected tid ts0 ms Hf)].
Qed.
Print Assumptions C04_transaction_fifo.

(* ------------------------------------------------------------------------------------------
   non-vacuity *)
Definition ex_history : list event :=
  [EvConnect; EvHello 0; EvAddMatch 0; EvConnect; EvHello 1; EvConnect; EvHello 2;
   EvRequest 0 nameA 1; EvRequest 1 nameA 0; EvRequest 2 nameA 3; EvRelease 2 nameA; EvDisconnect 0].

(* a history with replacement, hand-over on release and on disconnect is [quiet] ... *)
Example ex_quiet : quiet as_implemented (sinit 512) ex_history (advice_run (init_bus 512) ex_history 0) 0.
Proof. vm_compute. repeat split. Qed.

(* ... the replacing RequestName delivers NameLost, NameOwnerChanged, NameAcquired, then the reply *)
Example ex_replace_output :
  nth 9 (snd (run (init_bus 512) ex_history)) [] =
  [(0, MLost (KW nameA)); (0, MNOC (KW nameA) (Some 0) (Some 2)); (2, MAcquired (KW nameA)); (2, MReply 1)].
Proof. vm_compute. reflexivity. Qed.

(* ... and after the owner released and the first owner left, connection 1 owns the name *)
Example ex_final_owner : get_name_owner (fst (run (init_bus 512) ex_history)) (QS nameA) = Some (WConn 1).
Proof. vm_compute. reflexivity. Qed.

(* the exceptional situation is reachable; the former second one no longer is one *)
Example ex_trigger_f4 : exception_trigger (fst (spec_run as_implemented (sinit 512) (removelast f4_history) (fun _ => []) 0)) (EvRequest 2 nameA 2) = true.
Proof. vm_compute. reflexivity. Qed.
Example ex_no_trigger_f4b : exception_trigger (fst (spec_run as_implemented (sinit 2) (removelast f4b_history) (fun _ => []) 0)) (EvRequest 0 nameA 0) = false.
Proof. vm_compute. reflexivity. Qed.
(* the limit still refuses a further name *)
Example ex_limit_refuses_new : nth 4 (snd (run (init_bus 2) (f4b_history ++ [EvRequest 0 [98; 46; 99] 0]))) [] = [(0, MError ELimitsExceeded)].
Proof. vm_compute. reflexivity. Qed.

(* names that are refused / accepted *)
Example ex_requestable : requestable nameA = true. Proof. reflexivity. Qed.
Example ex_unique_refused : requestable [58; 49; 46; 53] = false. Proof. reflexivity. Qed.

(* driver layer: own_prefix "a.b" lets a connection own a.b and a.b.c but not a.bc; the refusal is AccessDenied;
   after ReloadConfig with "deny own=a.b" the owner keeps the name but cannot refresh its flags *)
Definition allow_prefix_ab : prule :=
  Policy.Policy.mkRule Policy.Policy.KOwn true 0 None None None None (Some nameA) 0 0 false false false Policy.Policy.TAny true.
Definition deny_ab : prule :=
  Policy.Policy.mkRule Policy.Policy.KOwn false 0 None None None None (Some nameA) 0 0 false false false Policy.Policy.TAny false.
Definition dex_history : list devent :=
  [DReg EvConnect; DReg (EvHello 0); DReg EvConnect; DReg (EvHello 1);
   DReg (EvRequest 0 nameA 0); DReg (EvRequest 1 [97; 46; 98; 46; 99] 0); DReg (EvRequest 1 [97; 46; 98; 99] 0);
   DReload 0 [allow_prefix_ab; deny_ab] 512; DReg (EvRequest 0 nameA 1); DGetNameOwner 1 nameA; DGetNameOwner 1 [58; 49; 46; 49]; DGetNameOwner 1 [58; 49; 46; 50]].
Example ex_admissible : admissible [allow_prefix_ab] dex_history.
Proof. repeat split; vm_compute; try reflexivity. discriminate. Qed.
Example ex_driver_outputs :
  skipn 4 (snd (drun (dinit [allow_prefix_ab] 512) dex_history)) =
  [ [(0, WAcquired nameA); (0, WU32 1)];  [(1, WAcquired [97; 46; 98; 46; 99]); (1, WU32 1)];  [(1, WErr WAccessDenied)];
    [(0, WAck)];  [(0, WErr WAccessDenied)];
    [(1, WStr [58; 49; 46; 48])];  [(1, WStr [58; 49; 46; 49])];  [(1, WErr WNameHasNoOwner)] ].
Proof. vm_compute. reflexivity. Qed.
Example ex_ustr : ustr 10 = [58; 49; 46; 49; 48]. Proof. reflexivity. Qed.
