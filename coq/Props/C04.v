(* C04 — name ownership follows the specification's state machine.
   (theorems are added below as they are proved) *)
From DV Require Import Lib.Base Registry.RegTypes Registry.Registry Spec.RegistrySpec.
Local Open Scope N_scope.
