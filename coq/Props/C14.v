(* C14 - "Out-of-memory at any point leaves state unchanged and leaks nothing".

   Model: Oom.Machine (transaction machine with failing allocations),
   Oom.Handlers (the bus handlers as transaction programs, allocation points in
   C order).  Specification: Spec.OomSpec (atomic, retry_ok,
   outputs_all_or_nothing, the exception classes [uncovered]).

   [step b e]        one request handled without failures
   [step_f F b e]    the same request while every allocation i with F i = true fails
   [step_oom k b e]  = step_f (N.eqb k): the k-th allocation fails (single failure)

   The literal property (C14_full_statement) is FALSE for the C code and for
   the faithful model: see the _refuted theorems (each witness is replayed on
   the real bus by tools/props/c14.py, corpus/C14).  What is proved instead is
   the property for every request class outside [uncovered] - for all reachable
   prior states and all SETS of failing allocations, not only single ones and
   pairs - plus all-or-nothing delivery of messages for every request.

   "leaks nothing" is not a statement about the model; it is checked on the
   real code only (harness: blocks outstanding after teardown, ASan). *)
From DV Require Import Spec.OomSpec Proofs.OomGeneric Proofs.OomLists Proofs.OomHandlers Proofs.OomMain Proofs.OomRefute Proofs.OomTight Proofs.OomClean Spec.OomStringSpec Proofs.OomString Proofs.OomHello.
Local Open Scope N_scope.

(* ---- the literal statement and its refutation ------------------------------------------------ *)
Definition C14_full_statement : Prop := Proofs.OomRefute.C14_full_statement.

Theorem C14_full_statement_refuted : ~ C14_full_statement.
Proof. exact full_statement_refuted. Qed.
Print Assumptions C14_full_statement_refuted.

(* ---- what holds: atomicity outside the exceptions ------------------------------------------------ *)
(* every prior state reached by a history, every request class not excepted,
   every set F of failing allocations: either the result is exactly that of
   the unfailed request, or the caller alone gets NoMemory and the state is
   what it was *)
Theorem C14_atomic_partial : forall mn mr mp h b e c F,
  run (init_bus mn mr mp) h = Some b -> requester e = Some c -> uncovered b e = false ->
  atomic b c (step b e) (step_f F b e).
Proof. intros; eapply atomic_covered; eauto using reachable_inv. Qed.
Print Assumptions C14_atomic_partial.

(* the single-failure reading of the property text *)
Theorem C14_atomic : forall mn mr mp h b e c k,
  run (init_bus mn mr mp) h = Some b -> requester e = Some c -> uncovered b e = false ->
  step_oom k b e = step b e \/
  (exists b', step_oom k b e = OOk b' [(c, MError ENoMemory)] /\ same_state b' b).
Proof. intros. unfold step_oom. eapply C14_atomic_partial; eauto. Qed.
Print Assumptions C14_atomic.

(* on any state satisfying the invariant, not only reachable ones *)
Theorem C14_atomic_invariant : forall b e c F,
  inv b -> requester e = Some c -> uncovered b e = false -> atomic b c (step b e) (step_f F b e).
Proof. exact atomic_covered. Qed.
Print Assumptions C14_atomic_invariant.

(* except for replies (whose undo re-links the pending entry at the head of
   the list) the prior state comes back identically *)
Theorem C14_atomic_exact : forall b e c F,
  inv b -> requester e = Some c -> uncovered b e = false -> is_reply e = false ->
  step_f F b e = step b e \/ step_f F b e = OOk b [(c, MError ENoMemory)].
Proof. exact atomic_covered_exact. Qed.
Print Assumptions C14_atomic_exact.

(* "succeeds when retried with memory available" *)
Theorem C14_retry : forall mn mr mp h b e c F,
  run (init_bus mn mr mp) h = Some b -> requester e = Some c -> uncovered b e = false ->
  retry_ok b c e (step_f F b e).
Proof. intros; eapply retry_covered_strong; eauto using reachable_inv. Qed.
Print Assumptions C14_retry.

(* without a failing allocation nobody is ever told NoMemory (so "reported NoMemory" really means a failed attempt) *)
Theorem C14_unfailed_never_reports_oom : forall b e b' o,
  step b e = OOk b' o -> Forall (fun x => snd x <> MError ENoMemory) o.
Proof. exact unfailed_never_oom. Qed.
Print Assumptions C14_unfailed_never_reports_oom.

(* on these classes the daemon never runs into an assertion *)
Theorem C14_never_stops : forall b e c F,
  inv b -> requester e = Some c -> uncovered b e = false -> step_f F b e <> OStop.
Proof. exact covered_runs. Qed.
Print Assumptions C14_never_stops.

(* "either every effect ... (signals, reply) takes place or none does":
   for EVERY request in EVERY state the clients see the complete output, or
   only the NoMemory error, or the daemon stopped - never a part *)
Theorem C14_outputs_all_or_nothing : forall b e c F,
  requester e = Some c -> outputs_all_or_nothing c (step b e) (step_f F b e).
Proof. exact outputs_all_or_nothing_all. Qed.
Print Assumptions C14_outputs_all_or_nothing.

(* every state reached by a history (without failures) satisfies the invariant *)
Theorem C14_invariant_reachable : forall mn mr mp h b, run (init_bus mn mr mp) h = Some b -> inv b.
Proof. exact reachable_inv. Qed.
Print Assumptions C14_invariant_reachable.

(* ---- the exceptions are real: one witness per class (findings F10a, F10b, F10c) ------------------ *)
Theorem C14_waiter_release_refuted :
  exists b, run (init_bus 512 512 128) hist_waiter = Some b /\
            ~ atomic b 2 (step b (EvRelease 2 nameA)) (step_oom 3 b (EvRelease 2 nameA)).
Proof. exact waiter_release_refuted. Qed.
Print Assumptions C14_waiter_release_refuted.

Theorem C14_exists_branch_refuted :
  exists b, run (init_bus 512 512 128) hist_exists = Some b /\
            ~ atomic b 2 (step b (EvRequest 2 nameA 4)) (step_oom 3 b (EvRequest 2 nameA 4)).
Proof. exact exists_branch_refuted. Qed.
Print Assumptions C14_exists_branch_refuted.

Theorem C14_flag_refresh_refuted :
  exists b, run (init_bus 512 512 128) hist_flags = Some b /\
            ~ atomic b 1 (step b (EvRequest 1 nameA 1)) (step_oom 3 b (EvRequest 1 nameA 1)).
Proof. exact flag_refresh_refuted. Qed.
Print Assumptions C14_flag_refresh_refuted.

Theorem C14_hello_refuted :
  exists b, run (init_bus 512 512 128) hist_hello = Some b /\
            ~ atomic b 3 (step b (EvHello 3)) (step_oom 9 b (EvHello 3)).
Proof. exact hello_refuted. Qed.
Print Assumptions C14_hello_refuted.

Theorem C14_hello_retry_refuted :
  exists b b', run (init_bus 512 512 128) hist_hello = Some b /\
               step_oom 9 b (EvHello 3) = OOk b' [(3, MError ENoMemory)] /\
               step b' (EvHello 3) = OOk b' [(3, MError EFailed)].
Proof. exact hello_retry_refuted. Qed.
Print Assumptions C14_hello_retry_refuted.

(* the former witnesses of finding F14.1 (fixed: restore_ownership works) are regression inputs now:
   an allocation of the reply fails after the owner was removed / swapped, and everything is put back *)
Theorem C14_release_primary_restored :
  exists b, run (init_bus 512 512 128) hist_release = Some b /\
            step_oom 25 b (EvRelease 1 nameA) = OOk b [(1, MError ENoMemory)] /\
            step_oom 25 b (EvRelease 1 nameA) <> step b (EvRelease 1 nameA).
Proof. exact release_primary_restored. Qed.
Print Assumptions C14_release_primary_restored.

Theorem C14_replace_restored :
  exists b, run (init_bus 512 512 128) hist_replace = Some b /\
            step_oom 40 b (EvRequest 2 nameA 2) = OOk b [(2, MError ENoMemory)] /\
            step_oom 40 b (EvRequest 2 nameA 2) <> step b (EvRequest 2 nameA 2).
Proof. exact replace_restored. Qed.
Print Assumptions C14_replace_restored.

(* ---- ... and, for four of the classes, the exception is exact: EVERY state of the class has a
   failing index at which NoMemory is reported although the state changed ------------------------- *)
Theorem C14_tight_release_waiter : forall b c cn name p w o,
  inv b -> find_conn (b_conns b) c = Some cn -> c_active cn = true -> name_refused name = false ->
  lookup (b_services b) (KW name) = Some (p :: w) -> (o_conn p =? c) = false -> find_owner w c = Some o ->
  exists b', step_oom 3 b (EvRelease c name) = OOk b' [(c, MError ENoMemory)] /\ ~ same_state b' b.
Proof. exact tight_release_waiter. Qed.
Print Assumptions C14_tight_release_waiter.

Theorem C14_tight_exists_waiter : forall b c cn name flags p w o,
  inv b -> find_conn (b_conns b) c = Some cn -> c_active cn = true -> name_refused name = false ->
  (b_maxnames b <=? nlen (c_owned cn)) = false ->
  lookup (b_services b) (KW name) = Some (p :: w) -> (o_conn p =? c) = false -> find_owner w c = Some o ->
  (has_flag flags DBUS_NAME_FLAG_DO_NOT_QUEUE && negb (o_allow p)) || (has_flag flags DBUS_NAME_FLAG_DO_NOT_QUEUE && negb (has_flag flags DBUS_NAME_FLAG_REPLACE_EXISTING)) = true ->
  exists b', step_oom 3 b (EvRequest c name flags) = OOk b' [(c, MError ENoMemory)] /\ ~ same_state b' b.
Proof. exact tight_exists_waiter. Qed.
Print Assumptions C14_tight_exists_waiter.

Theorem C14_tight_owner_flags : forall b c cn name flags p w,
  inv b -> find_conn (b_conns b) c = Some cn -> c_active cn = true -> name_refused name = false ->
  (b_maxnames b <=? nlen (c_owned cn)) = false ->
  lookup (b_services b) (KW name) = Some (p :: w) -> (o_conn p =? c) = true -> same_flags p flags = false ->
  exists b', step_oom 3 b (EvRequest c name flags) = OOk b' [(c, MError ENoMemory)] /\ ~ same_state b' b.
Proof. exact tight_owner_flags. Qed.
Print Assumptions C14_tight_owner_flags.

Theorem C14_tight_hello : forall b c cn,
  find_conn (b_conns b) c = Some cn -> c_active cn = false -> (b_maxconns b <=? b_uidcount b) = false ->
  exists b', step_oom 9 b (EvHello c) = OOk b' [(c, MError ENoMemory)] /\ ~ same_state b' b.
Proof. exact tight_hello. Qed.
Print Assumptions C14_tight_hello.

(* max_connections_per_user (finding F14.4, fixed by c7c9e6b): whatever fails, a first Hello that reports
   NoMemory either changed nothing at all or made the connection active and counted it - the per-user
   count never moves without the activation *)
Theorem C14_hello_count_follows_activation : forall b c cn F b',
  find_conn (b_conns b) c = Some cn -> c_active cn = false -> (b_maxconns b <=? b_uidcount b) = false ->
  lookup (b_services b) (KU c) = None ->
  step_f F b (EvHello c) = OOk b' [(c, MError ENoMemory)] ->
  b' = b \/ b' = completed b c.
Proof. exact hello_count_follows_activation. Qed.
Print Assumptions C14_hello_count_follows_activation.

(* ... so a failed Hello that left the connection inactive is retried as if it had never been attempted *)
Theorem C14_hello_not_active_unchanged : forall b c cn F b',
  find_conn (b_conns b) c = Some cn -> c_active cn = false -> (b_maxconns b <=? b_uidcount b) = false ->
  lookup (b_services b) (KU c) = None ->
  step_f F b (EvHello c) = OOk b' [(c, MError ENoMemory)] -> is_active b' c = false ->
  b' = b /\ step b' (EvHello c) = step b (EvHello c).
Proof. exact hello_not_active_unchanged. Qed.
Print Assumptions C14_hello_not_active_unchanged.

(* the former witness of F14.4 (max_connections_per_user = 3, two clients registered, the third says Hello):
   at EVERY failing index the count is the number of active connections, and a Hello that left the
   connection inactive is followed by a successful retry *)
Theorem C14_hello_uid_count_restored :
  exists b, run (init_bus_full 512 512 128 3) [EvConnect; EvHello 0; EvConnect; EvHello 1; EvConnect] = Some b /\
            forallb (fun k => match step_oom k b (EvHello 2) with
                              | OOk b' _ =>
                                  (b_uidcount b' =? (if is_active b' 2 then 3 else 2)) &&
                                  (is_active b' 2 ||
                                   match step b' (EvHello 2) with OOk b2 _ => is_active b2 2 | OStop => false end)
                              | OStop => false
                              end) (nseq 64) = true.
Proof. eexists. split; [vm_compute; reflexivity|]. vm_compute. reflexivity. Qed.
Print Assumptions C14_hello_uid_count_restored.

(* ==== library side: DBusString (dbus/dbus-string.c) and the header setter built on it ==================
   Model Oom.DString (contents + allocated + the one fallible realloc, every primitive returning the
   string ALSO on failure), specification Spec.OomStringSpec.  [exact] = the test-build growth policy,
   F = which allocations fail; both arbitrary. *)

(* "the operation reports out-of-memory [and] leaves ... message contents ... exactly as it was", for each of
   lengthen, set_length, insert_bytes, insert_byte, align_length, insert_2/4/8_aligned, insert_alignment,
   alloc_space, append_len, append_byte, copy_len, replace_len: FALSE means contents AND capacity are what
   they were, and either a length limit was hit (nothing allocated) or the one allocation failed *)
Theorem C14_string_fail_unchanged : forall exact F i s op s' i',
  run_sop exact F i s op = (false, s', i') -> s' = s /\ (i' = i \/ (i' = (i + 1)%N /\ F i = true)).
Proof. exact sop_fail_unchanged. Qed.
Print Assumptions C14_string_fail_unchanged.

(* ... and TRUE means the documented contents, a valid string, and at most one allocation - none if the
   longest intermediate length fits the current allocation *)
Theorem C14_string_ok_spec : forall exact F i s op s' i',
  wf s -> sop_pre s op = true -> run_sop exact F i s op = (true, s', i') ->
  d_bytes s' = spec_sop (d_bytes s) op /\ wf s' /\ counted F i s (peak_len (d_bytes s) op) s' i'.
Proof. exact sop_ok_spec. Qed.
Print Assumptions C14_string_ok_spec.

(* write_basic_field (a new header field is appended by insertions between the last field and the reserved
   padding): a failure anywhere, followed by the append_failed cleanup, gives back the header data *)
Theorem C14_header_append_fail : forall exact F i h ops h' i',
  wf (h_data h) -> (h_padding h <= dlen (h_data h))%nat ->
  window_ops (dlen (h_data h) - h_padding h) (h_padding h) (d_bytes (h_data h)) ops ->
  write_basic_field exact F i h ops = (false, h', i') ->
  d_bytes (h_data h') = d_bytes (h_data h) /\ h_padding h' = h_padding h /\ wf (h_data h').
Proof. exact write_basic_field_fail. Qed.
Print Assumptions C14_header_append_fail.

(* _dbus_type_reader_set_basic on an existing variable-length field: whatever fails (in the replacement
   block or in the final _dbus_string_replace_len), the header is untouched *)
Theorem C14_header_replace_fail : forall exact F i h n block at_ oldlen h' i',
  set_basic_field exact F i h n block at_ oldlen = (false, h', i') -> h' = h.
Proof. exact set_basic_field_fail. Qed.
Print Assumptions C14_header_replace_fail.

(* _dbus_header_set_field_basic as it is since 813204b: reserve_header_padding, the edit,
   correct_header_padding on every path: a reported failure leaves data and padding as they were *)
Theorem C14_header_set_field_fail : forall exact F i h e,
  hdr_ok h -> edit_ok h e ->
  match header_set_field exact F true i h e with
  | Some (false, h', _) => d_bytes (h_data h') = d_bytes (h_data h) /\ h_padding h' = h_padding h
  | _ => True
  end.
Proof.
  intros exact F i h e H1 H2. pose proof (header_set_field_fail exact F i h e H1 H2) as H.
  destruct (header_set_field exact F true i h e) as [[[[|] h'] i']|]; auto.
Qed.
Print Assumptions C14_header_set_field_fail.

(* DBusMessage.locked: dbus_message_marshal locks a message that was not locked and must unlock it again on
   every exit - the message (flag included) is what it was whatever fails; on success the data is header ++ body *)
Theorem C14_msg_marshal_restores : forall exact F i m ok m' i' d,
  msg_marshal exact F true i m = (ok, m', i', d) ->
  m' = m /\ (ok = true -> d = d_bytes (h_data (m_header m)) ++ d_bytes (m_body m)).
Proof. exact msg_marshal_restores. Qed.
Print Assumptions C14_msg_marshal_restores.

(* ... and no header edit touches the flag (so every library operation of the model restores it) *)
Theorem C14_msg_set_field_keeps_lock : forall exact F i m e ok m' i',
  msg_set_field exact F i m e = Some (ok, m', i') -> m_locked m' = m_locked m /\ m_body m' = m_body m.
Proof. exact msg_set_field_keeps_lock. Qed.
Print Assumptions C14_msg_set_field_keeps_lock.

(* seeded defect C14_5: without the restore on the failure exits the message stays locked and the next setter is refused *)
Theorem C14_msg_marshal_unrestored_refuted :
  let m := mkM (mkH (mkD (repeat 1%N 16) 24) 0) (mkD (repeat 2%N 4) 12) false in
  exists m' i' d, msg_marshal true (N.eqb 2) false 0 m = (false, m', i', d) /\ m_locked m' = true /\
                  msg_set_field true (fun _ => false) 0 m' (HReplace 0 [9]%N 0 1) = Some (false, m', 0%N) /\
                  (exists i2 d2, msg_marshal true (N.eqb 2) true 0 m = (false, m, i2, d2)) /\
                  (exists m2 i2, msg_set_field true (fun _ => false) 0 m (HReplace 0 [9]%N 0 1) = Some (true, m2, i2)).
Proof. exact msg_marshal_unrestored_breaks. Qed.
Print Assumptions C14_msg_marshal_unrestored_refuted.

(* the two statements above are about this very code: with the overwrite before the fallible insertion in
   _dbus_string_replace_len (seeded defect C14_2), or without correct_header_padding on the failure path
   (finding F14.2, the code before 813204b), they are false *)
Theorem C14_replace_len_order_matters :
  let s := mkD [104; 101; 108; 108; 111]%N 13 in
  exists s' i', replace_len_swapped true (N.eqb 0) 0 [65; 66; 67; 68; 69; 70]%N 0 6 s 1 2 = (false, s', i') /\ s' <> s /\
                replace_len true (N.eqb 0) 0 [65; 66; 67; 68; 69; 70]%N 0 6 s 1 2 = (false, s, i').
Proof. exact replace_len_swapped_breaks. Qed.
Print Assumptions C14_replace_len_order_matters.

Theorem C14_header_set_unfixed_refuted :
  let h := mkH (mkD (repeat 1%N 13 ++ repeat 0%N 3) 24) 3 in
  exists h' i', header_set_field true (N.eqb 1) false 0 h (HAppend [OAllocSpace 8]) = Some (false, h', i') /\
                d_bytes (h_data h') = d_bytes (h_data h) ++ junk 4 /\
                exists h2 i2, header_set_field true (N.eqb 1) true 0 h (HAppend [OAllocSpace 8]) = Some (false, h2, i2) /\
                              d_bytes (h_data h2) = d_bytes (h_data h).
Proof. exact header_set_unfixed_breaks. Qed.
Print Assumptions C14_header_set_unfixed_refuted.

(* non-vacuity: a well-formed header, the operation sequence of a string-valued field (alloc_space,
   struct alignment, field code, variant signature, length, text, NUL) is a window program for it, and a
   failure of its 3rd allocation is reported with the data unchanged *)
Definition ex_hdr : hdr := mkH (mkD (repeat 1%N 13 ++ repeat 0%N 3) 24) 3.
Definition ex_ops : list sop :=
  [OAllocSpace 8; OInsertBytes 13 3 0; OInsertByte 16 6; OInsertByte 17 1; OCopyLen [115]%N 0 1 18; OInsertByte 19 0;
   OInsertAligned 20 [3; 0; 0; 0]%N; OCopyLen [97; 46; 98]%N 0 3 24; OInsertByte 27 0].
Example C14_ex_header :
  hdr_ok ex_hdr /\ edit_ok ex_hdr (HAppend ex_ops) /\
  (exists h' i', header_set_field true (N.eqb 2) true 0 ex_hdr (HAppend ex_ops) = Some (false, h', i') /\
                 d_bytes (h_data h') = d_bytes (h_data ex_hdr) /\ h_padding h' = 3%nat /\ d_alloc (h_data h') = 36%nat (* only the capacity grew *)) /\
  (exists h' i', header_set_field true (fun _ => false) true 0 ex_hdr (HAppend ex_ops) = Some (true, h', i') /\
                 d_bytes (h_data h') = repeat 1%N 13 ++ [0; 0; 0; 6; 1; 115; 0; 3; 0; 0; 0; 97; 46; 98; 0; 0; 0; 0; 0]%N).
Proof.
  split.
  { unfold hdr_ok, ex_hdr, wf. split; [split; [vm_compute; repeat constructor|vm_compute; reflexivity]|].
    split; [vm_compute; repeat constructor|]. exists (repeat 1%N 13). split; vm_compute; reflexivity. }
  split.
  { unfold edit_ok, ex_hdr, ex_ops. vm_compute. repeat (split; try reflexivity; try (repeat constructor)). }
  split; do 2 eexists; (split; [vm_compute; reflexivity|]); vm_compute; auto.
Qed.

(* ---- the hypotheses are satisfiable and both disjuncts occur ---------------------------------------- *)
Definition ex_hist : list event :=
  [EvConnect; EvHello 0; EvAddMatch 0 0; EvConnect; EvHello 1; EvConnect; EvHello 2;
   EvRequest 1 nameA 1; EvAddMatch 2 1; EvCall 1 (DConn 2) 7].

(* a covered RequestName (c2 queues behind c1): an early failure leaves the state as it was ... *)
Example C14_ex_request_fails :
  exists b, run (init_bus 512 512 128) ex_hist = Some b /\ uncovered b (EvRequest 2 nameA 0) = false /\
            step_oom 12 b (EvRequest 2 nameA 0) = OOk b [(2, MError ENoMemory)] /\
            step_oom 12 b (EvRequest 2 nameA 0) <> step b (EvRequest 2 nameA 0).
Proof. eexists; split; [vm_compute; reflexivity|]. split; [vm_compute; reflexivity|]. split; [vm_compute; reflexivity|]. vm_compute; discriminate. Qed.

(* ... and a failure index beyond the last allocation is the unfailed request (c2 is queued, reply 2) *)
Example C14_ex_request_passes :
  exists b, run (init_bus 512 512 128) ex_hist = Some b /\
            step_oom 1000 b (EvRequest 2 nameA 0) = step b (EvRequest 2 nameA 0) /\
            match step b (EvRequest 2 nameA 0) with
            | OOk b' o => o = [(2, MReply DBUS_REQUEST_NAME_REPLY_IN_QUEUE)] /\
                          lookup (b_services b') (KW nameA) = Some [mkOwner 1 true false true; mkOwner 2 false false true]
            | OStop => False
            end.
Proof. eexists; split; [vm_compute; reflexivity|]. split; [vm_compute; reflexivity|]. vm_compute. split; reflexivity. Qed.

(* a reply consumes the pending entry; when staging the reply fails the entry is back *)
Example C14_ex_reply :
  exists b, run (init_bus 512 512 128) ex_hist = Some b /\ uncovered b (EvReply 2 1 7 false) = false /\
            b_pending b = [mkPend 1 2 7] /\
            step_oom 7 b (EvReply 2 1 7 false) = OOk b [(2, MError ENoMemory)] /\
            match step b (EvReply 2 1 7 false) with
            | OOk b' o => o = [(1, MRet 2 7 false)] /\ b_pending b' = []
            | OStop => False
            end.
Proof.
  eexists; split; [vm_compute; reflexivity|]. split; [vm_compute; reflexivity|]. split; [vm_compute; reflexivity|].
  split; [vm_compute; reflexivity|]. vm_compute. split; reflexivity.
Qed.

(* a new name with a NameOwnerChanged subscriber: two failures, the second one in the error path, still atomic *)
Example C14_ex_two_failures :
  exists b, run (init_bus 512 512 128) ex_hist = Some b /\
            step_f (fail_set [20; 21]) b (EvRequest 2 [120; 46; 121] 0) = OOk b [(2, MError ENoMemory)].
Proof. eexists; split; [vm_compute; reflexivity|]. vm_compute; reflexivity. Qed.

(* the exception test is not trivially true: the owner asking for its own flags again is covered,
   asking for different ones is not *)
Example C14_ex_uncovered :
  exists b, run (init_bus 512 512 128) ex_hist = Some b /\
            uncovered b (EvRequest 1 nameA 1) = false /\ uncovered b (EvRequest 1 nameA 0) = true /\
            uncovered b (EvRelease 1 nameA) = false /\ uncovered b (EvRelease 2 nameA) = false /\
            uncovered b (EvAddMatch 2 1) = false /\ uncovered b (EvSignal 0 0) = false.
Proof. eexists; split; [vm_compute; reflexivity|]. repeat split; vm_compute; reflexivity. Qed.
