(* C10 — one misbehaving client cannot crash, corrupt or stall the bus.
   Statements only; proofs in Proofs/Robust*.v (and Proofs/LoaderProofs.v of C11).

   What is proved here is the LOGIC CORE of the property on the model Robust/Bus.v
   (message loader composed with the transport phases, the connection table and an
   abstract handshake automaton / bus core), for every history, every schedule and
   every instantiation of handshake and core.  What a theorem about a model cannot
   show — absence of crashes, memory errors, assertion failures and spinning in the
   C daemon, bounded latency — is explored by tools/props/c10.py and is NOT claimed
   here. *)
From DV Require Import Lib.Base Gen.Tables Wire.Message Proofs.LoaderProofs Auth.Types Auth.Server Robust.Bus Robust.Env Robust.Mini Spec.RobustSpec
  Proofs.RobustBase Proofs.RobustInv Proofs.RobustIso Proofs.RobustRefine Proofs.RobustEnv Proofs.RobustClose Robust.Watch Proofs.RobustWatch.
Local Open Scope N_scope.

Section Generic.
  Context {A S O : Type}.
  Variable P : ops A S O.      (* any handshake automaton, any bus core *)
  Variable cf : cfg.           (* any limits *)

  (* 1. "A client that sends an invalid message is disconnected, and nothing of that
        message becomes visible to any other client."  The step in which the loader
        finds c's stream invalid does exactly this: dispatch the messages that were
        complete and valid before the invalid one, run bus_connection_disconnected for
        c, take c's entry (and only c's) out of the table.  The invalid bytes are an
        argument of nothing. *)
  Theorem C10_invalid_disconnects_sender_only : forall (st : state A S) c d w x,
    find_conn (s_conns st) c = Some x -> c_phase x = PMsg ->
    l_corrupted (feed (c_loader x) d 0) = true ->
    exists k1 o1 act cl k2 o2,
      dispatch_all P (s_core st) c (c_active x) (l_msgs (feed (c_loader x) d 0)) = (k1, o1, act, cl) /\
      o_disconnect P k1 c act = (k2, o2) /\
      step P cf st (ERead c d w) =
        (mkSt (s_now st) (remove_conn (s_conns st) c) k2, map OCore o1 ++ map OCore o2 ++ [OGone c]).
  Proof. exact (invalid_disconnects_sender_only P cf). Qed.

  Theorem C10_invalid_sender_gone_others_untouched : forall (st : state A S) c d w x,
    find_conn (s_conns st) c = Some x -> c_phase x = PMsg -> l_corrupted (feed (c_loader x) d 0) = true ->
    let st' := fst (step P cf st (ERead c d w)) in
    find_conn (s_conns st') c = None /\
    (forall e, e <> c -> find_conn (s_conns st') e = find_conn (s_conns st) e) /\
    s_now st' = s_now st /\
    In (OGone c) (snd (step P cf st (ERead c d w))).
  Proof. exact (invalid_sender_gone P cf). Qed.

  (* 2. "... (nor anything after it)".  Bus level: once the invalid stream has been
        detected, whatever c still sends is ignored. *)
  Theorem C10_nothing_after_corruption : forall (st : state A S) c d w x h2,
    find_conn (s_conns st) c = Some x -> c_phase x = PMsg -> l_corrupted (feed (c_loader x) d 0) = true -> no_accept c h2 ->
    let st' := fst (step P cf st (ERead c d w)) in
    run P cf st' h2 = run P cf st' (strip c h2).
  Proof. exact (nothing_after_corruption P cf). Qed.

  (*    and the step sees the bytes only through the loader's outcome: two streams with
        the same valid prefix are indistinguishable, whatever their invalid parts are *)
  Theorem C10_invalid_bytes_invisible : forall (st : state A S) c x d1 d2 w1 w2,
    find_conn (s_conns st) c = Some x -> c_phase x = PMsg ->
    outcome (feed (c_loader x) d1 0) = outcome (feed (c_loader x) d2 0) ->
    l_corrupted (feed (c_loader x) d1 0) = true ->
    step P cf st (ERead c d1 w1) = step P cf st (ERead c d2 w2).
  Proof. exact (same_outcome_same_step P cf). Qed.

  (* 3. Isolation, byte level, unconditional: for every history h1, every hostile chunk d
        that makes c's stream invalid and every continuation h2 (in which the identity c is
        not given to a new connection), the bus ends in the same state and has produced
        the same outputs — to everybody — as in the history in which c sent only the
        valid message prefix of d and then disconnected.  ("The valid prefix of d can be
        loaded on its own" rests on Proofs/LoadLocal.v: locality of load_message under the
        framing decision of have_message; the earlier hypothesis load_local was refuted
        there and is not used any more.) *)
  Theorem C10_isolation_bytes : forall (k : S) h1 c d w x h2,
      let st := fst (run P cf (init k) h1) in
      find_conn (s_conns st) c = Some x -> c_phase x = PMsg ->
      l_corrupted (feed (c_loader x) d 0) = true -> no_accept c h2 ->
      run P cf (init k) (h1 ++ ERead c d w :: h2) =
      run P cf (init k) (h1 ++ ERead c (valid_prefix (c_loader x) d) w :: EEof c :: strip c h2).
  Proof. exact (isolation P cf). Qed.

  (*    what "valid prefix" means: a prefix of d after which the loader has produced the same
        messages and is not corrupted *)
  Theorem C10_valid_prefix : forall l d, at_rest l ->
    (exists rest, d = valid_prefix l d ++ rest) /\
    l_msgs (feed l (valid_prefix l d) 0) = l_msgs (feed l d 0) /\ l_corrupted (feed l (valid_prefix l d) 0) = false.
  Proof. intros l d H. split; [apply valid_prefix_is_prefix | apply valid_prefix_feed; exact H]. Qed.

  (*    Message-level form: on every history the model's outputs and
        final state are those of the ideal bus of Spec/RobustSpec.v, whose inputs are
        messages (plus, at most, the bare fact "this stream is no longer valid"). *)
  Theorem C10_isolation : forall (k : S) h,
    irun P cf (abs_state (init k)) (abstract P cf (init k) h) =
    (abs_state (fst (run P cf (init k) h)), snd (run P cf (init k) h)).
  Proof. intros k h. exact (run_refines P cf (init k) h (Inv_init cf k)). Qed.

  (*    before authentication, a client's bytes never reach the core at all *)
  Theorem C10_preauth_silent : forall (st : state A S) c d w x,
    find_conn (s_conns st) c = Some x -> unauthenticated x = true ->
    (forall a, c_phase x = PAuth a -> match snd (o_auth_feed P a d) with ADone _ => False | _ => True end) ->
    (c_phase x = PCred -> match d with b :: rest => b =? 0 = true -> match snd (o_auth_feed P (o_auth_init P) rest) with ADone _ => False | _ => True end | [] => True end) ->
    let '(st', o) := step P cf st (ERead c d w) in
    own_only P c (s_core st) (s_core st') o.
  Proof. exact (preauth_silent P cf). Qed.

  (* 4. Unauthenticated / unregistered connections are bounded in number and in time, in
        every reachable state; the listening sockets are not served while the table is
        full; the assertion in bus_connections_setup_connection cannot fail. *)
  Theorem C10_incomplete_bounded : forall (k : S) h,
    let st := fst (run P cf (init k) h) in
    n_incomplete st <= max_incomplete cf /\
    forall x, In x (s_conns st) -> c_active x = false -> s_now st - c_since x < auth_timeout cf.
  Proof. exact (incomplete_bounded P cf). Qed.

  Theorem C10_accept_gate : forall (st : state A S) c,
    max_incomplete cf <= n_incomplete st -> step P cf st (EAccept c) = (st, [ORefused c]).
  Proof. exact (accept_gate P cf). Qed.

  Theorem C10_setup_assertion_holds : forall (k : S) h c,
    let st := fst (run P cf (init k) h) in
    n_incomplete (fst (step P cf st (EAccept c))) <= max_incomplete cf.
  Proof. exact (setup_assertion_holds P cf). Qed.

  (*    timed: a tick drops exactly the connections that have not registered within auth_timeout —
        never a registered one, never a younger one *)
  Theorem C10_expiry_exact : forall (st : state A S) d, Inv cf st ->
    s_conns (fst (step P cf st (ETick d))) =
    filter (fun x => c_active x || (s_now st + d - c_since x <? auth_timeout cf)) (s_conns st).
  Proof. exact (tick_exact P cf). Qed.

  (* 5. the correspondence run's environment performs steps of this model only *)
  Theorem C10_env_run_is_run : forall (es : estate (A:=A) (S:=S)) h,
    record_of P cf (e_bus es) (e_bus (fst (env_run P cf es h))) (concat (snd (env_run P cf es h))).
  Proof. exact (env_run_is_run P cf). Qed.
End Generic.

(* 6. Teardown (extracted instance; bus_connection_disconnected in its C order: match rules,
      names last-acquired-first, monitors, completed list / per-uid count, pending replies).
      CLEANUP: afterwards no table of the bus mentions the connection — pending replies on either
      side (a call it made to itself included), monitors, the completed list, unique names,
      services_owned records, match rules, and (in every reachable state, where services_owned
      covers the queues) no owner queue of any name. *)
Theorem C10_close_cleans_up : forall (k : mstate) c active,
  let k' := fst (mini_disconnect k c active) in
  (forall p, In p (m_pend k') -> fst (fst p) <> c /\ snd (fst p) <> c) /\
  ~ In c (m_mons k') /\
  ~ In c (m_completed k') /\
  (forall p, In p (m_uniq k') -> fst p <> c) /\
  (forall p, In p (m_acq k') -> fst p <> c) /\
  (forall p, In p (m_rules k') -> fst p <> c) /\
  (owned_covers k -> forall n, ~ In c (queue_of (m_names k') n)).
Proof. exact disconnect_cleans_up. Qed.

(*    the premise of the last item holds in every state the bus can reach *)
Theorem C10_owned_covers_reachable : forall uid cf base mu mr h,
  owned_covers (s_core (fst (run (mini_ops uid) cf (init (mini_core base mu mr)) h))).
Proof. exact reachable_covers. Qed.

(*    the slot in n_completed / the per-uid count that bus_connections_check_limits reads is released *)
Theorem C10_close_releases_slot : forall (k : mstate) c active,
  In c (m_completed k) -> NoDup (m_completed k) -> n_users (fst (mini_disconnect k c active)) + 1 = n_users k.
Proof. exact disconnect_releases_slot. Qed.

(*    FRAME: every other connection keeps its unique name, rules, records, list memberships, pending
      replies not involving c, and its place in every queue *)
Theorem C10_close_frame : forall (k : mstate) c active,
  let k' := fst (mini_disconnect k c active) in
  (forall p, fst p <> c -> (In p (m_uniq k') <-> In p (m_uniq k))) /\
  (forall p, fst p <> c -> (In p (m_rules k') <-> In p (m_rules k))) /\
  (forall p, fst p <> c -> (In p (m_acq k') <-> In p (m_acq k))) /\
  (forall d, d <> c -> (In d (m_mons k') <-> In d (m_mons k)) /\ (In d (m_completed k') <-> In d (m_completed k))) /\
  (forall p, fst (fst p) <> c -> snd (fst p) <> c -> (In p (m_pend k') <-> In p (m_pend k))) /\
  (forall n, filter (not_c c) (queue_of (m_names k') n) = filter (not_c c) (queue_of (m_names k) n)) /\
  m_next k' = m_next k /\ m_maxuser k' = m_maxuser k /\ m_maxrules k' = m_maxrules k /\ m_baseusers k' = m_baseusers k.
Proof. exact disconnect_frame. Qed.

(*    OUTPUTS: nothing is said but NameOwnerChanged of names c headed, the departure of c's unique name,
      and NoReply to a DIFFERENT connection that really had a call outstanding to c *)
Theorem C10_close_outputs_prescribed : forall (k : mstate) c active x, In x (snd (mini_disconnect k c active)) ->
  (exists n new, x = (MON, Noc n c new)) \/ x = (MON, Bye c) \/
  (exists a s, x = (MON, NoReply a s) /\ a <> c /\ In (a, c, s) (m_pend k)).
Proof. exact disconnect_outputs_prescribed. Qed.

Theorem C10_no_error_to_departed : forall (k : mstate) c active to s,
  In (MON, NoReply to s) (snd (mini_disconnect k c active)) -> to <> c /\ In (to, c, s) (m_pend k).
Proof. exact no_error_to_departed. Qed.

(* 7. Pending activations.  What the C does: the entry of a requester that disconnects STAYS in the pending
      activation and is skipped, when the outcome arrives, because its connection is no longer connected.  So:
      a failing activation (child exited, start timeout) answers only requesters that are still connected, hence
      never a connection that has been torn down, whenever the timers fire; likewise the success reply. *)
Theorem C10_activation_failure_only_to_connected : forall (k : mstate) d c s,
  In (MON, ActFail c s) (snd (mini_tick k d)) -> In c (m_completed k).
Proof. exact activation_failure_only_to_connected. Qed.

Theorem C10_no_activation_error_to_departed : forall (k : mstate) c active d s,
  ~ In (MON, ActFail c s) (snd (mini_tick (fst (mini_disconnect k c active)) d)).
Proof. exact no_activation_error_to_departed. Qed.

Theorem C10_activation_success_only_to_connected : forall (k : mstate) c a m w s,
  In (MON, ActOk w s) (snd (fst (mini_dispatch k c a m))) -> In w (m_completed k).
Proof. exact activation_success_only_to_connected. Qed.

(* 8. "... makes the bus ... spin": the main loop's watch / poll-set logic (refresh_watches_for_fd, the epoll set,
      the per-descriptor part of _dbus_loop_iterate; model Robust/Watch.v, run against the C by harness/c/robust_h.c).
      A descriptor on which no watch is enabled — e.g. a connection the bus has stopped reading from
      (max_incoming_bytes reached) and has nothing to write to — is armed edge-triggered without events: its peer
      hanging up can end at most ONE iteration early, never a later one, and readable data never wakes the loop. *)
Theorem C10_no_watch_bounded_wakeup : forall ws ready, existsb active ws = false ->
  iterate ws ready false = (false, 0) /\
  (N.land ready (N.lor W_ERROR W_HANGUP) = 0 -> iterate ws ready true = (false, 0)).
Proof. exact no_watch_bounded_wakeup. Qed.

(*    and whenever a watched descriptor wakes the loop, at least one handler runs on it: every iteration either
      sleeps, or does work, or is that single spurious wake-up *)
Theorem C10_no_spin : forall ws ready first,
  fst (iterate ws ready first) = false \/ 1 <= snd (iterate ws ready first) \/ (first = true /\ existsb active ws = false).
Proof. exact no_spin. Qed.

(*    the variant that registers an empty level-triggered mask instead (seeded defect C10_4; the comment in
      socket_set_epoll_disable warns against it) wakes up for ever with no handler to run *)
Example ex_naive_spins : forall first, iterate_naive [mkWatch false false W_READABLE] (W_READABLE + W_WRITABLE + W_HANGUP) first = (true, 0).
Proof. intros [|]; vm_compute; reflexivity. Qed.
Example ex_faithful_sleeps : iterate [mkWatch false false W_READABLE] (W_READABLE + W_WRITABLE + W_HANGUP) false = (false, 0).
Proof. vm_compute. reflexivity. Qed.

(* loader level (C11): after corruption no message is ever produced again *)
Theorem C10_loader_nothing_after_corruption : forall l chunks, l_corrupted l = true -> outcome (feed_all l chunks) = outcome l.
Proof. exact corruption_is_final. Qed.

Print Assumptions C10_invalid_disconnects_sender_only.
Print Assumptions C10_invalid_sender_gone_others_untouched.
Print Assumptions C10_nothing_after_corruption.
Print Assumptions C10_invalid_bytes_invisible.
Print Assumptions C10_isolation_bytes.
Print Assumptions C10_valid_prefix.
Print Assumptions C10_isolation.
Print Assumptions C10_preauth_silent.
Print Assumptions C10_incomplete_bounded.
Print Assumptions C10_accept_gate.
Print Assumptions C10_setup_assertion_holds.
Print Assumptions C10_env_run_is_run.
Print Assumptions C10_loader_nothing_after_corruption.
Print Assumptions C10_close_cleans_up.
Print Assumptions C10_owned_covers_reachable.
Print Assumptions C10_close_releases_slot.
Print Assumptions C10_close_frame.
Print Assumptions C10_close_outputs_prescribed.
Print Assumptions C10_expiry_exact.
Print Assumptions C10_activation_failure_only_to_connected.
Print Assumptions C10_no_activation_error_to_departed.
Print Assumptions C10_activation_success_only_to_connected.
Print Assumptions C10_no_watch_bounded_wakeup.
Print Assumptions C10_no_spin.
Print Assumptions C10_no_error_to_departed.

(* ---- non-vacuity: the extracted instance on a concrete attack ------------------- *)
Definition ex_auth : bytes := [0; 65; 85; 84; 72; 32; 69; 88; 84; 69; 82; 78; 65; 76; 32; 51; 48; 13; 10; 66; 69; 71; 73; 78; 13; 10].
Definition ex_hello : bytes :=
  [108; 1; 0; 1; 0; 0; 0; 0; 2; 0; 0; 0; 61; 0; 0; 0; 1; 1; 111; 0; 1; 0; 0; 0; 47; 0; 0; 0; 0; 0; 0; 0; 3; 1; 115; 0; 5; 0; 0; 0; 72; 101; 108; 108; 111; 0; 0; 0;
   6; 1; 115; 0; 20; 0; 0; 0; 111; 114; 103; 46; 102; 114; 101; 101; 100; 101; 115; 107; 116; 111; 112; 46; 68; 66; 117; 115; 0; 0; 0; 0].
Definition ex_signal : bytes :=
  [108; 4; 0; 1; 0; 0; 0; 0; 1; 0; 0; 0; 42; 0; 0; 0; 1; 1; 111; 0; 2; 0; 0; 0; 47; 97; 0; 0; 0; 0; 0; 0; 2; 1; 115; 0; 3; 0; 0; 0; 97; 46; 98; 0; 0; 0; 0; 0;
   3; 1; 115; 0; 1; 0; 0; 0; 83; 0; 0; 0; 0; 0; 0; 0].
Definition ex_bad : bytes := 76 :: tl ex_signal.          (* first byte 'L': not a byte-order mark *)
Definition ex_cfg : cfg := mkCfg 4 30000 32768.

(* valid, INVALID, valid in one read: one Seen for the Hello, Hi, one Seen for the first
   signal, then Bye and Gone; the third message is never dispatched *)
Example ex_attack :
  map (fun o => match o with OCore (_, Seen _ _) => 1 | OCore (_, Hi _) => 2 | OCore (_, Bye _) => 3 | OGone _ => 4 | OAuth _ _ => 5 | OCore (_, NoReply _ _) => 7 | _ => 6 end)
      (concat (mini_run 0 ex_cfg [EAccept 1; ERead 1 ex_auth true; ERead 1 (ex_hello ++ ex_signal ++ ex_bad ++ ex_signal) true]))
  = [5; 1; 2; 1; 3; 4].
Proof. vm_compute. reflexivity. Qed.

(* the hypotheses of the isolation theorem are satisfiable, and the valid prefix is what one expects *)
Definition is_pmsg {A} (x : conn A) : bool := match c_phase x with PMsg => true | _ => false end.
Definition ex_state : state auth mstate := fst (run (mini_ops 0) ex_cfg mini_init [EAccept 1; ERead 1 ex_auth true; ERead 1 ex_hello true]).
Example ex_iso_hyp :
  match find_conn (s_conns ex_state) 1 with
  | Some x => is_pmsg x = true /\
              l_corrupted (feed (c_loader x) (ex_signal ++ ex_bad ++ ex_signal) 0) = true /\
              valid_prefix (c_loader x) (ex_signal ++ ex_bad ++ ex_signal) = ex_signal
  | None => False
  end.
Proof. vm_compute. repeat split. Qed.

(* the same with the invalid message split across two reads: its first 10 bytes stay in the loader *)
Example ex_iso_partial :
  match find_conn (s_conns (fst (step (mini_ops 0) ex_cfg ex_state (ERead 1 (firstn 10 ex_bad) true)))) 1 with
  | Some x => l_corrupted (feed (c_loader x) (skipn 10 ex_bad) 0) = true /\
              valid_prefix (c_loader x) (skipn 10 ex_bad) = []
  | None => False
  end.
Proof. vm_compute. repeat split. Qed.

(* the accept gate and the expiry on the instance: 4 connections fill the table, the 5th is refused;
   after auth_timeout all are gone and the 5th gets in *)
Example ex_gate :
  map (map (fun o : out mout => match o with ORefused c => 100 + c | OGone c => c | _ => 0 end))
      (mini_run 0 (mkCfg 4 1000 32768) [EAccept 1; EAccept 2; EAccept 3; EAccept 4; EAccept 5; ETick 999; ETick 1; EAccept 5])
  = [[]; []; []; []; [105]; []; [1; 2; 3; 4]; []].
Proof. vm_compute. reflexivity. Qed.
