(* C10 — placeholder while the correspondence is being established. *)
From DV Require Import Lib.Base Wire.Message Robust.Bus Robust.Env Robust.Mini.
