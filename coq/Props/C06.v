(* C06 — security policy decisions equal the documented rule semantics.
   Only theorem statements closed by [exact]; proofs live in Proofs/PolicyProofs.v
   and Proofs/PolicyBusProofs.v.  Model: Policy/Policy.v (bus/policy.c, attribute
   mapping of bus/config-parser.c) and Policy/PolicyBus.v (the gate and its
   callers).  Specification: Spec/PolicySpec.v (dbus-daemon(1)). *)
From DV Require Import Lib.Base Gen.Tables Gen.PolicyTables Wire.Names Policy.Policy Policy.PolicyConfig Policy.PolicyBus
     Spec.PolicySpec Spec.PolicyConfigSpec Proofs.PolicyProofs Proofs.PolicyConfigProofs Proofs.PolicyBusProofs.
Local Open Scope N_scope.

(* ---- 1. last matching rule decides, nothing allowed by default, every attribute as documented ----------------
   for ALL rule lists, messages, requested/eavesdropping situations and registries (names unique, as in BusRegistry;
   fd count within the protocol limit, as the message loader guarantees).  [dev_code] = the manual page with the three
   deviations D1-D3 of Spec/PolicySpec.v switched on. *)
Theorem C06_send_last_match :
  forall rules rr eav recv reg m, reg_wf reg -> msg_wf m = true ->
    check_can_send rules rr recv reg m = spec_can_send dev_code rules (mkSendCtx rr eav recv reg) m.
Proof. exact send_last_match. Qed.
Print Assumptions C06_send_last_match.

Theorem C06_receive_last_match :
  forall rules reg rr snd addressed proposed m, reg_wf reg -> msg_wf m = true ->
    check_can_receive rules reg rr snd addressed proposed m =
    spec_can_receive dev_code rules (mkRecvCtx rr (is_eavesdropping addressed proposed m) snd reg) m.
Proof. exact receive_last_match. Qed.
Print Assumptions C06_receive_last_match.

(* own / own_prefix: no fault and the documented decision, for rule lists as the parser produces them *)
Theorem C06_own_last_match :
  forall rules name, forallb rule_wf rules = true -> check_can_own rules name = Some (spec_can_own rules name).
Proof. exact own_last_match. Qed.
Print Assumptions C06_own_last_match.

(* The full statement against the LITERAL manual page, which the faithful model does not meet (findings C06-D1..D3). *)
Definition C06_literal_full_statement : Prop :=
  forall rules rr eav recv reg m, reg_wf reg -> msg_wf m = true ->
    check_can_send rules rr recv reg m = spec_can_send dev_none rules (mkSendCtx rr eav recv reg) m.

(* proved part: outside three explicit classes -- a REPLY_SERIAL field on a non-reply (or none on a reply), an <allow>
   rule that combines eavesdrop="true" with requested_reply="true", a send rule whose eavesdrop modifier matters for
   the situation -- code and literal page agree *)
Theorem C06_send_literal_partial :
  forall rules rr eav recv reg m, reg_wf reg -> msg_wf m = true ->
    send_literal_class rules (mkSendCtx rr eav recv reg) m = true ->
    check_can_send rules rr recv reg m = spec_can_send dev_none rules (mkSendCtx rr eav recv reg) m.
Proof. exact send_literal. Qed.
Print Assumptions C06_send_literal_partial.

Theorem C06_receive_literal_partial :
  forall rules reg rr snd addressed proposed m, reg_wf reg -> msg_wf m = true ->
    recv_literal_class rules m = true ->
    check_can_receive rules reg rr snd addressed proposed m =
    spec_can_receive dev_none rules (mkRecvCtx rr (is_eavesdropping addressed proposed m) snd reg) m.
Proof. exact recv_literal. Qed.
Print Assumptions C06_receive_literal_partial.

(* one witness per deviation (replayed on the real code by tools/props/c06.py: corpus/C06/d*.json) *)
Theorem C06_literal_refuted :
  check_can_send [w_allow_send] false None [] (w_msg 1 (Some [97; 46; 98]) 5) <> spec_can_send dev_none [w_allow_send] w_ctx (w_msg 1 (Some [97; 46; 98]) 5) /\
  check_can_send [w_allow_send_eav] false None [] (w_msg 2 (Some [97; 46; 98]) 5) <> spec_can_send dev_none [w_allow_send_eav] w_ctx (w_msg 2 (Some [97; 46; 98]) 5) /\
  check_can_send [w_allow_send; w_deny_send_eav] false None [] (w_msg 1 (Some [97; 46; 98]) 0) <>
  spec_can_send dev_none [w_allow_send; w_deny_send_eav] w_ctx (w_msg 1 (Some [97; 46; 98]) 0).
Proof. exact literal_refuted. Qed.
Print Assumptions C06_literal_refuted.

(* ---- 2. context order: default, groups, user, console, mandatory; same context in file order ------------------ *)
Theorem C06_context_order :
  forall cfg uid gids atc, client_rules (policy_of_cfg cfg) uid gids atc = spec_client_rules cfg uid gids atc.
Proof. exact context_order. Qed.
Print Assumptions C06_context_order.

(* ---- 3. pruning of shadowed rules must not change any decision ------------------------------------------------ *)
(* The full statement, REFUTED on the unchanged tree (finding F3). *)
Definition C06_optimize_sound_full_statement : Prop := forall rules, same_decisions (optimize rules) rules.

Theorem C06_optimize_sound_refuted :
  optimizer_condition_ok = false ->   (* true by computation on the unchanged tree: see [C06_optimizer_status] *)
  exists rules rr recv reg m, msg_wf m = true /\ check_can_send (optimize rules) rr recv reg m <> check_can_send rules rr recv reg m.
Proof. exact optimize_sound_refuted. Qed.
Print Assumptions C06_optimize_sound_refuted.

(* proved part: rule lists in which every rule the C condition takes for a catch-all really is universal *)
Theorem C06_optimize_sound_partial :
  forall rules, (forall r, In r rules -> catch_all_c r = true -> universal r = true) -> same_decisions (optimize rules) rules.
Proof. exact optimize_partial. Qed.
Print Assumptions C06_optimize_sound_partial.

(* the corrected condition ([universal]: additionally broadcast = ANY, full fd range, modifiers that make the rule apply
   to every reply / whether or not eavesdropping) makes the optimiser sound for ALL rule lists: this is the small fix *)
Theorem C06_optimize_fixed_sound : forall rules, same_decisions (optimize_with universal rules) rules.
Proof. exact optimize_fixed. Qed.
Print Assumptions C06_optimize_fixed_sound.

(* and the optimiser of the C tree is sound as soon as the condition regenerated from bus/policy.c implies [universal] *)
Theorem C06_optimize_sound_if_condition_ok :
  optimizer_condition_ok = true -> forall rules, forallb rule_wf rules = true -> same_decisions (optimize rules) rules.
Proof. exact optimize_if_condition_ok. Qed.
Print Assumptions C06_optimize_sound_if_condition_ok.

(* the rule list a connection really gets decides like the manual page applied to the documented order *)
Theorem C06_client_policy_partial :
  forall cfg uid gids atc,
    (forall r, In r (spec_client_rules cfg uid gids atc) -> catch_all_c r = true -> universal r = true) ->
    forall reg m, reg_wf reg -> msg_wf m = true ->
      (forall rr eav recv,
          check_can_send (create_client_policy (policy_of_cfg cfg) uid gids atc) rr recv reg m =
          spec_can_send dev_code (spec_client_rules cfg uid gids atc) (mkSendCtx rr eav recv reg) m) /\
      (forall rr snd addressed proposed,
          check_can_receive (create_client_policy (policy_of_cfg cfg) uid gids atc) reg rr snd addressed proposed m =
          spec_can_receive dev_code (spec_client_rules cfg uid gids atc) (mkRecvCtx rr (is_eavesdropping addressed proposed m) snd reg) m) /\
      (forallb rule_wf (spec_client_rules cfg uid gids atc) = true ->
       forall name, check_can_own (create_client_policy (policy_of_cfg cfg) uid gids atc) name =
                    Some (spec_can_own (spec_client_rules cfg uid gids atc) name)).
Proof. exact client_policy_partial. Qed.
Print Assumptions C06_client_policy_partial.

(* ---- 4. the bus: denied messages and denied name requests ----------------------------------------------------- *)
(* a message refused for its addressed recipient reaches nobody (no eavesdropper either); the only possible output is
   the AccessDenied error to the sender *)
Theorem C06_denied_not_delivered :
  forall b s a m, verdict_ok (fst (gate b (Some s) (Some a) (Some a) m)) = false ->
    forall c w, In (c, w) (snd (dispatch_matches b s (Some a) m)) -> c = s /\ w = WError DBUS_ERROR_ACCESS_DENIED_str.
Proof. exact denied_not_delivered. Qed.
Print Assumptions C06_denied_not_delivered.

(* send rules are checked for the sender and receive rules for each recipient: every delivered copy was permitted by both *)
Theorem C06_delivered_only_if_permitted :
  forall b s addressed m c, In (c, WProbe) (snd (dispatch_matches b s addressed m)) ->
    exists rr, check_can_send (rules_of b s) rr (Some c) (b_reg b) m = true /\
               check_can_receive (rules_of b c) (b_reg b) rr (Some s) addressed (Some c) m = true.
Proof. exact delivered_only_if_permitted. Qed.
Print Assumptions C06_delivered_only_if_permitted.

Theorem C06_denied_broadcast_not_delivered :
  forall b s m c, verdict_ok (fst (gate b (Some s) None (Some c) m)) = false -> ~ In (c, WProbe) (snd (dispatch_matches b s None m)).
Proof. exact denied_broadcast_not_delivered. Qed.
Print Assumptions C06_denied_broadcast_not_delivered.

(* "a denied method call earns its sender an AccessDenied error": full statement = [C06_denied_call_full_statement]
   (Proofs/PolicyBusProofs.v); it fails when the sender's own receive rules do not admit the error reply *)
Theorem C06_denied_call_gets_access_denied_partial :
  forall e b s m arg d addr,
    is_live b s -> m_dest m = Some d -> addressed_of b d = Some addr ->
    verdict_ok (fst (gate b (Some s) addr addr m)) = false ->
    exists b1, b_reg b1 = b_reg b /\ b_conns b1 = b_conns b /\
      do_send e b s m arg = Done b1 (if sender_admits_error b1 s m then [(s, WError DBUS_ERROR_ACCESS_DENIED_str)] else []).
Proof. exact denied_call_gets_access_denied_partial. Qed.
Print Assumptions C06_denied_call_gets_access_denied_partial.

Theorem C06_denied_call_refuted : ~ C06_denied_call_full_statement.
Proof. exact denied_call_refuted. Qed.
Print Assumptions C06_denied_call_refuted.

(* a RequestName refused by the own rules changes no ownership and produces nothing but an error for the caller *)
Theorem C06_denied_own_changes_nothing :
  forall e b s m arg b1 out,
    do_send e b s m arg = Done b1 out ->
    m_dest m = Some DBUS_SERVICE_DBUS_str -> m_type m = DBUS_MESSAGE_TYPE_METHOD_CALL -> obytes_is (m_member m) s_RequestName = true ->
    check_can_own (rules_of b s) arg = Some false ->
    b_reg b1 = b_reg b /\ forall c w, In (c, w) out -> c = s /\ exists e, w = WError e.
Proof. exact denied_own_changes_nothing. Qed.
Print Assumptions C06_denied_own_changes_nothing.

(* ---- 5. construction of the policy: trees of configuration files, admission, reload --------------------------- *)
(* For EVERY tree of configuration files (<include>, <includedir>, any nesting, absent / unreadable / circular targets,
   several <policy> sections of every context): if the daemon loads it, the policy it has built gives every connection
   exactly the rule list that the manual page's context order gives on the TEXTUAL INCLUSION [denote] of the tree
   (bus_policy_merge, merge_id_hash, append_copy_of_policy_list are order-preserving appends) ... *)
Theorem C06_config_tree_order :
  forall ru rg its p, load_config ru rg its = LOk p ->
    exists cfg, denote ru rg true its = DOk cfg /\
      forall uid gids atc, client_rules p uid gids atc = spec_client_rules (cfg_rules ru rg cfg) uid gids atc.
Proof. exact config_tree_order. Qed.
Print Assumptions C06_config_tree_order.

(* ... and it refuses to load exactly the trees whose denotation is fatal, with the same kind of error *)
Theorem C06_config_tree_fatal :
  forall ru rg its a, denote ru rg true its = DFatal a <-> load_config ru rg its = LErr a.
Proof. exact config_tree_fatal. Qed.
Print Assumptions C06_config_tree_fatal.

(* against the literal page ([denote _ _ false]): equal unless an <include ignore_missing="yes"> names an EXISTING file whose
   loading fails with file-not-found from further down (D4) *)
Definition C06_include_literal_full_statement : Prop :=
  forall ru rg its, denote ru rg true its = denote ru rg false its.

Theorem C06_include_literal_partial :
  forall ru rg its, no_swallow ru rg its = true -> denote ru rg true its = denote ru rg false its.
Proof. intros ru rg. exact (proj1 (literal_include_partial ru rg)). Qed.
Print Assumptions C06_include_literal_partial.

Theorem C06_include_literal_refuted :
  load_config (fun _ => None) (fun _ => None) w_tree_d4 = LOk policy_empty /\
  denote (fun _ => None) (fun _ => None) false w_tree_d4 = DFatal true.
Proof. exact literal_include_refuted. Qed.
Print Assumptions C06_include_literal_refuted.

(* user= / group= rules: the loaded policy admits a connection exactly when the last matching rule of the default contexts
   followed by the mandatory contexts (of the textual inclusion) allows it; default: the owner of the daemon *)
Theorem C06_admission :
  forall ru rg its p owner uid dbg, load_config ru rg its = LOk p ->
    exists cfg, denote ru rg true its = DOk cfg /\ allow_unix_user p owner uid dbg = spec_admit ru rg cfg owner uid dbg.
Proof. exact admission_spec. Qed.
Print Assumptions C06_admission.

Theorem C06_connect_refused :
  forall e b uid gids atc dbg hs,
    allow_unix_user (b_policy b) (uid =? e_owner e) uid dbg = false ->
    exists b1, do_connect e b uid gids atc dbg hs = Done b1 [(N.of_nat (length (b_conns b)), WRefused)] /\
               b_policy b1 = b_policy b /\ b_reg b1 = b_reg b /\ b_pending b1 = b_pending b /\ b_next b1 = b_next b /\
               (forall i c, get_conn b i = Some c -> get_conn b1 i = Some c).
Proof. exact connect_refused. Qed.
Print Assumptions C06_connect_refused.

(* reload (ReloadConfig): the asking message is judged by the old policy; a tree that does not load changes nothing; a
   tree that loads replaces the bus-wide policy and rebuilds every live connection's rule list -- and nothing else *)
Theorem C06_reload_judged_by_old_policy :
  forall e b s m arg, is_live b s -> m_dest m = Some DBUS_SERVICE_DBUS_str ->
    verdict_ok (fst (gate b (Some s) None None m)) = false ->
    exists b1 out, do_send e b s m arg = Done b1 out /\ b_policy b1 = b_policy b /\ b_conns b1 = b_conns b.
Proof. exact reload_judged_by_old_policy. Qed.
Print Assumptions C06_reload_judged_by_old_policy.

Theorem C06_reload_failed :
  forall e b s m a, load_config (e_ru e) (e_rg e) (b_files b) = LErr a -> exists out, do_reload e b s m = HErr b out.
Proof. exact reload_failed. Qed.
Print Assumptions C06_reload_failed.

Theorem C06_reload_effect :
  forall e b s m p, load_config (e_ru e) (e_rg e) (b_files b) = LOk p ->
    (exists out, do_reload e b s m = HOk (reloaded e b p) out) /\
    b_reg (reloaded e b p) = b_reg b /\ b_pending (reloaded e b p) = b_pending b /\
    forall i c, get_conn b i = Some c ->
      exists c', get_conn (reloaded e b p) i = Some c' /\
        c_alive c' = c_alive c /\ c_name c' = c_name c /\ c_sig c' = c_sig c /\ c_eav c' = c_eav c /\
        c_uid c' = c_uid c /\ c_gids c' = c_gids c /\
        (c_alive c = true -> c_rules c' = e_mk e p (c_uid c) (c_gids c) (c_atc c)).
Proof. exact reload_effect. Qed.
Print Assumptions C06_reload_effect.

(* from the next message on every live connection decides by the manual page applied to the NEW tree *)
Theorem C06_reload_decides_by_new_config :
  forall ru rg b p i c,
    load_config ru rg (b_files b) = LOk p -> get_conn b i = Some c -> c_alive c = true ->
    exists cfg, denote ru rg true (b_files b) = DOk cfg /\
      forall rules, rules = spec_client_rules (cfg_rules ru rg cfg) (c_uid c) (c_gids c) (c_atc c) ->
      (forall r, In r rules -> catch_all_c r = true -> universal r = true) ->
      forall reg mm, reg_wf reg -> msg_wf mm = true ->
        (forall rr eav recv,
            check_can_send (rules_of (reloaded (daemon_env ru rg) b p) i) rr recv reg mm = spec_can_send dev_code rules (mkSendCtx rr eav recv reg) mm) /\
        (forall rr snd addressed proposed,
            check_can_receive (rules_of (reloaded (daemon_env ru rg) b p) i) reg rr snd addressed proposed mm =
            spec_can_receive dev_code rules (mkRecvCtx rr (is_eavesdropping addressed proposed mm) snd reg) mm).
Proof. exact reload_decides_by_new_config. Qed.
Print Assumptions C06_reload_decides_by_new_config.

(* ---- non-vacuity ------------------------------------------------------------------------------------------- *)
(* the hypotheses of the partial theorems are satisfiable, and by rule lists that decide something *)
Example C06_ex_literal_class :
  send_literal_class [w_allow_send] (mkSendCtx false false None []) (w_msg 1 (Some [97; 46; 98]) 0) = true /\
  check_can_send [w_allow_send] false None [] (w_msg 1 (Some [97; 46; 98]) 0) = true.
Proof. split; vm_compute; reflexivity. Qed.

Example C06_ex_optimize_prunes_soundly :
  let deny_all := mkRule KSend false 0 None None None None None DBUS_MAXIMUM_MESSAGE_UNIX_FDS 0 false true false TAny false in
  universal deny_all = true /\ catch_all_c deny_all = true /\ length (optimize [w_allow_send; deny_all]) = 1%nat.
Proof. repeat split; vm_compute; reflexivity. Qed.

(* Which world are we in?  Either the test regenerated from bus/policy.c is exactly the one finding F3 is about (and then
   it is not sound: the hypothesis of [C06_optimize_sound_refuted] holds), or it implies [universal] (after the fix; then
   [C06_optimize_sound_if_condition_ok] gives soundness for all rule lists).  Any other test -- e.g. a weaker one -- breaks
   this proof. *)
Example C06_optimizer_status :
  (optimizer_condition_ok = false /\ (forall r, catch_all_c r = f3_condition r) /\
   exists r, In r f3_rules /\ catch_all_c r = true /\ universal r = false)
  \/ optimizer_condition_ok = true.
Proof.
  destruct optimizer_condition_ok eqn:E; [right; reflexivity | left].
  first
    [ exfalso; vm_compute in E; discriminate
    | split; [reflexivity|]; split;
      [ intros r; unfold catch_all_c, f3_condition, mask_holds, atom_bcast, atom_minfds, atom_maxfds, atom_reply, atom_eaves,
          atom_noprefix, atom_type, atom_path, atom_iface, atom_member, atom_error;
        destruct (r_kind r); simpl; rewrite ?andb_true_r; reflexivity
      | exists (nth 1 f3_rules w_allow_send); repeat split; vm_compute; auto ] ].
Qed.

Example C06_ex_denied_call :
  verdict_ok (fst (gate w_bus (Some 0) (Some 1) (Some 1) w_call)) = false /\ addressed_of w_bus w_name1 = Some (Some 1).
Proof. split; vm_compute; reflexivity. Qed.

Example C06_ex_context_order :
  spec_client_rules [(CMandatory, [w_deny_send_eav]); (CUser 7, [w_allow_send_eav]); (CDefault, [w_allow_send])] 7 [] false =
  [w_allow_send; w_allow_send_eav; w_deny_send_eav].
Proof. reflexivity. Qed.

(* a tree with a nested include, an includedir with a non-.conf and a broken file, loads and orders rules as documented *)
Definition ex_own (allow : bool) (name : bytes) : bool * attrs :=
  (allow, mkAttrs None None None None None None None None None None None None None None None None None None None (Some name) None None None None).
Definition ex_user_rule (allow : bool) (name : bytes) : bool * attrs :=
  (allow, mkAttrs None None None None None None None None None None None None None None None None None None None None None (Some name) None None).
Definition ex_tree : cfg_items :=
  ICons (IPolicy CDefault [ex_own true [97]; ex_user_rule false [42]])
  (ICons (IInclude false (TFile (ICons (IPolicy CMandatory [ex_own false [98]]) (ICons (IInclude true TMissing) INil))))
  (ICons (IIncludeDir (DCons false (TFile (ICons (IPolicy CDefault [ex_own true [99]]) INil))
                      (DCons true TBroken
                      (DCons true (TFile (ICons (IPolicy CDefault [ex_own true [100]; ex_user_rule true [114]]) INil)) DNil))))
  (ICons (IPolicy (CUser 5) [ex_own true [101]]) INil))).
Definition ex_ru : name_resolver := fun n => if bytes_eqb n [114] then Some 0 else None.

Example C06_ex_tree :
  exists p, load_config ex_ru (fun _ => None) ex_tree = LOk p /\
    map r_name (client_rules p 5 [] false) = [Some [97]; Some [100]; Some [101]; Some [98]] /\
    no_swallow ex_ru (fun _ => None) ex_tree = true /\
    allow_unix_user p false 0 (Some [0]) = true /\ allow_unix_user p true 7 (Some [7]) = false.
Proof. eexists. split; [vm_compute; reflexivity|]. repeat split; vm_compute; reflexivity. Qed.

Example C06_ex_d4_class : no_swallow (fun _ => None) (fun _ => None) w_tree_d4 = false.
Proof. vm_compute. reflexivity. Qed.
