(* C08 -- placeholder while the correspondence is being established *)
From DV Require Import Lib.Base Auth.Types Gen.AuthTables Auth.Server.
