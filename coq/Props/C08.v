(* C08 -- a peer counts as authenticated only after a valid SASL exchange.
   Only theorem statements closed by [exact]; proofs live in Proofs/Auth*.v.
   Model: Auth/Server.v (dbus-auth.c, server side), Auth/Transport.v (the gate in
   dbus-transport.c / dbus-transport-socket.c); specification: Spec/AuthSpec.v.
   Every statement quantifies over the environment [e] (socket credentials,
   allowed mechanisms, keyring, random source, user database, build flavour),
   over all byte chunks / write-out events [evs] and over all lines. *)
From Coq Require Import ZArith.
From DV Require Import Lib.Base Auth.Types Gen.AuthTables Auth.Sha1 Wire.Utf8 Auth.Server Auth.Transport Auth.Keyring Auth.Handover Wire.Message Spec.AuthSpec Spec.KeyringSpec Proofs.AuthKeyring Proofs.LoaderProofs Proofs.LoadLocal Proofs.AuthHandover
  Proofs.AuthInv Proofs.AuthBasics Proofs.AuthShape Proofs.AuthTrace Proofs.AuthChunk Proofs.AuthTransport Proofs.AuthLex Proofs.AuthRefine Proofs.AuthMain.
Local Open Scope N_scope.

(* _dbus_auth_do_work always terminates (the out-of-fuel result of the model never occurs) *)
Theorem C08_do_work_total : forall e a ev, step e a ev <> None.
Proof. exact step_total. Qed.
Print Assumptions C08_do_work_total.

(* In every reachable state: no identity is granted outside WaitingForBegin / Authenticated, and a granted
   identity is exactly the one its mechanism establishes -- EXTERNAL: the uid, pid, gids the kernel reported
   for the socket; DBUS_COOKIE_SHA1: the server owner's uid + the socket's pid; ANONYMOUS: no uid -- for a
   mechanism the server permits. *)
Theorem C08_identity_invariant : forall e evs a, run e auth_init evs = Some a ->
  let c := a_core a in
  (a_state c = WaitingForAuth \/ a_state c = WaitingForData -> get_identity a = creds_empty) /\
  (a_state c = WaitingForBegin \/ a_state c = Authenticated ->
     exists m, a_mech c = Some m /\ permitted e m /\ established e m (get_identity a)).
Proof. exact identity_invariant. Qed.
Print Assumptions C08_identity_invariant.

(* Authenticated only after a completed mechanism followed by BEGIN; the mechanism's success condition
   ([mech_condition]: identity = socket uid / correct SHA-1 of server challenge, client challenge and the
   keyring's cookie / UTF-8 trace); the identity seen afterwards is the one that step established; all bytes
   before the BEGIN line were handshake lines and exactly the bytes after it are handed over. *)
Theorem C08_authenticated_only_after_valid_exchange : forall e evs a,
  run e auth_init evs = Some a -> a_state (a_core a) = Authenticated ->
  exists ls pre okl mid bl post m d,
    fed evs = join_lines ls ++ a_incoming a /\ unused_bytes a = Some (a_incoming a) /\
    ls = pre ++ okl :: mid ++ bl :: post /\
    ok_step e (lrun e core_init pre) okl /\ permitted e m /\
    a_mech (fst (process_line e (lrun e core_init pre) okl)) = Some m /\
    mech_condition e (lrun e core_init pre) m d /\ payload_of okl d /\
    a_state (lrun e core_init (pre ++ okl :: mid)) = WaitingForBegin /\ command_word bl = str_BEGIN /\
    get_identity a = a_authorized (fst (process_line e (lrun e core_init pre) okl)) /\
    established e m (get_identity a).
Proof. exact authenticated_only_after_valid_exchange. Qed.
Print Assumptions C08_authenticated_only_after_valid_exchange.

(* no byte is treated as message data before the conversation ended: the input stream is the processed
   lines followed by what is still buffered, and unused bytes exist only in a final state *)
Theorem C08_no_data_before_begin : forall e evs a, run e auth_init evs = Some a -> is_crashed (a_core a) = false ->
  exists ls, fed evs = join_lines ls ++ a_incoming a /\ (unused_bytes a <> None -> in_end_state (a_core a) = true).
Proof. exact framing. Qed.
Print Assumptions C08_no_data_before_begin.

(* chunking independence: two conversations that were fed the same bytes -- cut into reads in any way, with the
   answers written out at any time -- end in the same protocol state (identity included) with the same unprocessed
   bytes, unless the buffer cap or an abort ended one of them *)
Theorem C08_chunking_independent : forall e evs1 evs2 a1 a2,
  run e auth_init evs1 = Some a1 -> run e auth_init evs2 = Some a2 -> fed evs1 = fed evs2 ->
  a_state (a_core a1) <> NeedDisconnect -> a_state (a_core a1) <> Crashed ->
  a_state (a_core a2) <> NeedDisconnect -> a_state (a_core a2) <> Crashed ->
  a_core a1 = a_core a2 /\ a_incoming a1 = a_incoming a2.
Proof. exact chunking_independent. Qed.
Print Assumptions C08_chunking_independent.

(* every REJECTED is counted, at most max_failures are ever sent, and the last one ends the conversation *)
Theorem C08_bounded_rejections : forall e evs a, run e auth_init evs = Some a ->
  exists ls rs, reach e (fed evs) ls rs a /\
    a_failures (a_core a) = count_rej rs /\ count_rej rs <= max_failures /\
    (count_rej rs = max_failures -> in_end_state (a_core a) = true).
Proof. exact bounded_rejections. Qed.
Print Assumptions C08_bounded_rejections.

(* after each _dbus_auth_do_work: finished, or at most MAX_BUFFER bytes in either buffer and no complete line left *)
Theorem C08_buffer_bound : forall e a ev a', step e a ev = Some a' ->
  in_end_state (a_core a') = true \/
  (nlen (a_incoming a') <= MAX_BUFFER /\ nlen (a_outgoing a') <= MAX_BUFFER /\ find_crlf (a_incoming a') = None).
Proof. exact buffer_bound. Qed.
Print Assumptions C08_buffer_bound.

(* the transport: the flag that gates all message I/O is set only on an Authenticated object with nothing left
   to send whose identity passed the admission rule; before that nothing reaches the message loader; what
   reaches it afterwards is the unused bytes followed by later reads *)
Theorem C08_transport_gate : forall te evs,
  let t := fst (trun te transport_init evs) in
  let consumed := snd (trun te transport_init evs) in
  (tr_authenticated t = true ->
     a_state (a_core (tr_auth t)) = Authenticated /\ a_outgoing (tr_auth t) = [] /\ admission te (get_identity (tr_auth t)) = true) /\
  (tr_authenticated t = false -> tr_loader t = [] /\ tr_recovered t = false) /\
  exists aevs after, run (t_env te) auth_init aevs = Some (tr_auth t) /\ consumed = fed aevs ++ after /\
     (tr_recovered t = false -> after = [] /\ tr_loader t = []) /\
     (tr_recovered t = true -> tr_loader t = a_incoming (tr_auth t) ++ after).
Proof. exact transport_gate. Qed.
Print Assumptions C08_transport_gate.

(* the handshake-to-message boundary (joins this package with the wire loader, Wire.Message): let hs be a complete
   successful client handshake (fed in one piece the server model ends Authenticated with nothing left over, i.e. hs
   ends with the BEGIN line).  For EVERY sequence of read / write / dispatch events -- every cutting of hs ++ msgs into
   reads: inside BEGIN, right after it, inside the first message -- that has consumed hs ++ msgs and performed the
   hand-over: the transport is authenticated with the protocol state and identity of the handshake, the auth object
   interpreted exactly the lines of hs (no message byte was taken as a command), the loader received exactly msgs (no
   handshake byte reached it) and its outcome (messages, corruption verdict) is that of feeding msgs in one piece. *)
Theorem C08_handshake_boundary : forall te hs msgs a_hs evs,
  run (t_env te) auth_init [Feed hs] = Some a_hs -> a_state (a_core a_hs) = Authenticated -> a_incoming a_hs = [] ->
  let t := fst (xrun te xinit evs) in
  let ld := snd (xrun te xinit evs) in
  snd (trun te transport_init evs) = hs ++ msgs -> tr_recovered t = true ->
  tr_authenticated t = true /\
  a_core (tr_auth t) = a_core a_hs /\ get_identity (tr_auth t) = get_identity a_hs /\
  admission te (get_identity a_hs) = true /\
  (exists ls aevs rs, run (t_env te) auth_init aevs = Some (tr_auth t) /\ reach (t_env te) (fed aevs) ls rs (tr_auth t) /\ join_lines ls = hs) /\
  tr_loader t = msgs /\
  LoaderProofs.outcome ld = LoaderProofs.outcome (feed loader_new msgs 0).
Proof. exact handshake_boundary. Qed.
Print Assumptions C08_handshake_boundary.

(* an identity without uid (ANONYMOUS) is admitted only where anonymous access is enabled *)
Theorem C08_anonymous_only_if_enabled : forall te id, admission te id = true -> c_uid id = None -> t_allow_anonymous te = true.
Proof. exact anonymous_only_if_enabled. Qed.
Print Assumptions C08_anonymous_only_if_enabled.

(* "the server answers as the specification's state machine prescribes": full statement ... *)
Definition C08_responses_full_statement : Prop := responses_full_statement.

(* ... proved for every line that does not trip the skip_blank assertion and whose hex argument has no
   dangling digit (one step, from any state satisfying the invariant; and whole conversations) ... *)
Theorem C08_responses_partial : forall e c line, Inv e c -> in_end_state c = false ->
  a_state (fst (process_line e c line)) <> Crashed -> odd_hex (hexarg_of line) = false ->
  spec_step e (abs c) line = (abs (fst (process_line e c line)), map kind_of (snd (process_line e c line))).
Proof. exact refine_step. Qed.
Print Assumptions C08_responses_partial.

Theorem C08_responses_partial_run : forall e ls, lines_ok e core_init ls ->
  spec_run e spec_init ls = (abs (lrun e core_init ls), lresps e core_init ls).
Proof. intros e ls H. exact (lrun_refines e ls core_init (Inv_init e) H). Qed.
Print Assumptions C08_responses_partial_run.

(* ... and refuted for the dangling-digit class (finding F08b) *)
Theorem C08_responses_refuted_odd_hex : ~ C08_responses_full_statement.
Proof. exact responses_refuted_odd_hex. Qed.
Print Assumptions C08_responses_refuted_odd_hex.

(* the assertion in _dbus_string_skip_blank (finding F08a, fixed by 94435c1) can no longer fail *)
Theorem C08_skip_blank_never_aborts : forall asserts s start, skip_blank asserts s start <> None.
Proof. exact skip_blank_total. Qed.
Print Assumptions C08_skip_blank_never_aborts.

(* ---------- the cookie store (dbus-keyring.c, Auth/Keyring.v) ---------- *)

(* every line the keyring loads has a non-negative timestamp inside the window [now - 7 min, now + 5 min]
   (an expired or future-dated line is never loaded), an id in int32 range and a non-empty secret *)
Theorem C08_keyring_line_sound : forall now l k, parse_key_line now l = Some k ->
  (0 <= k_time k /\ cookie_kept_at now (k_time k) /\ Z.of_N (k_id k) <= INT32_MAX /\ k_secret k <> [])%Z.
Proof. exact parse_key_line_sound. Qed.
Print Assumptions C08_keyring_line_sound.

(* a line the specification calls a cookie line (decimal id, decimal time, hex cookie, single spaces) inside the
   window is loaded as exactly that cookie *)
Theorem C08_keyring_line_complete : forall now l id t cookie,
  spec_cookie_line l = Some (id, t, cookie) -> (Z.of_N id <= INT32_MAX)%Z -> (t <= Z.of_N LONG_MAX)%Z -> cookie_kept_at now t ->
  parse_key_line now l = Some (mkKey id t cookie).
Proof. exact parse_key_line_complete. Qed.
Print Assumptions C08_keyring_line_complete.

(* the converse "only specified lines are loaded" is refuted: "010 100 ab" is cookie 8 (strtol base 0; observation F08c) *)
Definition C08_keyring_line_full_statement : Prop := keyring_line_full_statement.
Theorem C08_keyring_line_refuted : ~ C08_keyring_line_full_statement.
Proof. exact keyring_line_refuted. Qed.
Print Assumptions C08_keyring_line_refuted.

(* with the handshake environment provided by this keyring: the keyring exists only for a valid context name; a
   cookie that can authenticate at attempt k is the secret of a key loaded from a line inside the validity window of
   the moment it was read, or generated by this server, at an attempt j <= k; the announced id is recent *)
Theorem C08_keyring_context : forall w sock allowed guid fdp asserts puid userdb ctx chal,
  e_keyring_ok (env_of_world w sock allowed guid fdp asserts puid userdb ctx chal) = true <-> spec_context_ok ctx.
Proof. exact env_keyring_ok. Qed.
Print Assumptions C08_keyring_context.

Theorem C08_cookie_only_from_keyring : forall w sock allowed guid fdp asserts puid userdb ctx chal k id,
  let e := env_of_world w sock allowed guid fdp asserts puid userdb ctx chal in
  e_cookie e k id <> [] ->
  exists key j, find_key_by_id (keys_after w k) id = Some key /\ k_id key = id /\
                e_cookie e k id = hex_encode (k_secret key) /\
                (j <= k)%N /\ key_origin w j key /\ cookie_kept_at (w_now w j) (k_time key).
Proof. exact env_cookie_origin. Qed.
Print Assumptions C08_cookie_only_from_keyring.

Theorem C08_announced_key_recent : forall w sock allowed guid fdp asserts puid userdb ctx chal k id,
  e_best_key (env_of_world w sock allowed guid fdp asserts puid userdb ctx chal) k = Some id ->
  exists key, In key (keys_after w k) /\ k_id key = id /\ cookie_recent_at (w_now w k) (k_time key).
Proof. exact env_best_key_recent. Qed.
Print Assumptions C08_announced_key_recent.

Theorem C08_no_origin_no_cookie : forall w sock allowed guid fdp asserts puid userdb ctx chal k id,
  (forall j l key, (j <= k)%N -> In l (w_file w j) -> parse_key_line (w_now w j) l = Some key -> k_id key <> id) ->
  (forall j, (j <= k)%N -> ~ In id (w_new_ids w j)) ->
  e_cookie (env_of_world w sock allowed guid fdp asserts puid userdb ctx chal) k id = [].
Proof. exact env_no_origin_no_cookie. Qed.
Print Assumptions C08_no_origin_no_cookie.

(* ---------- non-vacuity ---------- *)
Definition ex_env : env :=
  mkEnv (mkCreds (Some 1000) (Some 77) None) None [102] true true 0 (fun _ => None) [99] true
        (fun _ => Some 5) (fun _ _ => [97; 98]) (fun _ => Some [1; 2]).
Definition bytes_of_line (l : bytes) : event := Feed (l ++ [13; 10]).
(* AUTH EXTERNAL 31303030 / BEGIN authenticates uid 1000 and hands over the rest *)
Example ex_external_ok :
  option_map (fun a => (a_state (a_core a), c_uid (get_identity a), a_incoming a))
    (run ex_env auth_init [Feed ([65;85;84;72;32;69;88;84;69;82;78;65;76;32;51;49;51;48;51;48;51;48;13;10]); Sent 100;
                           Feed [66;69;71;73;78;13;10;108]])
  = Some (Authenticated, Some 1000, [108]).
Proof. vm_compute. reflexivity. Qed.
(* the same with uid 0 requested is rejected *)
Example ex_external_other_uid :
  option_map (fun a => (a_state (a_core a), a_failures (a_core a)))
    (run ex_env auth_init [Feed ([65;85;84;72;32;69;88;84;69;82;78;65;76;32;51;48;13;10;66;69;71;73;78;13;10])])
  = Some (NeedDisconnect, 1).
Proof. vm_compute. reflexivity. Qed.
(* BEGIN first: disconnect; six AUTH lines: disconnect with six failures *)
Example ex_six_rejections :
  option_map (fun a => (a_state (a_core a), a_failures (a_core a)))
    (run ex_env auth_init (repeat (Feed [65;85;84;72;13;10]) 7))
  = Some (NeedDisconnect, 6).
Proof. vm_compute. reflexivity. Qed.
Example ex_lines_ok : lines_ok ex_env core_init [[65;85;84;72]; [66;69;71;73;78]].
Proof. cbn [lines_ok]. split; [right; split; [vm_compute; discriminate|vm_compute; reflexivity]|].
       split; [right; split; [vm_compute; discriminate|vm_compute; reflexivity]|exact I]. Qed.

(* keyring: "7 990 aabb" at time 1000 is loaded, recent and served; at time 1500 it is expired and a key is generated *)
Definition ex_world (now : Z) : kworld :=
  mkWorld (fun _ => now) (fun _ => [[55; 32; 57; 57; 48; 32; 97; 97; 98; 98]]) true (fun _ => true) (fun _ => true) (fun _ => true)
          (fun _ => [7; 9]) (fun _ => Some [1; 2; 3]).
Example ex_keyring_fresh : (snd (get_best_key (ex_world 1000) 0 (keyring_new (ex_world 1000))), get_hex_key (keys_after (ex_world 1000) 0) 7)
  = (Some 7, [97; 97; 98; 98]).
Proof. vm_compute. reflexivity. Qed.
Example ex_keyring_expired : (keyring_new (ex_world 1500), snd (get_best_key (ex_world 1500) 0 (keyring_new (ex_world 1500))),
                              get_hex_key (keys_after (ex_world 1500) 0) 7)
  = ([], Some 7, [48; 49; 48; 50; 48; 51]).
Proof. vm_compute. reflexivity. Qed.
Example ex_spec_line : spec_cookie_line [55; 32; 57; 57; 48; 32; 97; 97; 98; 98] = Some (7, 990%Z, [170; 187]).
Proof. vm_compute. reflexivity. Qed.

(* hand-over: "AUTH EXTERNAL 31303030 CRLF BEGIN CRLF" ++ 5 message bytes, cut inside BEGIN, right after BEGIN CRLF, inside
   the message bytes, and not at all: always authenticated, recovered, and the loader input is exactly the 5 bytes *)
Definition ex_tenv : tenv := mkTenv ex_env false (Some (fun u => N.eqb u 1000)).   (* the application's unix-user function admits uid 1000 *)
Definition ex_hs : bytes := [65;85;84;72;32;69;88;84;69;82;78;65;76;32;51;49;51;48;51;48;51;48;13;10;66;69;71;73;78;13;10].
Definition ex_msgs : bytes := [108; 1; 0; 1; 0].
Definition ex_cut (n : nat) : list bytes := [firstn n (ex_hs ++ ex_msgs); skipn n (ex_hs ++ ex_msgs)].
Definition ex_result (chunks : list bytes) :=
  let '(t, consumed) := trun ex_tenv transport_init (drive chunks) in
  (tr_authenticated t, tr_recovered t, tr_loader t, bytes_eqb consumed (ex_hs ++ ex_msgs)).
Example ex_boundary_cuts :
  map (fun n => ex_result (ex_cut n)) [0; 10; 24; 26; 29; 30; 31; 33; 36]%nat
  = repeat (true, true, ex_msgs, true) 9.
Proof. vm_compute. reflexivity. Qed.
(* with the default admission rule instead (uid 1000 is neither root nor the server's own uid 0) the peer is disconnected *)
Example ex_boundary_not_admitted :
  let '(t, _) := trun (mkTenv ex_env false None) transport_init (drive (ex_cut 26)) in (tr_authenticated t, tr_disconnected t, tr_loader t)
  = (false, true, []).
Proof. vm_compute. reflexivity. Qed.
