(* C01 — untrusted bytes become a message only if spec-valid, and always safely.
   Statements only; proofs in Proofs/LoaderProofs.v.  What is proved here is the
   framing half (see the evidence/notes for what remains correspondence-only:
   validator = specification decoder). *)
From DV Require Import Lib.Base Wire.Body Wire.Message Spec.Codec Wire.HeaderEdit Proofs.LoaderProofs Proofs.CodecWf Proofs.CodecRoundtrip Proofs.BodyVbEq Proofs.BodyCursor Proofs.BodyComplete Proofs.CodecMessage Proofs.LoaderComplete Proofs.BodyLocal Proofs.Utf8Proofs Proofs.BodySound Proofs.LoaderSound Proofs.WireClean Proofs.WireClean2.
From Coq Require Import ZArith.
Local Open Scope N_scope.

(* Full statement (soundness + completeness against the specification decoder),
   kept visible.  COMPLETENESS is proved below (C01_complete, C01_demarshal_complete,
   with C02_roundtrip).  SOUNDNESS is proved below too (C01_sound, C01_sound_decodes):
   whatever the loader model accepts IS the canonical serialisation of an abstract
   message, which is well-formed per the specification except in exactly three
   recorded classes where the faithful model (and the C code) accepts more than the
   specification: degenerate unique names in DESTINATION/SENDER (F2), signature
   array nesting counted over consecutive 'a' only (F11), and elements of a
   fixed-size array at container depth 64 not counted as a level (FD65).  The
   unrestricted statement is refuted by witnesses for each class. *)
Definition C01_full_statement : Prop :=
  forall d, 16 <= nlen d ->
    match demarshal d, spec_decode_message d with
    | DemMsg m, Some (s, total) => m_header m ++ m_body m = firstn (N.to_nat total) d
    | DemMsg _, None => False
    | DemCorrupt _, Some _ => False
    | _, _ => True
    end.

(* every message the loader queues passed header and body validation *)
Theorem C01_accepted_validated : forall le fl hl bl fds d m,
  load_message le fl hl bl fds d = inl m ->
  exists fs tys, header_load le fl hl d = inl fs /\ m_fields m = fs /\ validate_body le tys (m_body m) = V_VALID.
Proof. exact load_message_valid. Qed.
Print Assumptions C01_accepted_validated.

(* a queued message is exactly the announced prefix of the buffer: nothing outside it is copied *)
Theorem C01_message_is_prefix : forall le fl hl bl fds d m,
  load_message le fl hl bl fds d = inl m -> msg_bytes m = firstn (N.to_nat (hl + bl)) d.
Proof. exact load_message_bytes. Qed.
Print Assumptions C01_message_is_prefix.

(* the loader terminates within the fuel the model gives it, for every buffer:
   any fuel above the buffer length yields the same result *)
Theorem C01_terminates : forall f1 f2 l, (length (l_buf l) < f1)%nat -> (length (l_buf l) < f2)%nat ->
  queue_messages f1 l = queue_messages f2 l.
Proof. exact qm_fuel. Qed.
Print Assumptions C01_terminates.

(* no byte is lost, duplicated or invented by the loader *)
Theorem C01_conservation : forall f l, consumed (queue_messages f l) ++ l_buf (queue_messages f l) = consumed l ++ l_buf l.
Proof. exact conservation. Qed.
Print Assumptions C01_conservation.

(* size limits enforced by the framing decision *)
Theorem C01_size_limit : forall max d le fl hl bl c, have_message max d = HaveOk le fl hl bl c -> 16 <= hl.
Proof. exact have_ok_hl. Qed.
Print Assumptions C01_size_limit.

(* COMPLETENESS of the body validator on canonical encodings: for every byte order,
   every well-formed value (of any nesting of structs, dict entries, variants and
   arrays) encoded by the specification encoder at any position and followed by
   any bytes is accepted by the model of validate_body_helper, which stops exactly
   at the end of the encoding.  Premises beyond the specification's notion of a
   well-formed value ([wire_ok]): string bytes are < 256, signature strings pass
   the C automaton (its equivalence with the grammar is exhaustive-small-scope
   checked, not yet a theorem), and an array's element type has its tabulated
   alignment -- hence "_partial".  Arrays of fixed-size elements (the validator's
   fast path, incl. the boolean-array loop) are covered. *)
Theorem C01_value_complete_partial : forall le v d depth pos rest,
  wfb le depth pos v = true -> wire_ok v = true -> (height v < d)%nat ->
  vb le d (ty_of_val v) depth (curof pos (enc le v pos ++ rest)) = inl (curof (pos + nlen (enc le v pos)) rest).
Proof. intros le v. exact (vb_enc le v). Qed.
Print Assumptions C01_value_complete_partial.

Theorem C01_body_complete_partial : forall le vs, wfsb le vs 0 0 = true -> forallb wire_ok vs = true ->
  validate_body le (map ty_of_val vs) (encs le vs 0) = V_VALID.
Proof. exact validate_body_complete. Qed.
Print Assumptions C01_body_complete_partial.

(* COMPLETENESS of the loader: every specification-valid message -- the canonical
   serialisation E of a well-formed abstract message m ([wf_msg]; the former wire
   premises [wire_ok] are now derived from it, Proofs/WireClean.v) -- followed by ANY bytes is framed as complete by the
   loader model and accepted, and the message it queues is exactly E (header and
   body slices, one loaded header field per field of m with its code, signature
   and encoded value).  Together with C02_roundtrip (E decodes to m) this is the
   "yields a message whenever the bytes are a well-formed message" half of the
   property as a theorem about the model. *)
Theorem C01_complete : forall m rest avail,
  wf_msg m = true ->
  spec_nfds (s_fields m) <= avail ->
  let E := spec_encode_message m in
  have_message DBUS_MAXIMUM_MESSAGE_LENGTH (E ++ rest) = HaveOk (s_le m) (m_flen m) (m_hlen m) (m_blen m) true /\
  exists hs, Forall2 (hf_ok (s_le m)) (s_fields m) hs /\
    load_message (s_le m) (m_flen m) (m_hlen m) (m_blen m) avail (E ++ rest)
      = inl (mkMsg (firstn (N.to_nat (m_hlen m)) E) (m_bodyb m) hs (spec_nfds (s_fields m))) /\
    firstn (N.to_nat (m_hlen m)) E ++ m_bodyb m = E.
Proof. exact loader_complete_clean. Qed.
Print Assumptions C01_complete.

(* dbus_message_demarshal on a valid message (optionally followed by fewer than 16 bytes) *)
Theorem C01_demarshal_complete : forall m rest,
  wf_msg m = true ->
  spec_nfds (s_fields m) = 0 -> nlen rest < 16 ->
  exists hs, Forall2 (hf_ok (s_le m)) (s_fields m) hs /\
    demarshal (spec_encode_message m ++ rest) = DemMsg (loaded_msg m hs) /\
    m_header (loaded_msg m hs) ++ m_body (loaded_msg m hs) = spec_encode_message m.
Proof. exact demarshal_complete_clean. Qed.
Print Assumptions C01_demarshal_complete.

(* SOUNDNESS of the loader model *)
Theorem C01_sound : forall max le fl hl bl fds d msg,
  max <= max_message -> all_bytes d = true ->
  have_message max d = HaveOk le fl hl bl true ->
  load_message le fl hl bl fds d = inl msg ->
  exists m, m_header msg ++ m_body msg = spec_encode_message m /\ s_le m = le /\
            nlen (spec_encode_message m) = hl + bl /\
            wire_ok (fields_val le (s_fields m)) = true /\ forallb wire_ok (s_body m) = true /\
            (msg_strict m = true -> wf_msg m = true).
Proof. exact load_message_sound. Qed.
Print Assumptions C01_sound.

(* the exclusion is exact: a message is well-formed per the specification iff it is outside the three classes *)
Theorem C01_sound_exclusion_exact : forall max le fl hl bl fds d msg,
  max <= max_message -> all_bytes d = true ->
  have_message max d = HaveOk le fl hl bl true ->
  load_message le fl hl bl fds d = inl msg ->
  exists m, m_header msg ++ m_body msg = spec_encode_message m /\ (wf_msg m = true <-> msg_strict m = true).
Proof. exact load_message_sound_iff. Qed.
Print Assumptions C01_sound_exclusion_exact.

(* ... and then the specification decoder returns exactly that message *)
Theorem C01_sound_decodes : forall max le fl hl bl fds d msg,
  max <= max_message -> all_bytes d = true ->
  have_message max d = HaveOk le fl hl bl true ->
  load_message le fl hl bl fds d = inl msg ->
  exists m, m_header msg ++ m_body msg = spec_encode_message m /\
            (msg_strict m = true -> wf_msg m = true /\ spec_decode_message (m_header msg ++ m_body msg) = Some (m, hl + bl)).
Proof. exact load_message_decodes. Qed.
Print Assumptions C01_sound_decodes.

(* THE CHARACTERISATION (Proofs/WireClean2.v).  [wf_msg_x] is [wf_msg] with exactly the three
   recorded deviations built in (wfx instead of wfb: FD65; validate_bus_name for DESTINATION and
   SENDER: F2; validate_signature for the body signature: F11), and [wf_msg m <-> wf_msg_x m /\ msg_strict m].
   For a framed buffer of bytes the loader model accepts EXACTLY the canonical encodings of loosely
   well-formed messages that ask for no more descriptors than are available. *)
Theorem C01_characterisation : forall le fl hl bl fds d,
  all_bytes d = true ->
  have_message max_message d = HaveOk le fl hl bl true ->
  ((exists msg, load_message le fl hl bl fds d = inl msg) <->
   (exists m, firstn (N.to_nat (hl + bl)) d = spec_encode_message m /\ wf_msg_x m = true /\ spec_nfds (s_fields m) <= fds)).
Proof. exact loader_characterisation. Qed.
Print Assumptions C01_characterisation.

Theorem C01_wellformed_iff : forall m, wf_msg m = true <-> wf_msg_x m = true /\ msg_strict m = true.
Proof. exact wf_msg_iff. Qed.
Print Assumptions C01_wellformed_iff.

(* loader model against the independent specification decoder, both directions *)
Theorem C01_loader_vs_decoder : forall le fl hl bl fds d,
  all_bytes d = true -> have_message max_message d = HaveOk le fl hl bl true ->
  (forall m n, spec_decode_message d = Some (m, n) -> spec_nfds (s_fields m) <= fds ->
     n = hl + bl /\ exists msg, load_message le fl hl bl fds d = inl msg /\ m_header msg ++ m_body msg = spec_encode_message m) /\
  (forall msg, load_message le fl hl bl fds d = inl msg ->
     exists m, m_header msg ++ m_body msg = spec_encode_message m /\ m_header msg ++ m_body msg = firstn (N.to_nat (hl + bl)) d /\
               wf_msg_x m = true /\
               (msg_strict m = true -> wf_msg m = true /\ spec_decode_message (m_header msg ++ m_body msg) = Some (m, hl + bl))).
Proof. exact loader_vs_decoder. Qed.
Print Assumptions C01_loader_vs_decoder.

(* the specification decoder itself is canonical: it accepts a buffer exactly when the buffer is the
   encoding of a well-formed message, and then returns that message (no two byte strings decode to the
   same message, no byte string decodes to two messages) *)
Theorem C01_decoder_sound : forall d m n, all_bytes d = true -> spec_decode_message d = Some (m, n) ->
  firstn (N.to_nat n) d = spec_encode_message m /\ wf_msg m = true /\ n = nlen (spec_encode_message m).
Proof. exact spec_decode_sound. Qed.
Print Assumptions C01_decoder_sound.

Theorem C01_decoder_iff : forall d m, all_bytes d = true ->
  (spec_decode_message d = Some (m, nlen d) <-> d = spec_encode_message m /\ wf_msg m = true).
Proof. exact spec_decode_iff. Qed.
Print Assumptions C01_decoder_iff.

(* body level without wire premises *)
Theorem C01_body_complete : forall le vs sg, wfsb le vs 0 0 = true -> parse_sig sg = Some (map ty_of_val vs) ->
  validate_body le (map ty_of_val vs) (encs le vs 0) = V_VALID.
Proof. exact validate_body_complete_clean. Qed.
Print Assumptions C01_body_complete.

Theorem C01_sound_refuted_F2 : ~ load_message_sound_unrestricted.
Proof. exact load_message_sound_unrestricted_refuted. Qed.
Theorem C01_sound_refuted_FD65 : ~ load_message_sound_unrestricted.
Proof. exact load_message_sound_unrestricted_refuted_FD65. Qed.
Theorem C01_sound_refuted_F11 : ~ load_message_sound_unrestricted.
Proof. exact load_message_sound_unrestricted_refuted_F11. Qed.

(* value level: whatever the body validator model accepts is the canonical encoding of a value *)
Theorem C01_value_sound : forall le d t depth c c',
  wfc c -> all_bytes (cdat c) = true -> tygood t = true -> depth <= max_value_depth ->
  vb le d t depth c = inl c' ->
  exists v, ty_of_val v = t /\ wfx le depth (cpos c) v = true /\ wire_ok v = true /\
            cdat c = enc le v (cpos c) ++ cdat c' /\ cpos c' = cpos c + nlen (enc le v (cpos c)) /\ wfc c'.
Proof. exact vb_sound. Qed.
Print Assumptions C01_value_sound.

Definition ex_val : val :=
  VStruct [VNum 121 5; VArr (TBasic 98) [VNum 98 1; VNum 98 0]; VArr (TBasic 120) [VNum 120 7]; VArr (TDict 115 TVariant) [VDictE (VStr 115 [107]) (VVar (TArray (TBasic 115)) (VArr (TBasic 115) [VStr 115 [97]; VStr 115 []]))];
           VStr 111 [47; 97]; VNum 100 4609434218613702656].
Example ex_val_ok : wfb true 0 3 ex_val = true /\ wire_ok ex_val = true. Proof. split; vm_compute; reflexivity. Qed.

(* non-vacuity: a concrete valid message is accepted by model and by the specification *)
Definition ex_msg : bytes := [108;2;0;1; 0;0;0;0; 1;0;0;0; 8;0;0;0; 5;1;117;0; 1;0;0;0].
Example ex_accept : match demarshal ex_msg with DemMsg _ => True | _ => False end.
Proof. vm_compute. exact I. Qed.
Example ex_spec_accept : match spec_decode_message ex_msg with Some (_, 24) => True | _ => False end.
Proof. vm_compute. exact I. Qed.
Example ex_reject : match demarshal (firstn 16 ex_msg ++ [5;1;117;0; 0;0;0;0]) with DemCorrupt _ => True | _ => False end.
Proof. vm_compute. exact I. Qed.
(* the hypotheses of the characterisation are met by that buffer, and by the recorded F2 witness
   (loosely but not strictly well formed) *)
Example ex_characterisation_hyps : all_bytes ex_msg = true /\ have_message max_message ex_msg = HaveOk true 8 24 0 true /\
  (exists msg, load_message true 8 24 0 0 ex_msg = inl msg).
Proof. split; [vm_compute; reflexivity|]. split; [vm_compute; reflexivity|]. eexists. vm_compute. reflexivity. Qed.
Example ex_loose_not_strict : wf_msg_x f2_msg = true /\ wf_msg f2_msg = false /\ msg_strict f2_msg = false.
Proof. repeat split; vm_compute; reflexivity. Qed.

(* ---- C01, accessor clause: "every value subsequently read through the accessor and iterator API
   equals the value encoded on the wire".  The libdbus message READER (DBusTypeReader behind
   dbus_message_iter_init / get_arg_type / next / recurse / get_basic / get_signature /
   get_element_count / get_fixed_array) is modelled as a cursor machine in Wire/Reader.v; reads
   outside the buffers are an explicit R_FAULT, failed C assertions R_ASSERT.  Proofs in
   Proofs/ReaderProofs.v.
   Append this text to Props/C01.v; it needs the additional import on the next line. ---- *)
From DV Require Import Wire.Reader Proofs.SigRoundtrip Proofs.ReaderProofs.

(* ALL values that are well formed per the specification (unbounded), both byte orders: reading the canonical
   encoding with the signature printed from the values gives back exactly the values -- hence no read
   outside the buffer, no failed assertion, no fuel exhaustion.  (The premise on the types constrains only
   the element types of EMPTY arrays, which [wfb] leaves arbitrary: C01_reader_needs_types.) *)
Theorem C01_reader_correct : forall le vs,
  wfsb le vs 0 0 = true -> forallb ty_okb (map ty_of_val vs) = true ->
  read_all le (flat_map print_ty (map ty_of_val vs)) (encs le vs 0) = inl vs.
Proof. exact reader_correct. Qed.
Print Assumptions C01_reader_correct.

(* the same at any position of a larger buffer, followed by anything, for every value the reader can
   make sense of ([rwf]: sizes fit their length words, strings are NUL-free, element / contained types are
   types of the grammar; no nesting limit, no content checks) and every sufficient fuel *)
Theorem C01_reader_anywhere : forall le pre vs rest d,
  rwfs le vs (nlen pre) = true -> (heights vs < d)%nat ->
  dump le (tysig vs ++ [0]) (pre ++ encs le vs (nlen pre) ++ rest) d (reader_init 0 (nlen pre)) = inl vs.
Proof. exact reader_rwf_at. Qed.
Print Assumptions C01_reader_anywhere.

(* EVERY body the validator model accepts for a signature of the grammar: it is the canonical encoding of
   values vs of those types, and the reader reads exactly vs.  No exclusion: the two recorded deviations of
   the validator (F11, FD65) concern nesting limits, which the reader does not have. *)
Theorem C01_reader_after_validation : forall le sg tys body,
  parse_sig sg = Some tys -> all_bytes body = true -> validate_body le tys body = V_VALID ->
  exists vs, map ty_of_val vs = tys /\ wfxs le vs 0 0 = true /\ body = encs le vs 0 /\ read_all le sg body = inl vs.
Proof. exact reader_after_validation. Qed.
Print Assumptions C01_reader_after_validation.

(* ... and outside those two deviations these are well-formed values per the specification, the ones the
   specification decoder returns *)
Theorem C01_reader_after_validation_spec : forall le sg tys body,
  parse_sig sg = Some tys -> all_bytes body = true -> validate_body le tys body = V_VALID ->
  exists vs, read_all le sg body = inl vs /\ body = encs le vs 0 /\
             (forallb (nodev 0) vs = true -> wfsb le vs 0 0 = true /\ dec_seq le tys 0 body = Some (vs, nlen body, [])).
Proof. exact reader_after_validation_spec. Qed.
Print Assumptions C01_reader_after_validation_spec.

(* reader = specification decoder on every body the decoder accepts *)
Theorem C01_reader_eq_decoder : forall le sg tys body vs p,
  parse_sig sg = Some tys -> all_bytes body = true -> dec_seq le tys 0 body = Some (vs, p, []) ->
  read_all le sg body = inl vs.
Proof. exact reader_eq_decoder. Qed.
Print Assumptions C01_reader_eq_decoder.

(* whole messages: every message the loader model queues from a buffer of bytes is the canonical encoding of
   an abstract message m; its body part is the encoding of m's body values, and the reader, initialised as
   dbus_message_iter_init does (on the body, with the message's signature), reads exactly those values *)
Theorem C01_reader_loaded : forall le fl hl bl fds d msg,
  all_bytes d = true -> have_message max_message d = HaveOk le fl hl bl true ->
  load_message le fl hl bl fds d = inl msg ->
  exists m, m_header msg ++ m_body msg = spec_encode_message m /\ s_le m = le /\ wf_msg_x m = true /\
            m_body msg = encs le (s_body m) 0 /\ read_all le (s_sig m) (m_body msg) = inl (s_body m).
Proof. exact reader_loaded. Qed.
Print Assumptions C01_reader_loaded.

(* dbus_message_iter_get_element_count of an array argument = the number of its elements *)
Theorem C01_reader_element_count : forall le et xs rest,
  rwfs le (VArr et xs :: rest) 0 = true ->
  first_element_count le (tysig (VArr et xs :: rest)) (encs le (VArr et xs :: rest) 0) = inl (N.of_nat (length xs)).
Proof. exact element_count_correct. Qed.
Print Assumptions C01_reader_element_count.

(* dbus_message_iter_recurse + dbus_message_iter_get_fixed_array on an array of fixed-size elements: the
   block is exactly the elements' bytes (message byte order), the count the number of elements *)
Theorem C01_reader_fixed_array : forall le c sz xs rest,
  fixed_size c = Some sz -> rwfs le (VArr (TBasic c) xs :: rest) 0 = true ->
  first_fixed_array le (tysig (VArr (TBasic c) xs :: rest)) (encs le (VArr (TBasic c) xs :: rest) 0) =
    inl (flat_map (fun n => bytes_of le (N.to_nat sz) n) (nums_of xs), N.of_nat (length xs)) /\
  length (nums_of xs) = length xs.
Proof. exact fixed_array_correct. Qed.
Print Assumptions C01_reader_fixed_array.

(* what the reader needs follows from what the validator guarantees / the specification demands *)
Theorem C01_reader_premise_from_validator : forall le vs depth pos,
  wfxs le vs depth pos = true -> forallb ty_okb (map ty_of_val vs) = true -> rwfs le vs pos = true.
Proof. exact wfxs_rwfs_all. Qed.
Print Assumptions C01_reader_premise_from_validator.

(* non-vacuity and necessity of the premises *)
Example C01_reader_ex_hyps : wfsb true ex_vals 0 0 = true /\ wfsb false ex_vals 0 0 = true /\ forallb ty_okb (map ty_of_val ex_vals) = true.
Proof. exact ex_vals_wf. Qed.
Example C01_reader_ex_validated : validate_body true (map ty_of_val ex_vals) (encs true ex_vals 0) = V_VALID /\
  parse_sig (tysig ex_vals) = Some (map ty_of_val ex_vals) /\ all_bytes (encs true ex_vals 0) = true.
Proof. exact ex_validated. Qed.
Example C01_reader_ex_fault : read_all true (tysig ex_vals) (firstn 20 (encs true ex_vals 0)) = inr R_FAULT.
Proof. exact ex_fault. Qed.
Example C01_reader_needs_types :
  wfsb true [VArr (TBasic 0) []] 0 0 = true /\
  read_all true (flat_map print_ty (map ty_of_val [VArr (TBasic 0) []])) (encs true [VArr (TBasic 0) []] 0) = inr R_ASSERT.
Proof. exact reader_needs_types. Qed.
