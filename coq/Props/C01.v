(* C01 — placeholder while the loader proofs are being written: statements only. *)
From DV Require Import Wire.Message Spec.Codec.
