(* C01 — untrusted bytes become a message only if spec-valid, and always safely.
   Statements only; proofs in Proofs/LoaderProofs.v.  What is proved here is the
   framing half (see the evidence/notes for what remains correspondence-only:
   validator = specification decoder). *)
From DV Require Import Lib.Base Wire.Message Spec.Codec Proofs.LoaderProofs.
From Coq Require Import ZArith.
Local Open Scope N_scope.

(* Full statement (soundness + completeness against the specification decoder),
   kept visible; decided today by the correspondence run with the extracted
   [spec_decode_message] as oracle, not yet by a theorem. *)
Definition C01_full_statement : Prop :=
  forall d, 16 <= nlen d ->
    match demarshal d, spec_decode_message d with
    | DemMsg m, Some (s, total) => m_header m ++ m_body m = firstn (N.to_nat total) d
    | DemMsg _, None => False
    | DemCorrupt _, Some _ => False
    | _, _ => True
    end.

(* every message the loader queues passed header and body validation *)
Theorem C01_accepted_validated : forall le fl hl bl fds d m,
  load_message le fl hl bl fds d = inl m ->
  exists fs tys, header_load le fl hl d = inl fs /\ m_fields m = fs /\ validate_body le tys (m_body m) = V_VALID.
Proof. exact load_message_valid. Qed.
Print Assumptions C01_accepted_validated.

(* a queued message is exactly the announced prefix of the buffer: nothing outside it is copied *)
Theorem C01_message_is_prefix : forall le fl hl bl fds d m,
  load_message le fl hl bl fds d = inl m -> msg_bytes m = firstn (N.to_nat (hl + bl)) d.
Proof. exact load_message_bytes. Qed.
Print Assumptions C01_message_is_prefix.

(* the loader terminates within the fuel the model gives it, for every buffer:
   any fuel above the buffer length yields the same result *)
Theorem C01_terminates : forall f1 f2 l, (length (l_buf l) < f1)%nat -> (length (l_buf l) < f2)%nat ->
  queue_messages f1 l = queue_messages f2 l.
Proof. exact qm_fuel. Qed.
Print Assumptions C01_terminates.

(* no byte is lost, duplicated or invented by the loader *)
Theorem C01_conservation : forall f l, consumed (queue_messages f l) ++ l_buf (queue_messages f l) = consumed l ++ l_buf l.
Proof. exact conservation. Qed.
Print Assumptions C01_conservation.

(* size limits enforced by the framing decision *)
Theorem C01_size_limit : forall max d le fl hl bl c, have_message max d = HaveOk le fl hl bl c -> 16 <= hl.
Proof. exact have_ok_hl. Qed.
Print Assumptions C01_size_limit.

(* non-vacuity: a concrete valid message is accepted by model and by the specification *)
Definition ex_msg : bytes := [108;2;0;1; 0;0;0;0; 1;0;0;0; 8;0;0;0; 5;1;117;0; 1;0;0;0].
Example ex_accept : match demarshal ex_msg with DemMsg _ => True | _ => False end.
Proof. vm_compute. exact I. Qed.
Example ex_spec_accept : match spec_decode_message ex_msg with Some (_, 24) => True | _ => False end.
Proof. vm_compute. exact I. Qed.
Example ex_reject : match demarshal (firstn 16 ex_msg ++ [5;1;117;0; 0;0;0;0]) with DemCorrupt _ => True | _ => False end.
Proof. vm_compute. exact I. Qed.
