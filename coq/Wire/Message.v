(* Model of the message loader: _dbus_header_have_message_untrusted,
   _dbus_header_load (+ load_and_validate_field, check_mandatory_fields)
   in dbus/dbus-marshal-header.c and load_message,
   _dbus_message_loader_queue_messages, dbus_message_demarshal in
   dbus/dbus-message.c. *)
From DV Require Export Wire.Body.
From Coq Require Import ZArith.
Local Open Scope N_scope.

Definition byte_at (d : bytes) (i : nat) : N := nth i d 0.
Definition u32_at (le : bool) (d : bytes) (i : nat) : N :=
  unpack32 le (byte_at d i, byte_at d (i + 1), byte_at d (i + 2), byte_at d (i + 3)).

Inductive have_res :=
| HaveInvalid (reason : Z)
| HaveOk (le : bool) (fields_len header_len body_len : N) (complete : bool).

(* precondition (asserted by the C code): at least DBUS_MINIMUM_HEADER_SIZE bytes *)
Definition have_message (maxlen : N) (d : bytes) : have_res :=
  let bo := byte_at d 0 in
  if negb ((bo =? DBUS_LITTLE_ENDIAN) || (bo =? DBUS_BIG_ENDIAN)) then HaveInvalid V_INVALID_BAD_BYTE_ORDER
  else
    let le := bo =? DBUS_LITTLE_ENDIAN in
    let fl := u32_at le d 12 in
    if maxlen <? fl then HaveInvalid V_INVALID_INSANE_FIELDS_ARRAY_LENGTH
    else
      let bl := u32_at le d 4 in
      if maxlen <? bl then HaveInvalid V_INVALID_INSANE_BODY_LENGTH
      else
        let hl := align_up (16 + fl) 8 in
        if maxlen <? bl + hl then HaveInvalid V_INVALID_MESSAGE_TOO_LONG
        else HaveOk le fl hl bl (bl + hl <=? nlen d).

(* ---- header fields ------------------------------------------------------ *)
Record hfield := mkField {
  f_code : N;
  f_sig : bytes;          (* the variant's signature *)
  f_val : bytes           (* the marshalled value (after alignment padding) *)
}.

Definition header_tys : option (list ty) := parse_sig DBUS_HEADER_SIGNATURE_str.

(* walk the (already validated) array of (yv) structs from [c] up to [array_end],
   collecting code / signature / raw value of each field *)
Fixpoint read_fields (fuel : nat) (le : bool) (c : cursor) (array_end : N) : option (list hfield) :=
  match fuel with
  | O => None
  | S f =>
      if cpos c <? array_end then
        match pad_to c (align_up (cpos c) 8) with
        | inr _ => None
        | inl c0 =>
            match take1 c0 with
            | None => None
            | Some (code, c1) =>
                match take1 c1 with
                | None => None
                | Some (slen, c2) =>
                    let s := firstn (N.to_nat slen) (cdat c2) in
                    match take1 (advance c2 slen) with
                    | None => None
                    | Some (_, c3) =>
                        match parse_sig s with
                        | Some [t] =>
                            match pad_to c3 (align_up (cpos c3) (ty_alignment t)) with
                            | inr _ => None
                            | inl c4 =>
                                match vb le DEPTH_FUEL t 2 c4 with
                                | inr _ => None
                                | inl c5 =>
                                    let raw := firstn (N.to_nat (cpos c5 - cpos c4)) (cdat c4) in
                                    match read_fields f le c5 array_end with
                                    | Some r => Some (mkField code s raw :: r)
                                    | None => None
                                    end
                                end
                            end
                        | _ => None
                        end
                    end
                end
            end
        end
      else Some []
  end.

Definition expected_type (code : N) : N :=
  match find (fun p => fst p =? code) header_field_types with
  | Some (_, t) => t
  | None => 0
  end.

(* first type code of a signature as the type reader reports it: '(' is STRUCT *)
Definition first_type (s : bytes) : N :=
  match s with
  | [] => 0
  | c :: _ => if c =? DBUS_STRUCT_BEGIN_CHAR then DBUS_TYPE_STRUCT
              else if c =? DBUS_DICT_ENTRY_BEGIN_CHAR then DBUS_TYPE_DICT_ENTRY else c
  end.

(* string payload of a marshalled s / o value: skip the 4-byte length, drop the NUL *)
Definition str_payload (le : bool) (raw : bytes) : bytes :=
  firstn (N.to_nat (u32_at le raw 0)) (skipn 4 raw).
Definition sig_payload (raw : bytes) : bytes :=
  firstn (N.to_nat (byte_at raw 0)) (skipn 1 raw).

(* load_and_validate_field; [seen] = codes already cached *)
Definition validate_field (le : bool) (seen : list N) (f : hfield) : Z :=
  let code := f_code f in
  if negb (first_type (f_sig f) =? expected_type code) then V_INVALID_HEADER_FIELD_HAS_WRONG_TYPE
  else if existsb (N.eqb code) seen then V_INVALID_HEADER_FIELD_APPEARS_TWICE
  else
    let sv := fun _ : unit => str_payload le (f_val f) in   (* delayed: only string-typed fields are decoded *)
    if code =? DBUS_HEADER_FIELD_DESTINATION then
      if validate_bus_name (sv tt) then V_VALID else V_INVALID_BAD_DESTINATION
    else if code =? DBUS_HEADER_FIELD_INTERFACE then
      (* length word equal to the reserved name's length and _dbus_string_equal_substring against the raw bytes *)
      if (u32_at le (f_val f) 0 =? nlen DBUS_INTERFACE_LOCAL_str) && is_prefix DBUS_INTERFACE_LOCAL_str (skipn 4 (f_val f)) then V_INVALID_USES_LOCAL_INTERFACE
      else if validate_interface (sv tt) then V_VALID else V_INVALID_BAD_INTERFACE
    else if code =? DBUS_HEADER_FIELD_MEMBER then
      if validate_member (sv tt) then V_VALID else V_INVALID_BAD_MEMBER
    else if code =? DBUS_HEADER_FIELD_ERROR_NAME then
      if validate_error_name (sv tt) then V_VALID else V_INVALID_BAD_ERROR_NAME
    else if code =? DBUS_HEADER_FIELD_SENDER then
      if validate_bus_name (sv tt) then V_VALID else V_INVALID_BAD_SENDER
    else if code =? DBUS_HEADER_FIELD_PATH then
      if (u32_at le (f_val f) 0 =? nlen DBUS_PATH_LOCAL_str) && is_prefix DBUS_PATH_LOCAL_str (skipn 4 (f_val f)) then V_INVALID_USES_LOCAL_PATH else V_VALID
    else if code =? DBUS_HEADER_FIELD_REPLY_SERIAL then
      if u32_at le (f_val f) 0 =? 0 then V_INVALID_BAD_SERIAL else V_VALID
    else V_VALID.

Fixpoint validate_fields (le : bool) (seen : list N) (fs : list hfield) : Z :=
  match fs with
  | [] => V_VALID
  | f :: r =>
      if f_code f =? DBUS_HEADER_FIELD_INVALID then V_INVALID_HEADER_FIELD_CODE
      else if DBUS_HEADER_FIELD_LAST <? f_code f then validate_fields le seen r      (* unknown: skipped *)
      else
        let v := validate_field le seen f in
        if Z.eqb v V_VALID then validate_fields le (f_code f :: seen) r else v
  end.

Definition known_codes (fs : list hfield) : list N :=
  map f_code (filter (fun f => f_code f <=? DBUS_HEADER_FIELD_LAST) fs).

Fixpoint check_required (req : list (N * Z)) (present : list N) : Z :=
  match req with
  | [] => V_VALID
  | (code, err) :: r => if existsb (N.eqb code) present then check_required r present else err
  end.

Definition check_mandatory (mtype : N) (present : list N) : Z :=
  match find (fun p => fst p =? mtype) mandatory_fields with
  | Some (_, req) => check_required req present
  | None => V_VALID
  end.

Definition all_zero (d : bytes) : bool := forallb (N.eqb 0) d.

(* _dbus_header_load in untrusted mode.  [d] is the whole loader buffer. *)
Definition header_load (le : bool) (fields_len header_len : N) (d : bytes) : (list hfield) + Z :=
  match header_tys with
  | None => inr V_MODEL_GAP
  | Some tys =>
      match validate_body_prefix le tys d with
      | inr e => inr e
      | inl _ =>
          let pstart := 16 + fields_len in
          if negb (all_zero (firstn (N.to_nat (header_len - pstart)) (skipn (N.to_nat pstart) d)))
          then inr V_INVALID_ALIGNMENT_PADDING_NOT_NUL
          else if byte_at d 1 =? DBUS_MESSAGE_TYPE_INVALID then inr V_INVALID_BAD_MESSAGE_TYPE
          else if negb (byte_at d 3 =? DBUS_MAJOR_PROTOCOL_VERSION) then inr V_INVALID_BAD_PROTOCOL_VERSION
          else if u32_at le d 8 =? 0 then inr V_INVALID_BAD_SERIAL
          else
            match read_fields (S (N.to_nat fields_len)) le (mkCur 16 (nlen d - 16) (skipn 16 d)) (16 + fields_len) with
            | None => inr V_MODEL_GAP
            | Some fs =>
                let v := validate_fields le [] fs in
                if negb (Z.eqb v V_VALID) then inr v
                else
                  let m := check_mandatory (byte_at d 1) (known_codes fs) in
                  if negb (Z.eqb m V_VALID) then inr m else inl fs
            end
      end
  end.

Definition field_value (code : N) (fs : list hfield) : option hfield :=
  find (fun f => f_code f =? code) fs.

Record message := mkMsg { m_header : bytes; m_body : bytes; m_fields : list hfield; m_nfds : N }.

(* load_message: returns the message or the corruption reason *)
Definition load_message (le : bool) (fields_len header_len body_len : N) (avail_fds : N) (d : bytes) : message + Z :=
  match header_load le fields_len header_len d with
  | inr e => inr e
  | inl fs =>
      let sigb := match field_value DBUS_HEADER_FIELD_SIGNATURE fs with
                  | Some f => sig_payload (f_val f)
                  | None => []
                  end in
      match parse_sig sigb with
      | None => inr V_MODEL_GAP
      | Some tys =>
          let body := firstn (N.to_nat body_len) (skipn (N.to_nat header_len) d) in
          let v := validate_body le tys body in
          if negb (Z.eqb v V_VALID) then inr v
          else
            let nfds := match field_value DBUS_HEADER_FIELD_UNIX_FDS fs with
                        | Some f => u32_at le (f_val f) 0
                        | None => 0
                        end in
            if avail_fds <? nfds then inr V_INVALID_MISSING_UNIX_FDS
            else inl (mkMsg (firstn (N.to_nat header_len) d) body fs nfds)
      end
  end.

(* ---- the loader ---------------------------------------------------------- *)
Record loader := mkLoader {
  l_buf : bytes;
  l_corrupted : bool;
  l_reason : Z;
  l_msgs : list message;      (* queued, oldest first *)
  l_fds : N;                  (* descriptors received and not yet attached to a message *)
  l_max : N                   (* max_message_size *)
}.

Definition loader_new : loader := mkLoader [] false V_VALID [] 0 DBUS_MAXIMUM_MESSAGE_LENGTH.

(* _dbus_message_loader_queue_messages *)
Fixpoint queue_messages (fuel : nat) (l : loader) : loader :=
  match fuel with
  | O => l
  | S f =>
      if l_corrupted l then l
      else if nlen (l_buf l) <? DBUS_MINIMUM_HEADER_SIZE then l
      else
        match have_message (l_max l) (l_buf l) with
        | HaveInvalid r => mkLoader (l_buf l) true r (l_msgs l) (l_fds l) (l_max l)
        | HaveOk le fl hl bl false => l
        | HaveOk le fl hl bl true =>
            match load_message le fl hl bl (l_fds l) (l_buf l) with
            | inr r => mkLoader (l_buf l) true r (l_msgs l) (l_fds l) (l_max l)
            | inl m =>
                queue_messages f (mkLoader (skipn (N.to_nat (hl + bl)) (l_buf l)) false V_VALID
                                           (l_msgs l ++ [m]) (l_fds l - m_nfds m) (l_max l))
            end
        end
  end.

(* get_buffer / return_buffer with [chunk] appended, then queue_messages
   (as the transport does after every read).  Bytes arriving after corruption
   are still appended by the C code but never looked at. *)
Definition feed (l : loader) (chunk : bytes) (fds : N) : loader :=
  let l1 := mkLoader (l_buf l ++ chunk) (l_corrupted l) (l_reason l) (l_msgs l) (l_fds l + fds) (l_max l) in
  queue_messages (S (length (l_buf l1))) l1.      (* every message consumes at least one byte: fuel suffices *)

Definition feed_all (l : loader) (chunks : list bytes) : loader :=
  fold_left (fun l c => feed l c 0) chunks l.

(* ---- the read limit ------------------------------------------------------
   _dbus_message_loader_get_buffer: how many bytes the transport may read next and whether
   descriptors may accompany them.  With no descriptors held the answer is "as much as you like";
   while descriptors are held the loader asks only for the rest of the message it is in the middle of
   (first the rest of the 16-byte fixed header, then the rest of header + body), so that bytes of the
   next message -- and the descriptors travelling with its first byte -- are not read early.
   [None] = the explicit out-of-fuel result (excluded by Proofs/ReadLimit.v). *)
Fixpoint max_to_read_loop (fuel : nat) (max : N) (d : bytes) : option (N * bool) :=
  match fuel with
  | O => None
  | S f =>
      if nlen d =? 0 then Some (DBUS_MAXIMUM_MESSAGE_LENGTH, true)                    (* while (remain > 0) ends *)
      else if nlen d <? DBUS_MINIMUM_HEADER_SIZE then Some (DBUS_MINIMUM_HEADER_SIZE - nlen d, false)
      else
        match have_message max d with
        | HaveInvalid _ => Some (DBUS_MAXIMUM_MESSAGE_LENGTH, true)
        | HaveOk _ _ hl bl false => Some (hl + bl - nlen d, false)
        | HaveOk _ _ hl bl true => max_to_read_loop f max (skipn (N.to_nat (hl + bl)) d)   (* skip an entire message *)
        end
  end.

Definition max_to_read (l : loader) : option (N * bool) :=
  if l_fds l =? 0 then Some (DBUS_MAXIMUM_MESSAGE_LENGTH, true)
  else max_to_read_loop (S (length (l_buf l))) (l_max l) (l_buf l).

(* the socket transport's use of it (do_reading): ask for the limit, read at most that much of what
   the peer has written, hand it to the loader, queue messages, stop at corruption; descriptors
   arrive with the first read.  A limit of 0 with data outstanding is a stall (a 0-byte read is
   taken for end-of-file by the transport): reported as [inr l].  Out of fuel is [inr] too. *)
Fixpoint feed_limited (fuel : nat) (l : loader) (chunk : bytes) (fds : N) : loader + loader :=
  match chunk with
  | [] => inl l
  | _ =>
      match fuel with
      | O => inr l
      | S f =>
          if l_corrupted l then inl l
          else match max_to_read l with
               | None => inr l
               | Some (mx, _) =>
                   if mx =? 0 then inr l
                   else let k := N.to_nat (N.min mx (nlen chunk)) in
                        feed_limited f (feed l (firstn k chunk) fds) (skipn k chunk) 0
               end
      end
  end.

(* dbus_message_demarshal: corrupt / first message / nothing complete (reported as OOM by the C code) *)
Inductive demarshal_res := DemCorrupt (r : Z) | DemMsg (m : message) | DemIncomplete.
Definition demarshal (d : bytes) : demarshal_res :=
  let l := feed loader_new d 0 in
  if l_corrupted l then DemCorrupt (l_reason l)
  else match l_msgs l with
       | m :: _ => DemMsg m
       | [] => DemIncomplete
       end.

(* dbus_message_demarshal_bytes_needed *)
Definition bytes_needed (d : bytes) : Z :=
  if nlen d <? DBUS_MINIMUM_HEADER_SIZE then 0%Z
  else match have_message DBUS_MAXIMUM_MESSAGE_LENGTH d with   (* only the first 16 bytes are read; the length clamp does not matter for the result *)
       | HaveInvalid _ => (-1)%Z
       | HaveOk _ _ hl bl _ => Z.of_N (hl + bl)
       end.
