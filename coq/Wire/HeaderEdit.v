(* Model of message construction and header editing at the level of the decoded
   message (field list in wire order + body values), re-serialised by the
   specification encoder.  Mirrors the observable result of
   _dbus_header_set_field_basic / _dbus_header_delete_field /
   _dbus_header_remove_unknown_fields (dbus-marshal-header.c) and of the
   DBusTypeWriter (dbus-marshal-recursive.c): replace in place, append at the
   end, delete in place.  The byte-shuffling C code is tied to this model by
   the correspondence run (bytes compared after every operation). *)
From DV Require Export Spec.Codec.
Local Open Scope N_scope.

Fixpoint ty_of_val (v : val) : ty :=
  match v with
  | VNum c _ => TBasic c
  | VStr c _ => TBasic c
  | VArr et _ => TArray et
  | VStruct fs => TStruct (map ty_of_val fs)
  | VDictE k x => TDict (match k with VNum c _ => c | VStr c _ => c | _ => 0 end) (ty_of_val x)
  | VVar _ _ => TVariant
  end.

Definition sig_of_vals (vs : list val) : bytes := flat_map (fun v => print_ty (ty_of_val v)) vs.

Definition mk_field (code : N) (v : val) : sfield := mkSField code (ty_of_val v) v.

(* set: replace in place if present, else append at the end *)
Fixpoint set_field (fs : list sfield) (code : N) (v : val) : list sfield :=
  match fs with
  | [] => [mk_field code v]
  | f :: r => if sf_code f =? code then mk_field code v :: r else f :: set_field r code v
  end.

Definition del_field (fs : list sfield) (code : N) : list sfield :=
  filter (fun f => negb (sf_code f =? code)) fs.

Definition strip_unknown (fs : list sfield) : list sfield :=
  filter (fun f => sf_code f <=? 10) fs.

Definition get_field (fs : list sfield) (code : N) : option val :=
  match find (fun f => sf_code f =? code) fs with
  | Some f => Some (sf_val f)
  | None => None
  end.

Inductive edit :=
| ESet (code : N) (v : val)
| EDel (code : N)
| EStrip.

Definition apply_edit (m : smsg) (e : edit) : smsg :=
  let fs := match e with
            | ESet c v => set_field (s_fields m) c v
            | EDel c => del_field (s_fields m) c
            | EStrip => strip_unknown (s_fields m)
            end in
  mkSMsg (s_le m) (s_type m) (s_flags m) (s_serial m) fs (s_sig m) (s_body m).

(* message construction: setters in call order, then the body (which adds the SIGNATURE field last) *)
Definition build (le : bool) (mtype flags serial : N) (edits : list edit) (body : list val) : smsg :=
  let m0 := mkSMsg le mtype flags serial [] [] [] in
  let m1 := fold_left apply_edit edits m0 in
  let sg := sig_of_vals body in
  let fs := match body with
            | [] => s_fields m1
            | _ => set_field (s_fields m1) 8 (VStr 103 sg)
            end in
  mkSMsg le mtype flags serial fs sg body.

(* conversion to the other byte order: same abstract message, other encoding *)
Definition swap_order (m : smsg) : smsg :=
  mkSMsg (negb (s_le m)) (s_type m) (s_flags m) (s_serial m) (s_fields m) (s_sig m) (s_body m).

(* copy: equal message with serial 0 *)
Definition copy_msg (m : smsg) : smsg :=
  mkSMsg (s_le m) (s_type m) (s_flags m) 0 (s_fields m) (s_sig m) (s_body m).
