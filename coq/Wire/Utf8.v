(* Model of _dbus_string_validate_utf8 (dbus-string.c) with the UTF8_COMPUTE
   lead-byte table, the UTF8_LENGTH steps and UNICODE_VALID steps GENERATED
   from the C macros. *)
From DV Require Export Lib.Base Gen.Tables.
Local Open Scope N_scope.

Definition utf8_compute (c : N) : N * N := nth (N.to_nat c) tbl_utf8_compute (0, 0).

(* step function: value of the last step whose threshold is <= x *)
Fixpoint step_lookup {A} (steps : list (N * A)) (x : N) (cur : A) : A :=
  match steps with
  | [] => cur
  | (t, v) :: r => if t <=? x then step_lookup r x v else cur
  end.

Definition utf8_length (ch : N) : N := step_lookup utf8_length_steps ch 0.
Definition unicode_valid (ch : N) : bool := step_lookup unicode_valid_steps ch false.

Definition BAD_UNICHAR : N := 4294967295.   (* (dbus_unichar_t) -1 *)

(* UTF8_GET: fold over the continuation bytes *)
Fixpoint utf8_get (acc : N) (cont : bytes) : N :=
  match cont with
  | [] => acc
  | b :: r =>
      if negb (N.land b 192 =? 128) then BAD_UNICHAR
      else utf8_get (N.lor (N.shiftl acc 6) (N.land b 63)) r
  end.

Fixpoint utf8_loop (fuel : nat) (s : bytes) : option bool :=
  match fuel with
  | O => None
  | S f =>
      match s with
      | [] => Some true
      | c :: rest =>
          if c =? 0 then Some false
          else if c <? 128 then utf8_loop f rest
          else
            let '(len, mask) := utf8_compute c in
            if len =? 0 then Some false
            else if nlen s <? len then Some false
            else
              let n := N.to_nat (len - 1) in
              let r := utf8_get (N.land c mask) (firstn n rest) in
              if negb (utf8_length r =? len) then Some false
              else if negb (unicode_valid r) then Some false
              else utf8_loop f (skipn n rest)
      end
  end.

Definition validate_utf8 (s : bytes) : option bool := utf8_loop (S (length s)) s.
