(* Model of the byte-order converter of libdbus:
     byteswap_body_helper, _dbus_marshal_byteswap   (dbus/dbus-marshal-byteswap.c)
     _dbus_swap_array                               (dbus/dbus-marshal-basic.c)
     _dbus_header_byteswap                          (dbus/dbus-marshal-header.c)
     get_const_signature, _dbus_message_byteswap    (dbus/dbus-message.c)

   The C code walks a signature with a types-only DBusTypeReader and a pointer
   [p] into the marshalled data and swaps words in place.  Here the walk is over
   the type AST; the state is the offset [pos] of [p] from the (8-aligned) start
   of the DBusString and the bytes from [p] to the end of the string.  A step
   returns the converted image of the bytes it walked over, the new offset and
   the bytes not yet walked over; the result of the in-place conversion is
   (image ++ rest).  Bytes the C code only steps over (alignment padding, string
   contents, NULs, signatures) are copied; stepping over or reading bytes that
   are not there is the explicit result [BFault] (the C code would read or write
   outside the string); exhausted recursion / loop fuel is the explicit result
   [BFuel].  No model file of the specification codec is used. *)
From DV Require Export Lib.Base Gen.Tables Wire.Body Spec.SigSpec.
Local Open Scope N_scope.

Inductive bres (A : Type) : Type :=
| BOk (x : A)
| BFault          (* access outside the data / a type code the C switch asserts not to see *)
| BFuel.          (* model-level: out of fuel *)
Arguments BOk {A} x.
Arguments BFault {A}.
Arguments BFuel {A}.

Definition bbind {A B} (r : bres A) (f : A -> bres B) : bres B :=
  match r with BOk x => f x | BFault => BFault | BFuel => BFuel end.

(* the next n bytes and what follows them; [None] when fewer than n are left *)
Definition grab (n : N) (d : bytes) : option (bytes * bytes) :=
  if nlen d <? n then None else Some (firstn (N.to_nat n) d, skipn (N.to_nat n) d).

(* a walker's result: image of the bytes walked over, new offset, remaining bytes *)
Definition walk := bres (bytes * N * bytes).

(* p = _DBUS_ALIGN_ADDRESS (p, a): the bytes stepped over are not looked at and stay as they are *)
Definition align_skip (pos a : N) (d : bytes) : walk :=
  let p' := align_up pos a in
  match grab (p' - pos) d with
  | Some (z, r) => BOk (z, p', r)
  | None => BFault
  end.

(* p = ALIGN (p, w); the w-byte word at p is replaced by its byte-reversed value; p += w      (w = 2, 4, 8) *)
Definition swap_word (w : N) (pos : N) (data : bytes) : walk :=
  bbind (align_skip pos w data) (fun '(z, p1, d1) =>
  match grab w d1 with
  | Some (b, d2) => BOk (z ++ rev b, p1 + w, d2)
  | None => BFault
  end).

(* the length word of ARRAY / STRING / OBJECT_PATH:
     p = ALIGN (p, 4); array_len = _dbus_unpack_uint32 (old_byte_order, p); swap the word in place; p += 4 *)
Definition swap_len32 (old_le : bool) (pos : N) (data : bytes) : bres (bytes * N * N * bytes) :=
  bbind (align_skip pos 4 data) (fun '(z, p1, d1) =>
  match d1 with
  | b0 :: b1 :: b2 :: b3 :: d2 => BOk (z ++ [b3; b2; b1; b0], unpack32 old_le (b0, b1, b2, b3), p1 + 4, d2)
  | _ => BFault
  end).

(* _dbus_swap_array (data, n_elements, alignment): n blocks of w bytes, each reversed *)
Fixpoint swap_blocks (n : nat) (w : nat) (d : bytes) : bytes :=
  match n with
  | O => d
  | S n' => rev (firstn w d) ++ swap_blocks n' w (skipn w d)
  end.

(* one iteration of the switch for a basic type code *)
Definition bs_basic (old_le : bool) (code : N) (pos : N) (data : bytes) : walk :=
  if code =? DBUS_TYPE_BYTE then                                  (* ++p *)
    match grab 1 data with Some (b, r) => BOk (b, pos + 1, r) | None => BFault end
  else if (code =? DBUS_TYPE_INT16) || (code =? DBUS_TYPE_UINT16) then swap_word 2 pos data
  else if (code =? DBUS_TYPE_BOOLEAN) || (code =? DBUS_TYPE_INT32) || (code =? DBUS_TYPE_UINT32) || (code =? DBUS_TYPE_UNIX_FD)
       then swap_word 4 pos data
  else if (code =? DBUS_TYPE_INT64) || (code =? DBUS_TYPE_UINT64) || (code =? DBUS_TYPE_DOUBLE) then swap_word 8 pos data
  else if (code =? DBUS_TYPE_STRING) || (code =? DBUS_TYPE_OBJECT_PATH) then
    bbind (swap_len32 old_le pos data) (fun '(o, len, p1, d1) =>
    match grab (len + 1) d1 with                                  (* p += (array_len + 1), + 1 for nul *)
    | Some (s, d2) => BOk (o ++ s, p1 + (len + 1), d2)
    | None => BFault
    end)
  else if code =? DBUS_TYPE_SIGNATURE then
    match data with
    | [] => BFault
    | len :: d1 =>                                                (* sig_len = p[0]; p += (sig_len + 2) *)
        match grab (len + 1) d1 with
        | Some (s, d2) => BOk (len :: s, pos + (len + 2), d2)
        | None => BFault
        end
    end
  else BFault.                                                    (* _dbus_assert_not_reached ("invalid typecode ...") *)

Section Loops.
  (* [step t pos data]: the recursive call byteswap_body_helper (&sub, FALSE, ...) = one value of type t *)
  Variable step : ty -> N -> bytes -> walk.

  (* byteswap_body_helper (&sub, TRUE, ...): every type of the reader in turn *)
  Fixpoint bs_fields (ts : list ty) (pos : N) (data : bytes) : walk :=
    match ts with
    | [] => BOk ([], pos, data)
    | t :: r =>
        bbind (step t pos data) (fun '(o1, p1, d1) =>
        bbind (bs_fields r p1 d1) (fun '(o2, p2, d2) => BOk (o1 ++ o2, p2, d2)))
    end.

  (* while (p < array_end) byteswap_body_helper (&sub, FALSE, ..., p, &p);
     an element may run past array_end: the loop just stops *)
  Fixpoint bs_elems (n : nat) (et : ty) (array_end : N) (pos : N) (data : bytes) : walk :=
    match n with
    | O => BFuel
    | S n' =>
        if pos <? array_end then
          bbind (step et pos data) (fun '(o1, p1, d1) =>
          bbind (bs_elems n' et array_end p1 d1) (fun '(o2, p2, d2) => BOk (o1 ++ o2, p2, d2)))
        else BOk ([], pos, data)
    end.

  (* case DBUS_TYPE_ARRAY *)
  Definition bs_array (old_le : bool) (et : ty) (pos : N) (data : bytes) : walk :=
    bbind (swap_len32 old_le pos data) (fun '(o, len, p1, d1) =>
    let al := ty_alignment et in                      (* _dbus_type_get_alignment (elem_type) *)
    if al =? 0 then BFault else                       (* array_len / alignment in the assertion: not a type *)
    bbind (align_skip p1 al d1) (fun '(z, p2, d2) =>  (* p = _DBUS_ALIGN_ADDRESS (p, alignment): for EVERY element type *)
    if ty_is_fixed et then                            (* dbus_type_is_fixed (elem_type) *)
      match grab len d2 with                          (* p += array_len *)
      | None => BFault
      | Some (reg, d3) =>
          let reg' := if 1 <? al then swap_blocks (N.to_nat (len / al)) (N.to_nat al) reg else reg in
          BOk (o ++ z ++ reg', p2 + len, d3)
      end
    else
      bbind (bs_elems (S (length d2)) et (p2 + len) p2 d2) (fun '(o3, p3, d3) => BOk (o ++ z ++ o3, p3, d3)))).

  (* case DBUS_TYPE_VARIANT: 1 byte sig len, sig typecodes, nul, align to contained-type boundary, value *)
  Definition bs_variant (pos : N) (data : bytes) : walk :=
    match data with
    | [] => BFault
    | len :: d1 =>
        match grab len d1 with
        | None => BFault
        | Some (sg, d2) =>
            match d2 with
            | [] => BFault
            | nul :: d3 =>                                         (* p += (sig_len + 1): the nul is not looked at *)
                match parse_sig sg with
                | Some (ct :: _) =>                                (* the reader is walked once only (walk_reader_to_end = FALSE) *)
                    bbind (align_skip (pos + 1 + len + 1) (ty_alignment ct) d3) (fun '(z, p4, d4) =>
                    bbind (step ct p4 d4) (fun '(o, p5, d5) => BOk (len :: sg ++ nul :: z ++ o, p5, d5)))
                | _ => BFault                                      (* not a validated signature *)
                end
            end
        end
    end.

  (* case DBUS_TYPE_STRUCT / DBUS_TYPE_DICT_ENTRY *)
  Definition bs_struct (ts : list ty) (pos : N) (data : bytes) : walk :=
    bbind (align_skip pos 8 data) (fun '(z, p1, d1) =>
    bbind (bs_fields ts p1 d1) (fun '(o, p2, d2) => BOk (z ++ o, p2, d2))).
End Loops.

(* byteswap_body_helper, one iteration of the while loop; [d] bounds the C recursion depth *)
Fixpoint bsv (old_le : bool) (d : nat) (t : ty) (pos : N) (data : bytes) {struct d} : walk :=
  match d with
  | O => BFuel
  | S d' =>
      match t with
      | TBasic code => bs_basic old_le code pos data
      | TArray et => bs_array (bsv old_le d') old_le et pos data
      | TVariant => bs_variant (bsv old_le d') pos data
      | TStruct ts => bs_struct (bsv old_le d') ts pos data
      | TDict k v => bs_struct (bsv old_le d') [TBasic k; v] pos data
      end
  end.

Definition BS_FUEL : nat := 80.     (* validated data nests at most 64 containers deep *)

(* _dbus_marshal_byteswap (signature, ..., old, new, value_str, value_pos) with old != new:
   [data] = the bytes of value_str from value_pos on *)
Definition byteswap_walk (old_le : bool) (tys : list ty) (value_pos : N) (data : bytes) : walk :=
  bs_fields (bsv old_le BS_FUEL) tys value_pos data.

Definition byteswap_at_r (old_le : bool) (tys : list ty) (value_pos : N) (data : bytes) : bres bytes :=
  bbind (byteswap_walk old_le tys value_pos data) (fun '(o, _, rest) => BOk (o ++ rest)).

Definition to_option {A} (r : bres A) : option A := match r with BOk x => Some x | _ => None end.

Definition byteswap_at (old_le : bool) (tys : list ty) (value_pos : N) (data : bytes) : option bytes :=
  to_option (byteswap_at_r old_le tys value_pos data).

(* a message body: value_pos = 0 *)
Definition byteswap_body (old_le : bool) (tys : list ty) (data : bytes) : option bytes :=
  byteswap_at old_le tys 0 data.

(* ---- the header --------------------------------------------------------------------- *)
(* _dbus_header_signature_str = "yyyyuua(yv)" *)
Definition header_types : option (list ty) := parse_sig DBUS_HEADER_SIGNATURE_str.

(* _dbus_header_byteswap: _dbus_marshal_byteswap (&_dbus_header_signature_str, 0, old, new, &header->data, 0);
   _dbus_string_set_byte (&header->data, BYTE_ORDER_OFFSET, new_order) *)
Definition byteswap_header_r (old_le : bool) (hdr : bytes) : bres bytes :=
  match header_types with
  | None => BFault
  | Some htys =>
      bbind (byteswap_at_r old_le htys 0 hdr) (fun h =>
      match h with
      | _ :: h' => BOk ((if old_le then DBUS_BIG_ENDIAN else DBUS_LITTLE_ENDIAN) :: h')
      | [] => BFault
      end)
  end.

(* get_const_signature: the value of the SIGNATURE header field as recorded when the header was loaded
   (load_and_validate_field / _dbus_header_cache_revalidate walk the array of (yv) structs with a type
   reader in the message's byte order and note where the value of each known field starts; a loaded
   header has no field twice).  [Some sg] = the field's signature string, [None] = no such field
   (then the empty signature is used).  Field values are stepped over with the same walker. *)
Fixpoint find_signature (fuel : nat) (old_le : bool) (array_end : N) (pos : N) (data : bytes) : bres (option bytes) :=
  match fuel with
  | O => BFuel
  | S f =>
      if pos <? array_end then
        bbind (align_skip pos 8 data) (fun '(_, p0, d0) =>
        match d0 with
        | code :: slen :: d1 =>
            match grab slen d1 with
            | None => BFault
            | Some (sg, d2) =>
                match d2 with
                | [] => BFault
                | _ :: d3 =>
                    let p3 := p0 + 1 + 1 + slen + 1 in
                    if code =? DBUS_HEADER_FIELD_SIGNATURE then
                      (* value_pos points at the signature's length byte; the type string starts one byte later *)
                      match d3 with
                      | [] => BFault
                      | len :: d4 => match grab len d4 with
                                     | Some (s, _) => BOk (Some s)
                                     | None => BFault
                                     end
                      end
                    else
                      match parse_sig sg with
                      | Some (ct :: _) =>
                          bbind (bsv old_le BS_FUEL ct p3 d3) (fun '(_, p5, d5) => find_signature f old_le array_end p5 d5)
                      | _ => BFault
                      end
                end
            end
        | _ => BFault
        end)
      else BOk None
  end.

(* _dbus_message_byteswap on one complete marshalled message (header.data ++ body):
   body first (its signature comes from the not yet converted header), then the header;
   the byte-order mark is flipped. *)
Definition byteswap_message_r (d : bytes) : bres bytes :=
  match d with
  | bo :: _ :: _ :: _ :: l0 :: l1 :: l2 :: l3 :: _ :: _ :: _ :: _ :: f0 :: f1 :: f2 :: f3 :: _ =>
      if negb ((bo =? DBUS_LITTLE_ENDIAN) || (bo =? DBUS_BIG_ENDIAN)) then BFault else
      let old_le := bo =? DBUS_LITTLE_ENDIAN in
      let body_len := unpack32 old_le (l0, l1, l2, l3) in
      let fields_len := unpack32 old_le (f0, f1, f2, f3) in
      let header_len := align_up (16 + fields_len) 8 in
      match grab header_len d with
      | None => BFault
      | Some (hdr, body) =>
          if negb (nlen body =? body_len) then BFault else
          bbind (find_signature (S (length hdr)) old_le (16 + fields_len) 16 (skipn 16 hdr)) (fun osig =>
          match parse_sig (match osig with Some s => s | None => [] end) with
          | None => BFault
          | Some tys =>
              bbind (byteswap_at_r old_le tys 0 body) (fun body' =>
              bbind (byteswap_header_r old_le hdr) (fun hdr' => BOk (hdr' ++ body')))
          end)
      end
  | _ => BFault
  end.

Definition byteswap_message (d : bytes) : option bytes := to_option (byteswap_message_r d).

(* 0 = converted, 1 = fault, 2 = out of fuel (for the driver) *)
Definition bres_code {A} (r : bres A) : N := match r with BOk _ => 0 | BFault => 1 | BFuel => 2 end.
