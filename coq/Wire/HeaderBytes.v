(* BYTE-LEVEL model of the libdbus header editor: dbus/dbus-marshal-header.c
   (_dbus_header_cache_*, find_field_for_modification, _dbus_header_set_field_basic,
   _dbus_header_delete_field, _dbus_header_get_field_basic/_raw, _dbus_header_set_serial,
   _dbus_header_update_lengths, _dbus_header_remove_unknown_fields, reserve_header_padding,
   correct_header_padding) with the parts of dbus/dbus-marshal-recursive.c they use
   (_dbus_type_reader_set_basic, reader_set_basic_variable_length, replacement_block_*,
   _dbus_type_reader_delete, writer_write_reader_helper's enabling logic, the values-only
   DBusTypeWriter on the header signature) and dbus/dbus-marshal-basic.c
   (_dbus_marshal_set_basic -> set_4_octets, _dbus_marshal_write_basic).

   State = DBusHeader: [h_data] (the header bytes INCLUDING the trailing padding to 8),
   [h_padding] (header->padding) and [h_cache] (header->fields[0..10].value_pos:
   _DBUS_HEADER_FIELD_VALUE_UNKNOWN / _NONEXISTENT / the position returned by
   _dbus_type_reader_get_value_pos of the variant's sub-reader, i.e. the ALIGNED position
   of the field's value).  The byte order is read from byte 0 of the data, as
   _dbus_header_get_byte_order does.

   Every walk over the fields array is done with the DBusTypeReader model of
   Wire/Reader.v (recurse / current_type / read_basic / rnext) on the header signature
   "yyyyuua(yv)" at type_pos 6, value_pos 12 -- the same calls in the same order as the C.
   Results are [rr] (Wire/Reader.v): a read outside the data is R_FAULT, a failed
   _dbus_assert is R_ASSERT, fuel exhaustion R_FUEL; never a default value.

   Simplifications (all listed in notes/C12_bytes.md):
   * out-of-memory returns are not modelled (every allocation succeeds);
   * the 7 bytes exposed by reserve_header_padding (_dbus_string_lengthen does not
     initialise them) are zeros here; they are removed again by correct_header_padding;
   * writer_write_reader_helper re-marshals the array elements behind the edited one value
     by value (DBusTypeReader -> DBusTypeWriter); here an element (a struct, which starts
     on an 8-boundary in the source and in the target) is copied as the block of bytes
     between its aligned start and its end (found by the reader model), preceded by the
     padding to 8 the writer inserts.  The enabling logic (enable_if_after /
     this_is_start_after), the fix-up of the array length and _dbus_string_replace_len are
     followed literally;
   * header fields are written with the types libdbus uses: UINT32, STRING, OBJECT_PATH,
     SIGNATURE (anything else is R_ASSERT).
   Model file: definitions only, proofs in Proofs/HeaderBytesProofs.v. *)
From DV Require Export Lib.Base Gen.Tables Spec.Codec Wire.Body Wire.Reader Wire.HeaderEdit.
Local Open Scope N_scope.

(* ---- constants of dbus-marshal-header.c ------------------------------------------- *)
Definition HSIG : bytes := [121; 121; 121; 121; 117; 117; 97; 40; 121; 118; 41; 0].   (* DBUS_HEADER_SIGNATURE "yyyyuua(yv)" + NUL *)
Definition FIELDS_ARRAY_SIGNATURE_OFFSET : N := 6.
Definition BODY_LENGTH_OFFSET : N := 4.
Definition SERIAL_OFFSET : N := 8.
Definition FIELDS_ARRAY_LENGTH_OFFSET : N := 12.
Definition FIRST_FIELD_OFFSET : N := 16.
Definition MAX_POSSIBLE_HEADER_PADDING : N := 7.

(* _dbus_header_field_types[].type (EXPECTED_TYPE_OF_FIELD) *)
Definition expected_type (field : N) : N :=
  nth (N.to_nat field)
      [0; DBUS_TYPE_OBJECT_PATH; DBUS_TYPE_STRING; DBUS_TYPE_STRING; DBUS_TYPE_STRING; DBUS_TYPE_UINT32;
       DBUS_TYPE_STRING; DBUS_TYPE_STRING; DBUS_TYPE_SIGNATURE; DBUS_TYPE_UINT32; DBUS_TYPE_OBJECT_PATH] 0.

(* ---- DBusHeader --------------------------------------------------------------------- *)
Inductive centry := CUnknown | CNonexistent | CPos (p : N).
Definition cache := list centry.            (* 11 entries, index = field code *)
Record hdr := mkH { h_data : bytes; h_padding : N; h_cache : cache }.

Definition cache_all (e : centry) : cache := repeat e 11.
Definition cache_get (c : cache) (field : N) : centry := nth (N.to_nat field) c CUnknown.
Fixpoint cache_set_nat (c : cache) (i : nat) (e : centry) : cache :=
  match c, i with
  | [], _ => []
  | _ :: r, O => e :: r
  | x :: r, S i' => x :: cache_set_nat r i' e
  end.
Definition cache_set (c : cache) (field : N) (e : centry) : cache := cache_set_nat c (N.to_nat field) e.

(* ---- DBusString primitives (dbus-string.c); the assertions on ranges are explicit ------ *)
(* _dbus_string_insert_bytes / _dbus_string_insert_byte / _dbus_string_copy_len into [s] at [pos] *)
Definition str_insert (pos : N) (ins s : bytes) : rr bytes :=
  if nlen s <? pos then inr R_ASSERT
  else inl (firstn (N.to_nat pos) s ++ ins ++ skipn (N.to_nat pos) s).

(* set_4_octets / _dbus_marshal_set_uint32: overwrite in place; the range must exist *)
Definition str_overwrite (pos : N) (new s : bytes) : rr bytes :=
  if nlen s <? pos + nlen new then inr R_FAULT
  else inl (firstn (N.to_nat pos) s ++ new ++ skipn (N.to_nat (pos + nlen new)) s).

(* _dbus_string_replace_len (source, 0.., dest = s, replace_at, replace_len) *)
Definition str_replace (ins s : bytes) (replace_at replace_len : N) : rr bytes :=
  if nlen s <? replace_at + replace_len then inr R_ASSERT
  else inl (firstn (N.to_nat replace_at) s ++ ins ++ skipn (N.to_nat (replace_at + replace_len)) s).

(* _dbus_string_shorten *)
Definition str_shorten (n : N) (s : bytes) : rr bytes :=
  if nlen s <? n then inr R_ASSERT else inl (firstn (N.to_nat (nlen s - n)) s).

(* the bytes [a, b) of s (what a reader->writer copy of the values in that range reads) *)
Definition str_slice (s : bytes) (a b : N) : rr bytes :=
  if (b <? a) || (nlen s <? b) then inr R_FAULT
  else inl (firstn (N.to_nat (b - a)) (skipn (N.to_nat a) s)).

(* ---- _dbus_marshal_write_basic for the types of header fields ---------------------------- *)
Definition val_typecode (v : val) : N := match v with VNum c _ => c | VStr c _ => c | _ => 0 end.

(* insert the marshalled value into [s] at [pos] (alignment padding first); returns the new string and
   the position after the value *)
Definition marshal_write (le : bool) (s : bytes) (pos : N) (v : val) : rr (bytes * N) :=
  match v with
  | VNum c n =>
      if c =? DBUS_TYPE_UINT32 then
        let p := align_up pos 4 in
        do s' <- str_insert pos (zeros (p - pos) ++ bytes_of le 4 n) s;; inl (s', p + 4)
      else inr R_ASSERT
  | VStr c x =>
      if (c =? DBUS_TYPE_STRING) || (c =? DBUS_TYPE_OBJECT_PATH) then          (* marshal_string: aligned length, bytes, NUL *)
        let p := align_up pos 4 in
        do s' <- str_insert pos (zeros (p - pos) ++ bytes_of le 4 (nlen x) ++ x ++ [0]) s;; inl (s', p + 4 + nlen x + 1)
      else if c =? DBUS_TYPE_SIGNATURE then                                     (* marshal_signature: length byte (asserted <= 255) *)
        if DBUS_MAXIMUM_SIGNATURE_LENGTH <? nlen x then inr R_ASSERT
        else do s' <- str_insert pos (nlen x :: x ++ [0]) s;; inl (s', pos + nlen x + 2)
      else inr R_ASSERT
  | _ => inr R_ASSERT
  end.

(* ---- byte order, padding ---------------------------------------------------------------- *)
(* _dbus_header_get_byte_order; everything that is not 'l' is treated as big endian by the unpack macros *)
Definition hb_le (d : bytes) : rr bool := do b <- get_byte d 0;; inl (b =? DBUS_LITTLE_ENDIAN).

(* reserve_header_padding *)
Definition reserve_header_padding (h : hdr) : rr hdr :=
  if MAX_POSSIBLE_HEADER_PADDING <? h_padding h then inr R_ASSERT
  else inl (mkH (h_data h ++ zeros (MAX_POSSIBLE_HEADER_PADDING - h_padding h)) MAX_POSSIBLE_HEADER_PADDING (h_cache h)).

(* correct_header_padding: drop the reserved bytes, re-pad to 8 with zeros *)
Definition correct_header_padding (h : hdr) : rr hdr :=
  if negb (h_padding h =? 7) then inr R_ASSERT
  else
    do d1 <- str_shorten (h_padding h) (h_data h);;
    let unpadded_len := nlen d1 in
    let d2 := d1 ++ zeros (align_up unpadded_len 8 - unpadded_len) in
    inl (mkH d2 (nlen d2 - unpadded_len) (h_cache h)).

(* ---- walking the fields array with the reader --------------------------------------------- *)
(* nesting fuel for _dbus_type_reader_next: every level of nesting costs a byte of the data *)
Definition hfuel (d : bytes) : nat := (12 + length d)%nat.

(* _dbus_type_reader_init (&reader, byte_order, &_dbus_header_signature_str, FIELDS_ARRAY_SIGNATURE_OFFSET,
                           &header->data, FIELDS_ARRAY_LENGTH_OFFSET) *)
Definition root_reader : reader := reader_init FIELDS_ARRAY_SIGNATURE_OFFSET FIELDS_ARRAY_LENGTH_OFFSET.

(* _dbus_assert (current_type (&sub) == DBUS_TYPE_BYTE); _dbus_type_reader_read_basic (&sub, &field_code) *)
Definition read_code (le : bool) (d : bytes) (sub : reader) : rr N :=
  do t <- current_type le HSIG d sub;;
  if negb (t =? DBUS_TYPE_BYTE) then inr R_ASSERT
  else do v <- read_basic le HSIG d sub;;
       match v with VNum _ code => inl code | _ => inr R_ASSERT end.

(* _dbus_type_reader_next (&sub); assert VARIANT; _dbus_type_reader_recurse (&sub, &variant) *)
Definition variant_of (le : bool) (d : bytes) (sub : reader) : rr reader :=
  do sm <- rnext le HSIG d (hfuel d) sub;;
  let sub' := fst sm in
  do t <- current_type le HSIG d sub';;
  if negb (t =? DBUS_TYPE_VARIANT) then inr R_ASSERT
  else recurse HSIG d sub'.

(* the loop of _dbus_header_cache_revalidate *)
Fixpoint reval_loop (n : nat) (le : bool) (d : bytes) (arr : reader) (c : cache) : rr cache :=
  match n with
  | O => inr R_FUEL
  | S n' =>
      do t <- current_type le HSIG d arr;;
      if t =? T_INVALID then inl c
      else
        do sub <- recurse HSIG d arr;;
        do code <- read_code le d sub;;
        do c' <- (if DBUS_HEADER_FIELD_LAST <? code then inl c               (* unknown fields are ignored *)
                  else do variant <- variant_of le d sub;;
                       inl (cache_set c code (CPos (r_vpos variant))));;     (* _dbus_header_cache_one *)
        do am <- rnext le HSIG d (hfuel d) arr;;
        reval_loop n' le d (fst am) c'
  end.

(* _dbus_header_cache_revalidate *)
Definition cache_revalidate (d : bytes) : rr cache :=
  do le <- hb_le d;;
  do arr <- recurse HSIG d root_reader;;
  reval_loop (S (length d)) le d arr (cache_all CNonexistent).

(* _dbus_header_cache_check: the new cache and whether the field exists *)
Definition cache_check (h : hdr) (field : N) : rr (bool * hdr) :=
  if DBUS_HEADER_FIELD_LAST <? field then inr R_ASSERT
  else
    do c1 <- (match cache_get (h_cache h) field with
              | CUnknown => cache_revalidate (h_data h)
              | _ => inl (h_cache h)
              end);;
    let h1 := mkH (h_data h) (h_padding h) c1 in
    match cache_get c1 field with
    | CNonexistent => inl (false, h1)
    | _ => inl (true, h1)
    end.

(* _dbus_header_cache_known_nonexistent *)
Definition cache_known_nonexistent (h : hdr) (field : N) : rr bool :=
  if DBUS_HEADER_FIELD_LAST <? field then inr R_ASSERT
  else inl (match cache_get (h_cache h) field with CNonexistent => true | _ => false end).

(* the loop of find_field_for_modification: on success the array sub-reader points at the struct *)
Fixpoint find_loop (n : nat) (le : bool) (d : bytes) (field : N) (arr : reader) : rr (bool * reader) :=
  match n with
  | O => inr R_FUEL
  | S n' =>
      do t <- current_type le HSIG d arr;;
      if t =? T_INVALID then inl (false, arr)
      else
        do sub <- recurse HSIG d arr;;
        do code <- read_code le d sub;;
        if code =? field then inl (true, arr)
        else do am <- rnext le HSIG d (hfuel d) arr;; find_loop n' le d field (fst am)
  end.

(* find_field_for_modification: (found, reader, realign_root) *)
Definition find_field_for_modification (le : bool) (d : bytes) (field : N) : rr (bool * reader * reader) :=
  do arr <- recurse HSIG d root_reader;;
  do r <- find_loop (S (length d)) le d field arr;;
  inl (fst r, snd r, root_reader).

(* ---- replacement blocks (dbus-marshal-recursive.c) --------------------------------------------- *)
(* writer_write_reader_helper on the level of the fields array, seen from the writer: [en] is
   writer->enabled, [out] the replacement string (the writer always appends at its end).
   this_is_start_after / enable_if_after exactly as in the C; an element that is written is
   the padding to 8 (writer_recurse_struct_or_dict_entry) followed by its bytes. *)
Fixpoint copy_after (n : nat) (le : bool) (d : bytes) (sa arr : reader) (en : bool) (out : bytes)
  : rr (reader * bool * bytes) :=
  match n with
  | O => inr R_FUEL
  | S n' =>
      do t <- current_type le HSIG d arr;;
      if t =? T_INVALID then inl (arr, en, out)
      else
        let this_is_start_after :=
          (r_vpos arr =? r_vpos sa) && Bool.eqb (r_tval arr) (r_tval sa) && (r_tpos arr =? r_tpos sa) in
        do sub <- recurse HSIG d arr;;
        (* if (!inside_start_after && !this_is_start_after) enable_if_after (writer, &subreader, start_after) *)
        let en1 := if this_is_start_after then en else en || (r_vpos sa <? r_vpos sub) in
        do am <- rnext le HSIG d (hfuel d) arr;;
        let arr' := fst am in
        do out' <- (if en1
                    then do el <- str_slice d (r_vpos sub) (r_vpos arr');;
                         inl (out ++ zeros (align_up (nlen out) 8 - nlen out) ++ el)
                    else inl out);;
        (* after the recursion: enable_if_after (writer, &subreader, start_after), subreader at the end of the struct *)
        let en2 := if this_is_start_after then en1 else en1 || (r_vpos sa <? r_vpos arr') in
        copy_after n' le d sa arr' en2 out'
  end.

(* replacement_block_replace: [block] = block->replacement (padding + the new value),
   [sa] = reader (start_after), [root] = realign_root *)
Definition replacement_block_replace (le : bool) (d block : bytes) (padding : N) (sa root : reader) : rr bytes :=
  (* _dbus_type_writer_write_reader_partial: the writer starts disabled *)
  do arr <- recurse HSIG d root;;
  do r <- copy_after (S (length d)) le d sa arr false block;;
  let '(arr_end, en, out) := r in
  (* back on the top level: enable_if_after (writer, &subreader, start_after); past_start_after *)
  let past_start_after := en || (r_vpos sa <? r_vpos arr_end) in
  (* _dbus_type_reader_next (realign_reader): behind the array, using the OLD length word *)
  do rm <- rnext le HSIG d (hfuel d) root;;
  let root_end := fst rm in
  (* the fix-up of the array length: bytes_before_start_after + start_after_new_len + bytes_written_after_start_after *)
  let new_len := (r_vpos sa - r_start arr) + (nlen block - padding) + (nlen out - nlen block) in
  let len_pos := r_start arr - r_lenoff arr - 4 in
  if r_vpos root_end <? r_vpos sa then inr R_ASSERT
  else
    do moved <- str_slice out padding (nlen out);;
    do d1 <- str_replace moved d (r_vpos sa) (r_vpos root_end - r_vpos sa);;
    if past_start_after then str_overwrite len_pos (bytes_of le 4 new_len) d1     (* apply_and_free_fixups *)
    else inl d1.

(* replacement_block_init + reader_set_basic_variable_length *)
Definition reader_set_basic_variable_length (le : bool) (d : bytes) (variant : reader) (v : val) (root : reader) : rr bytes :=
  let padding := r_vpos variant mod 8 in
  let block := zeros padding in
  do w <- marshal_write le block (nlen block) v;;
  replacement_block_replace le d (fst w) padding variant root.

(* reader_set_basic_fixed_length -> _dbus_marshal_set_basic -> set_4_octets *)
Definition reader_set_basic_fixed_length (le : bool) (d : bytes) (variant : reader) (v : val) : rr bytes :=
  match v with
  | VNum c n =>
      if negb (c =? DBUS_TYPE_UINT32) then inr R_ASSERT
      else if negb (align_up (r_vpos variant) 4 =? r_vpos variant) then inr R_ASSERT
      else str_overwrite (r_vpos variant) (bytes_of le 4 n) d
  | _ => inr R_ASSERT
  end.

(* _dbus_type_reader_set_basic *)
Definition reader_set_basic (le : bool) (d : bytes) (variant : reader) (v : val) (root : reader) : rr bytes :=
  do t <- current_type le HSIG d variant;;
  if type_fixed t then reader_set_basic_fixed_length le d variant v
  else reader_set_basic_variable_length le d variant v root.

(* _dbus_type_reader_delete *)
Definition reader_delete (le : bool) (d : bytes) (rd root : reader) : rr bytes :=
  match r_klass rd with
  | K_ARRAY =>
      let padding := r_vpos rd mod 8 in
      replacement_block_replace le d (zeros padding) padding rd root
  | _ => inr R_ASSERT
  end.

(* set_basic_field: the variant sub-reader of the struct [rd] points at, with the C's assertions *)
Definition set_basic_field (le : bool) (d : bytes) (rd : reader) (field : N) (v : val) (root : reader) : rr bytes :=
  do sub <- recurse HSIG d rd;;
  do code <- read_code le d sub;;
  if negb (code =? field) then inr R_ASSERT
  else
    do variant <- variant_of le d sub;;
    do t <- current_type le HSIG d variant;;
    if negb (t =? val_typecode v) then inr R_ASSERT
    else reader_set_basic le d variant v root.

(* the append branch of _dbus_header_set_field_basic: _dbus_type_writer_append_array on the fields
   array, write_basic_field (struct, byte, variant, value), _dbus_type_writer_unrecurse *)
Definition append_field (le : bool) (d : bytes) (field : N) (v : val) : rr bytes :=
  do len <- get_num le d FIELDS_ARRAY_LENGTH_OFFSET 4;;                 (* writer_recurse_array, is_array_append *)
  let vp := FIRST_FIELD_OFFSET + len in
  if negb (vp + MAX_POSSIBLE_HEADER_PADDING =? nlen d) then inr R_ASSERT       (* array.value_pos == HEADER_END_BEFORE_PADDING *)
  else
    let p0 := align_up vp 8 in
    do d1 <- str_insert vp (zeros (p0 - vp)) d;;                          (* writer_recurse_struct_or_dict_entry *)
    do d2 <- str_insert p0 [field mod 256] d1;;                           (* the field code, a byte *)
    let tc := val_typecode v in
    do d3 <- str_insert (p0 + 1) [1; tc; 0] d2;;                          (* writer_recurse_variant: length, signature, NUL *)
    do al <- type_align tc;;
    let p4 := align_up (p0 + 4) al in
    do d4 <- str_insert (p0 + 4) (zeros (p4 - (p0 + 4))) d3;;             (* padding to the contained type *)
    do w <- marshal_write le d4 p4 v;;
    let '(d5, pend) := w in
    str_overwrite FIELDS_ARRAY_LENGTH_OFFSET (bytes_of le 4 (pend - FIRST_FIELD_OFFSET)) d5.    (* unrecurse: the array length *)

(* ---- the operations of DBusHeader ----------------------------------------------------------------- *)
(* _dbus_header_set_field_basic *)
Definition hb_set_field (field : N) (v : val) (h : hdr) : rr hdr :=
  if DBUS_HEADER_FIELD_LAST <? field then inr R_ASSERT
  else
    do h1 <- reserve_header_padding h;;
    do ch <- cache_check h1 field;;
    let '(present, h2) := ch in
    let d := h_data h2 in
    do le <- hb_le d;;
    do d' <- (if present then
                do f <- find_field_for_modification le d field;;
                let '(found, rd, root) := f in
                if negb found then inr R_ASSERT        (* "field was marked present in cache but wasn't found" *)
                else set_basic_field le d rd field v root
              else append_field le d field v);;
    do h3 <- correct_header_padding (mkH d' (h_padding h2) (h_cache h2));;
    inl (mkH (h_data h3) (h_padding h3) (cache_all CUnknown)).      (* _dbus_header_cache_invalidate_all *)

Definition hb_set_string (field ty : N) (value : bytes) : hdr -> rr hdr := hb_set_field field (VStr ty value).
Definition hb_set_u32 (field value : N) : hdr -> rr hdr := hb_set_field field (VNum DBUS_TYPE_UINT32 value).

(* _dbus_header_delete_field.  [dbg]: the build has assertions (the "expensive assertion" at the end
   re-validates the cache; production builds leave it invalidated) *)
Definition hb_delete (dbg : bool) (field : N) (h : hdr) : rr hdr :=
  do known <- cache_known_nonexistent h field;;
  if known then inl h
  else
    do le <- hb_le (h_data h);;
    do f <- find_field_for_modification le (h_data h) field;;
    let '(found, rd, root) := f in
    if negb found then inl h
    else
      do h1 <- reserve_header_padding h;;
      do d' <- reader_delete le (h_data h1) rd root;;
      do h2 <- correct_header_padding (mkH d' (h_padding h1) (h_cache h1));;
      let h3 := mkH (h_data h2) (h_padding h2) (cache_all CUnknown) in
      if dbg then
        do ch <- cache_check h3 field;;
        if fst ch then inr R_ASSERT else inl (snd ch)
      else inl h3.

(* _dbus_header_get_field_basic: the value as _dbus_marshal_read_basic returns it *)
Definition hb_get (field : N) (h : hdr) : rr (option val * hdr) :=
  if (field =? DBUS_HEADER_FIELD_INVALID) || (DBUS_HEADER_FIELD_LAST <? field) then inr R_ASSERT
  else
    do ch <- cache_check h field;;
    let '(present, h1) := ch in
    if negb present then inl (None, h1)
    else match cache_get (h_cache h1) field with
         | CPos p =>
             do le <- hb_le (h_data h1);;
             do v <- marshal_read_basic le (h_data h1) p (expected_type field);;
             inl (Some v, h1)
         | _ => inr R_ASSERT
         end.

(* _dbus_header_get_field_raw: the position of the marshalled value *)
Definition hb_get_raw (field : N) (h : hdr) : rr (option N * hdr) :=
  do ch <- cache_check h field;;
  let '(present, h1) := ch in
  if negb present then inl (None, h1)
  else match cache_get (h_cache h1) field with
       | CPos p => inl (Some p, h1)
       | _ => inr R_ASSERT
       end.

(* _dbus_header_set_serial (asserts: old serial 0 or new serial 0) *)
Definition hb_set_serial (serial : N) (h : hdr) : rr hdr :=
  do le <- hb_le (h_data h);;
  do old <- get_num le (h_data h) SERIAL_OFFSET 4;;
  if negb ((old =? 0) || (serial =? 0)) then inr R_ASSERT
  else do d' <- str_overwrite SERIAL_OFFSET (bytes_of le 4 serial) (h_data h);;
       inl (mkH d' (h_padding h) (h_cache h)).

(* _dbus_header_get_serial *)
Definition hb_get_serial (h : hdr) : rr N :=
  do le <- hb_le (h_data h);; get_num le (h_data h) SERIAL_OFFSET 4.

(* _dbus_header_update_lengths *)
Definition hb_update_lengths (body_len : N) (h : hdr) : rr hdr :=
  do le <- hb_le (h_data h);;
  do d' <- str_overwrite BODY_LENGTH_OFFSET (bytes_of le 4 body_len) (h_data h);;
  inl (mkH d' (h_padding h) (h_cache h)).

(* _dbus_header_remove_unknown_fields: after a deletion the same array reader goes on (it re-reads the
   array length from the data each time) *)
Fixpoint strip_loop (n : nat) (arr : reader) (h : hdr) : rr hdr :=
  match n with
  | O => inr R_FUEL
  | S n' =>
      let d := h_data h in
      do le <- hb_le d;;
      do t <- current_type le HSIG d arr;;
      if t =? T_INVALID then inl h
      else
        do sub <- recurse HSIG d arr;;
        do code <- read_code le d sub;;
        if DBUS_HEADER_FIELD_LAST <? code then
          do h1 <- reserve_header_padding h;;
          do d' <- reader_delete le (h_data h1) arr root_reader;;
          do h2 <- correct_header_padding (mkH d' (h_padding h1) (h_cache h1));;
          strip_loop n' arr (mkH (h_data h2) (h_padding h2) (cache_all CUnknown))
        else
          do am <- rnext le HSIG d (hfuel d) arr;;
          strip_loop n' (fst am) h
  end.

Definition hb_strip (h : hdr) : rr hdr :=
  do arr <- recurse HSIG (h_data h) root_reader;;
  strip_loop (S (length (h_data h))) arr h.

(* one abstract edit, on the bytes *)
Definition hb_apply (dbg : bool) (e : edit) (h : hdr) : rr hdr :=
  match e with
  | ESet c v => hb_set_field c v h
  | EDel c => hb_delete dbg c h
  | EStrip => hb_strip h
  end.

Fixpoint hb_run (dbg : bool) (es : list edit) (h : hdr) : rr hdr :=
  match es with
  | [] => inl h
  | e :: r => do h' <- hb_apply dbg e h;; hb_run dbg r h'
  end.

(* ---- a header as _dbus_header_load leaves it: every known field cached, the rest NONEXISTENT ----- *)
(* split a marshalled message into header (with padding) and body, by the fields-array length word *)
Definition hb_load (msg : bytes) : rr (hdr * bytes) :=
  do le <- hb_le msg;;
  do flen <- get_num le msg FIELDS_ARRAY_LENGTH_OFFSET 4;;
  let hlen := align_up (FIRST_FIELD_OFFSET + flen) 8 in
  if nlen msg <? hlen then inr R_FAULT
  else
    let d := firstn (N.to_nat hlen) msg in
    do c <- cache_revalidate d;;
    inl (mkH d (hlen - (FIRST_FIELD_OFFSET + flen)) c, skipn (N.to_nat hlen) msg).

(* a locally created header (_dbus_header_create / _dbus_header_reinit): cache invalidated *)
Definition hb_fresh (d : bytes) (padding : N) : hdr := mkH d padding (cache_all CUnknown).

(* _dbus_header_create with no initial field (dbus_message_new): the seven fixed values, flags 0, body length 0,
   serial 0, an empty fields array; 16 bytes, no padding; _dbus_header_reinit left the cache invalidated.
   (With initial fields -- dbus_message_new_method_call etc. -- write_basic_field is called for PATH, DESTINATION,
   INTERFACE, MEMBER, ERROR_NAME in that order: the appends of [append_field].) *)
Definition hb_create (le : bool) (mtype : N) : hdr :=
  hb_fresh ([if le then DBUS_LITTLE_ENDIAN else DBUS_BIG_ENDIAN; mtype; 0; DBUS_MAJOR_PROTOCOL_VERSION] ++
            bytes_of le 4 0 ++ bytes_of le 4 0 ++ bytes_of le 4 0) 0.

(* _dbus_header_toggle_flag *)
Definition hb_toggle_flag (flag : N) (value : bool) (h : hdr) : rr hdr :=
  do fl <- get_byte (h_data h) 2;;
  do d' <- str_overwrite 2 [if value then N.lor fl flag else N.ldiff fl flag] (h_data h);;
  inl (mkH d' (h_padding h) (h_cache h)).
