(* Model of _dbus_validate_signature_with_reason (dbus-marshal-validate.c):
   the single-pass automaton with struct/array/dict depths, the element-count
   stack and [last]; returns the DBusValidity code (generated constants). *)
From DV Require Export Lib.Base Gen.Tables.
From Coq Require Import ZArith.
Local Open Scope N_scope.

Definition type_valid := tbl tbl_type_valid.
Definition type_basic := tbl tbl_type_basic.
Definition type_fixed := tbl tbl_type_fixed.
Definition type_container := tbl tbl_type_container.
Definition type_alignment (c : N) : N := nth (N.to_nat c) tbl_type_alignment 0.

Record sigst := mkSigSt {
  struct_depth : N; array_depth : N; dict_depth : N; last_c : N;
  stack : list N;           (* element_count_stack, head = last list element *)
  brackets : list N         (* opened_brackets[], head = innermost open bracket *)
}.

Definition pop (st : list N) : N * list N :=
  match st with [] => (0, []) | x :: r => (x, r) end.

Definition is_switch_basic (c : N) : bool :=
  (* the first case group of the switch: basic types and VARIANT *)
  (type_basic c) || (c =? DBUS_TYPE_VARIANT).

(* one iteration of the while loop; [next] is *(p+1) (0 = the NUL after the end) *)
Definition sig_step (st : sigst) (c next : N) : sigst + Z :=
  let maxd := DBUS_MAXIMUM_TYPE_RECURSION_DEPTH in
  (* the switch *)
  let r1 : sigst + Z :=
    if is_switch_basic c then inl st
    else if c =? DBUS_TYPE_ARRAY then
      if maxd <? array_depth st + 1 then inr V_INVALID_EXCEEDED_MAXIMUM_ARRAY_RECURSION
      else inl (mkSigSt (struct_depth st) (array_depth st + 1) (dict_depth st) (last_c st) (stack st) (brackets st))
    else if c =? DBUS_STRUCT_BEGIN_CHAR then
      if maxd <? struct_depth st + 1 then inr V_INVALID_EXCEEDED_MAXIMUM_STRUCT_RECURSION
      else inl (mkSigSt (struct_depth st + 1) (array_depth st) (dict_depth st) (last_c st) (0 :: stack st) (DBUS_STRUCT_BEGIN_CHAR :: brackets st))
    else if c =? DBUS_STRUCT_END_CHAR then
      if struct_depth st =? 0 then inr V_INVALID_STRUCT_ENDED_BUT_NOT_STARTED
      else if last_c st =? DBUS_STRUCT_BEGIN_CHAR then inr V_INVALID_STRUCT_HAS_NO_FIELDS
      else if negb (fst (pop (brackets st)) =? DBUS_STRUCT_BEGIN_CHAR) then inr V_INVALID_STRUCT_ENDED_BUT_NOT_STARTED
      else inl (mkSigSt (struct_depth st - 1) (array_depth st) (dict_depth st) (last_c st) (snd (pop (stack st))) (snd (pop (brackets st))))
    else if c =? DBUS_DICT_ENTRY_BEGIN_CHAR then
      if negb (last_c st =? DBUS_TYPE_ARRAY) then inr V_INVALID_DICT_ENTRY_NOT_INSIDE_ARRAY
      else if maxd <? dict_depth st + 1 then inr V_INVALID_EXCEEDED_MAXIMUM_DICT_ENTRY_RECURSION
      else inl (mkSigSt (struct_depth st) (array_depth st) (dict_depth st + 1) (last_c st) (0 :: stack st) (DBUS_DICT_ENTRY_BEGIN_CHAR :: brackets st))
    else if c =? DBUS_DICT_ENTRY_END_CHAR then
      if dict_depth st =? 0 then inr V_INVALID_DICT_ENTRY_ENDED_BUT_NOT_STARTED
      else if negb (fst (pop (brackets st)) =? DBUS_DICT_ENTRY_BEGIN_CHAR) then inr V_INVALID_DICT_ENTRY_ENDED_BUT_NOT_STARTED
      else
        let '(cnt, stk) := pop (stack st) in
        if cnt =? 2 then inl (mkSigSt (struct_depth st) (array_depth st) (dict_depth st - 1) (last_c st) stk (snd (pop (brackets st))))
        else if cnt =? 0 then inr V_INVALID_DICT_ENTRY_HAS_NO_FIELDS
        else if cnt =? 1 then inr V_INVALID_DICT_ENTRY_HAS_ONLY_ONE_FIELD
        else inr V_INVALID_DICT_ENTRY_HAS_TOO_MANY_FIELDS
    else inr V_INVALID_UNKNOWN_TYPECODE in
  match r1 with
  | inr e => inr e
  | inl st1 =>
      (* element counting *)
      let st2 :=
        if negb (c =? DBUS_TYPE_ARRAY) && negb (c =? DBUS_DICT_ENTRY_BEGIN_CHAR) && negb (c =? DBUS_STRUCT_BEGIN_CHAR)
        then let '(cnt, stk) := pop (stack st1) in
             mkSigSt (struct_depth st1) (array_depth st1) (dict_depth st1) (last_c st1) ((cnt + 1) :: stk) (brackets st1)
        else st1 in
      (* array bookkeeping *)
      let r3 : sigst + Z :=
        if 0 <? array_depth st2 then
          if c =? DBUS_TYPE_ARRAY then
            if (next =? DBUS_STRUCT_END_CHAR) || (next =? DBUS_DICT_ENTRY_END_CHAR)
            then inr V_INVALID_MISSING_ARRAY_ELEMENT_TYPE else inl st2
          else inl (mkSigSt (struct_depth st2) 0 (dict_depth st2) (last_c st2) (stack st2) (brackets st2))
        else inl st2 in
      match r3 with
      | inr e => inr e
      | inl st3 =>
          if (last_c st3 =? DBUS_DICT_ENTRY_BEGIN_CHAR) && negb (type_valid c && type_basic c)
          then inr V_INVALID_DICT_KEY_MUST_BE_BASIC_TYPE
          else inl (mkSigSt (struct_depth st3) (array_depth st3) (dict_depth st3) c (stack st3) (brackets st3))
      end
  end.

Fixpoint sig_loop (s : bytes) (st : sigst) : Z :=
  match s with
  | [] =>
      if 0 <? array_depth st then V_INVALID_MISSING_ARRAY_ELEMENT_TYPE
      else if 0 <? struct_depth st then V_INVALID_STRUCT_STARTED_BUT_NOT_ENDED
      else if 0 <? dict_depth st then V_INVALID_DICT_ENTRY_STARTED_BUT_NOT_ENDED
      else V_VALID
  | c :: rest =>
      match sig_step st c (match rest with [] => 0 | n :: _ => n end) with
      | inr e => e
      | inl st' => sig_loop rest st'
      end
  end.

Definition sig_init : sigst := mkSigSt 0 0 0 0 [0] [].

Definition validate_signature_reason (s : bytes) : Z :=
  if DBUS_MAXIMUM_SIGNATURE_LENGTH <? nlen s then V_INVALID_SIGNATURE_TOO_LONG
  else sig_loop s sig_init.

Definition validate_signature (s : bytes) : bool := Z.eqb (validate_signature_reason s) V_VALID.
