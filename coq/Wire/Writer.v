(* Model of the libdbus message WRITER: the DBusTypeWriter state machine of
   dbus-marshal-recursive.c (_dbus_type_writer_init*, writer_recurse_init_and_check,
   write_or_verify_typecode, writer_recurse_struct_or_dict_entry, writer_recurse_array,
   writer_recurse_variant, _dbus_type_writer_recurse, _dbus_type_writer_unrecurse,
   _dbus_type_writer_write_basic), the value marshaller _dbus_marshal_write_basic of
   dbus-marshal-basic.c, and the glue of dbus-message.c (dbus_message_iter_append_basic,
   dbus_message_iter_open_container, dbus_message_iter_close_container,
   _dbus_message_iter_open_signature, _dbus_message_iter_close_signature), plus
   dbus_message_iter_append_fixed_array (_dbus_type_writer_write_fixed_multi,
   _dbus_marshal_write_fixed_multi, marshal_fixed_multi, _dbus_swap_array),
   dbus_message_iter_abandon_container(_if_open) (_dbus_message_iter_abandon_signature) and the
   call sequence of dbus_message_append_args_valist ([ops_of_args]).

   Every definition names the C function it follows.  [None] is a failed
   assertion / _dbus_return_val_if_fail / read outside a string (API misuse);
   out-of-memory returns are not modelled (every allocation succeeds) and the
   writer's [enabled] flag is always TRUE (it is only cleared by
   _dbus_type_writer_write_reader_partial, never through the message API).
   No proofs here: see Proofs/WriterProofs.v. *)
From DV Require Export Spec.Codec.
From DV Require Import Gen.Tables Wire.Sig.
Local Open Scope N_scope.

(* ---- DBusString primitives ------------------------------------------------- *)
(* _dbus_string_insert_byte / _dbus_string_insert_bytes / _dbus_string_copy_len into [s] at [pos]
   (all assert pos <= length) *)
Definition insert_at (pos : N) (ins s : bytes) : option bytes :=
  if nlen s <? pos then None
  else Some (firstn (N.to_nat pos) s ++ ins ++ skipn (N.to_nat pos) s).

(* _dbus_string_get_byte: the byte at [pos]; a DBusString is NUL terminated, so pos = length reads 0;
   beyond that the assertion start <= len fails *)
Definition get_byte (s : bytes) (pos : N) : option N :=
  if pos <? nlen s then Some (nth (N.to_nat pos) s 0)
  else if pos =? nlen s then Some 0
  else None.

(* set_4_octets: overwrite in place, the range must exist *)
Definition overwrite_at (pos : N) (new s : bytes) : option bytes :=
  if nlen s <? pos + nlen new then None
  else Some (firstn (N.to_nat pos) s ++ new ++ skipn (N.to_nat (pos + nlen new)) s).

(* _dbus_string_equal_substring (a, 0, len a, b, b_start) *)
Definition equal_substring (a b : bytes) (b_start : N) : option bool :=
  if nlen b <? b_start then None
  else Some (bytes_eqb a (firstn (length a) (skipn (N.to_nat b_start) b))).

(* _DBUS_ALIGN_VALUE (this, boundary) for boundary a power of two *)
Definition align_value (p a : N) : N := ((p + a - 1) / a) * a.

(* ---- type codes -------------------------------------------------------------- *)
(* map_type_char_to_type / _dbus_first_type_in_signature: '(' -> STRUCT, '{' -> DICT_ENTRY; asserts not ')' '}' *)
Definition map_type_char_to_type (t : N) : option N :=
  if t =? DBUS_STRUCT_BEGIN_CHAR then Some DBUS_TYPE_STRUCT
  else if t =? DBUS_DICT_ENTRY_BEGIN_CHAR then Some DBUS_TYPE_DICT_ENTRY
  else if (t =? DBUS_STRUCT_END_CHAR) || (t =? DBUS_DICT_ENTRY_END_CHAR) then None
  else Some t.

Definition first_type_in_signature (s : bytes) (pos : N) : option N :=
  match get_byte s pos with
  | Some c => map_type_char_to_type c
  | None => None
  end.

(* _dbus_type_get_alignment through the generated table; the switch's default asserts *)
Definition type_get_alignment (typecode : N) : option N :=
  let a := type_alignment typecode in if a =? 0 then None else Some a.

(* element_type_get_alignment (contained_type, 0) *)
Definition element_type_get_alignment (contained : bytes) : option N :=
  match first_type_in_signature contained 0 with
  | Some t => type_get_alignment t
  | None => None
  end.

(* _dbus_type_signature_next: the two while(TRUE) loops; [depth] is the C depth minus one,
   the assertions on DBUS_TYPE_INVALID are the [] cases *)
Fixpoint skip_to_close (opn cls : N) (depth : nat) (s : bytes) : option bytes :=
  match s with
  | [] => None
  | c :: r =>
      if c =? opn then skip_to_close opn cls (S depth) r
      else if c =? cls then match depth with O => Some r | S d => skip_to_close opn cls d r end
      else skip_to_close opn cls depth r
  end.

Fixpoint skip_arrays (s : bytes) : bytes :=
  match s with
  | c :: r => if c =? DBUS_TYPE_ARRAY then skip_arrays r else s
  | [] => s
  end.

(* returns what follows the first single complete type *)
Definition signature_next (s : bytes) : option bytes :=
  match skip_arrays s with
  | [] => None          (* would walk over the terminating NUL *)
  | c :: r =>
      if (c =? DBUS_STRUCT_END_CHAR) || (c =? DBUS_DICT_ENTRY_END_CHAR) then None
      else if c =? DBUS_STRUCT_BEGIN_CHAR then skip_to_close DBUS_STRUCT_BEGIN_CHAR DBUS_STRUCT_END_CHAR 0 r
      else if c =? DBUS_DICT_ENTRY_BEGIN_CHAR then skip_to_close DBUS_DICT_ENTRY_BEGIN_CHAR DBUS_DICT_ENTRY_END_CHAR 0 r
      else Some r
  end.

(* find_len_of_complete_type (type_str, 0) *)
Definition find_len_of_complete_type (s : bytes) : option N :=
  match signature_next s with
  | Some r => Some (nlen s - nlen r)
  | None => None
  end.

(* ---- the writer ------------------------------------------------------------------ *)
(* writer->type_str: NULL, the iterator's temporary signature string (created by
   _dbus_message_iter_open_signature), or value_str itself (below a variant) *)
Inductive tsel := TsNone | TsSig | TsBody.

(* DBusTypeWriter (+ sig_refcount of the DBusMessageRealIter that embeds it).
   type_pos = -1 after _dbus_type_writer_remove_types is represented by 0 (it is
   never read while type_str is NULL). *)
Record writer := mkW {
  w_ct : N;            (* container_type: 0 = DBUS_TYPE_INVALID (top level), 'a', 'r', 'e', 'v' *)
  w_ts : tsel;         (* type_str *)
  w_tpos : N;          (* type_pos *)
  w_exp : bool;        (* type_pos_is_expectation *)
  w_vpos : N;          (* value_pos *)
  w_lenpos : N;        (* u.array.len_pos *)
  w_start : N;         (* u.array.start_pos *)
  w_etpos : N;         (* u.array.element_type_pos *)
  w_refs : N           (* sig_refcount *)
}.

(* the two strings the writers point into *)
Record strs := mkS { s_bodystr : bytes; s_sigstr : option bytes }.

Definition ts_get (m : strs) (sel : tsel) : option bytes :=
  match sel with TsNone => None | TsSig => s_sigstr m | TsBody => Some (s_bodystr m) end.
Definition ts_put (m : strs) (sel : tsel) (x : bytes) : strs :=
  match sel with TsNone => m | TsSig => mkS (s_bodystr m) (Some x) | TsBody => mkS x (s_sigstr m) end.
Definition has_ts (w : writer) : bool := match w_ts w with TsNone => false | _ => true end.

Definition set_tpos (w : writer) (x : N) : writer :=
  mkW (w_ct w) (w_ts w) x (w_exp w) (w_vpos w) (w_lenpos w) (w_start w) (w_etpos w) (w_refs w).
Definition set_vpos (w : writer) (x : N) : writer :=
  mkW (w_ct w) (w_ts w) (w_tpos w) (w_exp w) x (w_lenpos w) (w_start w) (w_etpos w) (w_refs w).
Definition set_refs (w : writer) (x : N) : writer :=
  mkW (w_ct w) (w_ts w) (w_tpos w) (w_exp w) (w_vpos w) (w_lenpos w) (w_start w) (w_etpos w) x.

(* insert zero padding into the body at [pos] up to the boundary [a]; returns the new body and position *)
Definition pad_body (body : bytes) (pos a : N) : option (bytes * N) :=
  let aligned := align_value pos a in
  match insert_at pos (zeros (aligned - pos)) body with
  | Some b => Some (b, aligned)
  | None => None
  end.

(* marshal_2_octets / marshal_4_octets / marshal_8_octets via _dbus_string_insert_N_aligned
   (align_insert_point_then_open_gap: NUL padding up to the boundary, then the octets);
   pos_after = insert_at + growth of the string *)
Definition marshal_octets (le : bool) (body : bytes) (pos : N) (size : N) (v : N) : option (bytes * N) :=
  let gap_pos := align_value pos size in
  let ins := zeros (gap_pos - pos) ++ bytes_of le (N.to_nat size) v in
  match insert_at pos ins body with
  | Some b => Some (b, pos + (nlen b - nlen body))
  | None => None
  end.

(* marshal_len_followed_by_bytes: MARSHAL_AS_STRING (4-byte aligned length) or
   MARSHAL_AS_SIGNATURE (one length byte, asserted <= 255), then the bytes and the NUL *)
Definition marshal_string (le : bool) (body : bytes) (pos : N) (s : bytes) : option (bytes * N) :=
  match marshal_octets le body pos 4 (nlen s) with
  | Some (b, p) =>
      match insert_at p (s ++ [0]) b with
      | Some b' => Some (b', p + (nlen s + 1))
      | None => None
      end
  | None => None
  end.
Definition marshal_signature (body : bytes) (pos : N) (s : bytes) : option (bytes * N) :=
  if DBUS_MAXIMUM_SIGNATURE_LENGTH <? nlen s then None
  else match insert_at pos [nlen s] body with
       | Some b =>
           match insert_at (pos + 1) (s ++ [0]) b with
           | Some b' => Some (b', pos + 1 + (nlen s + 1))
           | None => None
           end
       | None => None
       end.

(* _dbus_marshal_write_basic: the switch on the type code.  The file-descriptor table is not
   modelled: for 'h' the number is the index the library stores. *)
Definition marshal_write_basic (le : bool) (body : bytes) (pos : N) (v : val) : option (bytes * N) :=
  match v with
  | VNum c n =>
      if c =? DBUS_TYPE_BYTE then
        match insert_at pos [n mod 256] body with Some b => Some (b, pos + 1) | None => None end
      else if (c =? DBUS_TYPE_INT16) || (c =? DBUS_TYPE_UINT16) then marshal_octets le body pos 2 n
      else if c =? DBUS_TYPE_BOOLEAN then marshal_octets le body pos 4 (if n =? 0 then 0 else 1)
      else if (c =? DBUS_TYPE_INT32) || (c =? DBUS_TYPE_UINT32) || (c =? DBUS_TYPE_UNIX_FD) then marshal_octets le body pos 4 n
      else if (c =? DBUS_TYPE_INT64) || (c =? DBUS_TYPE_UINT64) || (c =? DBUS_TYPE_DOUBLE) then marshal_octets le body pos 8 n
      else None
  | VStr c s =>
      if (c =? DBUS_TYPE_STRING) || (c =? DBUS_TYPE_OBJECT_PATH) then marshal_string le body pos s
      else if c =? DBUS_TYPE_SIGNATURE then marshal_signature body pos s
      else None
  | _ => None
  end.

(* ---- blocks of fixed-size values (dbus_message_iter_append_fixed_array) ------------------- *)
(* DBUS_COMPILER_BYTE_ORDER of the build the correspondence run uses (x86-64).  The caller's array is
   in this order; everything below takes the host order as a parameter and the result does not depend
   on it (Proofs/WriterProofs.v: marshal_fixed_multi_end). *)
Definition compiler_le : bool := true.

(* _dbus_swap_array: n elements of [size] bytes each, starting at the head of [d], are reversed in place *)
Fixpoint swap_elems (n : nat) (size : nat) (d : bytes) : bytes :=
  match n with
  | O => d
  | S n' => rev (firstn size d) ++ swap_elems n' size (skipn size d)
  end.

(* marshal_fixed_multi: alignment padding once (_dbus_string_insert_alignment, even for n = 0), the caller's
   n * size bytes copied as they are (host order), then swap_array over the copied region when the message is
   not in host order *)
Definition marshal_fixed_multi (host le : bool) (body : bytes) (pos : N) (size : N) (ns : list N) : option (bytes * N) :=
  let array_start := align_value pos size in
  match insert_at pos (zeros (array_start - pos)) body with
  | None => None
  | Some b1 =>
      let native := flat_map (fun n => bytes_of host (N.to_nat size) n) ns in
      match insert_at array_start native b1 with
      | None => None
      | Some b2 =>
          let b3 := if Bool.eqb le host then b2
                    else firstn (N.to_nat array_start) b2 ++
                         swap_elems (length ns) (N.to_nat size) (skipn (N.to_nat array_start) b2) in
          Some (b3, array_start + nlen ns * size)
      end
  end.

(* marshal_1_octets_array: the bytes, no alignment, no swapping *)
Definition marshal_1_octets_array (body : bytes) (pos : N) (ns : list N) : option (bytes * N) :=
  match insert_at pos (map (fun n => n mod 256) ns) body with
  | Some b => Some (b, pos + nlen ns)
  | None => None
  end.

(* _dbus_marshal_write_fixed_multi: the switch on the element type *)
Definition marshal_write_fixed_multi (host le : bool) (body : bytes) (pos : N) (c : N) (ns : list N) : option (bytes * N) :=
  if c =? DBUS_TYPE_BYTE then marshal_1_octets_array body pos ns
  else if (c =? DBUS_TYPE_INT16) || (c =? DBUS_TYPE_UINT16) then marshal_fixed_multi host le body pos 2 ns
  else if (c =? DBUS_TYPE_BOOLEAN) || (c =? DBUS_TYPE_INT32) || (c =? DBUS_TYPE_UINT32) || (c =? DBUS_TYPE_UNIX_FD)
       then marshal_fixed_multi host le body pos 4 ns
  else if (c =? DBUS_TYPE_INT64) || (c =? DBUS_TYPE_UINT64) || (c =? DBUS_TYPE_DOUBLE) then marshal_fixed_multi host le body pos 8 ns
  else None.

(* the caller's C array: every element is a number of the array's element type *)
Fixpoint nums_of (c : N) (elems : list val) : option (list N) :=
  match elems with
  | [] => Some []
  | VNum c' n :: r => if c' =? c then match nums_of c r with Some ns => Some (n :: ns) | None => None end else None
  | _ :: _ => None
  end.

Definition typecode_of_basic (v : val) : option N :=
  match v with VNum c _ => Some c | VStr c _ => Some c | _ => None end.

(* write_or_verify_typecode: inside an array or variant (type_pos_is_expectation) the next expected
   type code must be the one written (and type_pos moves on unless directly inside an array);
   otherwise the code is inserted into the type string *)
Definition write_or_verify_typecode (m : strs) (w : writer) (typecode : N) : option (strs * writer) :=
  match w_ts w with
  | TsNone => Some (m, w)
  | sel =>
      match ts_get m sel with
      | None => None
      | Some ts =>
          if w_exp w then
            match get_byte ts (w_tpos w) with
            | Some expected =>
                if expected =? typecode
                then Some (m, if w_ct w =? DBUS_TYPE_ARRAY then w else set_tpos w (w_tpos w + 1))
                else None          (* "bad type inserted somewhere inside an array or variant" *)
            | None => None
            end
          else
            match insert_at (w_tpos w) [typecode] ts with
            | Some ts' => Some (ts_put m sel ts', set_tpos w (w_tpos w + 1))
            | None => None
            end
      end
  end.

(* _dbus_type_writer_write_basic: value first, then the type code *)
Definition type_writer_write_basic (le : bool) (m : strs) (w : writer) (v : val) : option (strs * writer) :=
  match typecode_of_basic v with
  | None => None
  | Some tc =>
      match marshal_write_basic le (s_bodystr m) (w_vpos w) v with
      | Some (b, p) => write_or_verify_typecode (mkS b (s_sigstr m)) (set_vpos w p) tc
      | None => None
      end
  end.

(* _dbus_type_writer_write_fixed_multi: the assertions (directly inside an array, fixed element type,
   expectation mode), the element type code verified FIRST, then the block *)
Definition type_writer_write_fixed_multi (host le : bool) (m : strs) (w : writer) (c : N) (ns : list N) : option (strs * writer) :=
  if negb ((w_ct w =? DBUS_TYPE_ARRAY) && type_fixed c && w_exp w) then None
  else match write_or_verify_typecode m w c with
       | None => None
       | Some (m1, w1) =>
           match marshal_write_fixed_multi host le (s_bodystr m1) (w_vpos w1) c ns with
           | Some (b, p) => Some (mkS b (s_sigstr m1), set_vpos w1 p)
           | None => None
           end
       end.

(* writer_recurse_init_and_check: sub = *real (copied by the caller), re-initialised by
   _dbus_type_writer_init from the parent; the DBUS_DISABLE_CHECKS block compares the expected type *)
Definition writer_recurse_init_and_check (m : strs) (w : writer) (container_type : N) : option writer :=
  let sub := mkW container_type (w_ts w) (w_tpos w)
                 (w_exp w || (container_type =? DBUS_TYPE_ARRAY) || (container_type =? DBUS_TYPE_VARIANT))
                 (w_vpos w) (w_lenpos w) (w_start w) (w_etpos w) (w_refs w) in
  if w_exp w && has_ts w then
    match ts_get m (w_ts w) with
    | None => None
    | Some ts =>
        match first_type_in_signature ts (w_tpos w) with
        | Some expected => if expected =? container_type then Some sub else None
        | None => None
        end
    end
  else Some sub.

(* writer_recurse_struct_or_dict_entry *)
Definition writer_recurse_struct_or_dict_entry (m : strs) (begin_char : N) (sub : writer) : option (strs * writer) :=
  match write_or_verify_typecode m sub begin_char with
  | Some (m1, sub1) =>
      match pad_body (s_bodystr m1) (w_vpos sub1) 8 with
      | Some (b, p) => Some (mkS b (s_sigstr m1), set_vpos sub1 p)
      | None => None
      end
  | None => None
  end.

(* writer_recurse_array (is_array_append = FALSE); returns the strings, the parent and the sub-writer *)
Definition writer_recurse_array (le : bool) (m : strs) (w : writer) (contained : bytes) (sub : writer)
  : option (strs * writer * writer) :=
  (* the child array must have the parent array's element type *)
  let chk :=
    if (w_ct w =? DBUS_TYPE_ARRAY) && has_ts w then
      match ts_get m (w_ts w) with
      | Some ts => equal_substring contained ts (w_etpos w + 1)
      | None => None
      end
    else Some true in
  match chk with
  | Some true =>
      (* sub->type_pos += 1; sub->u.array.element_type_pos = sub->type_pos *)
      let sub1 := if has_ts w
                  then mkW (w_ct sub) (w_ts sub) (w_tpos sub + 1) (w_exp sub) (w_vpos sub) (w_lenpos sub) (w_start sub) (w_tpos sub + 1) (w_refs sub)
                  else sub in
      (* outermost array: write 'a' and the element signature into the type string *)
      let m1o :=
        if w_exp w then Some m
        else match ts_get m (w_ts w) with
             | None => None
             | Some ts =>
                 match insert_at (w_tpos w) [DBUS_TYPE_ARRAY] ts with
                 | None => None
                 | Some ts1 =>
                     let ma := ts_put m (w_ts w) ts1 in
                     match ts_get ma (w_ts sub1) with
                     | None => None
                     | Some ts2 =>
                         match insert_at (w_etpos sub1) contained ts2 with
                         | Some ts3 => Some (ts_put ma (w_ts sub1) ts3)
                         | None => None
                         end
                     end
                 end
             end in
      match m1o with
      | None => None
      | Some m1 =>
          let w1 := if has_ts w && negb (w_ct w =? DBUS_TYPE_ARRAY) then set_tpos w (w_tpos w + (1 + nlen contained)) else w in
          (* the length placeholder *)
          let len_pos := align_value (w_vpos sub1) 4 in
          match marshal_octets le (s_bodystr m1) (w_vpos sub1) 4 0 with
          | None => None
          | Some (b2, p2) =>
              if negb (len_pos + 4 =? p2) then None else
              (* padding to the element alignment, written even for empty arrays *)
              match element_type_get_alignment contained with
              | None => None
              | Some alignment =>
                  match pad_body b2 p2 alignment with
                  | None => None
                  | Some (b3, p3) =>
                      Some (mkS b3 (s_sigstr m1), w1,
                            mkW (w_ct sub1) (w_ts sub1) (w_tpos sub1) (w_exp sub1) p3 len_pos p3 (w_etpos sub1) (w_refs sub1))
                  end
              end
          end
      end
  | _ => None          (* "incompatible type for child array" *)
  end.

(* writer_recurse_variant; returns the strings, the parent and the sub-writer *)
Definition writer_recurse_variant (m : strs) (w : writer) (contained : bytes) (sub : writer)
  : option (strs * writer * writer) :=
  match write_or_verify_typecode m w DBUS_TYPE_VARIANT with
  | None => None
  | Some (m1, w1) =>
      let p0 := w_vpos sub in
      match insert_at p0 [nlen contained mod 256] (s_bodystr m1) with     (* _dbus_string_insert_byte takes an unsigned char *)
      | None => None
      | Some b1 =>
          (* sub->type_str = sub->value_str; sub->type_pos = sub->value_pos *)
          match insert_at (p0 + 1) contained b1 with
          | None => None
          | Some b2 =>
              match insert_at (p0 + 1 + nlen contained) [0] b2 with
              | None => None
              | Some b3 =>
                  match element_type_get_alignment contained with
                  | None => None
                  | Some alignment =>
                      match pad_body b3 (p0 + 1 + nlen contained + 1) alignment with
                      | None => None
                      | Some (b4, p4) =>
                          Some (mkS b4 (s_sigstr m1), w1,
                                mkW (w_ct sub) TsBody (p0 + 1) (w_exp sub) p4 (w_lenpos sub) (w_start sub) (w_etpos sub) (w_refs sub))
                      end
                  end
              end
          end
      end
  end.

Inductive ckind := KArray | KStruct | KDict | KVariant.
Definition ctype_of (k : ckind) : N :=
  match k with KArray => DBUS_TYPE_ARRAY | KStruct => DBUS_TYPE_STRUCT | KDict => DBUS_TYPE_DICT_ENTRY | KVariant => DBUS_TYPE_VARIANT end.

(* _dbus_type_writer_recurse -> _dbus_type_writer_recurse_contained_len: the contained type is the
   first single complete type of the given signature (NULL, here [], for struct / dict entry) *)
Definition type_writer_recurse (le : bool) (m : strs) (w : writer) (k : ckind) (contained_sig : bytes)
  : option (strs * writer * writer) :=
  match k with
  | KStruct | KDict =>
      match contained_sig with
      | _ :: _ => None       (* dbus_message_iter_open_container: contained_signature must be NULL *)
      | [] =>
          match writer_recurse_init_and_check m w (ctype_of k) with
          | None => None
          | Some sub =>
              match writer_recurse_struct_or_dict_entry m
                      (match k with KStruct => DBUS_STRUCT_BEGIN_CHAR | _ => DBUS_DICT_ENTRY_BEGIN_CHAR end) sub with
              | Some (m1, sub1) => Some (m1, w, sub1)
              | None => None
              end
          end
      end
  | KArray | KVariant =>
      match find_len_of_complete_type contained_sig with
      | None => None
      | Some clen =>
          let contained := firstn (N.to_nat clen) contained_sig in
          match writer_recurse_init_and_check m w (ctype_of k) with
          | None => None
          | Some sub =>
              match k with
              | KArray => writer_recurse_array le m w contained sub
              | _ => writer_recurse_variant m w contained sub
              end
          end
      end
  end.

(* _dbus_type_writer_unrecurse: close the struct / dict entry in the type string, back-patch the
   array length, then bring the parent's positions up to date *)
Definition type_writer_unrecurse (le : bool) (m : strs) (w sub : writer) : option (strs * writer) :=
  let r :=
    if w_ct sub =? DBUS_TYPE_STRUCT then write_or_verify_typecode m sub DBUS_STRUCT_END_CHAR
    else if w_ct sub =? DBUS_TYPE_DICT_ENTRY then write_or_verify_typecode m sub DBUS_DICT_ENTRY_END_CHAR
    else if w_ct sub =? DBUS_TYPE_ARRAY then
      (* writer_get_array_len; _dbus_marshal_set_uint32 *)
      if w_vpos sub <? w_start sub then None else
      match overwrite_at (w_lenpos sub) (bytes_of le 4 (w_vpos sub - w_start sub)) (s_bodystr m) with
      | Some b => Some (mkS b (s_sigstr m), sub)
      | None => None
      end
    else Some (m, sub) in
  match r with
  | None => None
  | Some (m1, sub1) =>
      let w1 :=
        if has_ts w &&
           ((w_ct sub1 =? DBUS_TYPE_STRUCT) || (w_ct sub1 =? DBUS_TYPE_DICT_ENTRY)) &&
           ((w_ct w =? DBUS_TYPE_STRUCT) || (w_ct w =? DBUS_TYPE_DICT_ENTRY) || (w_ct w =? 0))
        then set_tpos w (w_tpos sub1) else w in
      Some (m1, set_vpos w1 (w_vpos sub1))
  end.

(* ---- the message iterator glue --------------------------------------------------- *)
Record wstate := mkWS {
  ws_le : bool;             (* byte order of the message *)
  ws_strs : strs;           (* message->body and the iterators' temporary signature string *)
  ws_sigfield : bytes;      (* value of the SIGNATURE header field ([] when absent) *)
  ws_iters : list writer    (* open iterators, innermost first; the last one is the dbus_message_iter_init_append one *)
}.

(* _dbus_message_iter_open_signature: an iterator without type string gets a fresh copy of the
   SIGNATURE field and points at its end (_dbus_type_writer_add_types); otherwise one more reference *)
Definition iter_open_signature (sigfield : bytes) (m : strs) (w : writer) : option (strs * writer) :=
  match w_ts w with
  | TsNone =>
      match s_sigstr m with
      | Some _ => None       (* cannot happen: the only iterator without type string is the idle top-level one *)
      | None => Some (mkS (s_bodystr m) (Some sigfield),
                      mkW (w_ct w) TsSig (nlen sigfield) (w_exp w) (w_vpos w) (w_lenpos w) (w_start w) (w_etpos w) 1)
      end
  | _ => if w_refs w =? 0 then None else Some (m, set_refs w (w_refs w + 1))
  end.

(* _dbus_message_iter_close_signature: drop one reference; the last one stores the string into the
   SIGNATURE header field (_dbus_header_set_field_basic; marshalling asserts length <= 255),
   frees it and removes the types from the writer *)
Definition iter_close_signature (sigfield : bytes) (m : strs) (w : writer) : option (bytes * strs * writer) :=
  if negb (has_ts w) || (w_refs w =? 0) then None
  else if 0 <? w_refs w - 1 then Some (sigfield, m, set_refs w (w_refs w - 1))
  else match w_ts w, s_sigstr m with
       | TsSig, Some s =>
           if DBUS_MAXIMUM_SIGNATURE_LENGTH <? nlen s then None
           else Some (s, mkS (s_bodystr m) None,
                      mkW (w_ct w) TsNone 0 (w_exp w) (w_vpos w) (w_lenpos w) (w_start w) (w_etpos w) 0)
       | _, _ => None
       end.

(* _dbus_message_iter_abandon_signature: drop one reference; the last one frees the string WITHOUT storing it
   and removes the types from the writer *)
Definition iter_abandon_signature (m : strs) (w : writer) : option (strs * writer) :=
  if negb (has_ts w) || (w_refs w =? 0) then None
  else if 0 <? w_refs w - 1 then Some (m, set_refs w (w_refs w - 1))
  else match w_ts w, s_sigstr m with
       | TsSig, Some _ =>
           Some (mkS (s_bodystr m) None, mkW (w_ct w) TsNone 0 (w_exp w) (w_vpos w) (w_lenpos w) (w_start w) (w_etpos w) 0)
       | _, _ => None
       end.

(* dbus_message_iter_append_fixed_array: the _dbus_return_val_if_fail checks that concern the writer (fixed element
   type other than UNIX_FD, the iterator is an array's, at most DBUS_MAXIMUM_ARRAY_LENGTH / alignment elements,
   booleans are 0 or 1 -- the block marshaller does not normalise them), then _dbus_type_writer_write_fixed_multi.
   No open/close_signature around it. *)
Definition iter_append_fixed_array (host le : bool) (m : strs) (w : writer) (c : N) (elems : list val) : option (strs * writer) :=
  if negb (type_fixed c && negb (c =? DBUS_TYPE_UNIX_FD)) then None
  else if negb (w_ct w =? DBUS_TYPE_ARRAY) then None
  else match nums_of c elems, type_get_alignment c with
       | Some ns, Some alignment =>
           if DBUS_MAXIMUM_ARRAY_LENGTH / alignment <? nlen ns then None
           else if (c =? DBUS_TYPE_BOOLEAN) && negb (forallb (fun n => n <=? 1) ns) then None
           else type_writer_write_fixed_multi host le m w c ns
       | _, _ => None
       end.

Inductive wop :=
| WBasic (v : val)                         (* dbus_message_iter_append_basic *)
| WOpen (k : ckind) (contained_sig : bytes)  (* dbus_message_iter_open_container *)
| WClose                                   (* dbus_message_iter_close_container *)
| WFixedMulti (c : N) (elems : list val)   (* dbus_message_iter_append_fixed_array: all elements in ONE call *)
| WAbandon                                 (* dbus_message_iter_abandon_container *)
| WAbandonIfOpen.                          (* dbus_message_iter_abandon_container_if_open on the innermost level *)

Definition writer_step (st : wstate) (op : wop) : option wstate :=
  let le := ws_le st in
  match op, ws_iters st with
  | WBasic v, real :: rest =>
      (* dbus_message_iter_append_basic *)
      match iter_open_signature (ws_sigfield st) (ws_strs st) real with
      | None => None
      | Some (m1, r1) =>
          match type_writer_write_basic le m1 r1 v with
          | None => None
          | Some (m2, r2) =>
              match iter_close_signature (ws_sigfield st) m2 r2 with
              | None => None
              | Some (sf, m3, r3) => Some (mkWS le m3 sf (r3 :: rest))
              end
          end
      end
  | WOpen k contained_sig, real :: rest =>
      (* dbus_message_iter_open_container: *real_sub = *real, then recurse *)
      match iter_open_signature (ws_sigfield st) (ws_strs st) real with
      | None => None
      | Some (m1, r1) =>
          match type_writer_recurse le m1 r1 k contained_sig with
          | None => None
          | Some (m2, r2, sub) => Some (mkWS le m2 (ws_sigfield st) (sub :: r2 :: rest))
          end
      end
  | WClose, sub :: real :: rest =>
      (* dbus_message_iter_close_container *)
      match type_writer_unrecurse le (ws_strs st) real sub with
      | None => None
      | Some (m1, r1) =>
          match iter_close_signature (ws_sigfield st) m1 r1 with
          | None => None
          | Some (sf, m2, r2) => Some (mkWS le m2 sf (r2 :: rest))
          end
      end
  | WFixedMulti c elems, real :: rest =>
      (* dbus_message_iter_append_fixed_array *)
      match iter_append_fixed_array compiler_le le (ws_strs st) real c elems with
      | Some (m1, r1) => Some (mkWS le m1 (ws_sigfield st) (r1 :: rest))
      | None => None
      end
  | WAbandon, sub :: real :: rest =>
      (* dbus_message_iter_abandon_container: the signature reference is dropped and the sub-iterator zeroed.
         NOTHING is unrecursed: the bytes written for the container stay in the body, an array's length word stays
         0, the parent's value_pos is not brought up to date ("the message is hosed") *)
      match iter_abandon_signature (ws_strs st) real with
      | Some (m1, r1) => Some (mkWS le m1 (ws_sigfield st) (r1 :: rest))
      | None => None
      end
  | WAbandonIfOpen, sub :: real :: rest =>
      match iter_abandon_signature (ws_strs st) real with
      | Some (m1, r1) => Some (mkWS le m1 (ws_sigfield st) (r1 :: rest))
      | None => None
      end
  | WAbandonIfOpen, [_] => Some st      (* the sub-iterator is zeroed (never opened / already closed): returns at once *)
  | _, _ => None           (* closing / abandoning with nothing open, no iterator *)
  end.

Fixpoint run_ops (ops : list wop) (st : wstate) : option wstate :=
  match ops with
  | [] => Some st
  | op :: r => match writer_step st op with Some st' => run_ops r st' | None => None end
  end.

(* dbus_message_iter_init_append on a message whose body is [body] with SIGNATURE field [sg]:
   _dbus_type_writer_init_types_delayed (type_str NULL, value_pos = length of the body) *)
Definition winit (le : bool) (body sg : bytes) : wstate :=
  mkWS le (mkS body None) sg [mkW 0 TsNone 0 false (nlen body) 0 0 0 0].

(* the result is only meaningful once every container has been closed *)
Definition wresult (st : wstate) : option (bytes * bytes) :=
  match ws_iters st with
  | [_] => Some (s_bodystr (ws_strs st), ws_sigfield st)
  | _ => None
  end.

Definition run_writer_from (le : bool) (body sg : bytes) (ops : list wop) : option (bytes * bytes) :=
  match run_ops ops (winit le body sg) with
  | Some st => wresult st
  | None => None
  end.

(* a fresh message *)
Definition run_writer (le : bool) (ops : list wop) : option (bytes * bytes) := run_writer_from le [] [] ops.

(* ---- the call sequence of a well-typed program ------------------------------------ *)
Fixpoint ops_of_val (v : val) : list wop :=
  match v with
  | VNum _ _ | VStr _ _ => [WBasic v]
  | VArr et vs => WOpen KArray (print_ty et) :: flat_map ops_of_val vs ++ [WClose]
  | VStruct fs => WOpen KStruct [] :: flat_map ops_of_val fs ++ [WClose]
  | VDictE k x => WOpen KDict [] :: ops_of_val k ++ ops_of_val x ++ [WClose]
  | VVar t x => WOpen KVariant (print_ty t) :: ops_of_val x ++ [WClose]
  end.

Definition ops_of_vals (vs : list val) : list wop := flat_map ops_of_val vs.

(* ---- dbus_message_append_args_valist ------------------------------------------------------- *)
(* one (type, value...) group of the varargs list: a basic type with its value, or DBUS_TYPE_ARRAY with the
   element type, the C array and its length *)
Inductive arg :=
| ABasic (v : val)
| AArray (c : N) (elems : list val).

Definition is_stringlike (c : N) : bool := (c =? DBUS_TYPE_STRING) || (c =? DBUS_TYPE_OBJECT_PATH) || (c =? DBUS_TYPE_SIGNATURE).

(* the calls the while loop makes on ONE append iterator; it stops at the first group it does not support
   (after abandoning the array it has already opened) *)
Fixpoint ops_of_args (args : list arg) : list wop :=
  match args with
  | [] => []
  | ABasic v :: r =>
      match typecode_of_basic v with
      | Some _ => WBasic v :: ops_of_args r
      | None => []                                   (* "type isn't supported yet": goto failed *)
      end
  | AArray c elems :: r =>
      if type_fixed c && negb (c =? DBUS_TYPE_UNIX_FD)
      then WOpen KArray [c] :: WFixedMulti c elems :: WClose :: ops_of_args r
      else if is_stringlike c
      then (WOpen KArray [c] :: map WBasic elems ++ [WClose]) ++ ops_of_args r
      else [WOpen KArray [c]; WAbandon]              (* "arrays of %s can't be appended": abandon, goto failed *)
  end.

Definition val_of_arg (a : arg) : val :=
  match a with ABasic v => v | AArray c elems => VArr (TBasic c) elems end.

(* several dbus_message_append_args calls in a row: each one makes its own dbus_message_iter_init_append *)
Fixpoint run_calls (le : bool) (body sg : bytes) (calls : list (list wop)) : option (bytes * bytes) :=
  match calls with
  | [] => Some (body, sg)
  | ops :: r => match run_writer_from le body sg ops with
                | Some (b, s) => run_calls le b s r
                | None => None
                end
  end.
